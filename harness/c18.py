# C18 - name/number trees (and, thinly, the attachments kept in one) behave as sorted maps.
# Proof: Props/Properties_C18.v over the model of NNTree.cc (Struct/NNTreeModel.v) and the sorted-map /
# PDF-validity specification (Struct/NNTreeSpec.v).
# Tie: QPDFNumberTreeObjectHelper / QPDFNameTreeObjectHelper driven in-process (harness/drv_nntree.cc) over
# histories of insert / remove / find / at-or-below / begin / last / end / ++ / -- / iterator insertAfter / iterator
# remove, with split thresholds 3..5 (and the default 32), from empty, flat and generator-made multi-level
# trees; after EVERY call the dictionaries of the tree are dumped and compared (a) structurally with the
# extracted model, (b) result and content with the extracted sorted map, (c) with the extracted validity
# checker (keys ascending, /Limits exact, no /Limits on the root, no empty non-root node, size bound).
import bisect, itertools, json, os, re, sys
import common
import c18_names

ASSUMPTIONS = [
    "values are integers (the tree code never looks into values beyond non-null)",
    "the driver keeps one current iterator: insert/find/begin/last/end replace it, remove-by-key resets it to end()",
    "starting trees are valid per ISO 32000 7.9.6/7.9.7 (the repair path NNTreeImpl::repair/validate on damaged trees is C08's subject and is not modelled)",
    "name-tree keys are compared through getUTF8Value(): modelled (Struct/NNKeys.v over C14's models of the QUtil conversions) and tied on all pairs of generated stored strings (namecmp); the text of a stored string that ISO 32000 gives no meaning (odd UTF-16 length, unpaired surrogate, FF FE mark, invalid UTF-8 after the mark, PDFDoc codes 0x7f/0x9f/0xad) is whatever the model says",
    "the order required of name keys is that of their texts, code point by code point (helper documentation: names are normalized for lookup); the byte-wise order of the stored strings (ISO 32000-2 7.9.6) differs and is recorded as finding C18-F5",
    "iterator insertAfter is only specified when the key belongs at that position (header: DANGER ...); other uses are compared model-vs-implementation only",
    "number keys are exercised within 63 bits (the OCaml runner's int); long long extremes are not",
    "attachments: checked through the qpdf CLI against the extracted Coq specification att_job (Struct/AttachSpec.v, sorted map key -> record id); record fields are compared by this harness; file specifications are those the CLI creates (/F and /UF equal)",
]

W_RE = re.compile(r"w\d+$")
ERR_RE = re.compile(r"err:(logic|qpdf|other)")


# ------------------------------------------------------------------ keys

class NumKeys:
    kind = "num"

    def __init__(self, rng, span):
        self.rng, self.span = rng, span

    def pool(self):
        return None

    def fresh(self):
        r = self.rng.random()
        if r < 0.02:
            return self.rng.choice([-(2 ** 62) + 1, 2 ** 62 - 1, -1, 0, 2 ** 31, -(2 ** 31) - 1])
        return self.rng.randint(-3, self.span)

    @staticmethod
    def sort_key(k):
        return k

    @staticmethod
    def op_text(k):
        return str(k)

    @staticmethod
    def model_text(k):
        return str(k)

    def stored_text(self, k):
        return str(k)


NAME_POOL = ["", "a", "aa", "ab", "aé", "b", "B", "Z", "z", "0", "10", "2", "file.txt", "file.txt.1", "é", "ÿ", "•", "€",
             "Ж", "中文", "｡", "\U00010000", "\U0001f600", "�", "~", " ", "a b", "a/b", "(x)", "¡", "Ł", "Ÿx"]


class NameKeys:
    kind = "name"

    def __init__(self, rng, span):
        self.rng, self.span = rng, span
        self.alpha = "abzé•中\U0001f600｡"

    def fresh(self):
        r = self.rng.random()
        if r < 0.25:
            return self.rng.choice(NAME_POOL)
        n = self.rng.randint(1, 2 if self.span < 40 else 4)
        return "".join(self.rng.choice(self.alpha) for _ in range(n))

    @staticmethod
    def sort_key(k):
        return k.encode("utf-8")

    @staticmethod
    def op_text(k):
        return "h" + k.encode("utf-8").hex()

    model_text = op_text

    def stored_text(self, k):
        # bytes as stored in a generator-made tree: PDFDoc where the text is Latin-1-clean ASCII/0xa1..0xff
        # (same code points in PDFDocEncoding, 0xad excluded), sometimes UTF-16BE with BOM anyway
        plain = all((32 <= ord(c) < 127) or (0xa1 <= ord(c) <= 0xff and ord(c) != 0xad) for c in k)
        if plain and self.rng.random() < 0.7:
            return "h" + k.encode("latin-1").hex()
        return "h" + (b"\xfe\xff" + k.encode("utf-16-be")).hex()


# ------------------------------------------------------------------ trees (python side: generation + classification)

def gen_shape(rng, t, levels, nleaf_max):
    """nested lists: leaf = int (number of pairs), inner = list of children"""
    if levels == 0:
        return rng.randint(1, nleaf_max)
    return [gen_shape(rng, t, levels - 1 if rng.random() < 0.85 else max(0, levels - 2), nleaf_max)
            for _ in range(rng.randint(1, t + (1 if rng.random() < 0.2 else 0)))]


def shape_count(sh):
    return sh if isinstance(sh, int) else sum(shape_count(c) for c in sh)


def shape_size_ok(sh, t):
    if isinstance(sh, int):
        return sh <= t
    return len(sh) <= t and all(shape_size_ok(c, t) for c in sh)


def shape_text(sh, items, key_text):
    """consume items (list of (k, v)) in order"""
    if isinstance(sh, int):
        part = [items.pop(0) for _ in range(sh)]
        return "L[" + ",".join("%s=%d" % (key_text(k), v) for k, v in part) + "]"
    return "I(" + "".join(shape_text(c, items, key_text) for c in sh) + ")"


class Node:
    __slots__ = ("lim", "items", "kids")


def parse_dump(s, pk):
    pos = [0]

    def tok(stops):
        st = pos[0]
        while pos[0] < len(s) and s[pos[0]] not in stops:
            pos[0] += 1
        return s[st:pos[0]]

    def node():
        n = Node()
        n.items = n.kids = None
        if s[pos[0]] == "_":
            n.lim = None
            pos[0] += 1
        else:
            lo = tok("~")
            pos[0] += 1
            hi = tok("[(")
            n.lim = (pk(lo), pk(hi))
        if s[pos[0]] == "[":
            pos[0] += 1
            n.items = []
            while s[pos[0]] != "]":
                k = tok("=")
                pos[0] += 1
                v = tok(",]")
                n.items.append((pk(k), int(v)))
                if s[pos[0]] == ",":
                    pos[0] += 1
            pos[0] += 1
        elif s[pos[0]] == "(":
            pos[0] += 1
            n.kids = []
            while s[pos[0]] != ")":
                n.kids.append(node())
            pos[0] += 1
        else:
            raise ValueError("dump")
        return n
    r = node()
    if pos[0] != len(s):
        raise ValueError("trailing")
    return r


def defects(root, t):
    """python-side classification of what is wrong with a dumped tree (used for signatures only; the
    verdict itself comes from the extracted wf_code)"""
    out = set()

    def walk(n, is_root):
        """returns (keys beneath, height)"""
        if n.items is not None:
            keys, h = [k for k, _ in n.items], 0
        else:
            keys, h = [], 0
            for k in n.kids:
                ks, hk = walk(k, False)
                keys += ks
                h = max(h, hk + 1)
        if is_root:
            if n.lim is not None:
                out.add("root-limits")
        else:
            if not keys:
                out.add("empty-node")
            elif n.lim is None:
                out.add("limits-missing")
            else:
                if n.lim[0] != keys[0]:
                    out.add("lower-wrong")
                if n.lim[1] != keys[-1]:
                    # the class of finding F1: a node at least two levels above the leaves whose upper limit is a
                    # key of its own subtree smaller than the maximum (left behind by a split below its last kid)
                    out.add("upper-too-small" if h >= 2 and keys[0] <= n.lim[1] < keys[-1] else "upper-wrong")
        return keys, h
    keys, _ = walk(root, True)
    if any(not (a < b) for a, b in zip(keys, keys[1:])):
        out.add("unsorted")
    return out


# ------------------------------------------------------------------ histories

class Shadow:
    """sorted map + cursor used only to aim the generator (valid insertAfter positions, existing keys)"""

    def __init__(self, keys_cls, items):
        self.sk = keys_cls.sort_key
        self.keys = [k for k, _ in items]
        self.skeys = [self.sk(k) for k in self.keys]
        self.cur = None        # index into keys or None
        self.stale = False     # current iterator came from a failed exact find

    def find(self, k):
        i = bisect.bisect_left(self.skeys, self.sk(k))
        return i if i < len(self.keys) and self.skeys[i] == self.sk(k) else None

    def insert(self, k):
        i = bisect.bisect_left(self.skeys, self.sk(k))
        if not (i < len(self.keys) and self.skeys[i] == self.sk(k)):
            self.keys.insert(i, k)
            self.skeys.insert(i, self.sk(k))
        return i

    def remove(self, k):
        i = self.find(k)
        if i is not None:
            del self.keys[i]
            del self.skeys[i]
        return i


def between(kc, sh, lo, hi):
    """a key strictly between lo and hi (None = unbounded), or None"""
    rng = kc.rng
    if kc.kind == "num":
        a = (lo + 1) if lo is not None else (hi - rng.randint(1, 5) if hi is not None else 0)
        b = (hi - 1) if hi is not None else ((lo if lo is not None else 0) + rng.randint(1, 5))
        if a > b or a <= -(2 ** 62) or b >= 2 ** 62:   # the OCaml runner reads keys as 63-bit ints
            return None
        return rng.randint(a, min(b, a + 6))
    for _ in range(6):
        if lo is None:
            k = kc.fresh()
        else:
            k = lo + rng.choice(["", "a", "中"]) + rng.choice(kc.alpha)
        s = kc.sort_key(k)
        if (lo is None or kc.sort_key(lo) < s) and (hi is None or s < kc.sort_key(hi)):
            return k
    return None


PROFILES = {
    #            ins  repl rm   rmabs find fle  b/e/E  n   p   a    d
    "grow":     [50,  3,   4,   1,    5,   5,   4,     6,  4,  14,  4],
    "mixed":    [22,  4,   16,  3,    8,   8,   6,     9,  7,  8,   9],
    "shrink":   [5,   2,   40,  3,    5,   5,   5,     8,  5,  2,   20],
    "iter":     [10,  2,   5,   1,    6,   6,   10,    20, 18, 10,  12],
}


def gen_ops(kc, items, length, profile_seq, allow_quirks):
    rng = kc.rng
    sh = Shadow(kc, items)
    ops = []
    v = 1000
    seg = max(1, length // len(profile_seq))
    while len(ops) < length:
        w = PROFILES[profile_seq[min(len(ops) // seg, len(profile_seq) - 1)]]
        c = rng.choices(range(11), weights=w)[0]
        v += 1
        kt = kc.op_text
        if c == 0:
            k = kc.fresh()
            sh.cur = sh.insert(k); sh.stale = False
            ops.append("i:%s=%d" % (kt(k), v))
        elif c == 1:
            if not sh.keys:
                continue
            k = rng.choice(sh.keys)
            sh.cur = sh.find(k); sh.stale = False
            ops.append("i:%s=%d" % (kt(k), v))
        elif c == 2:
            if not sh.keys:
                continue
            k = rng.choice(sh.keys) if rng.random() < 0.6 else sh.keys[rng.choice([0, -1])]
            sh.remove(k); sh.cur = None; sh.stale = False
            ops.append("r:%s" % kt(k))
        elif c == 3:
            k = kc.fresh()
            sh.remove(k); sh.cur = None; sh.stale = False
            ops.append("r:%s" % kt(k))
        elif c == 4:
            k = rng.choice(sh.keys) if sh.keys and rng.random() < 0.6 else kc.fresh()
            sh.cur = sh.find(k)
            sh.stale = sh.cur is None and bool(sh.keys) and kc.sort_key(k) >= sh.skeys[0]
            ops.append("f:%s" % kt(k))
        elif c == 5:
            k = rng.choice(sh.keys) if sh.keys and rng.random() < 0.3 else kc.fresh()
            i = bisect.bisect_right(sh.skeys, kc.sort_key(k)) - 1
            sh.cur = i if i >= 0 else None; sh.stale = False
            ops.append("l:%s" % kt(k))
        elif c == 6:
            o = rng.choice("beE")
            sh.cur = None if (o == "E" or not sh.keys) else (0 if o == "b" else len(sh.keys) - 1); sh.stale = False
            ops.append(o)
        elif c in (7, 8):
            if sh.stale and not allow_quirks:
                continue
            if sh.stale:
                sh.stale = False      # implementation stays at end(); the generator only needs some cursor
            if c == 7:
                sh.cur = (0 if sh.keys else None) if sh.cur is None else (sh.cur + 1 if sh.cur + 1 < len(sh.keys) else None)
            else:
                sh.cur = (len(sh.keys) - 1 if sh.keys else None) if sh.cur is None else (sh.cur - 1 if sh.cur > 0 else None)
            ops.append("n" if c == 7 else "p")
        elif c == 9:
            if sh.stale and not allow_quirks:
                continue
            if allow_quirks and rng.random() < 0.1:
                k = kc.fresh()          # anywhere: unspecified use, model-vs-implementation only
                ops.append("a:%s=%d" % (kt(k), v))
                # what the shadow holds after this is irrelevant (the spec stops at U); keep it consistent enough
                if sh.find(k) is None:
                    sh.cur = sh.insert(k)
                continue
            lo = sh.keys[sh.cur] if sh.cur is not None else None
            nxt = (sh.cur + 1) if sh.cur is not None else 0
            hi = sh.keys[nxt] if nxt < len(sh.keys) else None
            k = between(kc, sh, lo, hi)
            if k is None or sh.find(k) is not None:
                continue
            sh.cur = sh.insert(k); sh.stale = False
            ops.append("a:%s=%d" % (kt(k), v))
        else:
            if sh.cur is None:
                if allow_quirks and rng.random() < 0.05:
                    ops.append("d")
                continue
            k = sh.keys[sh.cur]
            i = sh.remove(k)
            sh.cur = i if i < len(sh.keys) else None
            ops.append("d")
    return ops


def make_case(kc, t, shape, length, profile_seq, allow_quirks, every=1):
    n = shape_count(shape) if shape is not None else 0
    keys = set()
    guard = 0
    while len(keys) < n and guard < 100000:
        keys.add(kc.fresh())
        guard += 1
    keys = sorted(keys, key=kc.sort_key)
    if len(keys) < n:   # tiny name universe: shrink the shape to a flat leaf
        shape, n = len(keys), len(keys)
    items = [(k, 10 + i) for i, k in enumerate(keys)]
    if shape is None or n == 0:
        init_d = init_m = "L[]"
        shape = 0
    else:
        init_d = shape_text(shape, list(items), kc.stored_text)
        init_m = shape_text(shape, list(items), kc.model_text)
    ops = gen_ops(kc, items, length, profile_seq, allow_quirks)
    return {"kind": kc.kind, "t": t, "init_drv": init_d, "init_model": init_m, "ops": ops,
            "api_built": shape_size_ok(shape, t), "every": every}


def lines_of(case):
    ops = ";".join(case["ops"]) or "-"
    ev = (" %d" % case["every"]) if case.get("every", 1) > 1 else ""
    # kind "nameraw" (c18_names.py): the model runs on the stored strings; specification and validity checker see texts
    return ("nn %s %d %s %s%s" % (case["kind"], case["t"], case["init_drv"], ops, ev),
            "nn %s %d %s %s%s" % (case["kind"], case["t"], case["init_model"], ops, ev),
            "nnspec %s %s %s" % (spec_kind(case["kind"]), case.get("init_spec", case["init_model"]), ops))


def spec_kind(kind):
    return "name" if kind == "nameraw" else kind


# ------------------------------------------------------------------ evaluation

def pk_of(kind):
    if kind == "num":
        return int
    return lambda s: bytes.fromhex(s[1:])


def judge(case, impl, model, spec, wf):
    """first step at which the implementation departs from the specification.
    returns None or dict(step, why, signature)."""
    if impl.startswith("?") or impl.startswith("!"):
        return {"step": 0, "why": "driver failed: " + impl[:200], "signature": "C18:driver-failed"}
    isteps = impl.split(";")
    msteps = model.split(";")
    ssteps = spec.split(";")
    wsteps = wf.split(";")
    ops = case["ops"]
    if not (len(isteps) == len(ssteps) == len(wsteps) == len(ops)):
        return {"step": 0, "why": "output shape", "signature": "C18:output-shape"}
    pk = pk_of(case["kind"])
    tolerated_stale = False
    failed_find = False      # the current iterator is the one returned by an exact find that found nothing
    ins_since_dump = None    # with every > 1: the last insert/insertAfter since the previous dumped step
    for i, op in enumerate(ops):
        if op[0] in "ia":
            ins_since_dump = op[0]
        ires, _, idump = isteps[i].partition("@")
        sres, _, smap = ssteps[i].partition("@")
        if smap.startswith("U"):
            return None         # unspecified use of insertAfter: nothing is required from here on
        if ires != sres:
            sig = "C18:result:%s" % op[0]
            if W_RE.search(ires) and op[0] in "npa" and failed_find:
                sig = "C18:end-from-failed-find:%s:loop-warning" % op[0]
            return {"step": i, "why": "result differs from the sorted map: implementation %s, specification %s" % (ires, sres),
                    "signature": sig, "stop": True}
        if op[0] in "irlbeEf":
            failed_find = (op[0] == "f" and ires == "end")
        if wsteps[i] == "-":
            continue
        code, _, iabs = wsteps[i].partition(":")
        if code.startswith("?"):
            return {"step": i, "why": "dumped tree is not a tree of /Kids,/Limits and items nodes: " + idump[:200],
                    "signature": "C18:dump-malformed"}
        if iabs != smap:
            return {"step": i, "why": "tree content differs from the sorted map", "signature": "C18:content:%s" % op[0]}
        code = int(code)
        if code == 4 and not case["api_built"]:
            code = 0
        if code != 0:
            try:
                ds = defects(parse_dump(idump, pk), case["t"])
            except Exception:
                ds = {"unparsed"}
            agrees = i < len(msteps) and msteps[i] == isteps[i]
            if code == 3 and ds == {"upper-too-small"}:
                if tolerated_stale:
                    continue
                if op[0] in "ia" or (case.get("every", 1) > 1 and ins_since_dump):
                    tolerated_stale = True
                    case.setdefault("known_hits", []).append(
                        {"step": i, "why": "an ancestor's /Limits upper bound is smaller than the largest key beneath it",
                         "signature": "C18:wf-limits:%s:upper-too-small:%s" % (op[0] if op[0] in "ia" else ins_since_dump,
                                                                                "model-agrees" if agrees else "model-differs")})
                    ins_since_dump = None
                    continue
            names = {1: "/Limits on the root", 2: "keys not strictly ascending", 3: "empty non-root node or wrong /Limits",
                     4: "node larger than the split bound"}
            return {"step": i, "why": "stored tree invalid after the call: %s (%s)" % (names.get(code, code), ",".join(sorted(ds))),
                    "signature": "C18:wf%d:%s:%s%s" % (code, op[0], "+".join(sorted(ds)), ":model-agrees" if agrees else "")}
        else:
            tolerated_stale = False
        ins_since_dump = None
    return None


def evaluate(cases, drv, runner, shards=4):
    L = [lines_of(c) for c in cases]
    impl = [ERR_RE.sub("err", o) for o in common.run_lines(drv, [l[0] for l in L], shards=shards)]
    model = common.run_lines(runner, [l[1] for l in L], shards=shards)
    spec = common.run_lines(runner, [l[2] for l in L], shards=shards)
    wf = common.run_lines(runner, ["nnwf %s %d %s" % (spec_kind(c["kind"]), c["t"], o) for c, o in zip(cases, impl)], shards=shards)
    return impl, model, spec, wf


def describe(case, upto=None):
    d = {"tree": case["kind"], "split_threshold": case["t"], "initial_tree": case["init_drv"],
         "ops": case["ops"] if upto is None else case["ops"][:upto + 1]}
    d["driver_line"] = lines_of(dict(case, ops=d["ops"]))[0]
    return d


def shrink(case, verdict, drv, runner, budget=6):
    """greedy delta-debugging on the op list: keep removals that preserve a verdict with the same signature"""
    cur = dict(case, ops=case["ops"][:verdict["step"] + 1], every=1)
    cur.pop("known_hits", None)
    want = verdict["signature"]

    def first_sig(c, outs):
        c = dict(c)
        c.pop("known_hits", None)
        v = judge(c, *outs)
        if v is not None:
            return v["signature"]
        kh = c.get("known_hits")
        return kh[0]["signature"] if kh else None
    for _ in range(budget):
        n = len(cur["ops"])
        if n <= 1:
            break
        chunk = max(1, n // 8)
        if n > 600:      # long histories: only cut whole eighths
            budget_left = 2
        cands = []
        for st in range(0, n - 1, chunk):
            ops = cur["ops"][:st] + cur["ops"][st + chunk:]
            if ops:
                cands.append(dict(cur, ops=ops))
        if not cands:
            break
        impl, model, spec, wf = evaluate(cands, drv, runner, shards=4)
        better = None
        for c, o in zip(cands, zip(impl, model, spec, wf)):
            if first_sig(c, o) == want:
                better = c
                break
        if better is None:
            if chunk == 1 or n > 80:
                break
            # retry with single removals
            cands = [dict(cur, ops=cur["ops"][:j] + cur["ops"][j + 1:]) for j in range(n - 1)]
            impl, model, spec, wf = evaluate(cands, drv, runner, shards=4)
            for c, o in zip(cands, zip(impl, model, spec, wf)):
                if first_sig(c, o) == want:
                    better = c
                    break
            if better is None:
                break
        cur = better
    return cur


def process(chk, part, cases, drv, runner, shards=4):
    impl, model, spec, wf = evaluate(cases, drv, runner, shards)
    tie = []
    nontriv = set()
    seen_known = set()
    nbad = 0
    for idx, c in enumerate(cases):
        v = judge(c, impl[idx], model[idx], spec[idx], wf[idx])
        hits = list(c.get("known_hits", []))
        if v is not None:
            hits.append(v)
        for h in hits:
            k = chk.known_match(h["signature"])
            if k is not None:
                if h["signature"] not in seen_known:
                    seen_known.add(h["signature"])
                    chk.violation({}, signature=h["signature"])
                    chk.cov.setdefault("known_finding_examples", []).append(
                        {"signature": h["signature"], "case": describe(c, h["step"]), "why": h["why"]})
                chk.cov.setdefault("known_finding_counts", {})
                chk.cov["known_finding_counts"][h["signature"]] = chk.cov["known_finding_counts"].get(h["signature"], 0) + 1
            else:
                nbad += 1
                if nbad <= 3:
                    small = shrink(c, h, drv, runner)
                    so = evaluate([small], drv, runner, shards=1)
                    chk.violation({"kind": "property-fails-on-implementation", "part": part, "why": h["why"], "failing_step": h["step"],
                                   "signature": h["signature"], "case": describe(c, h["step"]), "shrunk_case": describe(small),
                                   "shrunk_implementation": so[0][0][-1500:], "shrunk_specification": so[2][0][-800:],
                                   "implementation": impl[idx][-1500:], "model": model[idx][-1500:], "specification": spec[idx][-800:]},
                                  signature=h["signature"])
                else:
                    chk.violation({"kind": "property-fails-on-implementation", "part": part, "why": h["why"], "signature": h["signature"],
                                   "case": describe(c, h["step"])}, signature=h["signature"])
        if impl[idx] != model[idx]:
            tie.append(idx)
        # non-trivial: the number of nodes changed during the history (a split or a pruning happened)
        counts = set(s.count("[") + s.count("(") for s in impl[idx].split(";") if not s.endswith("#"))
        if len(counts) > 1:
            nontriv.add(hash((c["kind"], c["t"], c["init_drv"], tuple(c["ops"]))))
    reported = chk.cov.setdefault("_tie_reported", [])
    if tie and part not in reported and not [v for v in chk.violations if not v[1]]:
        reported.append(part)
        idx = tie[0]
        isteps, msteps = impl[idx].split(";"), model[idx].split(";")
        st = next((i for i, (a, b) in enumerate(zip(isteps, msteps)) if a != b), min(len(isteps), len(msteps)))
        chk.violation({"kind": "correspondence-broken", "correspondence": "corr:C18:nntree-" + part, "differing_cases": len(tie),
                       "first_case": describe(cases[idx], st), "first_differing_step": st,
                       "implementation": isteps[st][:1500] if st < len(isteps) else None,
                       "model": msteps[st][:1500] if st < len(msteps) else None,
                       "note": "model and implementation differ but results, content and validity agree with the specification on every explored "
                               "history; the theorems no longer speak about this code"}, no_input=True)
    nsteps = sum(len(c["ops"]) for c in cases)
    chk.count(part, len(cases), nontriv, samples=[describe(cases[i], 5) for i in (0, len(cases) // 2) if i < len(cases)])
    pc = chk.cov["parts"][part]
    pc["api_calls"] = pc.get("api_calls", 0) + nsteps
    kinds = pc.setdefault("op_distribution", {})
    for c in cases:
        for o in c["ops"]:
            kinds[o[0]] = kinds.get(o[0], 0) + 1
    pc["model_differs"] = pc.get("model_differs", 0) + len(tie)


# ------------------------------------------------------------------ parts

def part_exhaustive(chk, drv, runner):
    """every history up to the length bound over a small key universe, t in {3,4,5}, several starts"""
    quick = chk.tier == "quick"
    keys = [1, 2, 3, 4, 5] if quick else [1, 2, 3, 4, 5, 6]
    L = 3 if quick else 4
    alpha = []
    for k in keys:
        alpha += ["i:%d=%d" % (k, 100 + k), "r:%d" % k, "f:%d" % k, "l:%d" % k, "a:%d=%d" % (k, 200 + k)]
    alpha += ["b", "e", "E", "n", "p", "d"]
    if not quick:
        # length 4 over a reduced alphabet (keys 1..6 for insert/remove, two probes for find)
        alpha = [a for a in alpha if not (a[0] in "fl" and a[2] not in "25")]
    starts = {
        3: ["L[]", "L[2=20,4=40]", "L[1=10,3=30,5=50]", "I(L[1=10,2=20,3=30]L[4=40,5=50])", "I(I(L[1=10]L[2=20,3=30])I(L[5=50]))",
            "I(I(I(L[-3=-30,-2=-20]))I(I(L[0=0]L[2=20,4=40,5=50])))"],
        4: ["L[]", "L[1=10,2=20,3=30,4=40]", "I(L[1=10,2=20,3=30,4=40]L[5=50])"],
        5: ["L[]", "L[1=10,2=20,3=30,4=40,5=50]", "I(L[2=20]L[3=30]L[4=40]L[5=50,6=60])"],
    }
    cases = []
    for t in (3, 4, 5):
        for init in starts[t]:
            for tup in itertools.product(alpha, repeat=L):
                cases.append({"kind": "num", "t": t, "init_drv": init, "init_model": init, "ops": list(tup),
                              "api_built": True, "every": 1})
                if len(cases) >= 400000:
                    process(chk, "exhaustive", cases, drv, runner)
                    cases = []
    if cases:
        process(chk, "exhaustive", cases, drv, runner)
    chk.cov["parts"]["exhaustive"]["length"] = L
    chk.cov["parts"]["exhaustive"]["alphabet"] = len(alpha)


def part_random(chk, drv, runner):
    rng = chk.rng
    quick = chk.tier == "quick"
    ncases = 700 if quick else 12000
    cases = []
    for j in range(ncases):
        kind = "num" if rng.random() < 0.6 else "name"
        t = rng.choice([3, 3, 3, 4, 5])
        length = rng.choice([30, 60, 120, 200]) if quick else rng.choice([60, 120, 250, 400])
        span = rng.choice([12, 40, 150, 10000])
        kc = (NumKeys if kind == "num" else NameKeys)(rng, span)
        r = rng.random()
        if r < 0.3:
            shape = None
        elif r < 0.5:
            shape = rng.randint(1, 2 * t + 3)            # flat, possibly larger than the split bound
        else:
            shape = gen_shape(rng, t, rng.randint(1, 3), t)
        prof = rng.choice([["grow"], ["grow", "shrink"], ["mixed"], ["grow", "mixed", "shrink"], ["iter"], ["grow", "iter", "shrink"],
                           ["shrink"], ["grow", "grow", "mixed"]])
        cases.append(make_case(kc, t, shape, length, prof, allow_quirks=(j % 25 == 0)))
        if len(cases) >= 600:
            process(chk, "random", cases, drv, runner)
            cases = []
    # ascending / descending bulk loads (the way trees are normally built), incl. through insertAfter
    for t in (3, 4, 5):
        n = 150 if quick else 600
        asc = ["i:%d=%d" % (k, k) for k in range(1, n)]
        cases.append({"kind": "num", "t": t, "init_drv": "L[]", "init_model": "L[]", "ops": asc, "api_built": True, "every": 1})
        cases.append({"kind": "num", "t": t, "init_drv": "L[]", "init_model": "L[]", "ops": asc[::-1], "api_built": True, "every": 1})
        cases.append({"kind": "num", "t": t, "init_drv": "L[]", "init_model": "L[]",
                      "ops": ["E"] + ["a:%d=%d" % (k, k) for k in range(1, n)] + ["b"] + ["d"] * (n - 1), "api_built": True, "every": 1})
        cases.append({"kind": "num", "t": t, "init_drv": "L[]", "init_model": "L[]",
                      "ops": asc + ["r:%d" % k for k in range(n - 1, 0, -1)], "api_built": True, "every": 1})
        cases.append({"kind": "num", "t": t, "init_drv": "L[]", "init_model": "L[]",
                      "ops": asc + ["e"] + ["p", "n", "p"] * (n // 2) + ["r:%d" % k for k in range(1, n)], "api_built": True, "every": 1})
    process(chk, "random", cases, drv, runner)


def part_large(chk, drv, runner):
    """default split threshold 32 and large key sets; the tree is dumped every 50th call"""
    rng = chk.rng
    quick = chk.tier == "quick"
    cases = []
    for j in range(6 if quick else 60):
        kind = "num" if j % 3 != 2 else "name"
        kc = (NumKeys if kind == "num" else NameKeys)(rng, 100000)
        t = 32 if j % 2 == 0 else rng.choice([3, 7, 16])
        length = 1500 if quick else 5000
        cases.append(make_case(kc, t, None, length, ["grow", "grow", "mixed", "shrink"], allow_quirks=False, every=50))
        if len(cases) >= 12:
            process(chk, "large", cases, drv, runner, shards=4)
            cases = []
    if cases:
        process(chk, "large", cases, drv, runner, shards=4)


# ------------------------------------------------------------------ validate / repair

def dump_text(shape, items, key_text, sealed=True, root=True, mutate=None):
    """dump-syntax text of a tree of the given shape over items (consumed in order); limits are the
    correct ones unless mutate(lo, hi) returns other keys"""
    if isinstance(shape, int):
        part = [items.pop(0) for _ in range(shape)]
        body = "[" + ",".join("%s=%d" % (key_text(k), v) for k, v in part) + "]"
        ks = [k for k, _ in part]
    else:
        subs = [dump_text(c, items, key_text, sealed, False, mutate) for c in shape]
        body = "(" + "".join(t for t, _ in subs) + ")"
        ks = [k for _, kk in subs for k in kk]
    if root or not ks:
        return "_" + body, ks
    lo, hi = ks[0], ks[-1]
    if mutate:
        lo, hi = mutate(lo, hi)
    return "%s~%s%s" % (key_text(lo), key_text(hi), body), ks


def part_repair(chk, drv, runner):
    """validate(true): a tree whose keys are not strictly ascending is rebuilt; the result must be a valid
    tree holding the sorted map of the entries met in document order (a later duplicate wins), and must be
    the very tree the modelled insert builds from those entries with the default threshold 32."""
    rng = chk.rng
    quick = chk.tier == "quick"
    cases = []
    for j in range(150 if quick else 3000):
        t = rng.choice([3, 4, 5])
        big = rng.random() < 0.15
        shape = gen_shape(rng, t if not big else 6, rng.randint(0, 3), t if not big else 8)
        n = shape_count(shape)
        keys = rng.sample(range(-5, max(12, 3 * n)), n)
        mode = rng.choice(["sorted", "swap", "dup", "shuffle", "sorted-badlimits"])
        keys.sort()
        if mode == "swap" and n >= 2:
            a = rng.randrange(n - 1)
            keys[a], keys[a + 1] = keys[a + 1], keys[a]
        elif mode == "dup" and n >= 2:
            a = rng.randrange(n - 1)
            keys[a + 1] = keys[a]
        elif mode == "shuffle":
            rng.shuffle(keys)
        items = [(k, 10 + i) for i, k in enumerate(keys)]
        mut = None
        if mode == "sorted-badlimits":
            mut = lambda lo, hi: (lo - rng.choice([0, 1]), hi + rng.choice([0, 1, 2]))
        text, _ = dump_text(shape, list(items), str, mutate=mut)
        cases.append((text, items, mode))
    impl = common.run_lines(drv, ["nnrepair num %s" % c[0] for c in cases], shards=4)
    # expected rebuilt trees: the model's insert of the sorted entries into an empty tree, threshold 32
    exp_maps = []
    for text, items, mode in cases:
        m = {}
        for k, v in items:
            m[k] = v
        exp_maps.append(sorted(m.items()))
    mlines = ["nn num 32 L[] %s 1000000" % (";".join("i:%d=%d" % kv for kv in em) or "-") for em in exp_maps]
    model = common.run_lines(runner, mlines, shards=4)
    wf = common.run_lines(runner, ["nnwf num 32 %s" % o for o in impl], shards=4)
    tie = []
    nontriv = set()
    for (text, items, mode), o, mo, w, em in zip(cases, impl, model, wf, exp_maps):
        keys = [k for k, _ in items]
        ascending = all(a < b for a, b in zip(keys, keys[1:]))
        res, _, dump = o.partition("@")
        desc = {"driver_line": "nnrepair num " + text, "damage": mode}
        if ascending:
            if res != "V1" or dump != text:
                chk.violation({"kind": "property-fails-on-implementation", "part": "repair", "case": desc,
                               "why": "validate() of a tree with strictly ascending keys must return true and leave it alone", "implementation": o[:800]},
                              signature="C18:repair:valid-tree-touched")
            continue
        nontriv.add(text)
        want = "[" + ",".join("%d=%d" % kv for kv in em) + "]"
        code, _, iabs = w.partition(":")
        if not res.startswith("V0") or code != "0" or iabs != want:
            chk.violation({"kind": "property-fails-on-implementation", "part": "repair", "case": desc,
                           "why": "after validate(repair) the tree must be valid and hold the sorted map of its entries (validity code %s)" % code,
                           "implementation": o[:800], "expected_content": want[:400]}, signature="C18:repair:result")
            continue
        mdump = mo.rsplit("@", 1)[-1] if em else "_[]"
        if dump != mdump:
            tie.append((desc, dump, mdump))
    if tie and not [v for v in chk.violations if not v[1]]:
        chk.violation({"kind": "correspondence-broken", "correspondence": "corr:C18:nntree-repair", "differing_cases": len(tie),
                       "first_case": tie[0][0], "implementation": tie[0][1][:800], "model": tie[0][2][:800]}, no_input=True)
    chk.count("repair", len(cases), nontriv, samples=[{"driver_line": "nnrepair num " + cases[0][0]}])
    kinds = {}
    for c in cases:
        kinds[c[2]] = kinds.get(c[2], 0) + 1
    chk.cov["parts"]["repair"]["damage_kinds"] = kinds


# ------------------------------------------------------------------ attachments (CLI vs a dictionary specification)

def iso_of_pdfdate(d):
    m = re.match(r"D:(\d{4})(\d\d)(\d\d)(\d\d)(\d\d)(\d\d)(Z|[+-]\d\d'\d\d')$", d)
    if not m:
        return None
    tz = m.group(7)
    tz = "Z" if tz == "Z" else tz[:3] + ":" + tz[4:6]
    return "%s-%s-%sT%s:%s:%s%s" % (m.group(1), m.group(2), m.group(3), m.group(4), m.group(5), m.group(6), tz)


def parse_list_verbose(text):
    out, order, cur, stream = {}, [], None, None
    for line in text.split("\n"):
        m = re.match(r"^(\S.*) -> \d+,\d+$", line)
        if m:
            cur = {"names": {}, "streams": {}, "description": ""}
            out[m.group(1)] = cur
            order.append(m.group(1))
            stream = None
            continue
        if cur is None:
            continue
        m = re.match(r"^  description: (.*)$", line)
        if m:
            cur["description"] = m.group(1); continue
        m = re.match(r"^  preferred name: (.*)$", line)
        if m:
            cur["preferred"] = m.group(1); continue
        m = re.match(r"^    (/\w+) -> (\d+,\d+)$", line)
        if m:
            stream = cur["streams"].setdefault(m.group(1), {}); continue
        m = re.match(r"^    (/\w+) -> (.*)$", line)
        if m:
            cur["names"][m.group(1)] = m.group(2); continue
        m = re.match(r"^      (creation date|modification date|mime type|checksum): (.*)$", line)
        if m and stream is not None:
            stream[m.group(1)] = m.group(2)
    return out, order


def part_attach(chk):
    import hashlib
    import pdfgen
    rng = chk.rng
    wd = common.workdir("C18")
    quick = chk.tier == "quick"
    sizes = [0, 1, 4095, 4096, 4097] + ([1 << 20] if not quick else [])
    keys = ["a", "a.txt", "b", "ключ", "é", "中", "X-a", "a b", "Z", "att-1"]
    prefixes = ["X-", "é", "1/"]
    payload_files = []
    for i, n in enumerate(sizes + [7, 300]):
        data = bytes(rng.getrandbits(8) for _ in range(min(n, 5000))) * (1 if n <= 5000 else (n // 5000 + 1))
        data = data[:n]
        pth = os.path.join(wd, "payload%d.bin" % i)
        open(pth, "wb").write(data)
        payload_files.append((pth, data))
    base = os.path.join(wd, "base.pdf")
    open(base, "wb").write(pdfgen.write_classic(pdfgen.page_doc(1))[0])
    dates = ["D:20200101120000Z", "D:20210203040506+05'30'", "D:19991231235959-08'00'", "D:20240229000000Z"]
    nseq = 16 if quick else 120
    nsteps = 8 if quick else 12
    njobs = 0
    nontriv = set()
    kinds_seen = {}

    def verify(path, exp, desc, touched):
        """exp: key -> record. returns list of (why, signature)"""
        bad = []
        rc, so, se = common.run_qpdf([path, "--list-attachments", "--verbose"])
        got, order = parse_list_verbose(so.decode("utf-8", "replace"))
        want_order = sorted(exp, key=lambda k: k.encode("utf-8"))
        if rc != 0 or order != want_order:
            bad.append(("listed keys %r, expected %r (exit %d)" % (order, want_order, rc), "C18:attach:keys"))
            return bad
        rc, so, se = common.run_qpdf([path, "--json", "--json-key=attachments"])
        try:
            js = json.loads(so.decode("utf-8"))["attachments"]
        except Exception:
            js = None
            bad.append(("--json attachments unreadable", "C18:attach:json"))
        for k in want_order:
            r, g = exp[k], got[k]
            md5 = hashlib.md5(r["data"]).hexdigest()
            if g.get("preferred") != r["filename"] or g["names"] != {"/F": r["filename"], "/UF": r["filename"]}:
                bad.append(("file names of %r: %r" % (k, g["names"]), "C18:attach:names"))
            if g["description"] != r["desc"]:
                bad.append(("description of %r: %r" % (k, g["description"]), "C18:attach:description"))
            for sk in ("/F", "/UF"):
                st = g["streams"].get(sk)
                if st is None:
                    bad.append(("stream %s of %r missing" % (sk, k), "C18:attach:stream")); continue
                if st.get("checksum") != md5:
                    bad.append(("checksum of %r: %s, md5 of the data is %s" % (k, st.get("checksum"), md5), "C18:attach:checksum"))
                if st.get("mime type") != r["mime"]:
                    bad.append(("mime type of %r: %r" % (k, st.get("mime type")), "C18:attach:mime"))
                for fld, val in (("creation date", r["cdate"]), ("modification date", r["mdate"])):
                    if val is None:
                        if not re.match(r"D:\d{14}Z$", st.get(fld, "")):
                            bad.append(("%s of %r: %r" % (fld, k, st.get(fld)), "C18:attach:date"))
                    elif st.get(fld) != val:
                        bad.append(("%s of %r: %r, expected %r" % (fld, k, st.get(fld), val), "C18:attach:date"))
            if js is not None:
                j = js.get(k)
                if j is None:
                    bad.append(("json lacks key %r" % k, "C18:attach:json-keys")); continue
                if j["preferredname"] != r["filename"] or (j["description"] or "") != r["desc"]:
                    bad.append(("json name/description of %r" % k, "C18:attach:json-fields"))
                for sk, st in j["streams"].items():
                    if st["checksum"] != md5 or (st["mimetype"] or "") != r["mime"]:
                        bad.append(("json checksum/mimetype of %r" % k, "C18:attach:json-fields"))
                    if r["cdate"] is not None and st["creationdate"] != iso_of_pdfdate(r["cdate"]):
                        bad.append(("json creationdate of %r: %r" % (k, st["creationdate"]), "C18:attach:json-date"))
                    if r["mdate"] is not None and st["modificationdate"] != iso_of_pdfdate(r["mdate"]):
                        sig = "C18:attach:json-date"
                        listed_c = g["streams"].get(sk, {}).get("creation date", "")
                        if st["modificationdate"] == iso_of_pdfdate(listed_c):
                            sig = "C18:attach:json-moddate-is-creationdate"
                        bad.append(("json modificationdate of %r: %r, the stream says %r" % (k, st["modificationdate"], r["mdate"]), sig))
            if True:
                rc, so, se = common.run_qpdf([path, "--show-attachment=" + k])
                if rc != 0 or so != r["data"]:
                    bad.append(("--show-attachment=%s returned %d bytes (exit %d), stored %d" % (k, len(so), rc, len(r["data"])), "C18:attach:data"))
        return bad

    runner = os.path.join(common.EXTRACT, "model_runner")
    records = []          # record id -> fields; the specification map holds ids

    def hk(k):
        return "h" + k.encode("utf-8").hex()

    def amap_text(m):
        return ",".join("%s=%d" % (hk(k), m[k]) for k in sorted(m, key=lambda x: x.encode("utf-8"))) or "-"

    def new_record(force_empty=False):
        pth, data = payload_files[0] if force_empty else rng.choice(payload_files)
        rec = {"data": data, "path": pth, "filename": os.path.basename(pth), "cdate": None, "mdate": None, "mime": "", "desc": ""}
        opts = []
        if rng.random() < 0.6:
            rec["filename"] = rng.choice(["n.txt", "имя.bin", "a b.dat"]); opts.append("--filename=" + rec["filename"])
        if rng.random() < 0.8:
            rec["cdate"] = rng.choice(dates); opts.append("--creationdate=" + rec["cdate"])
        if rng.random() < 0.8:
            rec["mdate"] = rng.choice(dates); opts.append("--moddate=" + rec["mdate"])
        if rng.random() < 0.6:
            rec["mime"] = rng.choice(["text/plain", "application/octet-stream"]); opts.append("--mimetype=" + rec["mime"])
        if rng.random() < 0.5:
            rec["desc"] = rng.choice(["d", "описание", "two words"]); opts.append("--description=" + rec["desc"])
        records.append(rec)
        return len(records) - 1, opts

    def gen_adds(exp, n):
        adds = []
        pool = list(keys)
        for i in range(n):
            r = rng.random()
            if adds and r < 0.35:
                key = rng.choice(adds)[1]                 # the same key again in this invocation
            elif exp and r < 0.6:
                key = rng.choice(sorted(exp))             # a key the document already has
            else:
                key = rng.choice(pool)
            rid, opts = new_record(force_empty=(rng.random() < 0.25))
            adds.append((rng.random() < 0.4, key, rid, opts))
        return adds

    def gen_copies(docs, exp, n):
        copies = []
        for i in range(n):
            r = rng.random()
            if copies and r < 0.4:
                other = copies[0][1]                       # the same source again
            else:
                cand = [d for d in docs if d[1]] or docs
                other = rng.choice(cand)
            r2 = rng.random()
            if r2 < 0.35:
                pre = ""
            elif r2 < 0.6 and copies:
                pre = copies[0][0]                         # the same prefix as the first source
            else:
                pre = rng.choice(prefixes)
            copies.append((pre, other))
        return copies

    scenarios = ["adds", "adds", "removes", "copy", "copy", "copy2-distinct", "mixed", "newdoc"]
    for sq in range(nseq):
        docs = [(base, {})]
        for st in range(nsteps):
            njobs += 1
            kind = scenarios[(sq + st) % len(scenarios)] if st else "newdoc"
            di = rng.randrange(len(docs))
            src, exp = docs[di]
            out = os.path.join(wd, "s%d_%d.pdf" % (sq, st))
            removes, adds, copies = [], [], []
            if kind == "newdoc":
                src, exp = base, {}
                adds = gen_adds(exp, rng.randint(1, 3))
            elif kind == "adds":
                adds = gen_adds(exp, rng.randint(1, 3))
            elif kind == "removes":
                for _ in range(rng.randint(1, 2)):
                    removes.append(rng.choice(sorted(exp)) if exp and rng.random() < 0.85 else rng.choice(keys))
            elif kind == "copy":
                copies = gen_copies(docs, exp, rng.randint(2, 3))
            elif kind == "copy2-distinct":
                cand = [d for d in docs if d[1]] or docs
                pr = rng.sample(prefixes + ["q:", "r_"], 2)
                o1 = rng.choice(cand)
                copies = [(pr[0], o1), (pr[1], o1 if rng.random() < 0.5 else rng.choice(cand))]
            else:
                if exp and rng.random() < 0.7:
                    removes.append(rng.choice(sorted(exp)))
                adds = gen_adds(exp, rng.randint(1, 2))
                copies = gen_copies(docs, exp, rng.randint(1, 2))
            args = [src] + ["--remove-attachment=" + k for k in removes]
            for repl, key, rid, opts in adds:
                args += ["--add-attachment", records[rid]["path"], "--key=" + key] + opts + (["--replace"] if repl else []) + ["--"]
            for pre, other in copies:
                args += ["--copy-attachments-from", other[0]] + (["--prefix=" + pre] if pre else []) + ["--"]
            args += ["--static-id", out]
            spec_line = "attjob %s %s %s %s" % (
                amap_text(exp), ",".join(hk(k) for k in removes) or "-",
                ",".join("%d:%s=%d" % (1 if repl else 0, hk(key), rid) for repl, key, rid, _ in adds) or "-",
                ";".join("%s/%s" % (hk(pre), amap_text(other[1])) for pre, other in copies) or "-")
            verdict = common.run_lines(runner, [spec_line])[0]
            rc, so, se = common.run_qpdf(args)
            desc = {"argv": ["qpdf"] + [a.replace(wd + "/", "") for a in args], "keys_before": sorted(exp), "step": st, "scenario": kind,
                    "sources": [{"file": o[0].replace(wd + "/", ""), "prefix": pre, "keys": sorted(o[1])} for pre, o in copies],
                    "specification": verdict}
            kindsig = "copy" if copies and not adds and not removes else ("add" if adds and not copies and not removes else
                                                                       ("remove" if removes and not adds and not copies else "mixed"))
            if verdict.startswith("refused"):
                bad_keys = [bytes.fromhex(x[1:]).decode("utf-8") for x in verdict[8:].split(",") if x]
                msg = se.decode("utf-8", "replace")
                if rc != 2 or os.path.exists(out):
                    chk.violation({"kind": "property-fails-on-implementation", "part": "attachments", "case": desc,
                                   "why": "the invocation must be refused (exit 2, no output) because of key(s) %r; exit %d, output written: %s"
                                          % (bad_keys, rc, os.path.exists(out)), "stderr": msg[-300:]}, signature="C18:attach:%s:not-refused" % kindsig)
                elif not all(k in msg for k in bad_keys):
                    chk.violation({"kind": "property-fails-on-implementation", "part": "attachments", "case": desc,
                                   "why": "the refusal does not name the offending key(s) %r" % bad_keys, "stderr": msg[-300:]},
                                  signature="C18:attach:%s:message" % kindsig)
                nontriv.add(("refused",) + tuple(desc["argv"]))
                continue
            if not verdict.startswith("ok"):
                raise common.InfraError("attachment specification did not run: " + verdict[:200])
            new = {}
            for kv in verdict[3:].split(","):
                if kv:
                    k, _, rid = kv.partition("=")
                    new[bytes.fromhex(k[1:]).decode("utf-8")] = int(rid)
            if rc != 0:
                chk.violation({"kind": "property-fails-on-implementation", "part": "attachments", "case": desc,
                               "why": "valid attachment operation failed: exit %d %s" % (rc, se.decode("latin-1")[-300:])},
                              signature="C18:attach:%s:refused-valid" % kindsig)
                continue
            bad = verify(out, {k: records[r] for k, r in new.items()}, desc, set(new))
            seen = set()
            for why, sig in bad:
                if sig in seen:
                    continue
                seen.add(sig)
                chk.violation({"kind": "property-fails-on-implementation", "part": "attachments", "case": desc, "why": why, "signature": sig},
                              signature=sig)
            if len(new) >= 2:
                nontriv.add(tuple(desc["argv"]) + tuple(sorted(new)))
            kinds_seen[kind] = kinds_seen.get(kind, 0) + 1
            if kind == "newdoc" and len(docs) < 3:
                docs.append((out, new))
            elif kind == "newdoc":
                docs[di] = (out, new)
            else:
                docs[di] = (out, new)
    chk.count("attachments", njobs, nontriv, samples=[])
    chk.cov["parts"]["attachments"]["payload_sizes"] = sizes + [7, 300]
    chk.cov["parts"]["attachments"]["scenarios_accepted"] = kinds_seen


# ------------------------------------------------------------------ attachments through the helper API (in process)

def att_payload(n, seed):
    M = (1 << 64) - 1
    x = (seed * 6364136223846793005 + 1442695040888963407) & M
    out = bytearray(n)
    for i in range(n):
        x = (x * 6364136223846793005 + 1442695040888963407) & M
        out[i] = (x >> 33) & 0xff
    return bytes(out)


def hx(s):
    if isinstance(s, str):
        s = s.encode("utf-8")
    return "h" + s.hex()


def att_materialize(ops):
    """abstract ops -> (driver line, specification line, record table).  Record ids are assigned here; a `mod`
    record is the key's current record with the new description / file name (bookkeeping only: which record a key
    holds is decided by the extracted specification)."""
    recs = []
    a, b = {}, {}
    dl, sl = [], []

    def rec_text(r):
        return "%d,%d,%s,%s,%s,%s,%s" % (r["size"], r["seed"], hx(r["fn"]), hx(r["desc"]), hx(r["cd"]), hx(r["md"]), hx(r["mime"]))
    for op in ops:
        o = op[0]
        if o in ("put", "put2", "bput"):
            recs.append(dict(op[2]))
            rid = len(recs) - 1
            (b if o == "bput" else a)[op[1]] = rid
            dl.append("%s:%s:%s" % (o, hx(op[1]), rec_text(op[2])))
            sl.append("%s:%s=%d" % ("bput" if o == "bput" else "put", hx(op[1]), rid))
        elif o == "same":
            dl.append("same:" + hx(op[1])); sl.append("same:" + hx(op[1]))
        elif o == "mod":
            base = recs[a[op[1]]] if op[1] in a else {"size": 0, "seed": 0, "fn": "", "desc": "", "cd": "", "md": "", "mime": ""}
            recs.append(dict(base, desc=op[2], fn=op[3]))
            rid = len(recs) - 1
            if op[1] in a:
                a[op[1]] = rid
            dl.append("mod:%s:%s:%s" % (hx(op[1]), hx(op[2]), hx(op[3]))); sl.append("mod:%s=%d" % (hx(op[1]), rid))
        elif o == "rm":
            a.pop(op[1], None)
            dl.append("rm:" + hx(op[1])); sl.append("rm:" + hx(op[1]))
        elif o == "copy":
            for k in sorted(b, key=lambda x: x.encode("utf-8")):
                a[op[1] + k] = b[k]
            dl.append("copy:" + hx(op[1])); sl.append("copy:" + hx(op[1]))
        else:
            dl.append("reread"); sl.append("reread")
    return "atthist " + ";".join(dl), "atthist " + ";".join(sl), recs


def att_expected_listing(spec_map, recs):
    import hashlib
    ents, keys = [], []
    for kv in spec_map.split(","):
        if not kv:
            continue
        k, _, rid = kv.partition("=")
        r = recs[int(rid)]
        data = att_payload(r["size"], r["seed"])
        ents.append("|".join([k, hx(data), str(len(data)), hx(hashlib.md5(data).digest()), hx(r["cd"]), hx(r["md"]), hx(r["mime"]),
                              hx(r["desc"]), hx(r["fn"]), hx(r["fn"]), hx(r["fn"])]))
        keys.append(k)
    return ",".join(ents) + "#" + ",".join(keys)


def att_judge(ops, impl, spec, recs):
    """first step where the library departs from the specification: (step, why) or None"""
    isteps, ssteps = impl.split(";"), spec.split(";")
    if impl.startswith(("?", "!")) or len(isteps) != len(ops) or len(ssteps) != len(ops):
        return 0, "driver/specification did not run: %s / %s" % (impl[:120], spec[:120])
    for i, op in enumerate(ops):
        ires, _, ilist = isteps[i].partition("@")
        sres, _, smap = ssteps[i].partition("@")
        want = att_expected_listing(smap, recs)
        pre = ""
        if ires != sres:
            if ilist == want:
                return i, "call result %s (w<n> = qpdf warnings), specification %s" % (ires, sres)
            pre = "call result %s, specification %s; " % (ires, sres)
        if ilist != want:
            ik = [e.split("|")[0] for e in ilist.split("#")[0].split(",") if e]
            wk = [e.split("|")[0] for e in want.split("#")[0].split(",") if e]
            fk = [e for e in ilist.split("#")[-1].split(",") if e]
            if ik != wk or fk != wk:
                def dec(l):
                    out = []
                    for x in l:
                        try:
                            out.append(bytes.fromhex(x[1:].split("!")[0]).decode("utf-8", "replace") + ("!lookup" if "!" in x else ""))
                        except ValueError:
                            out.append(x)
                    return out
                return i, pre + "listed keys %r (fresh helper: %r), the sorted map holds %r" % (dec(ik), dec(fk), dec(wk))
            for e, w in zip(ilist.split("#")[0].split(","), want.split("#")[0].split(",")):
                if e != w:
                    names = ["key", "payload", "/Size", "checksum", "creation date", "modification date", "MIME type", "description",
                             "file name", "/F", "/UF"]
                    ef, wf_ = e.split("|"), w.split("|")
                    diff = [names[j] if j < len(names) else "extra" for j in range(max(len(ef), len(wf_)))
                            if j >= len(ef) or j >= len(wf_) or ef[j] != wf_[j]]
                    return i, pre + "attachment %r differs in: %s" % (bytes.fromhex(wf_[0][1:]).decode("utf-8", "replace"), ", ".join(diff))
            return i, pre + "listing differs"
    return None


def att_gen_history(rng, length, quirk_f4):
    """abstract ops; returns (ops, index of the step that exercises known finding F4 or None)"""
    keys = ["k1", "a", "a.txt", "ключ", "é", "中", "doc", "Z"]
    bkeys = ["doc", "bin", "é", "k1"]
    dates = ["", "D:20200101120000Z", "D:20210203040506+05'30'", "D:19991231235959-08'00'"]

    def rec():
        return {"size": rng.choice([0, 0, 1, 7, 300, 300, 4095, 4096, 4097]), "seed": rng.randrange(1 << 30),
                "fn": rng.choice(["n.txt", "имя.bin", "a b.dat"]), "desc": rng.choice(["", "d", "описание", "two words"]),
                "cd": rng.choice(dates), "md": rng.choice(dates), "mime": rng.choice(["", "text/plain", "application/octet-stream"])}
    prefix = rng.choice(["", "p-", "é", "1/"])
    a = {}            # key -> "own" | "copy" (how the current file spec object got there)
    b = set()
    poisoned = False  # a copied object was nulled by removeEmbeddedFile in this generation of A
    ops, f4 = [], None
    weights = {"put": 18, "put2": 8, "same": 14, "mod": 12, "rm": 9, "bput": 8, "copy": 14, "reread": 7}
    while len(ops) < length:
        o = rng.choices(list(weights), weights=list(weights.values()))[0]
        if o in ("put", "put2"):
            k = rng.choice(sorted(a)) if a and rng.random() < 0.4 else rng.choice(keys)
            ops.append((o, k, rec())); a[k] = "own"
        elif o == "same":
            k = rng.choice(sorted(a)) if a and rng.random() < 0.9 else rng.choice(keys)
            ops.append(("same", k))
        elif o == "mod":
            own = sorted(k for k in a if a[k] == "own")
            if not own:
                continue
            k = rng.choice(own) if rng.random() < 0.93 else None
            if k is None:
                cand = [x for x in keys if x not in a]
                if not cand:
                    continue
                k = rng.choice(cand)
            ops.append(("mod", k, rng.choice(["new description", "", "ново"]), rng.choice(["renamed.bin", "r é.txt"])))
        elif o == "rm":
            k = rng.choice(sorted(a)) if a and rng.random() < 0.85 else rng.choice(keys)
            if a.get(k) == "copy":
                if not quirk_f4:
                    continue
                poisoned = True
            ops.append(("rm", k)); a.pop(k, None)
        elif o == "bput":
            if poisoned:
                continue
            k = rng.choice(bkeys)
            ops.append(("bput", k, rec())); b.add(k)
        elif o == "copy":
            if not b:
                continue
            if poisoned and f4 is None:
                f4 = len(ops)
            ops.append(("copy", prefix))
            for k in b:
                a[prefix + k] = "copy"
        else:
            ops.append(("reread",))
            a = {k: "own" for k in a}
            if poisoned and f4 is None:
                poisoned = False
    return ops, f4


def part_attach_api(chk, drv, runner):
    rng = chk.rng
    quick = chk.tier == "quick"
    hists = []
    # the natural self-replacement histories first (get -> modify -> put back; the same helper twice; copy twice)
    r0 = {"size": 5, "seed": 7, "fn": "a.txt", "desc": "d", "cd": "D:20200101120000Z", "md": "", "mime": "text/plain"}
    z0 = dict(r0, size=0, seed=1)
    hists.append(([("put", "k1", r0), ("mod", "k1", "new", "b.bin"), ("same", "k1"), ("reread",), ("same", "k1"), ("rm", "k1")], None))
    hists.append(([("put2", "zero", z0), ("put2", "k1", r0), ("same", "zero"), ("reread",)], None))
    hists.append(([("put", "local", r0), ("bput", "doc", r0), ("bput", "bin", z0), ("copy", "p-"), ("copy", "p-"), ("reread",), ("copy", "p-"),
                   ("rm", "local")], None))
    hists.append(([("bput", "x", r0), ("copy", ""), ("rm", "x"), ("copy", "")], 3))          # known finding F4
    n = 60 if quick else 3000
    for j in range(n):
        hists.append(att_gen_history(rng, rng.choice([6, 10, 16]) if quick else rng.choice([8, 16, 30]), quirk_f4=(j % 15 == 7)))
    mats = [att_materialize(ops) for ops, _ in hists]
    impl = [ERR_RE.sub("err", o) for o in common.run_lines(drv, [m[0] for m in mats], shards=4)]
    spec = common.run_lines(runner, [m[1] for m in mats], shards=4)

    def run_one(ops):
        m = att_materialize(ops)
        i = ERR_RE.sub("err", common.run_lines(drv, [m[0]])[0])
        s_ = common.run_lines(runner, [m[1]])[0]
        return att_judge(ops, i, s_, m[2]), m

    def show(ops):
        return [" ".join([op[0]] + [repr(x) if isinstance(x, str) else "{%d bytes, %s}" % (x["size"], x["fn"]) for x in op[1:]]) for op in ops]
    nontriv = set()
    nbad = 0
    kinds = {}
    for (ops, f4), m, i, s_ in zip(hists, mats, impl, spec):
        for op in ops:
            kinds[op[0]] = kinds.get(op[0], 0) + 1
        if sum(1 for op in ops if op[0] in ("same", "mod", "put2", "copy")) >= 2:
            nontriv.add(m[0])
        v = att_judge(ops, i, s_, m[2])
        if v is None:
            continue
        step, why = v
        sig = "C18:attach-api:%s" % ops[step][0] if step < len(ops) else "C18:attach-api"
        if f4 is not None and step == f4 and ops[step][0] == "copy":
            sig = "C18:attach-api:recopy-after-remove"
        if chk.known_match(sig):
            chk.violation({}, signature=sig)
            chk.cov.setdefault("known_finding_examples", []).append({"signature": sig, "history": show(ops[:step + 1]), "why": why})
            continue
        nbad += 1
        small = ops[:step + 1]
        if nbad <= 3:
            changed = True
            while changed and len(small) > 1:      # greedy: drop single calls while the same kind of failure remains
                changed = False
                for j in range(len(small) - 1):
                    cand = small[:j] + small[j + 1:]
                    vv, _ = run_one(cand)
                    if vv is not None and vv[0] == len(cand) - 1:
                        small, changed = cand, True
                        break
        vv, mm = run_one(small)
        chk.violation({"kind": "property-fails-on-implementation", "part": "attachments-api", "why": why, "failing_step": step,
                       "history": show(ops[:step + 1]), "shrunk_history": show(small), "shrunk_why": vv[1] if vv else None,
                       "driver_line": mm[0], "specification_line": mm[1]}, signature=sig)
    chk.count("attachments-api", len(hists), nontriv, samples=[{"history": show(hists[0][0])}, {"history": show(hists[2][0])}])
    pc = chk.cov["parts"]["attachments-api"]
    pc["api_calls"] = sum(len(h[0]) for h in hists)
    pc["op_distribution"] = kinds


def run(chk):
    drv = os.path.join(common.DRV, "drv")
    runner = os.path.join(common.EXTRACT, "model_runner")
    chk.cov["rule"] = ("case = (tree kind, split threshold, starting tree, history of helper calls); after every call: result and content vs the "
                       "extracted sorted map, dumped dictionaries vs the extracted validity checker and vs the extracted model (structural). "
                       "exhaustive: all histories of the length bound over the full call alphabet on keys 1..5(6), thresholds 3,4,5, from empty, flat "
                       "and two/three-level starts; random: weighted histories (grow/mixed/shrink/iterator profiles) over key sets of 12..10^4 "
                       "numbers or Unicode/PDFDoc/UTF-16 names from empty, flat (also above the split bound) and generated multi-level valid "
                       "trees, plus ascending/descending bulk loads and full removals; large: threshold 32 (default) and others over 10^5 keys. "
                       "non-trivial = history during which the number of tree nodes changed (a split or a pruning), distinct by whole case. "
                       "repair: validate(true) on generated trees with swapped / duplicated / shuffled keys or wrong /Limits: result valid, content = sorted "
                       "map of the entries, structure = the model's rebuild by insertion with threshold 32; non-trivial = tree that had to be rebuilt. "
                       "attachments: sequences of qpdf invocations over 1..3 files, each with several --remove-attachment / --add-attachment [--replace] (also the "
                       "same key twice) / --copy-attachments-from [--prefix] sources (the same source or prefix twice, keys colliding between sources, distinct "
                       "prefixes), colliding / prefixed / non-ASCII keys, payloads of 0,1,4095,4096,4097 (thorough: 2^20) bytes; expected outcome (refused with "
                       "the offending keys, or the new key->record map) from the extracted Coq specification att_job; after every accepted step the key list, "
                       "every payload (--show-attachment), and names/description/dates/mime/checksum through --list-attachments --verbose and --json; "
                       "non-trivial = step leaving >= 2 attachments. "
                       "attachments-api: in-process histories over QPDFEmbeddedFileDocumentHelper / QPDFFileSpecObjectHelper / QPDFEFStreamObjectHelper on two "
                       "documents: replaceEmbeddedFile with a new file spec, with the same helper twice, get -> put back, get -> setDescription/setFilename -> "
                       "put back, removeEmbeddedFile, copyForeignObject of every attachment of the second document under a prefix (once and repeatedly), "
                       "QPDFWriter write + re-read; after every call the keys (document helper, fresh helper, getEmbeddedFile), payload bytes, /Size, checksum, "
                       "dates, MIME type, description and file names against the extracted att_hist_run; non-trivial = history with >= 2 self-replacing calls. "
                       "namecmp: NNTreeImpl::compareKeys (direct call, and through find on one-entry trees) on all ordered pairs of generated sets of stored "
                       "strings in every spelling (PDFDoc incl. 0x18-0x1f/0x7f-0xa0/0xad, UTF-16BE/LE marks, odd lengths, unpaired surrogates, UTF-8 mark with "
                       "valid/invalid payloads, near-marks, prefixes, NUL, one text in several spellings) = extracted nk_compare_names/nk_utf8_value; = order of the "
                       "texts per ISO 32000-2 7.9.2.2/Annex D where ISO gives a text; total-preorder laws on every set; non-trivial = distinct set of texts. "
                       "nameraw: histories on name trees whose stored keys use every spelling, API = extracted model on the stored strings with the modelled "
                       "compareKeys (structural) = sorted map over texts. namerepair: validate(true) on such trees (swapped, shuffled, one text twice in one or two "
                       "spellings, sorted byte-wise) = valid tree of the sorted map over texts = the model's rebuild; non-trivial = tree that had to be rebuilt")
    part_exhaustive(chk, drv, runner)
    part_random(chk, drv, runner)
    part_large(chk, drv, runner)
    part_repair(chk, drv, runner)
    c18_names.part_namecmp(chk, drv, runner)
    c18_names.part_nameraw(chk, drv, runner, sys.modules[__name__])
    c18_names.part_namerepair(chk, drv, runner, sys.modules[__name__])
    part_attach(chk)
    part_attach_api(chk, drv, runner)


def replay(chk, rep):
    drv = os.path.join(common.DRV, "drv")
    runner = os.path.join(common.EXTRACT, "model_runner")
    common.build_extract()
    case = rep.get("shrunk_case") or rep.get("case") or rep.get("first_case")
    print(json.dumps(rep, indent=1)[:3000])
    if case and "driver_line" in case:
        line = case["driver_line"]
        print("implementation:", common.run_lines(drv, [line])[0])
        if case["tree"] == "num":
            print("model         :", common.run_lines(runner, [line])[0])
            parts = line.split(" ")
            print("specification :", common.run_lines(runner, ["nnspec %s %s %s" % (parts[1], parts[3], parts[4])])[0])
    return 0
