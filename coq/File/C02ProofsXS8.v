(* C02 extension, part 8 (step 2b towards xs_write_read_strict): every compressed entry of the modelled cross-reference
   stream passes the strict reader's object-stream checks. *)
From QV Require Import Base.Bytes File.StrictSyntax File.ReadStrict File.WriterArith File.C02Proofs.
From QV Require Import Obj.Queue Obj.C01WriterProofs Obj.WriterModel Obj.WmPrinters Obj.WriterModelXS Obj.C01RoundtripProofs Obj.C01FileProofs.
From QV Require Import File.C02ProofsXS File.C02ProofsXS2 File.C02ProofsXS3 File.C02ProofsXS4 File.C02ProofsXS5 File.C02ProofsXS7.
From Coq Require Import Lia.
Local Open Scope N_scope.

Lemma xf_get_int : forall dct k x, dict_get dct k = Some (SpInt (Z.of_N x)) -> get_int dct k = Some x.
Proof.
  intros dct k x H. unfold get_int. rewrite H. destruct (0 <=? Z.of_N x)%Z eqn:E; [rewrite N2Z.id; reflexivity | apply Z.leb_gt in E; lia].
Qed.

(* Every compressed entry (n, stm, idx) of the cross-reference stream: stm is the number of an object stream that the strict
   reader parses at the offset its own in-use entry gives; its dictionary has /Type /ObjStm, /N, /First; its data is stored
   unfiltered; the header pairs parse; the pair at idx names n; and the member parses over its extent - exactly the checks of
   step 2 of read_strict. *)
Lemma xs_comp_entries_read_lemma : forall d, wf_doc d -> xs_eligible d <> [] ->
  forall n stm idx, In (n, XsIn stm idx) (xs_l_table (xs_L d)) ->
  let out := xs_out d in
  exists q o dct doff len nn first data pairs ooff v rest,
    In (stm, XsOff q) (xs_l_table (xs_L d))
    /\ (forall len_of, parse_indirect (length out) (N.of_nat (length out)) out q len_of = inl (Some o))
    /\ so_num o = stm /\ so_val o = SpDict dct /\ so_stream o = Some (doff, len)
    /\ dict_get dct n_Type = Some (SpName n_ObjStm) /\ get_int dct n_N = Some nn /\ get_int dct n_First = Some first
    /\ decode_struct_stream dct (firstn (N.to_nat len) (at_off out doff)) = Some data
    /\ objstm_pairs (N.to_nat nn) data [] = Some pairs
    /\ nth_error pairs (N.to_nat idx) = Some (n, ooff)
    /\ parse_obj (length out + length data)
         (firstn (match nth_error pairs (S (N.to_nat idx)) with
                  | Some (_, noff) => if ooff <? noff then N.to_nat (noff - ooff) else length data
                  | None => length data
                  end) (skipn (N.to_nat (first + ooff)) data)) = Some (v, rest).
Proof.
  intros d W Hel n stm idx Hin out.
  destruct (xe_tab_in d n stm idx Hin) as [k [q [m [Hl [Hstm [Hm Hn]]]]]].
  destruct (xe_item_read d W Hel (XsStm k) q Hl) as [o [Hp [Hnum [_ [_ [_ [Hval [doff [rest0 [Hstr Hat]]]]]]]]]].
  set (objs := d_objects d) in *. set (p := xs_P d) in *. set (ren := xs_renf d) in *.
  set (data := xs_ostm_data WUS WUN objs p ren k) in *.
  set (ms := xs_members p k) in *.
  pose proof (xe_lay_item d (XsStm k) q Hl) as Hit.
  assert (Hlo : (0 < length out)%nat).
  { unfold out. rewrite (xr_out_eq d Hel), !app_length. unfold xs_s_startxref. cbn [length]. lia. }
  (* the member's value *)
  set (vv := i_val (xs_lookup objs m)).
  assert (Hmem : In m ms) by (apply nth_error_In in Hm; exact Hm).
  destruct (xs_no_excluded_member_lemma d k m Hmem) as [Hns _].
  destruct W as [Hc Hobjs Htr Hst Hsb Hver Hids Hroot Hsize Hkeys Hnoprev Hnoxs].
  assert (Hwfv : wf_wobj vv).
  { unfold vv, xs_lookup. destruct (find_obj objs m) as [i0|] eqn:Hf; [| exact I].
    destruct (find_obj_in _ _ _ Hf) as [k0 Hk0]. unfold wf_doc_objs in Hobjs. rewrite Forall_forall in Hobjs. apply (Hobjs (k0, i0) Hk0). }
  assert (Hrefs : forall x, In x (refs_of objs vv) -> 0 < ren x).
  { intros x Hx.
    assert (Hch : In x (children (graph_of d) m)).
    { apply xe_children_printed. unfold xo_printed. rewrite Hns. exact Hx. }
    pose proof (xs_refs_numbered_lemma d (XsStm k) x) as Hr. rewrite xs_L_eq in Hr. cbn [xs_l_items xs_l_plan xs_l_ren xs_l_xref_id] in Hr.
    apply Hr; [exact Hit|]. cbn [xs_item_children]. apply in_flat_map. exists m. split; [exact Hmem | exact Hch]. }
  pose proof (xs_objstm_member_parses_lemma d k (N.to_nat idx) m (length out + length data)) as Hmp. cbv zeta in Hmp.
  rewrite xs_L_eq in Hmp. cbn [xs_l_plan xs_l_ren] in Hmp. fold objs p ren data ms vv in Hmp.
  destruct (Hmp Hm Hwfv Hrefs ltac:(lia)) as [pairs [ooff [Hpairs [Hplen [Hnth Hparse]]]]].
  (* consecutive numbers *)
  assert (Hcons : ren (hd 0 ms) + N.of_nat (N.to_nat idx) = n).
  { pose proof (xs_members_consecutive_lemma d k) as Hcs. rewrite xs_L_eq in Hcs. cbn [xs_l_items xs_l_plan xs_l_ren xs_l_sren] in Hcs.
    destruct (Hcs (N.to_nat idx) m Hit Hm) as [E1 _].
    assert (H0 : nth_error ms 0 = Some (hd 0 ms)) by (fold ms in Hm; destruct ms; [destruct (N.to_nat idx); discriminate | reflexivity]).
    destruct (Hcs O (hd 0 ms) Hit H0) as [E0 _]. fold ren in E0, E1. rewrite Hn, E1, E0. lia. }
  rewrite Hcons in Hnth.
  exists q, o, (xe_objstm_dict d k), doff, (N.of_nat (length data)), (N.of_nat (length ms)), (xs_ostm_first WUS WUN objs p ren k),
         data, pairs, ooff, (to_pobj objs ren vv), [10].
  assert (Htabq : In (stm, XsOff q) (xs_l_table (xs_L d))).
  { rewrite xs_L_eq. cbn [xs_l_table]. rewrite (xe_tab_eq d). apply in_flat_map. exists (XsStm k, q). split; [exact Hl|].
    cbn [fst snd xs_item_entries]. apply in_or_app. right. left. rewrite Hstm. reflexivity. }
  split; [exact Htabq|]. split; [exact Hp|]. split; [rewrite Hnum, Hstm; reflexivity|]. split; [exact Hval|]. split; [exact Hstr|].
  split; [reflexivity|]. split; [apply xf_get_int; reflexivity|]. split; [apply xf_get_int; reflexivity|].
  split.
  { unfold decode_struct_stream. change (dict_get (xe_objstm_dict d k) n_Filter) with (@None pobj).
    fold out in Hat. rewrite Hat, Nat2N.id, xs_firstn_exact. reflexivity. }
  split; [rewrite Nat2N.id; exact Hpairs|]. split; [exact Hnth|]. exact Hparse.
Qed.
