#!/usr/bin/env python3
# Copies the memo of the heavy (R6, Algorithm 2.B) extracted-code results computed by a check run
# (_build/c06_cache.json) into harness/c06_r6cache.json, which the quick tier of ./check C06 reads.
# The memo is keyed by the hash of the Coq sources and handlers that produce the results; a stale memo is ignored.
import json, os, sys
V = os.path.dirname(os.path.dirname(os.path.abspath(__file__)))
sys.path.insert(0, os.path.join(V, "harness"))
import c06
src = c06.source_hash()
local = os.path.join(V, "_build", "c06_cache.json")
j = json.load(open(local))
if j.get("src") != src:
    sys.exit("memo in _build is stale (sources changed): run ./check C06 first")
out = {"src": src, "lines": {}}
try:
    old = json.load(open(c06.CACHE_FILE))
    if old.get("src") == src:
        out["lines"].update(old["lines"])
except Exception:
    pass
out["lines"].update(j["lines"])
json.dump(out, open(c06.CACHE_FILE, "w"), indent=0, sort_keys=True)
print("wrote %s: %d lines, src %s" % (c06.CACHE_FILE, len(out["lines"]), src[:12]))
