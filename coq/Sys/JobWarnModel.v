(* C10 - "the files it processed": how QPDFJob turns the warnings about each of the files a job reads into the exit
   status.  Written from libqpdf/QPDFJob.cc:

     QPDFJob::copyAttachments   for each --copy-attachments-from file: processFile(other, ...); the loop over
                                other's embedded files (possibly empty); "if (other->anyWarnings()) m->warnings = true"
                                at the END of the loop body
     QPDFJob::createQPDF        handlePageSpecs ... handleTransformations (copyAttachments);
                                "m->warnings |= m->inputs.clear()"  (anyWarnings() of every file opened for --pages)
     QPDFJob::setWriterOptions  --copy-encryption: processFile(encryption_pdf); copyEncryptionParameters;
                                "if (encryption_pdf->anyWarnings()) m->warnings = true"  (/repo d4bc1464; before that
                                commit nobody looked at them: C08-F16)
     QPDFJob::doSplitPages      one QPDF `outpdf` per group of pages; the pages are copied into it and written by its
                                own Writer: a warning raised while a stream is decoded for the output is recorded on
                                outpdf; "if (outpdf.anyWarnings()) m->warnings = true" after each group is written
                                (/repo PENDING10; before that commit outpdf was destroyed without being asked:
                                C10-F1-split-pages-late-warnings)
     QPDFJob::writeQPDF         after writing: "!pdf.getWarnings().empty()" (main input: warnings raised while opening
                                it and while its data was read for the output), "uo.pdf->anyWarnings()" for every
                                --overlay / --underlay file
     QPDFJob::getExitCode       m->warnings && !warnings_exit_zero => 3

   A file is what it gave when read: warnings when opened (damaged cross-reference data: "file is damaged",
   reconstruction), warnings only when its stream data is decoded for the output (modelled for the main input), and
   whether it has embedded files.  No proofs here; names are prefixed c10j_. *)
From QV Require Import Base.Bytes.
From Coq Require Import Arith.
Local Open Scope nat_scope.

Record c10j_file := mk_c10j_file {
  c10j_open_warn : bool;     (* WARNING lines while processFile opens / repairs it *)
  c10j_has_att : bool }.     (* getEmbeddedFiles() is not empty *)

Record c10j_job := mk_c10j_job {
  c10j_main : option c10j_file;    (* None: --empty *)
  c10j_main_late : bool;           (* a stream of the main input fails to decode: WARNING lines when (and only when) the
                                      writer decodes it *)
  c10j_pages : list c10j_file;     (* files named after --pages, other than the main input *)
  c10j_uo : list c10j_file;        (* --overlay / --underlay *)
  c10j_attach : list c10j_file;    (* --copy-attachments-from, in command-line order *)
  c10j_enc : option c10j_file;     (* --copy-encryption *)
  c10j_split : bool;               (* --split-pages *)
  c10j_decode : bool;              (* the writer decodes stream data (--qdf, --stream-data=uncompress, ...) *)
  c10j_wx0 : bool }.               (* --warning-exit-0 *)

Definition c10j_opt (o : option c10j_file) : list c10j_file := match o with Some f => [f] | None => [] end.

(* copyAttachments: the body of the loop for one source file *)
Definition c10j_copy_from (f : c10j_file) (warnings : bool) : bool :=
  (* for (auto const& iter: other_attachments) { copy or remember the duplicate }: no effect on m->warnings,
     executed zero times when the file has no embedded files *)
  let _ := c10j_has_att f in
  if c10j_open_warn f then true else warnings.
Definition c10j_copy_attachments (fs : list c10j_file) (warnings : bool) : bool :=
  fold_left (fun acc f => c10j_copy_from f acc) fs warnings.

(* Inputs::clear() *)
Definition c10j_inputs_clear (fs : list c10j_file) : bool :=
  fold_left (fun acc f => acc || c10j_open_warn f) fs false.

(* the warnings recorded on the main QPDF object when writeQPDF asks for them *)
Definition c10j_main_warnings (j : c10j_job) : bool :=
  existsb c10j_open_warn (c10j_opt (c10j_main j)) ||
  (* decoding for the output happens inside Writer::write; with --split-pages the writer belongs to outpdf *)
  (c10j_main_late j && c10j_decode j && negb (c10j_split j)).

(* doSplitPages: the warnings recorded on a per-group outpdf while it was written, folded into m->warnings *)
Definition c10j_split_warnings (j : c10j_job) : bool :=
  c10j_split j && c10j_main_late j && c10j_decode j.

Definition c10j_uo_loop (fs : list c10j_file) (warnings : bool) : bool :=
  fold_left (fun acc f => if c10j_open_warn f then true else acc) fs warnings.

(* m->warnings at the end of the job *)
Definition c10j_warnings (j : c10j_job) : bool :=
  let w1 := c10j_copy_attachments (c10j_attach j) false in
  let w2 := w1 || c10j_inputs_clear (c10j_pages j) in
  (* setWriterOptions (called by writeOutfile, and once per group by doSplitPages) *)
  let w2e := if existsb c10j_open_warn (c10j_opt (c10j_enc j)) then true else w2 in
  let w2s := if c10j_split_warnings j then true else w2e in
  let w3 := if c10j_main_warnings j then true else w2s in
  c10j_uo_loop (c10j_uo j) w3.

Definition c10j_exit (j : c10j_job) : nat := if c10j_warnings j && negb (c10j_wx0 j) then 3 else 0.
