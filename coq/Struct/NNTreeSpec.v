(* Specification side of C18, written from ISO 32000-1 7.9.6/7.9.7 (name trees, number trees) and the
   comments of include/qpdf/QPDF{Name,Number}TreeObjectHelper.hh -- not from NNTree.cc.

   1. An ordinary sorted map (association list kept strictly ascending) with a cursor, and what
      each helper call must return on it.
   2. Validity of a stored tree per the PDF specification (wf), as a Prop and as an executable
      checker that is also run on the dictionaries dumped from the real library.
   The only thing shared with the model is the shape of the dumped tree (nnode). *)
From QV Require Import Base.Bytes Struct.NNTreeModel.
Local Open Scope Z_scope.

Section NNSpec.
  Variable K : Type.
  Variable kcmp : K -> K -> comparison.

  Definition k_lt (a b : K) : bool := match kcmp a b with Lt => true | _ => false end.
  Definition k_eq (a b : K) : bool := match kcmp a b with Eq => true | _ => false end.
  Definition k_le (a b : K) : bool := match kcmp a b with Gt => false | _ => true end.

  (* ------------------------------------------------------------ the sorted map *)
  Definition smap := list (K * Z).

  Definition sm_below (k : K) (m : smap) : smap := filter (fun e => k_lt (fst e) k) m.
  Definition sm_above (k : K) (m : smap) : smap := filter (fun e => k_lt k (fst e)) m.
  Definition sm_at (k : K) (m : smap) : option (K * Z) := hd_error (filter (fun e => k_eq (fst e) k) m).

  Definition sm_insert (k : K) (v : Z) (m : smap) : smap := sm_below k m ++ (k, v) :: sm_above k m.
  Definition sm_remove (k : K) (m : smap) : smap := sm_below k m ++ sm_above k m.
  Definition sm_first (m : smap) : option (K * Z) := hd_error m.
  Definition sm_last (m : smap) : option (K * Z) := hd_error (rev' m).
  Definition sm_succ (k : K) (m : smap) : option (K * Z) := sm_first (sm_above k m).
  Definition sm_pred (k : K) (m : smap) : option (K * Z) := sm_last (sm_below k m).
  (* the entry with the greatest key <= k *)
  Definition sm_floor (k : K) (m : smap) : option (K * Z) :=
    match sm_at k m with Some e => Some e | None => sm_pred k m end.

  Fixpoint sm_sorted (m : smap) : bool :=
    match m with
    | [] => true
    | (a, _) :: r => match r with
                     | [] => true
                     | (b, _) :: _ => k_lt a b && sm_sorted r
                     end
    end.

  (* cursor: the key the current iterator points at, None = end() *)
  Record smst := SmSt { sm_map : smap; sm_cur : option K; sm_unspec : bool }.

  Definition sm_entry (m : smap) (c : option K) : option (K * Z) :=
    match c with Some k => sm_at k m | None => None end.

  (* What the documentation promises for each call.  insertAfter is only specified when the
     new key belongs right after the cursor ("you must ensure that the item you are inserting
     belongs where you are putting it"; at end(): "insert at the beginning"); otherwise
     sm_unspec is raised and nothing is required from then on. *)
  Definition sm_step (op : nnop K) (s : smst) : nnres K * smst :=
    let m := sm_map s in
    let goto (e : option (K * Z)) (m' : smap) :=
      (RIter e, SmSt m' (option_map fst e) (sm_unspec s)) in
    match op with
    | OpInsert k v => goto (Some (k, v)) (sm_insert k v m)
    | OpRemove k => (RRemoved (option_map snd (sm_at k m)), SmSt (sm_remove k m) None (sm_unspec s))
    | OpFind k => goto (sm_at k m) m
    | OpFindLE k => goto (sm_floor k m) m
    | OpBegin => goto (sm_first m) m
    | OpLast => goto (sm_last m) m
    | OpEnd => goto None m
    | OpNext => match sm_cur s with
                | None => goto (sm_first m) m        (* "Incrementing end() brings you to the first item" *)
                | Some c => goto (sm_succ c m) m
                end
    | OpPrev => match sm_cur s with
                | None => goto (sm_last m) m         (* "Decrementing end() brings you to the last item" *)
                | Some c => goto (sm_pred c m) m
                end
    | OpInsAfter k v =>
        let fits := match sm_cur s with
                    | None => match sm_first m with Some (f, _) => k_lt k f | None => true end
                    | Some c => k_lt c k && match sm_succ c m with Some (n, _) => k_lt k n | None => true end
                    end in
        if fits then goto (Some (k, v)) (sm_insert k v m)
        else (RIter (Some (k, v)), SmSt m (sm_cur s) true)
    | OpIterRemove =>
        match sm_cur s with
        | None => (RErr, s)        (* removing through an invalid iterator is refused *)
        | Some c => goto (sm_succ c m) (sm_remove c m)
        end
    end.

  Fixpoint sm_run_acc (ops : list (nnop K)) (s : smst) (acc : list (nnres K * bool * smap))
    : list (nnres K * bool * smap) :=
    match ops with
    | [] => rev' acc
    | op :: ops' => let '(r, s') := sm_step op s in
                    sm_run_acc ops' s' ((r, sm_unspec s', sm_map s') :: acc)
    end.
  Definition sm_run (m0 : smap) (ops : list (nnop K)) := sm_run_acc ops (SmSt m0 None false) [].

  (* ------------------------------------------------------------ stored-tree validity *)
  (* all entries beneath a node, in document order *)
  Fixpoint nn_abs (n : nnode K) : smap :=
    match n with
    | NLeaf _ items => items
    | NInner _ kids => flat_map nn_abs kids
    end.

  Definition lim_ok (lim : option (K * K)) (m : smap) : bool :=
    match lim, sm_first m, sm_last m with
    | Some (lo, hi), Some (a, _), Some (b, _) => k_eq lo a && k_eq hi b
    | _, _, _ => false
    end.

  (* a node that is not the root: /Limits = least and greatest key beneath, not empty, kids are
     themselves valid intermediate/leaf nodes *)
  Fixpoint wf_sub (n : nnode K) : bool :=
    match n with
    | NLeaf lim items => negb (match items with [] => true | _ => false end) && lim_ok lim items
    | NInner lim kids =>
        negb (match kids with [] => true | _ => false end) && forallb wf_sub kids
        && lim_ok lim (flat_map nn_abs kids)
    end.

  Definition no_lim (n : nnode K) : bool := match nn_lim K n with None => true | Some _ => false end.

  Definition wf_tree (root : nnode K) : bool :=
    no_lim root && sm_sorted (nn_abs root)
    && match root with
       | NLeaf _ _ => true                       (* an empty root leaf is the empty tree *)
       | NInner _ kids => negb (match kids with [] => true | _ => false end) && forallb wf_sub kids
       end.

  (* node sizes within the split bound: at most t kids, at most t pairs (2t array slots) *)
  Fixpoint size_ok (t : Z) (n : nnode K) : bool :=
    match n with
    | NLeaf _ items => nn_zlen items <=? t
    | NInner _ kids => (nn_zlen kids <=? t) && forallb (size_ok t) kids
    end.

  (* verdict code for a dumped tree: 0 ok, otherwise the first failing clause *)
  Definition wf_code (t : Z) (root : nnode K) : Z :=
    if negb (no_lim root) then 1                       (* /Limits on the root *)
    else if negb (sm_sorted (nn_abs root)) then 2      (* keys not strictly ascending *)
    else if negb (wf_tree root) then 3                 (* empty non-root node or wrong /Limits *)
    else if negb (size_ok t root) then 4               (* node larger than the split bound *)
    else 0.

  (* a generator-made tree given without /Limits gets the valid ones *)
  Definition seal_lim (m : smap) : option (K * K) :=
    match sm_first m, sm_last m with
    | Some (a, _), Some (b, _) => Some (a, b)
    | _, _ => None
    end.
  Fixpoint seal_sub (n : nnode K) : nnode K :=
    match n with
    | NLeaf _ items => NLeaf (seal_lim items) items
    | NInner _ kids => NInner (seal_lim (flat_map nn_abs kids)) (map seal_sub kids)
    end.
  Definition seal_root (n : nnode K) : nnode K :=
    match n with
    | NLeaf _ items => NLeaf None items
    | NInner _ kids => NInner None (map seal_sub kids)
    end.
End NNSpec.
