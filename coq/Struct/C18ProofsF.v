(* C18 proofs, part 7: consequences of the attachment-job specification used as oracle for the CLI. *)
From QV Require Import Base.Bytes Struct.NNTreeModel Struct.NNTreeSpec Struct.AttachSpec Struct.C18Proofs Struct.C18ProofsD.
Local Open Scope Z_scope.

Lemma a_has_ins : forall k rid m, a_has k (sm_insert akey nn_scmp k rid m) = true.
Proof.
  intros. unfold a_has. rewrite (sm_at_insert_same akey nn_scmp nn_scmp_antisym). reflexivity.
Qed.

(* --add-attachment --replace: afterwards the key holds the new record *)
Lemma att_add_replace_lookup_lemma : forall k rid m m',
  att_job [] [(true, k, rid)] [] m = AttOk m' -> sm_at akey nn_scmp k m' = Some (k, rid).
Proof.
  intros k rid m m' H. unfold att_job in H. simpl in H. injection H as <-.
  apply (sm_at_insert_same akey nn_scmp nn_scmp_antisym).
Qed.

(* --add-attachment without --replace on an existing key is refused and names the key; so is the second
   of two additions of one new key in the same invocation *)
Lemma att_add_collision_refused_lemma : forall k r1 r2 m,
  (a_has k m = true -> att_job [] [(false, k, r1)] [] m = AttRefused [k]) /\
  (a_has k m = false -> att_job [] [(false, k, r1); (false, k, r2)] [] m = AttRefused [k]).
Proof.
  intros k r1 r2 m. split; intros H; unfold att_job; simpl; rewrite H; simpl.
  - reflexivity.
  - rewrite a_has_ins. reflexivity.
Qed.

(* two --copy-attachments-from sources of one invocation that carry the same (prefixed) key collide with
   EACH OTHER even when the destination does not have the key *)
Lemma att_copy_sources_collide_lemma : forall p k r1 r2 m,
  a_has (p ++ k) m = false ->
  att_job [] [] [(p, [(k, r1)]); (p, [(k, r2)])] m = AttRefused [p ++ k].
Proof.
  intros p k r1 r2 m H. unfold att_job. simpl. rewrite H. simpl. rewrite a_has_ins. reflexivity.
Qed.

(* putting back the file specification a key already holds (get -> put back, or the same helper handed
   to replaceEmbeddedFile twice) leaves the key in place with the same record *)
Lemma att_put_same_keeps_lemma : forall k rid a b,
  sm_at akey nn_scmp k a = Some (k, rid) ->
  fst (att_step (APutSame k) (a, b)) = true /\
  sm_at akey nn_scmp k (fst (snd (att_step (APutSame k) (a, b)))) = Some (k, rid) /\
  forall rid2, sm_at akey nn_scmp k (fst (snd (att_step (APutSame k) (snd (att_step (APut k rid2) (a, b)))))) = Some (k, rid2).
Proof.
  intros k rid a b H. unfold att_step, a_has. rewrite H. simpl. repeat split.
  - apply (sm_at_insert_same akey nn_scmp nn_scmp_antisym).
  - intros rid2. rewrite (sm_at_insert_same akey nn_scmp nn_scmp_antisym). simpl.
    apply (sm_at_insert_same akey nn_scmp nn_scmp_antisym).
Qed.

(* copying the attachments of B twice under the same prefix gives the same keys as copying once *)
Lemma att_copy_twice_lookup_lemma : forall p k rid a,
  sm_at akey nn_scmp (p ++ k) (att_copy_all p [(k, rid)] (att_copy_all p [(k, rid)] a)) = Some (p ++ k, rid).
Proof. intros. simpl. apply (sm_at_insert_same akey nn_scmp nn_scmp_antisym). Qed.
