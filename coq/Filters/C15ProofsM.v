(* C15 extension, layers 2 and 3 of lzw_decode_encode:
   layer 2 - the bit packing of the reference encoder (LzwSpec.pack_codes: MSB first, final partial byte padded
   with zero bits) is undone by the model of Pl_LZWDecoder's 3-byte ring reader (lzw_step / lzw_send), for every
   list of (code, width) pairs whose widths are the decoder's code sizes;
   layer 3 - composition with layer 1 (C15ProofsL.v): lzw_decode_encode for all byte strings. *)
From QV Require Import Base.Bytes Filters.Filters Filters.FilterSpec Filters.LzwSpec Filters.LzwCodes.
From Coq Require Import Lia.
From QV Require Import Filters.C15ProofsA Filters.C15ProofsB Filters.C15ProofsL.
Local Open Scope N_scope.

Notation lzi_bits := bits_of_byte_fuel.

(* ================= MSB-first bit lists ================= *)
Lemma lzi_bits_length : forall n v, length (lzi_bits n v) = n.
Proof. induction n as [|n IH]; intros v; cbn [bits_of_byte_fuel length]; [reflexivity|]. rewrite IH. reflexivity. Qed.

Lemma lzi_bits_split : forall a b v, lzi_bits (a + b) v = lzi_bits a (v / 2 ^ N.of_nat b) ++ lzi_bits b v.
Proof.
  induction a as [|a IH]; intros b v; [reflexivity|].
  cbn [Nat.add bits_of_byte_fuel app]. rewrite IH. f_equal.
  rewrite N.div_pow2_bits. f_equal. lia.
Qed.

Lemma lzi_bits_mod_gen : forall k n v, (k <= n)%nat -> lzi_bits k (v mod 2 ^ N.of_nat n) = lzi_bits k v.
Proof.
  induction k as [|k IH]; intros n v Hk; [reflexivity|].
  cbn [bits_of_byte_fuel]. rewrite IH by lia. f_equal.
  apply N.mod_pow2_bits_low. lia.
Qed.

Lemma lzi_bits_zero : forall n, lzi_bits n 0 = repeat false n.
Proof. induction n as [|n IH]; [reflexivity|]. cbn [bits_of_byte_fuel repeat]. rewrite IH, N.bits_0. reflexivity. Qed.

Lemma lzi_mod_pow2_succ : forall v k, v mod 2 ^ N.succ k = v mod 2 ^ k + 2 ^ k * N.b2n (N.testbit v k).
Proof.
  intros v k. rewrite N.pow_succ_r', N.mul_comm.
  rewrite N.mod_mul_r by (try apply N.pow_nonzero; lia).
  rewrite N.testbit_spec'. reflexivity.
Qed.

Lemma lzi_val_bits : forall n v, valacc 0 (lzi_bits n v) = v mod 2 ^ N.of_nat n.
Proof.
  induction n as [|n IH]; intros v.
  - cbn. rewrite N.mod_1_r. reflexivity.
  - cbn [bits_of_byte_fuel]. unfold valacc. cbn [fold_left]. fold (valacc (2 * 0 + (if N.testbit v (N.of_nat n) then 1 else 0)) (lzi_bits n v)).
    rewrite valacc_shift, IH, lzi_bits_length, Nat2N.inj_succ, lzi_mod_pow2_succ.
    destruct (N.testbit v (N.of_nat n)); cbn [N.b2n]; lia.
Qed.

Lemma lzi_valacc_bound : forall l acc, valacc acc l < (acc + 1) * 2 ^ N.of_nat (length l).
Proof.
  induction l as [|b l IH]; intros acc.
  - cbn [valacc fold_left length N.of_nat]. unfold valacc. cbn [fold_left]. rewrite N.pow_0_r. lia.
  - unfold valacc in *. cbn [fold_left length]. rewrite Nat2N.inj_succ, N.pow_succ_r'.
    eapply N.lt_le_trans; [apply IH|].
    rewrite N.mul_assoc. apply N.mul_le_mono_r. destruct b; lia.
Qed.

Lemma lzi_bits_of_bytes_app : forall a b, bits_of_bytes (a ++ b) = bits_of_bytes a ++ bits_of_bytes b.
Proof. intros. unfold bits_of_bytes. rewrite map_app, concat_app. reflexivity. Qed.

Lemma lzi_bits_of_bytes_cons : forall b t, bits_of_bytes (b :: t) = lzi_bits 8 b ++ bits_of_bytes t.
Proof. reflexivity. Qed.

Lemma lzi_pow_split : forall a b, b <= a -> 2 ^ a = 2 ^ b * 2 ^ (a - b).
Proof. intros a b H. rewrite <- N.pow_add_r. f_equal. lia. Qed.

(* ================= the packer of the reference encoder ================= *)
(* joining a code to the pending bits *)
Lemma lzi_join : forall nbits acc w code, acc < 2 ^ nbits -> code < 2 ^ w ->
  lzi_bits (N.to_nat (nbits + w)) (acc * 2 ^ w + code) = lzi_bits (N.to_nat nbits) acc ++ lzi_bits (N.to_nat w) code
  /\ acc * 2 ^ w + code < 2 ^ (nbits + w).
Proof.
  intros nbits acc w code Ha Hc. split.
  - rewrite N2Nat.inj_add, lzi_bits_split, N2Nat.id.
    assert (Hp : 2 ^ w <> 0) by (apply N.pow_nonzero; lia).
    f_equal.
    + f_equal. rewrite N.div_add_l by exact Hp. rewrite N.div_small by exact Hc. lia.
    + rewrite <- (lzi_bits_mod_gen _ (N.to_nat w)) by lia. rewrite N2Nat.id.
      rewrite N.add_comm, N.mod_add by exact Hp. rewrite N.mod_small by exact Hc. reflexivity.
  - rewrite N.pow_add_r.
    assert (acc * 2 ^ w + 2 ^ w <= 2 ^ nbits * 2 ^ w); [|lia].
    replace (acc * 2 ^ w + 2 ^ w) with ((acc + 1) * 2 ^ w) by lia. apply N.mul_le_mono_r. lia.
Qed.

(* flushing the top byte *)
Lemma lzi_flush : forall nb acc, 8 <= nb -> acc < 2 ^ nb ->
  acc / 2 ^ (nb - 8) < 256 /\ acc mod 2 ^ (nb - 8) < 2 ^ (nb - 8) /\
  lzi_bits (N.to_nat nb) acc = lzi_bits 8 (acc / 2 ^ (nb - 8)) ++ lzi_bits (N.to_nat (nb - 8)) (acc mod 2 ^ (nb - 8)).
Proof.
  intros nb acc Hnb Ha.
  assert (Hp : 2 ^ (nb - 8) <> 0) by (apply N.pow_nonzero; lia).
  split; [|split].
  - apply N.div_lt_upper_bound; [exact Hp|]. rewrite (lzi_pow_split nb (nb - 8)) in Ha by lia.
    replace (nb - (nb - 8)) with 8 in Ha by lia. exact Ha.
  - apply N.mod_lt. exact Hp.
  - replace (N.to_nat nb) with (8 + N.to_nat (nb - 8))%nat by lia.
    rewrite lzi_bits_split, N2Nat.id. f_equal.
    rewrite <- (lzi_bits_mod_gen _ (N.to_nat (nb - 8))) by lia. rewrite N2Nat.id. reflexivity.
Qed.

Definition lzi_cw_ok (cw : N * N) : Prop := snd cw <= 16 /\ fst cw < 2 ^ snd cw.

Lemma lzi_rev'_cons : forall (x : N) l, rev' (x :: l) = rev' l ++ [x].
Proof. intros. rewrite !rev'_rev. reflexivity. Qed.

Lemma lzi_bytes_ok_snoc : forall l x, bytes_ok l -> x < 256 -> bytes_ok (l ++ [x]).
Proof. intros l x Hl Hx. apply Forall_app. split; [exact Hl|]. constructor; [exact Hx|constructor]. Qed.

(* pack_codes: the output is the bit string of the pending bits and of the codes, MSB first, then zero bits
   up to the byte boundary *)
Lemma lzi_pack_spec : forall cws acc nbits out_rev fuel,
  nbits < 8 -> acc < 2 ^ nbits -> Forall lzi_cw_ok cws -> bytes_ok (rev' out_rev) ->
  exists npad, (npad < 8)%nat /\ bytes_ok (pack_codes cws acc nbits out_rev fuel) /\
    bits_of_bytes (pack_codes cws acc nbits out_rev fuel)
    = bits_of_bytes (rev' out_rev) ++ lzi_bits (N.to_nat nbits) acc ++ lzi_cbits cws ++ repeat false npad.
Proof.
  induction cws as [|[code w] r IH]; intros acc nbits out_rev fuel Hnb Hacc Hcws Hout.
  - cbn [pack_codes lzi_cbits flat_map app]. destruct (N.eqb_spec nbits 0) as [E|E].
    + subst nbits. exists 0%nat. split; [lia|]. split; [exact Hout|].
      cbn [N.to_nat bits_of_byte_fuel repeat app]. rewrite app_nil_r. reflexivity.
    + exists (N.to_nat (8 - nbits)). split; [lia|].
      assert (Hp : 2 ^ (8 - nbits) <> 0) by (apply N.pow_nonzero; lia).
      assert (Hlt : acc * 2 ^ (8 - nbits) < 256).
      { change 256 with (2 ^ 8). rewrite (lzi_pow_split 8 nbits) by lia.
        apply N.mul_lt_mono_pos_r; [lia|exact Hacc]. }
      rewrite N.mod_small by exact Hlt. rewrite lzi_rev'_cons. split.
      * apply lzi_bytes_ok_snoc; assumption.
      * rewrite lzi_bits_of_bytes_app. f_equal. rewrite lzi_bits_of_bytes_cons. unfold bits_of_bytes. cbn [map concat].
        rewrite app_nil_r.
        replace 8%nat with (N.to_nat nbits + N.to_nat (8 - nbits))%nat at 1 by lia.
        rewrite lzi_bits_split, N2Nat.id. rewrite N.div_mul by exact Hp. f_equal.
        rewrite <- (lzi_bits_mod_gen _ (N.to_nat (8 - nbits))) by lia. rewrite N2Nat.id.
        rewrite N.mod_mul by exact Hp. apply lzi_bits_zero.
  - inversion Hcws as [|? ? [Hw Hc] Hcws']; subst. cbn [fst snd] in Hw, Hc.
    cbn [pack_codes lzi_cbits flat_map fst snd]. fold (lzi_cbits r).
    destruct (lzi_join nbits acc w code Hacc Hc) as [Hj Hjb].
    set (acc' := acc * 2 ^ w + code) in *. set (nb := nbits + w) in *.
    assert (Hgoal : forall acc2 nb2 out2, nb2 < 8 -> acc2 < 2 ^ nb2 -> bytes_ok (rev' out2) ->
              bits_of_bytes (rev' out2) ++ lzi_bits (N.to_nat nb2) acc2
              = bits_of_bytes (rev' out_rev) ++ lzi_bits (N.to_nat nbits) acc ++ lzi_bits (N.to_nat w) code ->
              exists npad, (npad < 8)%nat /\ bytes_ok (pack_codes r acc2 nb2 out2 fuel) /\
                bits_of_bytes (pack_codes r acc2 nb2 out2 fuel)
                = bits_of_bytes (rev' out_rev) ++ lzi_bits (N.to_nat nbits) acc ++ (lzi_bits (N.to_nat w) code ++ lzi_cbits r) ++ repeat false npad).
    { intros acc2 nb2 out2 H1 H2 H3 H4.
      destruct (IH acc2 nb2 out2 fuel H1 H2 Hcws' H3) as (npad & Hn & Hb & Hbits).
      exists npad. split; [exact Hn|]. split; [exact Hb|].
      rewrite Hbits. rewrite (app_assoc (bits_of_bytes (rev' out2))), H4, <- !app_assoc. reflexivity. }
    destruct (N.leb_spec 8 nb) as [E1|E1].
    + destruct (lzi_flush nb acc' E1 Hjb) as (Hb1 & Ha1 & Hf1).
      set (acc1 := acc' mod 2 ^ (nb - 8)) in *. set (byte1 := acc' / 2 ^ (nb - 8)) in *.
      destruct (N.leb_spec 8 (nb - 8)) as [E2|E2].
      * destruct (lzi_flush (nb - 8) acc1 E2 Ha1) as (Hb2 & Ha2 & Hf2).
        apply Hgoal; [lia|exact Ha2| |].
        -- rewrite !lzi_rev'_cons. apply lzi_bytes_ok_snoc; [apply lzi_bytes_ok_snoc; assumption|exact Hb2].
        -- rewrite !lzi_rev'_cons, !lzi_bits_of_bytes_app. rewrite <- !app_assoc.
           f_equal. rewrite <- Hj, Hf1, Hf2. unfold bits_of_bytes. cbn [map concat]. rewrite !app_nil_r, <- ?app_assoc. reflexivity.
      * apply Hgoal; [lia|exact Ha1| |].
        -- rewrite lzi_rev'_cons. apply lzi_bytes_ok_snoc; assumption.
        -- rewrite lzi_rev'_cons, lzi_bits_of_bytes_app. rewrite <- !app_assoc.
           f_equal. rewrite <- Hj, Hf1. unfold bits_of_bytes. cbn [map concat]. rewrite !app_nil_r. reflexivity.
    + replace (8 <=? nb) with false by (symmetry; apply N.leb_gt; exact E1).
      apply Hgoal; [exact E1|exact Hjb|exact Hout|]. rewrite Hj. reflexivity.
Qed.
