(* C02 extension, part 9: the merged cross-reference table the strict reader builds from the decoded section. *)
From QV Require Import Base.Bytes File.StrictSyntax File.ReadStrict File.WriterArith File.C02Proofs.
From QV Require Import Obj.Queue Obj.WriterModel Obj.WmPrinters Obj.WriterModelXS Obj.C01RoundtripProofs Obj.C01FileProofs.
From QV Require Import File.C02ProofsXS.
From Coq Require Import Lia FinFun.
Local Open Scope N_scope.

Lemma xm_numbered_keys : forall es num, map fst (xs_numbered num es) = map (fun j => num + N.of_nat j) (seq 0 (length es)).
Proof.
  induction es as [|e es IH]; intros num; [reflexivity|]. cbn [xs_numbered map fst length seq]. f_equal; [lia|].
  rewrite IH, <- seq_shift, map_map. apply map_ext. intros j. lia.
Qed.

Lemma xm_numbered_nodup : forall es num, NoDup (map fst (xs_numbered num es)).
Proof.
  intros es num. rewrite xm_numbered_keys. apply Injective_map_NoDup; [| apply seq_NoDup].
  intros a b H. lia.
Qed.

(* The table the strict reader merges from the single section is the decoded entry list itself, in object-number order,
   with pairwise distinct numbers 0 .. Size-1; its highest number + 1 is the number of entries. *)
Lemma xs_merged_table_lemma : forall es,
  merge_x [] (rev (xs_numbered 0 es)) = xs_numbered 0 es
  /\ NoDup (map fst (xs_numbered 0 es))
  /\ (es <> [] -> max_num (xs_numbered 0 es) 0 + 1 = N.of_nat (length es)).
Proof.
  intros es. split; [| split].
  - rewrite merge_x_rev; [rewrite rev_involutive, app_nil_r; reflexivity|]. rewrite app_nil_r, map_rev.
    apply NoDup_rev. apply xm_numbered_nodup.
  - apply xm_numbered_nodup.
  - intros Hne. rewrite max_num_fold, xm_numbered_keys.
    replace (map (fun j => 0 + N.of_nat j) (seq 0 (length es))) with (map N.of_nat (seq 0 (length es))) by (apply map_ext; intros; lia).
    destruct (fold_max_seq (length es) 0 0) as [H | H]; [rewrite H; destruct es; [congruence | cbn [length]; lia]|].
    destruct es; [congruence | discriminate].
Qed.
