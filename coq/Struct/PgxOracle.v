(* C13 extension - executable specification functions (extracted as oracles; no proofs here).

   pgx_leaves: ISO 32000-1 7.7.3.2/7.7.3.3: a page tree node is a dictionary with /Kids; "the
   leaves of the tree, taken in order, are the pages of the document".  A kid is an interior node
   exactly when it is a dictionary that has /Kids.  The result is the list of content markers
   (/Mk, None when there is none) of the leaves in document order, or None when what hangs under
   the node is not a tree of dictionaries (a kid that is no dictionary, /Kids that is no array, a
   loop or nesting deeper than the fuel).  Written from the standard, not from QPDF_pages.cc: it
   repairs nothing and knows no cache. *)
From QV Require Import Base.Bytes Struct.PgModel.
Local Open Scope N_scope.

Definition pgx_mk_of (s : pg_store) (dk : pg_dict) : option Z :=
  match pg_rv s (pg_dget dk pgk_Mk) with PvInt z => Some z | _ => None end.

Fixpoint pgx_leaves (fuel : nat) (s : pg_store) (node : pg_val) : option (list (option Z)) :=
  match fuel with
  | O => None
  | S f =>
    match pg_rv s node with
    | PvDict d =>
        match pg_rv s (pg_dget d pgk_Kids) with
        | PvArr l =>
            fold_right (fun kid acc =>
              match acc with
              | None => None
              | Some rest =>
                  match pg_rv s kid with
                  | PvDict dk =>
                      if pg_is_null s (pg_dget dk pgk_Kids)
                      then Some (pgx_mk_of s dk :: rest)
                      else match pgx_leaves f s kid with Some x => Some (x ++ rest) | None => None end
                  | _ => None
                  end
              end) (Some []) l
        | _ => None
        end
    | _ => None
    end
  end.

(* the page list a document shows: the leaves under the catalog's /Pages *)
Definition pgx_doc_leaves (p : pg_doc) : option (list (option Z)) :=
  pgx_leaves 42 (pd_store p) (pg_root_pages p).
