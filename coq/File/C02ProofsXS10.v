(* C02 extension, part 10 (step 5): assembly of xs_write_read_strict - the strict reader accepts the whole output of the
   object-stream / xref-stream writer model and returns the written document. *)
From QV Require Import Base.Bytes File.StrictSyntax File.ReadStrict File.WriterArith File.C02Proofs.
From QV Require Import Obj.Queue Obj.C01WriterProofs Obj.WriterModel Obj.WmPrinters Obj.WriterModelXS Obj.C01RoundtripProofs Obj.C01FileProofs.
From QV Require Import File.C02ProofsXS File.C02ProofsXS2 File.C02ProofsXS3 File.C02ProofsXS4 File.C02ProofsXS5 File.C02ProofsXS6
  File.C02ProofsXS7 File.C02ProofsXS8 File.C02ProofsXS9.
From Coq Require Import Lia.
Local Open Scope N_scope.

(* ---------- generic: a fold of a checker over a list all of whose elements pass ---------- *)
Lemma xa_fold_rel : forall (A B E : Type) (F : list B + E -> A -> list B + E) (R : A -> list B -> Prop) l acc,
  (forall ke, In ke l -> exists r, R ke r /\ (length r <= 1)%nat /\ forall objs, F (inl objs) ke = inl (r ++ objs)) ->
  exists rs, Forall2 R l rs /\ fold_left F l (inl acc) = inl (rev (concat rs) ++ acc).
Proof.
  intros A B E F R. induction l as [|ke t IH]; intros acc H.
  - exists []. split; [constructor | reflexivity].
  - destruct (H ke (or_introl eq_refl)) as [r [Hr [Hl Hf]]].
    destruct (IH (r ++ acc)) as [rs [H1 H2]]; [intros x Hx; apply H; right; exact Hx|].
    exists (r :: rs). split; [constructor; assumption|]. cbn [fold_left concat]. rewrite Hf, H2, rev_app_distr, <- app_assoc.
    f_equal. f_equal. destruct r as [|a [|b r']]; [reflexivity | reflexivity | cbn in Hl; lia].
Qed.

Lemma xa_find_unique : forall (l : list sobj) o, NoDup (map so_num l) -> In o l ->
  find (fun o' => so_num o' =? so_num o) l = Some o.
Proof.
  induction l as [|a l IH]; intros o Hnd Hin; [contradiction|]. cbn [map] in Hnd. inversion Hnd as [|? ? H1 H2]; subst.
  cbn [find]. destruct Hin as [-> | Hin]; [rewrite N.eqb_refl; reflexivity|].
  destruct (so_num a =? so_num o) eqn:E; [| apply IH; assumption].
  apply N.eqb_eq in E. exfalso. apply H1. rewrite E. apply in_map. exact Hin.
Qed.

(* ---------- the merged table, by object number ---------- *)
Lemma xa_numbered_app : forall l1 l2 a, xs_numbered a (l1 ++ l2) = xs_numbered a l1 ++ xs_numbered (a + N.of_nat (length l1)) l2.
Proof.
  induction l1 as [|e l1 IH]; intros l2 a; [cbn; rewrite N.add_0_r; reflexivity|].
  cbn [app xs_numbered length]. rewrite IH. f_equal. f_equal. f_equal. lia.
Qed.

Lemma xa_numbered_seq : forall (f : N -> xs_xent) n s,
  xs_numbered (N.of_nat s) (map (fun j => f (N.of_nat j)) (seq s n))
  = map (fun x => (x, xs_to_xentry (f x))) (xn_range (N.of_nat s) n).
Proof.
  intros f. induction n as [|n IH]; intros s; [reflexivity|]. cbn [seq map xs_numbered xn_range]. f_equal.
  replace (N.of_nat s + 1) with (N.of_nat (S s)) by lia. apply IH.
Qed.

Definition xa_g (d : doc) (n : N) : N * xentry := (n, xs_to_xentry (xs_lookup_ent (xs_l_table (xs_L d)) n)).

Lemma xa_XR_form : forall d,
  xs_numbered 0 (xs_l_entries (xs_L d))
  = (0, XFree 0 0) :: map (xa_g d) (xn_range 1 (N.to_nat (xs_l_xref_id (xs_L d)) - 1))
    ++ [(xs_l_xref_id (xs_L d), XInUse (xs_l_xref_off (xs_L d)) 0)].
Proof.
  intros d. unfold xa_g. rewrite xs_L_eq. cbn [xs_l_entries xs_l_xref_id xs_l_xref_off xs_l_table].
  cbn [xs_numbered xs_to_xentry]. f_equal. rewrite xa_numbered_app. f_equal.
  - change (0 + 1) with (N.of_nat 1). apply (xa_numbered_seq (fun x => xs_lookup_ent (snd (fst (xs_E d))) x)).
  - rewrite map_length, seq_length. cbn [xs_numbered xs_to_xentry]. destruct (xs_Q_inv d) as [Hpos _]. f_equal. f_equal. lia.
Qed.

Lemma xa_index_entries_mem : forall ren stm ms i0 j m, nth_error ms j = Some m ->
  In (ren m, XsIn stm (i0 + N.of_nat j)) (xs_index_entries ren stm ms i0).
Proof.
  induction ms as [|a ms IH]; intros i0 j m H; destruct j; cbn [nth_error] in H; try discriminate.
  - injection H as ->. cbn [xs_index_entries]. left. rewrite N.add_0_r. reflexivity.
  - cbn [xs_index_entries]. right. replace (i0 + N.of_nat (S j)) with (i0 + 1 + N.of_nat j) by lia. apply IH. exact H.
Qed.

Lemma xa_map_flat_map : forall (A B C : Type) (g : B -> C) (f : A -> list B) l, map g (flat_map f l) = flat_map (fun x => map g (f x)) l.
Proof. intros A B C g f. induction l as [|a t IH]; [reflexivity|]. cbn [flat_map]. rewrite map_app, IH. reflexivity. Qed.
Lemma xa_flat_map_map : forall (A B C : Type) (h : A -> B) (f : B -> list C) l, flat_map f (map h l) = flat_map (fun x => f (h x)) l.
Proof. intros A B C h f. induction l as [|a t IH]; [reflexivity|]. cbn [map flat_map]. rewrite IH. reflexivity. Qed.
Lemma xa_flat_flat : forall (A B C : Type) (g : B -> list C) (f : A -> list B) l, flat_map g (flat_map f l) = flat_map (fun x => flat_map g (f x)) l.
Proof. intros A B C g f. induction l as [|a t IH]; [reflexivity|]. cbn [flat_map]. rewrite flat_map_app, IH. reflexivity. Qed.

Definition k_Encrypt : list N := [69; 110; 99; 114; 121; 112; 116].

Section Cap.
  Variable d : doc.
  Hypothesis W : wf_doc d.
  Hypothesis Hel : xs_eligible d <> [].
  Hypothesis Htt : xr_trailer_trimmed d.
  Hypothesis Henc : ~ In k_Encrypt (map fst (d_trailer d)).
  Hypothesis Hoff : xs_l_xref_off (xs_L d) < 2 ^ 63.
  Hypothesis Hid : xs_l_xref_id (xs_L d) < 2 ^ 63.
  Let L := xs_L d.
  Let out := xs_out d.
  Let total := N.of_nat (length out).
  Let tab := xs_l_table L.
  Let ren := xs_renf d.
  Let sren := xs_srenf d.
  Let p := xs_P d.
  Let XR := xs_numbered 0 (xs_l_entries L).

  Lemma xa_closed : doc_closed d.
  Proof. destruct W. assumption. Qed.

  Lemma xa_tab_nodup : NoDup (map fst tab).
  Proof. apply (xs_numbering_bijection_lemma d xa_closed). Qed.

  Lemma xa_g_off : forall n q, In (n, XsOff q) tab -> xa_g d n = (n, XInUse q 0).
  Proof. intros n q H. unfold xa_g. fold L tab. rewrite (xs_lookup_ent_nodup tab n _ xa_tab_nodup H). reflexivity. Qed.
  Lemma xa_g_in : forall n s j, In (n, XsIn s j) tab -> xa_g d n = (n, XComp s j).
  Proof. intros n s j H. unfold xa_g. fold L tab. rewrite (xs_lookup_ent_nodup tab n _ xa_tab_nodup H). reflexivity. Qed.

  Lemma xa_tab_lay : forall ip, In ip (xe_lay d) -> forall e, In e (xs_item_entries p ren sren (fst ip) (snd ip)) -> In e tab.
  Proof.
    intros ip Hip e He. unfold tab, L. rewrite xs_L_eq. cbn [xs_l_table]. rewrite (xe_tab_eq d).
    apply in_flat_map. exists ip. split; [exact Hip | exact He].
  Qed.

  (* the entries of one item, in number order *)
  Definition xa_ents (ip : xs_item * N) : list (N * xentry) :=
    match fst ip with
    | XsObj x => [(ren x, XInUse (snd ip) 0)]
    | XsStm k => (sren k, XInUse (snd ip) 0) :: map (fun m => xa_g d (ren m)) (xs_members p k)
    end.

  Lemma xa_range_by_items :
    map (xa_g d) (xn_range 1 (N.to_nat (xs_l_xref_id L) - 1)) = flat_map xa_ents (xe_lay d).
  Proof.
    destruct (xs_numbering_bijection_lemma d xa_closed) as [Hnums _]. fold L in Hnums. rewrite <- Hnums.
    rewrite xa_map_flat_map.
    assert (Hitems : xs_l_items L = map fst (xe_lay d)).
    { unfold L. rewrite xs_L_eq. cbn [xs_l_items]. unfold xe_lay. rewrite xe_layout_fst. reflexivity. }
    rewrite Hitems, xa_flat_map_map. apply xn_flat_map_ext_in. intros [it q] Hip. cbn [fst].
    unfold xa_ents. cbn [fst snd]. destruct it as [x | k]; unfold xn_item_nums, L; rewrite xs_L_eq; cbn [xs_l_ren xs_l_sren xs_l_plan map].
    - f_equal. apply xa_g_off. apply (xa_tab_lay (XsObj x, q) Hip). cbn [fst snd xs_item_entries]. left. reflexivity.
    - f_equal; [| rewrite map_map; reflexivity].
      apply xa_g_off. apply (xa_tab_lay (XsStm k, q) Hip). cbn [fst snd xs_item_entries]. apply in_or_app. right. left. reflexivity.
  Qed.

  Lemma xa_XR_items : XR = (0, XFree 0 0) :: flat_map xa_ents (xe_lay d) ++ [(xs_l_xref_id L, XInUse (xs_l_xref_off L) 0)].
  Proof. unfold XR, L. rewrite xa_XR_form. fold L. rewrite xa_range_by_items. reflexivity. Qed.

  (* a member's entry is a compressed entry *)
  Lemma xa_member_entry : forall k q j m, In (XsStm k, q) (xe_lay d) -> nth_error (xs_members p k) j = Some m ->
    xa_g d (ren m) = (ren m, XComp (sren k) (N.of_nat j)).
  Proof.
    intros k q j m Hip Hj. apply xa_g_in. apply (xa_tab_lay (XsStm k, q) Hip). cbn [fst snd xs_item_entries].
    apply in_or_app. left. pose proof (xa_index_entries_mem ren (sren k) (xs_members p k) 0 j m Hj) as H. rewrite N.add_0_l in H. exact H.
  Qed.
End Cap.
