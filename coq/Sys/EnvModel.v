(* C09: the places where qpdf's output can depend on the environment, with the environment as an
   explicit argument (libqpdf/QPDFWriter.cc generateID, Pl_AES_PDF::initializeVector,
   QPDF_encryption.cc compute_encryption_parameters_V5). MD5 is a section variable here (its model
   lives in the crypto layer); nothing below depends on which function it is. *)
From QV Require Import Base.Bytes Obj.Queue.
Local Open Scope N_scope.

Record env := { e_time : N; e_outname : list N; e_rand : nat -> N }.

Inductive id_mode := IdStatic | IdDeterministic | IdDefault.

Section WithMD5.
  Variable md5 : list N -> list N.

  Definition static_id : list N :=
    [49; 65; 89; 38; 83; 88; 151; 147; 35; 132; 98; 100; 51; 131; 39; 149].   (* 0x31 0x41 0x59 ... *)

  (* seed string of generateID; info_strings are the string values of /Info in key order *)
  Definition id_seed (mode : id_mode) (e : env) (det_data : list N) (info_strings : list (list N)) : list N :=
    (match mode with
     | IdDeterministic => det_data
     | _ => dec_of_N (e_time e) ++ e_outname e ++ [32]
     end)
    ++ [32; 81; 80; 68; 70; 32]                                              (* " QPDF " *)
    ++ concat (map (fun s => 32 :: s) info_strings).

  (* id2; None = the runtime_error "unable to generate a deterministic ID ... encrypted" *)
  Definition generate_id2 (mode : id_mode) (encrypted : bool) (e : env) (det_data : list N)
             (info_strings : list (list N)) : option (list N) :=
    match mode with
    | IdStatic => Some static_id
    | IdDeterministic => if encrypted then None else Some (md5 (id_seed mode e det_data info_strings))
    | IdDefault => Some (md5 (id_seed mode e det_data info_strings))
    end.

  (* id1: the original first element when there is one, else id2 *)
  Definition generate_id1 (original_id1 id2 : list N) : list N :=
    match original_id1 with [] => id2 | _ => original_id1 end.
End WithMD5.

(* Pl_AES_PDF::initializeVector *)
Inductive env_iv_mode := EIvZero | EIvSpecified (iv : list N) | EIvStatic | EIvRandom.
Definition initial_vector (m : env_iv_mode) (e : env) (offset : nat) : list N :=
  match m with
  | EIvZero => repeat 0 16
  | EIvSpecified iv => iv
  | EIvStatic => map (fun i => (14 * (1 + N.of_nat i)) mod 256) (seq 0 16)
  | EIvRandom => map (fun i => e_rand e (offset + i)) (seq 0 16)
  end.

(* compute_encryption_parameters_V5 draws the file key and four 8-byte salts from the random source
   unconditionally: 32 + 8 + 8 + 8 + 8 bytes *)
Definition v5_random_material (e : env) : list N := map (e_rand e) (seq 0 64).

(* what the writer draws from the environment for one run *)
Record wcfg := { w_id : id_mode; w_iv : env_iv_mode; w_encrypt_v5 : bool; w_encrypted : bool }.
Definition env_inputs (md5 : list N -> list N) (c : wcfg) (e : env) (det_data : list N) (info : list (list N))
  : option (list N) * list N * list N :=
  (generate_id2 md5 (w_id c) (w_encrypted c) e det_data info,
   initial_vector (w_iv c) e 64,
   if w_encrypt_v5 c then v5_random_material e else []).

Definition deterministic_cfg (c : wcfg) : Prop :=
  (w_id c = IdStatic \/ w_id c = IdDeterministic) /\ w_iv c <> EIvRandom.

(* ---- renaming a graph by the numbers the queue assigned (what a second run reads) ---- *)
Definition num_or0 (g : graph) (roots : list N) (x : N) : N :=
  match renumber g roots x with Some n => n | None => 0 end.
Definition renamed_graph (g : graph) (roots : list N) : graph :=
  map (fun x => (num_or0 g roots x, map (num_or0 g roots) (children g x))) (written g roots).
Definition renamed_roots (g : graph) (roots : list N) : list N := map (num_or0 g roots) roots.
