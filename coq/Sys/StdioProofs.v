(* C10 - the contract of the stream model, for every buffer size, buffering mode, capacity and data:
   as long as the error indicator is clear nothing that was handed to the stream has been lost. *)
From QV Require Import Base.Bytes Sys.StdioModel.
From Coq Require Import Arith Lia.
Local Open Scope nat_scope.

Lemma sio_logical_eq f : sio_logical f = rev (sf_rdisk f) ++ rev (sf_rbuf f).
Proof. unfold sio_logical. rewrite rev'_rev, rev_app_distr. reflexivity. Qed.
Lemma sio_disk_eq f : sio_disk f = rev (sf_rdisk f).
Proof. unfold sio_disk. apply rev'_rev. Qed.

Lemma sio_copy_logical f d : sio_logical (sio_copy f d) = sio_logical f ++ d.
Proof.
  rewrite !sio_logical_eq. unfold sio_copy; simpl.
  rewrite rev_append_rev, rev_app_distr, rev_involutive, app_assoc. reflexivity.
Qed.

(* what one primitive step may do to a stream: `taken` is what it was given *)
Definition sio_rel (f f' : sfile) (taken : list N) : Prop :=
  (sf_err f' = false -> sf_err f = false /\ sio_logical f' = sio_logical f ++ taken) /\
  (sf_err f = true -> sf_err f' = true) /\
  (exists x, sio_disk f' = sio_disk f ++ x) /\
  sf_open f' = sf_open f /\ sf_line f' = sf_line f.

Lemma sio_rel_refl f : sio_rel f f [].
Proof. repeat split; auto. - rewrite app_nil_r; auto. - exists []. rewrite app_nil_r; auto. Qed.

Lemma sio_rel_trans f g h a b : sio_rel f g a -> sio_rel g h b -> sio_rel f h (a ++ b).
Proof.
  intros (A1 & A2 & (x & A3) & A4 & A5) (B1 & B2 & (y & B3) & B4 & B5). repeat split.
  - apply B1 in H. destruct H as [H _]. apply A1 in H. tauto.
  - pose proof (B1 H) as [Hg Hl]. pose proof (A1 Hg) as [_ Hl2]. rewrite Hl, Hl2, app_assoc. reflexivity.
  - auto.
  - exists (x ++ y). rewrite B3, A3, app_assoc. reflexivity.
  - congruence.
  - congruence.
Qed.

Lemma sio_copy_rel f d : sio_rel f (sio_copy f d) d.
Proof.
  repeat split; auto.
  - apply sio_copy_logical.
  - exists []. rewrite app_nil_r. reflexivity.
Qed.

Lemma sio_set_put_rel f : sio_rel f (sio_set_put f) [].
Proof. repeat split; auto. - rewrite app_nil_r; reflexivity. - exists []. rewrite app_nil_r; reflexivity. Qed.

Lemma sio_set_cap_rel f c : sio_rel f (sio_set_cap f c) [].
Proof. repeat split; auto. - rewrite app_nil_r; reflexivity. - exists []. rewrite app_nil_r; reflexivity. Qed.

(* kernel write with an empty buffer *)
Lemma sio_kwrite_cap_spec f g d a f' :
  sio_kwrite_cap f g d = (a, f') ->
  a <= length d /\ sf_rbuf f' = sf_rbuf f /\ sf_rdisk f' = rev (firstn a d) ++ sf_rdisk f /\
  (sf_err f' = false -> sf_err f = false /\ a = length d) /\
  (sf_err f = true -> sf_err f' = true) /\ (a < length d -> sf_err f' = true) /\
  sf_open f' = sf_open f /\ sf_line f' = sf_line f /\ sf_put f' = sf_put f.
Proof.
  unfold sio_kwrite_cap. destruct (sf_cap f) as [c|]; intros H; inversion H; subst; clear H; simpl.
  - rewrite rev_append_rev. repeat split; auto.
    + apply Nat.le_min_r.
    + apply orb_false_iff in H. tauto.
    + apply orb_false_iff in H. destruct H as [_ H]. apply Nat.ltb_ge in H. pose proof (Nat.le_min_r c (length d)). lia.
    + intros ->. reflexivity.
    + intros H. apply Nat.ltb_lt in H. rewrite H. apply orb_true_r.
  - rewrite rev_append_rev, firstn_all. repeat split; auto. lia.
Qed.

Lemma sio_kwrite_spec f d a f' :
  sio_kwrite f d = (a, f') ->
  a <= length d /\ sf_rbuf f' = sf_rbuf f /\ sf_rdisk f' = rev (firstn a d) ++ sf_rdisk f /\
  (sf_err f' = false -> sf_err f = false /\ a = length d) /\
  (sf_err f = true -> sf_err f' = true) /\ (a < length d -> sf_err f' = true) /\
  sf_open f' = sf_open f /\ sf_line f' = sf_line f /\ sf_put f' = sf_put f.
Proof.
  unfold sio_kwrite. destruct (sf_glitch f) as [[|k]|].
  - (* the transient failure: nothing accepted, indicator set *)
    intros H; inversion H; subst; clear H; simpl. repeat split; auto; try lia; discriminate.
  - apply sio_kwrite_cap_spec.
  - apply sio_kwrite_cap_spec.
Qed.

Lemma sio_kwrite_rel f d a f' :
  sf_rbuf f = [] -> sio_kwrite f d = (a, f') -> sio_rel f f' d /\ sf_rbuf f' = [].
Proof.
  intros Hb H. apply sio_kwrite_spec in H. destruct H as (H1 & H2 & H3 & H4 & H5 & H6 & H7 & H8 & H9).
  split; [|congruence]. repeat split; auto.
  - apply H4; auto.
  - apply H4 in H. destruct H as [_ ->]. rewrite !sio_logical_eq, H2, H3, Hb, firstn_all. simpl.
    rewrite rev_app_distr, rev_involutive, !app_nil_r. reflexivity.
  - exists (firstn a d). rewrite !sio_disk_eq, H3, rev_app_distr, rev_involutive. reflexivity.
Qed.

Lemma sio_flushbuf_spec f ok f' :
  sio_flushbuf f = (ok, f') ->
  sio_rel f f' [] /\ sf_rbuf f' = [] /\ (ok = false -> sf_err f' = true) /\ sf_put f' = sf_put f.
Proof.
  unfold sio_flushbuf. destruct (sf_rbuf f) eqn:Hb.
  - intros H; inversion H; subst. split; [apply sio_rel_refl|]. repeat split; auto. discriminate.
  - rewrite <- Hb. destruct (sio_kwrite f (rev' (sf_rbuf f))) as [a f1] eqn:Hk. intros H; inversion H; subst; clear H.
    apply sio_kwrite_spec in Hk. destruct Hk as (H1 & H2 & H3 & H4 & H5 & H6 & H7 & H8 & H9). simpl.
    repeat split; simpl; auto.
    + apply H4; auto.
    + apply H4 in H. destruct H as [_ Ha]. rewrite !sio_logical_eq. simpl. rewrite H3, Ha, firstn_all, rev'_rev, rev_involutive.
      rewrite rev_app_distr, !app_nil_r. reflexivity.
    + exists (firstn a (rev' (sf_rbuf f))). rewrite !sio_disk_eq. simpl. rewrite H3, rev_app_distr, rev_involutive. reflexivity.
    + intros Hne. apply Nat.eqb_neq in Hne. apply H6. lia.
Qed.

Lemma sio_rel_err_false f f' t : sio_rel f f' t -> sf_err f' = false -> sf_err f = false.
Proof. intros (A & _) H. apply A in H. tauto. Qed.

Definition sio_mono (f f' : sfile) : Prop :=
  (sf_err f = true -> sf_err f' = true) /\ (exists x, sio_disk f' = sio_disk f ++ x) /\
  sf_open f' = sf_open f /\ sf_line f' = sf_line f.
Lemma sio_rel_mono f f' t : sio_rel f f' t -> sio_mono f f'.
Proof. intros (_ & A & B & C & D). repeat split; auto. Qed.
Lemma sio_mono_refl f : sio_mono f f.
Proof. repeat split; auto. exists []. rewrite app_nil_r. reflexivity. Qed.
Lemma sio_mono_trans f g h : sio_mono f g -> sio_mono g h -> sio_mono f h.
Proof.
  intros (A1 & (x & A2) & A3 & A4) (B1 & (y & B2) & B3 & B4). split; [auto|]. split.
  - exists (x ++ y). rewrite B2, A2, app_assoc. reflexivity.
  - split; congruence.
Qed.

(* result of a call that was given d and reports c *)
Definition sio_post (f f' : sfile) (c : nat) (d : list N) : Prop :=
  c <= length d /\ (sf_err f' = false -> c = length d /\ sio_rel f f' d) /\ sio_mono f f'.
Lemma sio_post_failed f f' c d : c <= length d -> sio_mono f f' -> sf_err f' = true -> sio_post f f' c d.
Proof. intros H1 H2 H3. split; [auto|]. split; [congruence|auto]. Qed.

(* the character loop: if the indicator is clear at the end, everything was taken *)
Lemma sio_putchars_spec B : forall d room f c f',
  sio_putchars B room f d = (c, f') -> sio_post f f' c d.
Proof.
  induction d as [|ch tl IH]; intros room f c f' H; simpl in H.
  - inversion H; subst. split; [simpl; lia|]. split; [intros _; split; [reflexivity|apply sio_rel_refl]|apply sio_mono_refl].
  - set (st1 := match room with O => let '(ok, g) := sio_flushbuf f in (ok, g, B) | S _ => (true, f, room) end) in H.
    assert (Hst1 : exists ok1 f1 room1, st1 = (ok1, f1, room1) /\ sio_rel f f1 [] /\ (ok1 = false -> sf_err f1 = true)).
    { subst st1. destruct room.
      - destruct (sio_flushbuf f) as [ok g] eqn:Hf. apply sio_flushbuf_spec in Hf. exists ok, g, B. tauto.
      - exists true, f, (S room). split; auto. split; [apply sio_rel_refl|discriminate]. }
    destruct Hst1 as (ok1 & f1 & room1 & E1 & R1 & F1). rewrite E1 in H.
    destruct ok1; simpl in H.
    2:{ inversion H; subst. apply sio_post_failed; [simpl; lia|eapply sio_rel_mono; eauto|auto]. }
    pose proof (sio_copy_rel f1 [ch]) as R2.
    pose proof (sio_rel_trans _ _ _ _ _ R1 R2) as R12. simpl in R12.
    destruct (sf_line f && N.eqb ch 10).
    + destruct (sio_flushbuf (sio_copy f1 [ch])) as [ok2 f3] eqn:Hf2. apply sio_flushbuf_spec in Hf2.
      destruct Hf2 as (R3 & _ & F3 & _).
      pose proof (sio_rel_trans _ _ _ _ _ R12 R3) as R123. simpl in R123.
      destruct ok2; simpl in H.
      2:{ inversion H; subst. apply sio_post_failed; [simpl; lia|eapply sio_rel_mono; eauto|auto]. }
      destruct (sio_putchars B B f3 tl) as [c4 f4] eqn:Hp. inversion H; subst; clear H.
      apply IH in Hp. destruct Hp as (P1 & P2 & P3).
      split; [simpl; lia|]. split.
      * intros He. apply P2 in He. destruct He as [Hc Hr]. split; [simpl; lia|].
        exact (sio_rel_trans _ _ _ _ _ R123 Hr).
      * eapply sio_mono_trans; [eapply sio_rel_mono; eauto|auto].
    + destruct (sio_putchars B (pred room1) (sio_copy f1 [ch]) tl) as [c4 f4] eqn:Hp. inversion H; subst; clear H.
      apply IH in Hp. destruct Hp as (P1 & P2 & P3).
      split; [simpl; lia|]. split.
      * intros He. apply P2 in He. destruct He as [Hc Hr]. split; [simpl; lia|].
        exact (sio_rel_trans _ _ _ _ _ R12 Hr).
      * eapply sio_mono_trans; [eapply sio_rel_mono; eauto|auto].
Qed.

Lemma sio_flushbuf_post f ok f' :
  sio_flushbuf f = (ok, f') -> sio_rel f f' [] /\ sf_rbuf f' = [] /\ (ok = false -> sf_err f' = true).
Proof. intros H. apply sio_flushbuf_spec in H. tauto. Qed.

(* _IO_new_file_xsputn: with a clear indicator at the end, the whole request was taken *)
Lemma sio_xsputn_spec B f d r f' :
  sio_xsputn B f d = (r, f') ->
  (sf_err f' = false -> r = Some (length d) /\ sio_rel f f' d) /\ sio_mono f f' /\
  (forall c, r = Some c -> c <= length d).
Proof.
  unfold sio_xsputn.
  set (n := length d). set (room := B - length (sf_rbuf f)).
  set (cm := if sf_put f then if sf_line f then if n <=? room then match sio_last_nl d with Some i => (i, true) | None => (room, false) end
             else (room, false) else (room, false) else (0, false)).
  destruct cm as [count must_flush].
  set (c := Nat.min count n).
  assert (Hc : c <= n) by apply Nat.le_min_r.
  pose proof (sio_copy_rel f (firstn c d)) as R1.
  assert (Hsplit : firstn c d ++ skipn c d = d) by apply firstn_skipn.
  assert (Hrest : length (skipn c d) = n - c) by (rewrite skipn_length; reflexivity).
  destruct ((n - c =? 0) && negb must_flush) eqn:E0.
  - intros H; inversion H; subst; clear H. apply andb_true_iff in E0. destruct E0 as [E0 _]. apply Nat.eqb_eq in E0.
    assert (c = n) by lia. assert (Hf : firstn c d = d) by (rewrite H; apply firstn_all).
    rewrite Hf in *. split; [intros _; split; [reflexivity|exact R1]|]. split; [eapply sio_rel_mono; eauto|].
    intros c0 Hc0; inversion Hc0; subst; lia.
  - pose proof (sio_set_put_rel (sio_copy f (firstn c d))) as R2.
    pose proof (sio_rel_trans _ _ _ _ _ R1 R2) as R12. rewrite app_nil_r in R12.
    destruct (sio_flushbuf (sio_set_put (sio_copy f (firstn c d)))) as [ok f2] eqn:Hf2.
    apply sio_flushbuf_post in Hf2. destruct Hf2 as (R3 & Hb2 & F3).
    pose proof (sio_rel_trans _ _ _ _ _ R12 R3) as R123. rewrite app_nil_r in R123.
    destruct ok; [change (negb true) with false|change (negb false) with true]; cbv iota.
    2:{ intros H; inversion H; subst; clear H. specialize (F3 eq_refl).
        split; [congruence|]. split; [eapply sio_rel_mono; eauto|].
        intros c0. destruct (n - c =? 0); intros Hc0; inversion Hc0; subst; lia. }
    set (blocks := if 128 <=? B then (n - c) - (n - c) mod B else n - c).
    assert (Hbl : blocks <= n - c).
    { subst blocks. destruct (128 <=? B); lia. }
    set (kw := if blocks =? 0 then (0, f2) else sio_kwrite f2 (firstn blocks (skipn c d))).
    assert (Hkw : exists a f3, kw = (a, f3) /\ a <= blocks /\ sf_rbuf f3 = [] /\ sio_mono f2 f3 /\
                  (a < blocks -> sf_err f3 = true) /\
                  (sf_err f3 = false -> sio_rel f2 f3 (firstn blocks (skipn c d)))).
    { subst kw. destruct (blocks =? 0) eqn:Eb.
      - apply Nat.eqb_eq in Eb. exists 0, f2. rewrite Eb. simpl.
        split; [reflexivity|]. split; [lia|]. split; [exact Hb2|]. split; [apply sio_mono_refl|].
        split; [intros; lia|]. intros _. apply sio_rel_refl.
      - destruct (sio_kwrite f2 (firstn blocks (skipn c d))) as [a f3] eqn:Hk.
        pose proof (sio_kwrite_rel _ _ _ _ Hb2 Hk) as [Rk Hb3].
        apply sio_kwrite_spec in Hk. destruct Hk as (K1 & _ & _ & _ & _ & K6 & _).
        assert (Hl : length (firstn blocks (skipn c d)) = blocks) by (rewrite firstn_length, Hrest; lia).
        exists a, f3. rewrite Hl in *.
        split; [reflexivity|]. split; [exact K1|]. split; [exact Hb3|]. split; [eapply sio_rel_mono; eauto|].
        split; [exact K6|]. intros _. exact Rk. }
    destruct Hkw as (a & f3 & Ekw & Ha & Hb3 & M3 & Fa & R4). rewrite Ekw.
    destruct (a <? blocks) eqn:Ea.
    + apply Nat.ltb_lt in Ea. intros H; inversion H; subst; clear H. specialize (Fa Ea).
      split; [congruence|]. split; [eapply sio_mono_trans; [eapply sio_rel_mono; eauto|auto]|].
      intros c0 Hc0; inversion Hc0; subst. lia.
    + apply Nat.ltb_ge in Ea.
      destruct (sio_putchars B B f3 (skipn blocks (skipn c d))) as [cc f4] eqn:Hp.
      apply sio_putchars_spec in Hp. destruct Hp as (P1 & P2 & P3).
      assert (Hl2 : length (skipn blocks (skipn c d)) = n - c - blocks) by (rewrite skipn_length, Hrest; reflexivity).
      intros H; inversion H; subst; clear H. split; [|split].
      * intros He. destruct (P2 He) as [Hcc R5].
        assert (He3 : sf_err f3 = false) by exact (sio_rel_err_false _ _ _ R5 He).
        specialize (R4 He3).
        pose proof (sio_rel_trans _ _ _ _ _ R123 R4) as R1234.
        pose proof (sio_rel_trans _ _ _ _ _ R1234 R5) as Rall.
        rewrite <- app_assoc, firstn_skipn, Hsplit in Rall.
        split; [|exact Rall]. f_equal. rewrite Hcc, Hl2. fold n. lia.
      * eapply sio_mono_trans; [eapply sio_rel_mono; eauto|]. eapply sio_mono_trans; eauto.
      * intros c0 Hc0; inversion Hc0; subst. fold n. lia.
Qed.

(* the contract qpdf's sinks rely on *)
Lemma sio_fwrite_spec B f d r f' :
  sio_fwrite B f d = (r, f') ->
  r <= length d /\ (sf_err f' = false -> r = length d /\ sio_rel f f' d) /\ sio_mono f f'.
Proof.
  unfold sio_fwrite. destruct d as [|b tl].
  - intros H; inversion H; subst. split; [simpl; lia|]. split; [intros _; split; [reflexivity|apply sio_rel_refl]|apply sio_mono_refl].
  - destruct (sio_xsputn B f (b :: tl)) as [[c|] f2] eqn:Hx; intros H; inversion H; subst; clear H;
      apply sio_xsputn_spec in Hx; destruct Hx as (X1 & X2 & X3).
    + split; [apply X3; reflexivity|]. split; [|exact X2].
      intros He. apply X1 in He. destruct He as [Hr R]. inversion Hr; subst. split; [reflexivity|exact R].
    + split; [apply Nat.le_refl|]. split; [|exact X2]. intros He. apply X1 in He. destruct He as [Hr _]. discriminate.
Qed.

Lemma sio_fflush_spec f ok f' :
  sio_fflush f = (ok, f') -> sio_rel f f' [] /\ sf_rbuf f' = [] /\ (ok = false -> sf_err f' = true).
Proof. apply sio_flushbuf_post. Qed.

Lemma sio_fclose_spec f ok f' :
  sio_fclose f = (ok, f') ->
  (sf_err f' = false -> sf_err f = false /\ sio_logical f' = sio_logical f) /\ sf_rbuf f' = [] /\
  (ok = false -> sf_err f' = true) /\ sf_open f' = false /\ (sf_err f = true -> sf_err f' = true) /\
  (exists x, sio_disk f' = sio_disk f ++ x).
Proof.
  unfold sio_fclose. destruct (sio_flushbuf f) as [o f1] eqn:Hf. intros H; inversion H; subst; clear H.
  apply sio_flushbuf_post in Hf. destruct Hf as ((R1 & R2 & R3 & R4 & R5) & Hb & F). simpl.
  repeat split; auto.
  - apply R1; auto.
  - specialize (R1 H). destruct R1 as [_ R1]. rewrite app_nil_r in R1. rewrite <- R1. rewrite !sio_logical_eq. reflexivity.
Qed.

(* with an empty buffer the kernel part is everything *)
Lemma sio_disk_logical f : sf_rbuf f = [] -> sio_disk f = sio_logical f.
Proof. intros H. rewrite sio_disk_eq, sio_logical_eq, H. simpl. rewrite app_nil_r. reflexivity. Qed.

Lemma sio_new_logical cap line : sio_logical (sio_new cap line) = [] /\ sf_err (sio_new cap line) = false /\ sf_open (sio_new cap line) = true.
Proof. repeat split. Qed.

(* The contract of fwrite/fflush/fclose in the stream model, for every buffer size, buffering mode, stream
   state, capacity and data: the return value never exceeds the request; the error indicator is sticky; the
   kernel file only grows; and as long as the indicator is clear after the call, the call took everything
   and nothing handed to the stream so far has been lost (kernel part ++ buffer = everything written). *)
Lemma stdio_fwrite_contract_lemma : forall B f d r f',
  sio_fwrite B f d = (r, f') ->
  r <= length d /\
  (sf_err f' = false -> r = length d /\ sf_err f = false /\ sio_logical f' = sio_logical f ++ d) /\
  (sf_err f = true -> sf_err f' = true) /\
  (exists x, sio_disk f' = sio_disk f ++ x).
Proof.
  intros B f d r f' H. apply sio_fwrite_spec in H. destruct H as (H1 & H2 & (M1 & M2 & _)).
  split; [exact H1|]. split; [|split; [exact M1|exact M2]].
  intros He. destruct (H2 He) as [Hr (R & _)]. destruct (R He) as [A B0]. auto.
Qed.

(* fflush / fclose: a reported success with a clear indicator means the kernel has everything; a failure
   always sets the indicator; the buffer is empty afterwards either way (a failed flush LOSES the data, so a
   later fflush/fclose succeeds: the reason why looking at the last result only is not enough). *)
Lemma stdio_flush_close_contract_lemma : forall f ok f',
  (sio_fflush f = (ok, f') \/ sio_fclose f = (ok, f')) ->
  sf_rbuf f' = [] /\ (ok = false -> sf_err f' = true) /\
  (sf_err f' = false -> sf_err f = false /\ sio_disk f' = sio_logical f) /\
  (sf_err f = true -> sf_err f' = true).
Proof.
  intros f ok f' [H|H].
  - apply sio_fflush_spec in H. destruct H as ((R1 & R2 & _) & Hb & F). split; [exact Hb|]. split; [exact F|]. split; [|exact R2].
    intros He. destruct (R1 He) as [A L]. rewrite app_nil_r in L. split; [exact A|]. rewrite (sio_disk_logical _ Hb). exact L.
  - apply sio_fclose_spec in H. destruct H as (C1 & Hb & F & _ & S & _). split; [exact Hb|]. split; [exact F|]. split; [|exact S].
    intros He. destruct (C1 He) as [A L]. split; [exact A|]. rewrite (sio_disk_logical _ Hb). exact L.
Qed.
