(* C06 proofs, part I (extension): (1) conservativity - on the dictionary a producer of IsoEnc.v writes from its choices, the
   ISO rule for arbitrary dictionaries (DqIso.v) IS the rule of IsoEnc.v the reference encryptor applies; (2) with part G:
   decrypt (reference encrypt x) = x for every leaf OUTSIDE the class of the recorded findings (a strictly larger set of
   leaves than c06_leaf_wf of part C: /Filter [/Crypt] with one /DecodeParms dictionary is inside), for any state that
   c06_initialize returns on the written dictionary; (3) decrypt_of_reference_encrypt_V4: R 2, 3, 4 files with nominal key
   lengths, either password. *)
From QV Require Import Base.Bytes Crypto.Nib Filters.Filters Filters.C15ProofsB.
From QV Require Import Crypto.MD5 Crypto.SHA2Fast Crypto.AES Crypto.AesPdf Crypto.KeyDeriv Crypto.IsoRef Crypto.Perms.
From QV Require Import Crypto.C05Proofs Crypto.CbcProofs Crypto.AesInv Crypto.C05ProofsB Crypto.C05ProofsC.
From QV Require Import Crypto.IsoEnc Crypto.DecReader Crypto.C06ProofsB Crypto.C06ProofsC Crypto.C06ProofsD Crypto.C06ProofsE.
From QV Require Import Crypto.DqIso Crypto.DqReader Crypto.C06ProofsG.
From Coq Require Import Arith.
Local Open Scope N_scope.

Opaque aes_cipher aes_inv_cipher aes_key_schedule.

(* ------------------------------------------------------------------ conservativity *)
Definition dq_written_cf (cf : list (list N * c06_cfm)) : list (list N * dq_cfval) :=
  map dq_view_cf (map (fun e => (fst e, C6CfDict (c06_cfm_name (snd e)))) cf).

Lemma dq_get_written : forall cf name,
  dq_cf_get (dq_written_cf cf) name =
  match c06_cf_lookup cf name with Some m => Some (DqCfDict (c06_cfm_name m)) | None => None end.
Proof.
  induction cf as [|[n m] t IH]; intros name; [reflexivity|].
  change (dq_cf_get (dq_written_cf ((n, m) :: t)) name)
    with (if bytes_eqb n name then Some (DqCfDict (c06_cfm_name m)) else dq_cf_get (dq_written_cf t) name).
  cbn [c06_cf_lookup]. destruct (bytes_eqb n name); [reflexivity|apply IH].
Qed.

Lemma dq_view_written : forall c d pz,
  dq_V (dq_view (c06_rdict_of c d pz)) = c6_V c /\
  dq_CF (dq_view (c06_rdict_of c d pz)) = dq_written_cf (c6_cf c) /\
  dq_StmF (dq_view (c06_rdict_of c d pz)) = Some (c6_stmf c) /\
  dq_StrF (dq_view (c06_rdict_of c d pz)) = Some (c6_strf c) /\
  dq_encmeta (dq_view (c06_rdict_of c d pz)) = Some (c6_encmeta c).
Proof.
  intros c d pz. unfold dq_view, c06_rdict_of. cbn [dq_V dq_CF dq_StmF dq_StrF dq_encmeta c6r_V c6r_CF c6r_StmF c6r_StrF c6r_encmeta].
  rewrite N2Z.id. repeat split; reflexivity.
Qed.

(* a method of a supported choice belongs to its /V *)
Lemma dq_cfm_of_supported : forall c n m,
  c06_supported c = true -> 4 <=? c6_V c = true -> In (n, m) (c6_cf c) ->
  dq_cfm_of (c6_V c) (c06_cfm_name m) = Some m.
Proof.
  intros c n m Hs H4 Hin. unfold c06_supported in Hs. apply N.leb_le in H4.
  repeat (apply orb_true_iff in Hs; destruct Hs as [Hs|Hs]); repeat (apply andb_true_iff in Hs; destruct Hs as [Hs ?]).
  - apply N.eqb_eq in Hs. lia.
  - apply N.eqb_eq in Hs. lia.
  - apply N.eqb_eq in Hs.
    match goal with Hf : forallb _ _ = true |- _ => rewrite forallb_forall in Hf; specialize (Hf _ Hin); cbn [snd] in Hf;
      rewrite Hs; destruct m; try discriminate; reflexivity end.
  - apply N.eqb_eq in Hs.
    match goal with Hf : forallb _ _ = true |- _ => rewrite forallb_forall in Hf; specialize (Hf _ Hin); cbn [snd] in Hf;
      rewrite Hs; destruct m; try discriminate; reflexivity end.
Qed.

Lemma dq_lookup_in : forall cf name m, c06_cf_lookup cf name = Some m -> exists n, In (n, m) cf.
Proof. exact c06_lookup_in. Qed.

Lemma dq_named_written : forall c d pz name m,
  c06_wf_cfg c -> 4 <=? c6_V c = true -> c06_named_method c name = Some m ->
  dq_filter_method (dq_view (c06_rdict_of c d pz)) name = Some m.
Proof.
  intros c d pz name m [Hs Hid] H4 H.
  destruct (dq_view_written c d pz) as [EV [ECF _]].
  unfold dq_filter_method. rewrite ECF, EV, dq_get_written. unfold c06_named_method in H.
  destruct (bytes_eqb name c06_name_identity) eqn:Ei.
  - apply list_eqb_N_eq in Ei. subst name. rewrite (c06_lookup_identity_none _ Hid). exact H.
  - rewrite H. destruct (dq_lookup_in _ _ _ H) as [n Hin]. apply (dq_cfm_of_supported c n m Hs H4 Hin).
Qed.

(* dq_rule_conservative: for every well-formed choice of a producer and the dictionary written from it, every string place
   and every stream dictionary: whatever method the rule of IsoEnc.v gives, the rule of DqIso.v gives on the written
   dictionary *)
Lemma dq_rule_conservative_lemma : forall c d pz k m,
  c06_wf_cfg c ->
  match k with C6String w => c06_iso_string_method c w | C6Stream s => c06_iso_stream_method c s end = Some m ->
  dq_iso_leaf_method (dq_view (c06_rdict_of c d pz)) k = Some m.
Proof.
  intros c d pz k m Hwf H.
  destruct (dq_view_written c d pz) as [EV [ECF [ESm [ESr EEm]]]].
  destruct k as [w|s]; cbn [dq_iso_leaf_method].
  - destruct w; cbn [c06_iso_string_method dq_iso_string_method] in *; try exact H.
    unfold c06_default_method in H. rewrite EV. destruct (c6_V c <? 4) eqn:E4; [exact H|].
    rewrite ESr. cbn [dq_or_identity]. apply dq_named_written; [exact Hwf| |exact H].
    apply N.leb_le. apply N.ltb_ge. exact E4.
  - unfold c06_iso_stream_method in H. unfold dq_iso_stream_method. rewrite EV.
    destruct (c6d_xref s); [exact H|]. destruct (c6_V c <? 4) eqn:E4; [exact H|].
    assert (G4 : 4 <=? c6_V c = true) by (apply N.leb_le; apply N.ltb_ge; exact E4).
    destruct (c06_crypt_parm s) as [p|].
    + apply dq_named_written; assumption.
    + unfold dq_encrypt_metadata. rewrite EV, G4, EEm.
      destruct (c6d_rootmeta s && negb (c6_encmeta c)); [exact H|].
      rewrite ESm. cbn [dq_or_identity]. apply dq_named_written; assumption.
Qed.

(* ------------------------------------------------------------------ one leaf, a document *)
Definition dq_leaf_ok (e : dq_edict) (l : c06_leaf) : Prop :=
  length (c6l_iv l) = 16%nat /\ byte_list (c6l_iv l) /\ byte_list (c6l_data l) /\
  dq_in_finding_class e (c6l_kind l) = false.

Lemma dq_decrypt_encrypt_leaf : forall c d pz id secret st ws key l l',
  c06_wf_cfg c -> c06_initialize (c06_rdict_of c d pz) id secret = C6Ok st ws ->
  c06_state_for c key st -> c06_key_fits c key ->
  dq_leaf_ok (dq_view (c06_rdict_of c d pz)) l ->
  c06_iso_encrypt_leaf c key l = Some l' ->
  c06_decrypt_leaf st l' = C6LeafOk (c6l_data l) false.
Proof.
  intros c d pz id secret st ws key l l' Hwf Hi Hst Hkf [Hiv [Hivb [Hd Hcl]]] H.
  unfold c06_iso_encrypt_leaf in H. destruct (c06_leaf_method c l) as [m|] eqn:Em; [|discriminate].
  inversion H; subst l'. clear H.
  unfold c06_decrypt_leaf, c06_with_data. cbn [c6l_kind c6l_num c6l_gen c6l_data].
  unfold c06_leaf_method in Em.
  pose proof (dq_rule_conservative_lemma c d pz (c6l_kind l) m Hwf) as Hcons.
  rewrite <- (sf_key _ _ _ Hst).
  destruct (c6l_kind l) as [w|s] eqn:Ek.
  - specialize (Hcons Em). cbn [dq_iso_leaf_method] in Hcons.
    destruct (dq_string_dec_iso _ _ _ _ _ w m Hi Hcl Hcons) as [Hdec _].
    destruct (c06_iso_string_fits c w m Hwf Em) as [F2 F3].
    pose proof (c06_decrypt_with_dec st (c6_R c) m (c6l_num l) (c6l_gen l) (c6l_iv l) (c6l_data l)
                  (c06_method_ok_of c key st m Hst Hkf F2 F3) Hiv Hivb Hd) as Hmain.
    rewrite <- Hdec in Hmain. unfold c06_decrypt_string. unfold c06_string_dec in Hmain.
    destruct (c06_where_decrypts w); exact Hmain.
  - specialize (Hcons Em). cbn [dq_iso_leaf_method] in Hcons.
    destruct (dq_stream_dec_iso _ _ _ _ _ s false m Hi Hcl Hcons) as [Hdec _].
    destruct (c06_iso_stream_fits c s m Hwf Em) as [F2 F3].
    pose proof (c06_decrypt_with_dec st (c6_R c) m (c6l_num l) (c6l_gen l) (c6l_iv l) (c6l_data l)
                  (c06_method_ok_of c key st m Hst Hkf F2 F3) Hiv Hivb Hd) as Hmain.
    rewrite <- Hdec in Hmain. unfold c06_decrypt_stream. unfold c06_stream_dec in Hmain.
    destruct (c6d_xref s); exact Hmain.
Qed.

Lemma dq_decrypt_encrypt_doc : forall c d pz id secret st ws key leaves enc,
  c06_wf_cfg c -> c06_initialize (c06_rdict_of c d pz) id secret = C6Ok st ws ->
  c06_state_for c key st -> c06_key_fits c key ->
  Forall (dq_leaf_ok (dq_view (c06_rdict_of c d pz))) leaves ->
  map (c06_iso_encrypt_leaf c key) leaves = map Some enc ->
  map (c06_decrypt_leaf st) enc = map (fun l => C6LeafOk (c6l_data l) false) leaves.
Proof.
  intros c d pz id secret st ws key leaves. induction leaves as [|l t IH]; intros enc Hwf Hi Hst Hkf HF H.
  - destruct enc; [reflexivity|discriminate].
  - destruct enc as [|e et]; [discriminate|]. cbn [map] in *. inversion H. inversion HF; subst.
    f_equal.
    + apply (dq_decrypt_encrypt_leaf c d pz id secret st ws key l e); assumption.
    + apply IH; assumption.
Qed.

(* decrypt_of_reference_encrypt_V4: the statement of decrypt_of_reference_encrypt_V4_partial with the leaves restricted only
   by the class of the recorded findings (evaluated on the dictionary as written), instead of c06_leaf_wf. The hypotheses
   that remain are the scheme (R 2 / 3 / 4 with the nominal key length: shorter V 2 keys are finding F3) and, for the user
   password, that it does not ALSO pass the owner check (it does when both passwords are equal - the first case; otherwise
   only by an MD5 / RC4 coincidence). *)
Lemma decrypt_of_reference_encrypt_V4_lemma : forall c s pz pw leaves enc,
  c06_wf_cfg c -> scheme_V4 (c6_V c) (c6_R c) (c6_keylen c) -> c06_to_u32 pz = c6_P c ->
  (c6_V c <? 4 = true -> c6_encmeta c = true) ->
  let d := fst (c06_iso_make c s) in
  let key := snd (c06_iso_make c s) in
  let eff := match c6s_owner s with [] => c6s_user s | _ => c6s_owner s end in
  (pw = eff \/ (pw = c6s_user s /\ kd_check_owner_V4 (c06_ed_V4 c d) pw = None)) ->
  Forall (dq_leaf_ok (dq_view (c06_rdict_of c d pz))) leaves ->
  map (c06_iso_encrypt_leaf c key) leaves = map Some enc ->
  exists st, c06_initialize (c06_rdict_of c d pz) (Some (c6_id c)) (C6Password pw) = C6Ok st [] /\
             c6t_key st = key /\
             (pw = eff -> c6t_owner_matched st = true) /\
             (kd_check_owner_V4 (c06_ed_V4 c d) pw = None -> c6t_user_matched st = true /\ c6t_owner_matched st = false) /\
             map (c06_decrypt_leaf st) enc = map (fun l => C6LeafOk (c6l_data l) false) leaves.
Proof.
  intros c s pz pw leaves enc Hwf Hs HP Hem d key eff Hpw HF Henc.
  pose proof (c06_make_V4 c s Hs) as Hmk.
  assert (Hd : d = c06_dict_of c (c06_alg3_O c s) (c06_alg45_U c s (c06_alg3_O c s)) [] [] []) by (subst d; rewrite Hmk; reflexivity).
  assert (Hkey : key = iso_key_alg2 d (c6s_user s)) by (subst key; rewrite Hmk; cbn [snd]; rewrite Hd; reflexivity).
  assert (HO : length (iso_O d) = 32%nat) by (rewrite Hd; apply (c06_O_len c s)).
  assert (HU : length (iso_U d) = 32%nat) by (rewrite Hd; apply (c06_U_len4 c s)).
  destruct (c06_initialize_V4 c d pz pw Hs HP Hem HO HU) as [Iown Iusr].
  assert (Hkf : c06_key_fits c key).
  { unfold c06_key_fits. split.
    - unfold rv_consistent. destruct Hs as [(EV & ER & _)|[(EV & ER & _)|(EV & ER & _)]]; rewrite EV, ER; reflexivity.
    - split.
      + intros E4. rewrite Hkey, Hd. rewrite (c06_key_len4 c s Hs).
        destruct Hs as [(EV & _)|[(EV & _)|(_ & _ & EL)]]; try (rewrite EV in E4; discriminate). rewrite EL. reflexivity.
      + intros E5. destruct Hs as [(EV & _)|[(EV & _)|(EV & _)]]; rewrite EV in E5; discriminate. }
  assert (Fin : forall st, c06_initialize (c06_rdict_of c d pz) (Some (c6_id c)) (C6Password pw) = C6Ok st [] ->
            c6t_key st = key -> c06_public_state_for c st ->
            map (c06_decrypt_leaf st) enc = map (fun l => C6LeafOk (c6l_data l) false) leaves).
  { intros st Hi Hk Hpub.
    apply (dq_decrypt_encrypt_doc c d pz (Some (c6_id c)) (C6Password pw) st [] key leaves enc Hwf Hi
             (c06_state_for_of_public c key st Hpub Hk)); assumption. }
  destruct Hpw as [Ho|[Hu Hno]].
  - pose proof (c06_owner_recovers c s Hs) as Hrec. fold eff in Hrec. rewrite <- Hd, <- Ho in Hrec.
    destruct (Iown _ Hrec) as [st [Hi [Hk [Hom [Hum Hpub]]]]].
    assert (Hk' : c6t_key st = key).
    { rewrite Hk, Hkey, Hd. apply (c06_key_of_padded c s Hs). }
    exists st. split; [exact Hi|]. split; [exact Hk'|]. split; [intros _; exact Hom|].
    split; [intros Hn; rewrite Hn in Hrec; discriminate|]. apply Fin; assumption.
  - assert (Hchk : kd_check_user_V4 (c06_ed_V4 c d) pw = true).
    { rewrite Hu, Hd. apply (c06_check_user_V4_ok c s Hs). reflexivity. }
    destruct (Iusr Hno Hchk) as [st [Hi [Hk [Hom [Hum Hpub]]]]].
    assert (Hk' : c6t_key st = key).
    { rewrite Hk, Hkey, Hu, Hd. apply (c06_key_of_user c s Hs). }
    exists st. split; [exact Hi|]. split; [exact Hk'|].
    split; [intros He; pose proof (c06_owner_recovers c s Hs) as Hrec; fold eff in Hrec; rewrite <- Hd, <- He in Hrec; rewrite Hrec in Hno; discriminate|].
    split; [intros _; split; assumption|]. apply Fin; assumption.
Qed.

(* the same with the file key (--password-is-hex-key), every supported scheme *)
Lemma dq_decrypt_of_reference_encrypt_hexkey_lemma : forall c d pz key leaves enc,
  c06_wf_cfg c -> c06_OU_ok c d -> c06_key_fits c key ->
  Forall (dq_leaf_ok (dq_view (c06_rdict_of c d pz))) leaves ->
  map (c06_iso_encrypt_leaf c key) leaves = map Some enc ->
  exists st, c06_initialize (c06_rdict_of c d pz) (Some (c6_id c)) (C6HexKey key) = C6Ok st [] /\
             c6t_user_matched st = false /\ c6t_owner_matched st = false /\
             map (c06_decrypt_leaf st) enc = map (fun l => C6LeafOk (c6l_data l) false) leaves.
Proof.
  intros c d pz key leaves enc Hwf HOU Hkf HF Henc.
  destruct (c06_open_hexkey c d pz key (proj1 Hwf) HOU) as [st [Hi [Hk [Hu [Ho Hp]]]]].
  exists st. repeat split; try assumption.
  apply (dq_decrypt_encrypt_doc c d pz (Some (c6_id c)) (C6HexKey key) st [] key leaves enc Hwf Hi
           (c06_state_for_of_public c key st Hp Hk) Hkf HF Henc).
Qed.

(* decrypt_of_reference_encrypt for R 5 / R 6 (passwords) with the leaves restricted only by the class of the recorded findings *)
Lemma dq_decrypt_of_reference_encrypt_V5_lemma : forall c s pz pw leaves enc,
  c06_wf_cfg c -> c6_V c = 5 -> length (c6s_rnd s) = 68%nat -> byte_list (c6s_rnd s) -> c06_to_u32 pz = c6_P c ->
  let d := fst (c06_iso_make c s) in
  let key := snd (c06_iso_make c s) in
  (iso_pw_V5 pw = iso_pw_V5 (c6s_owner s) \/
   (iso_pw_V5 pw = iso_pw_V5 (c6s_user s) /\ kd_check_owner_V5 (c06_ed_V5 c d) pw = false)) ->
  Forall (dq_leaf_ok (dq_view (c06_rdict_of c d pz))) leaves -> map (c06_iso_encrypt_leaf c key) leaves = map Some enc ->
  exists st, c06_initialize (c06_rdict_of c d pz) (Some (c6_id c)) (C6Password pw) = C6Ok st [] /\
             c6t_key st = key /\
             (iso_pw_V5 pw = iso_pw_V5 (c6s_owner s) -> c6t_owner_matched st = true) /\
             (iso_pw_V5 pw = iso_pw_V5 (c6s_user s) -> c6t_user_matched st = true) /\
             c6t_owner_matched st = kd_check_owner_V5 (c06_ed_V5 c d) pw /\
             map (c06_decrypt_leaf st) enc = map (fun l => C6LeafOk (c6l_data l) false) leaves.
Proof.
  intros c s pz pw leaves enc Hwf HV Hrl Hrb HP d key Hpw HF Henc.
  destruct (c06_supported_cases c (proj1 Hwf)) as [[EV _]|[[EV _]|[[EV _]|[_ ER]]]]; try (rewrite EV in HV; discriminate).
  destruct (c06_V5_facts c s HV ER Hrl Hrb) as (LO & LU & LOE & LUE & LP & LK & Fo & Fu).
  fold d in LO, LU, LOE, LUE, LP, Fo, Fu. fold key in LK, Fo, Fu.
  assert (Hrec : kd_check_owner_V5 (c06_ed_V5 c d) pw || kd_check_user_V5 (c06_ed_V5 c d) pw = true /\
                 kd_recover_key_V5 (c06_ed_V5 c d) pw = (key, true)).
  { destruct Hpw as [Ho|[Hu Hno]].
    - destruct (Fo pw Ho) as [A B]. rewrite A. split; [reflexivity|exact B].
    - destruct (Fu pw Hu) as [A B]. rewrite A, orb_true_r. split; [reflexivity|apply B; exact Hno]. }
  destruct Hrec as [Hchk Hrk].
  destruct (c06_initialize_V5 c d pz pw (proj1 Hwf) HV HP LO LU LOE LUE LP Hchk) as [st [Hi [Hk [Hum [Hom Hpub]]]]].
  rewrite Hrk in Hi, Hk. cbn [fst snd negb c06_ws] in Hi, Hk.
  exists st. split; [exact Hi|]. split; [exact Hk|].
  split; [intros Ho; rewrite Hom; apply (Fo pw Ho)|].
  split; [intros Hu; rewrite Hum; apply (Fu pw Hu)|].
  split; [exact Hom|].
  apply (dq_decrypt_encrypt_doc c d pz (Some (c6_id c)) (C6Password pw) st [] key leaves enc Hwf Hi
           (c06_state_for_of_public c key st Hpub Hk)); try assumption.
  unfold c06_key_fits. rewrite HV. split.
  - unfold rv_consistent. destruct ER as [E|E]; rewrite E; reflexivity.
  - split; [discriminate|]. intros _. exact LK.
Qed.

Print Assumptions dq_rule_conservative_lemma.
Print Assumptions decrypt_of_reference_encrypt_V4_lemma.
Print Assumptions dq_decrypt_of_reference_encrypt_hexkey_lemma.
Print Assumptions dq_decrypt_of_reference_encrypt_V5_lemma.

(* the class is not vacuous and not wider than needed: the witnesses of the refutation theorems (F1: /Filter /Crypt without
   /DecodeParms; F10: signature /Contents without /Type; F2: /StrF naming a filter that spells out /CFM /None) are inside;
   /Filter [/Crypt] with one /DecodeParms dictionary that has /Type - which c06_crypt_explicit of part C excludes although
   decryptStream reads it correctly - is outside; and so is every leaf of a V < 4 file but the untyped signature /Contents *)
Lemma dq_class_witnesses_lemma :
  dq_in_finding_class (dq_edict_of_cfg false c06_f1_cfg) (C6Stream c06_f1_sdict) = true /\
  dq_in_finding_class (dq_edict_of_cfg false c06_f1_cfg) (C6String (C6InSigContents false)) = true /\
  dq_in_finding_class
    (dq_edict_of_cfg true {| c6_V := 4; c6_R := 4; c6_keylen := 16; c6_P := 4294967292; c6_encmeta := true; c6_id := [];
                             c6_cf := [([78], C6None)]; c6_stmf := c06_name_identity; c6_strf := [78] |})
    (C6String C6InObject) = true /\
  (let s := {| c6d_xref := false; c6d_filter := C6FlArray [Some c06_name_crypt]; c6d_dparms := C6DpOne (C6PmDict true None);
               c6d_rootmeta := false |} in
   c06_crypt_explicit s = false /\ dq_in_finding_class (dq_edict_of_cfg false c06_f1_cfg) (C6Stream s) = false) /\
  (forall e s, dq_V e <? 4 = true -> dq_in_finding_class e (C6Stream s) = false).
Proof.
  split; [vm_compute; reflexivity|]. split; [vm_compute; reflexivity|]. split; [vm_compute; reflexivity|].
  split; [split; vm_compute; reflexivity|].
  intros e s H. cbn [dq_in_finding_class]. apply N.ltb_lt in H.
  replace (4 <=? dq_V e) with false by (symmetry; apply N.leb_gt; exact H).
  rewrite andb_false_r. reflexivity.
Qed.
Print Assumptions dq_class_witnesses_lemma.
