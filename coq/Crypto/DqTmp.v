(* C06 proofs, part G (extension): method selection for EVERY encryption dictionary. The reader model of DecReader.v
   (c06_initialize + decryptString / decryptStream) against the ISO rule of DqIso.v, which is defined on arbitrary
   dictionaries (any /V the reader accepts, any /CF: entries that are not dictionaries, /CFM V2 / AESV2 / AESV3 / None /
   absent / unknown, /StmF /StrF /EFF present or not, /EncryptMetadata, every /Filter /DecodeParms shape). Outside the
   executable class dq_in_finding_class (findings C06-F1, F2, F10) the method the model undoes IS the method of the
   standard whenever the standard defines one; inside the class the existing *_refuted theorems give the witnesses.
   Then: the ISO rule of DqIso.v restricted to a producer's dictionary is the rule of IsoEnc.v (conservativity),
   decrypt(reference encrypt) for every leaf outside the class, and the password judgement. *)
From QV Require Import Base.Bytes Crypto.Nib Filters.Filters Filters.C15ProofsB.
From QV Require Import Crypto.MD5 Crypto.SHA2Fast Crypto.AES Crypto.AesPdf Crypto.KeyDeriv Crypto.IsoRef Crypto.Perms.
From QV Require Import Crypto.C05Proofs Crypto.CbcProofs Crypto.AesInv Crypto.C05ProofsB Crypto.C05ProofsC.
From QV Require Import Crypto.IsoEnc Crypto.DecReader Crypto.C06ProofsB Crypto.C06ProofsC Crypto.C06ProofsD Crypto.C06ProofsE.
From QV Require Import Crypto.DqIso Crypto.DqReader.
From Coq Require Import Arith.
Local Open Scope N_scope.

Opaque aes_cipher aes_inv_cipher aes_key_schedule.

(* ------------------------------------------------------------------ what initialize() leaves, for any dictionary *)
Lemma dq_init_fields : forall d id secret st ws,
  c06_initialize d id secret = C6Ok st ws ->
  exists V, c6r_V d = Some V /\ (V = 1 \/ V = 2 \/ V = 4 \/ V = 5)%Z /\ c6t_V st = Z.to_N V /\
    c6t_encmeta st = (if Z.leb 4 V then match c6r_encmeta d with Some b => b | None => true end else true) /\
    c6t_filters st = (if Z.eqb V 4 || Z.eqb V 5 then c06_read_CF (c6r_CF d) else []) /\
    c6t_cf_stream st = (if Z.eqb V 4 || Z.eqb V 5 then c06_interpretCF (c6t_filters st) (c6r_StmF d) else C6eNone) /\
    c6t_cf_string st = (if Z.eqb V 4 || Z.eqb V 5 then c06_interpretCF (c6t_filters st) (c6r_StrF d) else C6eNone) /\
    c6t_cf_file st = (if Z.eqb V 4 || Z.eqb V 5
                      then match c6r_EFF d with Some n => c06_interpretCF (c6t_filters st) (Some n) | None => c6t_cf_stream st end
                      else C6eNone).
Proof.
  intros d id secret st ws H. unfold c06_initialize in H.
  destruct (negb match c6r_filter d with Some n => bytes_eqb n c06_name_standard | None => false end); [discriminate|].
  destruct (c6r_V d) as [V|]; [|discriminate].
  destruct (c6r_R d) as [R|]; [|discriminate].
  destruct (c6r_O d) as [Ov|]; [|discriminate].
  destruct (c6r_U d) as [Uv|]; [|discriminate].
  destruct (c6r_P d) as [P|]; [|discriminate].
  destruct (negb (Z.leb 2 R && Z.leb R 6 && (Z.eqb V 1 || Z.eqb V 2 || Z.eqb V 4 || Z.eqb V 5))) eqn:EVR; [discriminate|].
  assert (HVc : (V = 1 \/ V = 2 \/ V = 4 \/ V = 5)%Z).
  { apply negb_false_iff in EVR. apply andb_true_iff in EVR. destruct EVR as [_ E].
    repeat (apply orb_true_iff in E; destruct E as [E|E]); apply Z.eqb_eq in E; auto. }
  exists V. split; [reflexivity|]. split; [exact HVc|].
  destruct (Z.ltb V 5) eqn:E5.
  - destruct (_ && _)%bool; [|discriminate].
    destruct secret as [pw|key]; cbv beta iota zeta in H.
    + idtac. Show. Abort.
