(* C14 - proofs, part E: export followed by import (QPDF_json.cc makeObject on qpdf's own JSON string lexer):
   the binary form keeps the bytes, PDFDoc text strings keep their bytes, names keep their bytes. *)
From QV Require Import Base.Bytes Gen.PdfDoc Json.JsonSpec Json.JsonEmit Json.C14ProofsA Json.C14ProofsB Json.C14ProofsC Json.C14ProofsD.
Local Open Scope N_scope.

Ltac Zify.zify_post_hook ::= Z.to_euclidean_division_equations.

Lemma plain_of_ascii_plain x : Forall (fun c => jm_plain_char c = true /\ c <= 127) x -> Forall (fun c => jm_plain_char c = true) x.
Proof. intros H. eapply Forall_impl; [|exact H]. intros ? [? ?]; assumption. Qed.

Lemma parse_token_prefixed pre x : Forall (fun c => jm_plain_char c = true /\ c <= 127) pre ->
  jm_parse_string_token (jm_q (pre ++ jm_encode_string x)) = Some (pre ++ x).
Proof.
  intros Hp. rewrite <- (encode_string_plain pre (plain_of_ascii_plain _ Hp)) at 1.
  rewrite <- encode_string_app. apply parse_string_inverts_encode_lemma.
Qed.

(* ------------------------------------------------------------------ binary form *)

Lemma string_binary_roundtrip_lemma : forall strict s, bytes_lt s ->
  jm_import_token strict (jm_q ([98; 58] ++ jm_hex_encode s)) = ImpString s.
Proof.
  intros strict s Hs. unfold jm_import_token.
  pose proof (hex_encode_ascii s Hs) as Hh.
  replace ([98; 58] ++ jm_hex_encode s) with (([98; 58] ++ jm_hex_encode s) ++ jm_encode_string []) by (simpl; rewrite app_nil_r; reflexivity).
  rewrite parse_token_prefixed by (apply Forall_app; split; [exact prefix_b_plain|exact Hh]).
  rewrite app_nil_r. unfold jm_make_string_object. cbn [app jm_is_indirect jm_take_digits].
  change (is_digit 98) with false. cbv iota.
  destruct (hex_encode_plain s Hs) as (_ & H2 & H3). rewrite H2, H3. cbn [andb].
  rewrite hex_roundtrip_lemma by assumption. reflexivity.
Qed.

(* ------------------------------------------------------------------ PDFDoc text strings keep their bytes *)

Lemma string_pdfdoc_text_roundtrip_lemma : forall strict s, bytes_lt s ->
  jm_is_utf16 s = false -> jm_is_explicit_utf8 s = false ->
  jm_import_token strict (jm_string_json 2 s) = ImpString s.
Proof.
  intros strict s Hs H16 H8. unfold jm_string_json. change (2 =? 1) with false. cbv iota.
  rewrite H16, H8. cbn [andb negb].
  destruct (jm_utf8_to_pdf_doc (jm_pdf_doc_to_utf8 s)) as [ok test] eqn:E.
  destruct (negb (jm_use_hex_string s) && true && true && (ok && list_eqb N.eqb test s)) eqn:C.
  - (* text form: String::utf16 re-encodes the same PDFDoc bytes *)
    apply andb_true_iff in C. destruct C as [_ C]. apply andb_true_iff in C. destruct C as [Hok Heq].
    apply list_eqb_N_eq in Heq. subst ok test.
    unfold jm_import_token. rewrite parse_token_prefixed by exact prefix_u_plain.
    unfold jm_make_string_object. cbn [app jm_is_indirect jm_take_digits]. change (is_digit 117) with false. cbv iota.
    unfold jm_new_unicode_string. rewrite E. reflexivity.
  - apply string_binary_roundtrip_lemma. assumption.
Qed.

(* ------------------------------------------------------------------ names *)

Definition no_nul (t : list N) : Prop := Forall (fun c => c <> 0) t.

Lemma normalize_char_cases c : c < 256 -> c <> 0 ->
  (jm_normalize_char c = [c] /\ jm_is_delimiter c = false /\ (c =? 35) = false) \/
  (jm_normalize_char c = [35; jm_hexdigit (c / 16); jm_hexdigit (c mod 16)]).
Proof.
  intros Hc H0.
  assert (E : forallb (fun c => if c =? 0 then true else
               (list_eqb N.eqb (jm_normalize_char c) [c] && negb (jm_is_delimiter c) && negb (c =? 35)) ||
               list_eqb N.eqb (jm_normalize_char c) [35; jm_hexdigit (c / 16); jm_hexdigit (c mod 16)]) all_bytes = true)
    by (vm_compute; reflexivity).
  pose proof (byte_sweep _ E c Hc) as Hs. cbv beta in Hs.
  destruct (N.eqb_spec c 0); [contradiction|].
  apply orb_true_iff in Hs. destruct Hs as [Hs|Hs].
  - left. apply andb_true_iff in Hs. destruct Hs as [Hs H3]. apply andb_true_iff in Hs. destruct Hs as [H1 H2].
    apply list_eqb_N_eq in H1. apply negb_true_iff in H2, H3. repeat split; assumption.
  - right. apply list_eqb_N_eq in Hs. assumption.
Qed.

Lemma name_token_normalized strict t : forall acc, bytes_lt t -> no_nul t ->
  jm_name_token strict (flat_map jm_normalize_char t) acc = Some (rev' (rev t ++ acc)).
Proof.
  induction t as [|c t IH]; intros acc Hb Hn; [reflexivity|].
  inversion Hb; subst. inversion Hn; subst. simpl flat_map.
  destruct (normalize_char_cases c H1 H3) as [(E & D & S)|E]; rewrite E.
  - simpl. rewrite D, S. rewrite IH by assumption. simpl. rewrite <- app_assoc. reflexivity.
  - assert (H16 : c / 16 < 16) by (apply N.div_lt_upper_bound; lia).
    assert (Hm : c mod 16 < 16) by (apply N.mod_lt; lia).
    destruct (hexdigit_decode _ H16) as [D1 _]. destruct (hexdigit_decode _ Hm) as [D2 _].
    cbn [app jm_name_token]. change (jm_is_delimiter 35) with false. change (35 =? 35) with true. cbv iota.
    unfold jm_is_hex_digit. rewrite D1, D2.
    apply N.ltb_lt in H16. rewrite H16. apply N.ltb_lt in Hm. rewrite Hm. cbv iota.
    replace (c / 16 * 16 + c mod 16) with c by (rewrite (N.div_mod c 16) at 1 by lia; lia).
    destruct (N.eqb_spec c 0); [contradiction|].
    rewrite IH by assumption. simpl. rewrite <- app_assoc. reflexivity.
Qed.

(* A name without NUL (NUL is the tokenizer's mark for a stray '#') keeps its bytes through export and import,
   in the plain form and in the n: form; also with the pinned import code (strict). *)
Lemma name_import_export_lemma : forall strict t, bytes_lt t -> no_nul t ->
  jm_import_token strict (jm_name_json 2 (47 :: t)) = ImpName (47 :: t).
Proof.
  intros strict t Hb Hn. unfold jm_name_json, jm_name_body, jm_name_body_with. change (2 =? 1) with false. cbv iota.
  assert (Hb' : bytes_lt (47 :: t)) by (constructor; [lia|assumption]).
  destruct (jm_analyze (47 :: t)) as [valid plain] eqn:E.
  assert (Hplainform : forall x, jm_parse_string_token (jm_q x) = Some (47 :: t) -> jm_import_token strict (jm_q x) = ImpName (47 :: t)).
  { intros x Hx. unfold jm_import_token. rewrite Hx. unfold jm_make_string_object.
    cbn [jm_is_indirect jm_take_digits]. change (is_digit 47) with false. cbv iota. reflexivity. }
  destruct valid.
  - destruct plain.
    + apply Hplainform.
      assert (Hp : jm_encode_string (47 :: t) = 47 :: t).
      { apply encode_string_plain. unfold jm_analyze in E.
        apply (analyze_plain (47 :: t) Hb' 0 false false false false false). rewrite E. reflexivity. }
      rewrite <- Hp at 1. apply parse_string_inverts_encode_lemma.
    + apply Hplainform. apply parse_string_inverts_encode_lemma.
  - unfold jm_import_token. rewrite parse_token_prefixed by exact prefix_n_plain.
    unfold jm_make_string_object. cbn [app jm_is_indirect jm_take_digits]. change (is_digit 110) with false. cbv iota.
    cbn [jm_normalize]. rewrite name_token_normalized by assumption.
    rewrite app_nil_r, rev'_rev, rev_involutive. reflexivity.
Qed.

(* F1: a name with a stray '#' that is not valid UTF-8 is rejected by the pinned import code, accepted after
   F1_json_stray_hash_names.diff: /K#80#zz, i.e. the name K 80 00 z z *)
Lemma name_import_export_refuted_lemma :
  exists t, bytes_lt t /\
    jm_import_token true (jm_name_json 2 (47 :: t)) = ImpError /\
    jm_import_token false (jm_name_json 2 (47 :: t)) = ImpName (47 :: t).
Proof. exists [75; 128; 0; 122; 122]. split; [repeat constructor|]. vm_compute. split; reflexivity. Qed.
