(* handlers: Sys/JobFront (C19): job front-end models. I/O only.
   front_argv <files> <arg>...      files: comma-separated hex names that can be opened; args hex ("-" = empty)
   front_json <partial 0|1> <token>...   tokens: s<hex> string, n other scalar, [ ... ] array, { k<hex> value ... } object
   result:  <end> <call>;<call>;...   call = obj.meth(hexarg,hexarg)   end = fin | front:<kind> | crash | schema | help *)
open Qvmodel
open Runner

let show_call (c : cfg_call) : string =
  match c with
  | CCall (o, m, args) ->
    string_of_bytes o ^ "." ^ string_of_bytes m ^ "(" ^ String.concat "," (List.map hexbytes args) ^ ")"

let show_res (r : fe_res) : string =
  let e = match r.r_end with
    | EFin -> "fin" | EFront k -> "front:" ^ string_of_int (int_of_n k) | ECrash -> "crash" | ESchema -> "schema" | EHelp -> "help" in
  e ^ " " ^ (match r.r_calls with [] -> "-" | l -> String.concat ";" (List.map show_call l))

let rec parse_jv (toks : string list) : jjv * string list =
  match toks with
  | [] -> failwith "json tokens"
  | t :: rest ->
    if t = "n" then (JJOther, rest)
    else if t = "[" then
      let rec items acc ts = match ts with
        | "]" :: r -> (JJArr (List.rev acc), r)
        | _ -> let (v, r) = parse_jv ts in items (v :: acc) r in
      items [] rest
    else if t = "{" then
      let rec mem acc ts = match ts with
        | "}" :: r -> (JJObj (List.rev acc), r)
        | k :: r when String.length k > 0 && k.[0] = 'k' ->
          let key = unhexbytes (let h = String.sub k 1 (String.length k - 1) in if h = "" then "-" else h) in
          let (v, r2) = parse_jv r in mem ((key, v) :: acc) r2
        | _ -> failwith "json object" in
      mem [] rest
    else if String.length t > 0 && t.[0] = 's' then
      (JJStr (unhexbytes (let h = String.sub t 1 (String.length t - 1) in if h = "" then "-" else h)), rest)
    else failwith "json token"

let () =
  register "front_argv" (fun args -> match args with
    | files :: rest ->
      let fl = if files = "-" then [] else List.map unhexbytes (String.split_on_char ',' files) in
      show_res (front_argv fl (List.map unhexbytes rest))
    | _ -> "?args");
  register "front_json" (fun args -> match args with
    | p :: toks -> let (v, _) = parse_jv toks in show_res (front_json (p = "1") v)
    | _ -> "?args")

(* conflict_pairs: the pairs of Config methods whose translated footprints interfere (Sys/JobCommute.conflicting_pairs over
   Gen/JobTables.config_footprints), as obj.meth+obj.meth separated by ';' *)
let () =
  register "conflict_pairs" (fun _ ->
    String.concat ";" (List.map (fun (((o1, m1), (o2, m2))) ->
      string_of_bytes o1 ^ "." ^ string_of_bytes m1 ^ "+" ^ string_of_bytes o2 ^ "." ^ string_of_bytes m2)
      (conflicting_pairs config_footprints)))
