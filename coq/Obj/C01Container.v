(* C01 - model of the path on which qpdf obtains the DATA OF A CONTAINER STREAM of its input, i.e. of an object stream
   (Objects::resolveObjectsInStream, QPDF_objects.cc: obj_stream.getStreamData(qpdf_dl_specialized)) and of a
   cross-reference stream (Objects::processXRefStream: xref_obj.getStreamData(qpdf_dl_specialized)).  Every object that
   lives in an object stream reaches the writer only through this path, in every output mode, so "rewriting preserves the
   document" depends on it for such inputs.  Written from the C++ (QPDF_Stream.cc: Stream::getStreamData,
   Stream::pipeStreamData, Stream::filterable, QPDF_Stream::Members::filter_factory; SF_FlateLzwDecode.cc;
   SF_RunLengthDecode.hh, SF_ASCII85Decode.hh, SF_ASCIIHexDecode.hh, SF_DCTDecode.hh; QPDFStreamFilter.cc; SF_Crypt in
   QPDF_Stream.cc; Streams::pipeStreamData in QPDF.cc for what happens when a decoder throws).

   Domain: /Filter and /DecodeParms are given as resolved values (an indirect reference has been replaced by the object it
   names, as QPDFObjectHandle does); dictionaries have distinct keys; the data handed to a /FlateDecode stage is one
   complete zlib stream or empty (zlib itself is outside qpdf: [infl] stands for it); the limits max-stream-filters and
   Pl_Flate::memory_limit are at their defaults (unlimited / 0).  The decoders are the pipeline models of Filters/Filters.v
   (C15); their results do not depend on how the data is cut into write() calls (C15 chunking theorems), so one chunk is fed.

   No proofs in this file. *)
From Coq Require Import List NArith ZArith Bool.
From QV Require Import Base.Bytes Obj.ParseModel Filters.Filters File.Inflate.
Import ListNotations.
Local Open Scope N_scope.

(* qpdf_stream_decode_level_e *)
Inductive c1c_level := C1cLvNone | C1cLvGeneralized | C1cLvSpecialized | C1cLvAll.
Definition c1c_rank (l : c1c_level) : N :=
  match l with C1cLvNone => 0 | C1cLvGeneralized => 1 | C1cLvSpecialized => 2 | C1cLvAll => 3 end.

(* the QPDFStreamFilter classes *)
Inductive c1c_kind := C1cFlate | C1cLzw | C1cRunLength | C1cDct | C1cA85 | C1cAhx | C1cCrypt.

Definition c1c_s_Filter : list N := [47; 70; 105; 108; 116; 101; 114].   (* /Filter *)
Definition c1c_s_DecodeParms : list N := [47; 68; 101; 99; 111; 100; 101; 80; 97; 114; 109; 115].   (* /DecodeParms *)
Definition c1c_s_Predictor : list N := [47; 80; 114; 101; 100; 105; 99; 116; 111; 114].   (* /Predictor *)
Definition c1c_s_Columns : list N := [47; 67; 111; 108; 117; 109; 110; 115].   (* /Columns *)
Definition c1c_s_Colors : list N := [47; 67; 111; 108; 111; 114; 115].   (* /Colors *)
Definition c1c_s_BitsPerComponent : list N := [47; 66; 105; 116; 115; 80; 101; 114; 67; 111; 109; 112; 111; 110; 101; 110; 116].   (* /BitsPerComponent *)
Definition c1c_s_EarlyChange : list N := [47; 69; 97; 114; 108; 121; 67; 104; 97; 110; 103; 101].   (* /EarlyChange *)
Definition c1c_s_Type : list N := [47; 84; 121; 112; 101].   (* /Type *)
Definition c1c_s_Name : list N := [47; 78; 97; 109; 101].   (* /Name *)
Definition c1c_s_CryptFilterDecodeParms : list N := [47; 67; 114; 121; 112; 116; 70; 105; 108; 116; 101; 114; 68; 101; 99; 111; 100; 101; 80; 97; 114; 109; 115].   (* /CryptFilterDecodeParms *)
Definition c1c_s_FlateDecode : list N := [47; 70; 108; 97; 116; 101; 68; 101; 99; 111; 100; 101].   (* /FlateDecode *)
Definition c1c_s_Crypt : list N := [47; 67; 114; 121; 112; 116].   (* /Crypt *)
Definition c1c_s_LZWDecode : list N := [47; 76; 90; 87; 68; 101; 99; 111; 100; 101].   (* /LZWDecode *)
Definition c1c_s_RunLengthDecode : list N := [47; 82; 117; 110; 76; 101; 110; 103; 116; 104; 68; 101; 99; 111; 100; 101].   (* /RunLengthDecode *)
Definition c1c_s_DCTDecode : list N := [47; 68; 67; 84; 68; 101; 99; 111; 100; 101].   (* /DCTDecode *)
Definition c1c_s_ASCII85Decode : list N := [47; 65; 83; 67; 73; 73; 56; 53; 68; 101; 99; 111; 100; 101].   (* /ASCII85Decode *)
Definition c1c_s_ASCIIHexDecode : list N := [47; 65; 83; 67; 73; 73; 72; 101; 120; 68; 101; 99; 111; 100; 101].   (* /ASCIIHexDecode *)
Definition c1c_s_Fl : list N := [47; 70; 108].   (* /Fl *)
Definition c1c_s_AHx : list N := [47; 65; 72; 120].   (* /AHx *)
Definition c1c_s_A85 : list N := [47; 65; 56; 53].   (* /A85 *)
Definition c1c_s_LZW : list N := [47; 76; 90; 87].   (* /LZW *)
Definition c1c_s_RL : list N := [47; 82; 76].   (* /RL *)
Definition c1c_s_DCT : list N := [47; 68; 67; 84].   (* /DCT *)

Definition c1c_beq (a b : list N) : bool := list_eqb N.eqb a b.

(* QPDF_Stream::Members::filter_factory (no user-registered factories): the chain of name comparisons, in the code's order *)
Definition c1c_filter_factory (name : list N) : option c1c_kind :=
  if c1c_beq name c1c_s_FlateDecode then Some C1cFlate
  else if c1c_beq name c1c_s_Crypt then Some C1cCrypt
  else if c1c_beq name c1c_s_LZWDecode then Some C1cLzw
  else if c1c_beq name c1c_s_RunLengthDecode then Some C1cRunLength
  else if c1c_beq name c1c_s_DCTDecode then Some C1cDct
  else if c1c_beq name c1c_s_ASCII85Decode then Some C1cA85
  else if c1c_beq name c1c_s_ASCIIHexDecode then Some C1cAhx
  else if c1c_beq name c1c_s_Fl then Some C1cFlate
  else if c1c_beq name c1c_s_AHx then Some C1cAhx
  else if c1c_beq name c1c_s_A85 then Some C1cA85
  else if c1c_beq name c1c_s_LZW then Some C1cLzw
  else if c1c_beq name c1c_s_RL then Some C1cRunLength
  else if c1c_beq name c1c_s_DCT then Some C1cDct
  else None.

(* isSpecializedCompression / isLossyCompression *)
Definition c1c_is_specialized (k : c1c_kind) : bool := match k with C1cRunLength => true | _ => false end.
Definition c1c_is_lossy (k : c1c_kind) : bool := match k with C1cDct => true | _ => false end.

Fixpoint c1c_dict_get (k : list N) (d : list (list N * mobj)) : mobj :=
  match d with
  | [] => MoNull
  | (k', v) :: r => if c1c_beq k k' then v else c1c_dict_get k r
  end.

(* what setDecodeParms leaves in an SF_FlateLzwDecode (member defaults: 1, 1, 1, 8, true) *)
Record c1c_cfg := { c1c_pred : Z; c1c_cols : Z; c1c_colors : Z; c1c_bpc : Z; c1c_early : bool }.
Definition c1c_cfg0 : c1c_cfg := {| c1c_pred := 1; c1c_cols := 1; c1c_colors := 1; c1c_bpc := 8; c1c_early := true |}.

(* getIntValueAsInt: out-of-range values are clamped (with a warning) *)
Definition c1c_clamp_int (z : Z) : Z := Z.max (-2147483648) (Z.min 2147483647 z).
(* a key of the parameter dictionary that must be an integer when present (getKeys() skips null values) *)
Definition c1c_int_field (k : list N) (d : list (list N * mobj)) (dflt : Z) : option Z :=
  match c1c_dict_get k d with
  | MoNull => Some dflt
  | MoInt z => Some (c1c_clamp_int z)
  | _ => None
  end.

(* SF_FlateLzwDecode::setDecodeParms; None = returned false *)
Definition c1c_set_parms_fl (lzw : bool) (p : mobj) : option c1c_cfg :=
  match p with
  | MoNull => Some c1c_cfg0
  | MoDict d =>
      match c1c_int_field c1c_s_Predictor d 1, c1c_int_field c1c_s_Columns d 1, c1c_int_field c1c_s_Colors d 1,
            c1c_int_field c1c_s_BitsPerComponent d 8,
            (if lzw then c1c_int_field c1c_s_EarlyChange d 1 else Some 1%Z) with
      | Some pr, Some co, Some cl, Some bp, Some ec =>
          if negb ((pr =? 1)%Z || (pr =? 2)%Z || ((10 <=? pr)%Z && (pr <=? 15)%Z)) then None
          else if negb ((ec =? 0)%Z || (ec =? 1)%Z) then None
          else if (1 <? pr)%Z && (co =? 0)%Z then None
          else Some {| c1c_pred := pr; c1c_cols := co; c1c_colors := cl; c1c_bpc := bp; c1c_early := (ec =? 1)%Z |}
      | _, _, _, _, _ => None
      end
  | _ => Some c1c_cfg0                 (* getKeys() of a non-dictionary: type warning, empty set *)
  end.

(* SF_Crypt::setDecodeParms *)
Fixpoint c1c_crypt_entries_ok (d : list (list N * mobj)) : bool :=
  match d with
  | [] => true
  | (k, v) :: r =>
      (if c1c_beq k c1c_s_Type
       then match v with
            | MoNull => true
            | MoName n => c1c_beq n c1c_s_CryptFilterDecodeParms
            | _ => false
            end
       else if c1c_beq k c1c_s_Name then true
       else match v with MoNull => true | _ => false end)
      && c1c_crypt_entries_ok r
  end.

(* setDecodeParms of each filter class: None = rejected *)
Definition c1c_set_parms (k : c1c_kind) (p : mobj) : option c1c_cfg :=
  match k with
  | C1cFlate => c1c_set_parms_fl false p
  | C1cLzw => c1c_set_parms_fl true p
  | C1cCrypt =>
      match p with
      | MoNull => Some c1c_cfg0
      | MoDict d => if c1c_crypt_entries_ok d then Some c1c_cfg0 else None
      | _ => None
      end
  | _ => match p with MoNull => Some c1c_cfg0 | _ => None end         (* QPDFStreamFilter::setDecodeParms *)
  end.

(* the lambda can_filter of Stream::filterable *)
Definition c1c_can_filter (lv : c1c_level) (k : c1c_kind) (p : mobj) : option c1c_cfg :=
  match c1c_set_parms k p with
  | None => None
  | Some c =>
      if ((c1c_rank lv <? 3) && c1c_is_lossy k) || ((c1c_rank lv <? 2) && c1c_is_specialized k) then None else Some c
  end.

(* the filter list: one name, or an array all of whose items are names of known filters *)
Fixpoint c1c_kinds_of (items : list mobj) : option (list c1c_kind) :=
  match items with
  | [] => Some []
  | MoName n :: r =>
      match c1c_filter_factory n with
      | None => None
      | Some k => match c1c_kinds_of r with Some ks => Some (k :: ks) | None => None end
      end
  | _ :: _ => None
  end.

Fixpoint c1c_all_same (lv : c1c_level) (ks : list c1c_kind) (p : mobj) : option (list (c1c_kind * c1c_cfg)) :=
  match ks with
  | [] => Some []
  | k :: r =>
      match c1c_can_filter lv k p with
      | None => None
      | Some c => match c1c_all_same lv r p with Some l => Some ((k, c) :: l) | None => None end
      end
  end.

Fixpoint c1c_pairwise (lv : c1c_level) (ks : list c1c_kind) (ps : list mobj) : option (list (c1c_kind * c1c_cfg)) :=
  match ks, ps with
  | [], _ => Some []
  | k :: r, p :: pr =>
      match c1c_can_filter lv k p with
      | None => None
      | Some c => match c1c_pairwise lv r pr with Some l => Some ((k, c) :: l) | None => None end
      end
  | _ :: _, [] => None
  end.

(* Stream::filterable: None = false, Some = the filters with their accepted parameters, in decoding order *)
Definition c1c_filterable (lv : c1c_level) (fobj pobj : mobj) : option (list (c1c_kind * c1c_cfg)) :=
  match (match fobj with
         | MoNull => Some None                              (* no filters: return true *)
         | MoName n => match c1c_filter_factory n with Some k => Some (Some [k]) | None => None end
         | MoArr items => match c1c_kinds_of items with Some ks => Some (Some ks) | None => None end
         | _ => None
         end) with
  | None => None
  | Some None => Some []
  | Some (Some ks) =>
      match pobj with
      | MoArr [] => c1c_all_same lv ks MoNull               (* an empty parameter array counts as null *)
      | MoArr ps =>
          if negb (match ks with [] => true | _ => false end) && negb (Nat.eqb (length ps) (length ks)) then None
          else c1c_pairwise lv ks ps
      | p => c1c_all_same lv ks p                           (* ONE parameter object is given to EVERY filter of the chain *)
      end
  end.

(* ---------------------------------------------------------------- decoding *)
Inductive c1c_post := C1cPostNone | C1cPostPng (p : png_params) | C1cPostTiff (p : tiff_params).

(* QIntC::to_uint of an int: negative values throw *)
Definition c1c_to_uint (z : Z) : option N := if (z <? 0)%Z then None else Some (Z.to_N z).

(* SF_FlateLzwDecode::getDecodePipeline: the predictor pipeline behind the decompressor; None = a constructor threw *)
Definition c1c_post_of (k : c1c_kind) (c : c1c_cfg) : option c1c_post :=
  match k with
  | C1cFlate | C1cLzw =>
      if (10 <=? c1c_pred c)%Z && (c1c_pred c <=? 15)%Z then
        match c1c_to_uint (c1c_cols c), c1c_to_uint (c1c_colors c), c1c_to_uint (c1c_bpc c) with
        | Some co, Some cl, Some bp => match png_make co cl bp with Some pp => Some (C1cPostPng pp) | None => None end
        | _, _, _ => None
        end
      else if (c1c_pred c =? 2)%Z then
        match c1c_to_uint (c1c_cols c), c1c_to_uint (c1c_colors c), c1c_to_uint (c1c_bpc c) with
        | Some co, Some cl, Some bp => match tiff_make co cl bp with Some tp => Some (C1cPostTiff tp) | None => None end
        | _, _, _ => None
        end
      else Some C1cPostNone
  | _ => Some C1cPostNone
  end.

Fixpoint c1c_prepare (st : list (c1c_kind * c1c_cfg)) : option (list (c1c_kind * c1c_cfg * c1c_post)) :=
  match st with
  | [] => Some []
  | (k, c) :: r =>
      match c1c_post_of k c, c1c_prepare r with
      | Some p, Some l => Some ((k, c, p) :: l)
      | _, _ => None
      end
  end.

Section Decode.
  Variable infl : list N -> option (list N).      (* zlib: one complete stream -> its content *)

  (* one filter: decompressor, then its predictor.  (bytes, threw?) *)
  Definition c1c_stage_run (k : c1c_kind) (c : c1c_cfg) (p : c1c_post) (d : list N) : fres :=
    let r : fres :=
      match k with
      | C1cFlate => match d with
                    | [] => ([], false)           (* Pl_Flate that never saw a write: finish() does nothing *)
                    | _ => match infl d with Some o => (o, false) | None => ([], true) end
                    end
      | C1cLzw => lzw_run (c1c_early c) [d]
      | C1cRunLength => rld_run [d]
      | C1cA85 => a85_run [d]
      | C1cAhx => ahx_run [d]
      | C1cCrypt => (d, false)                    (* getDecodePipeline returns no pipeline *)
      | C1cDct => (d, true)                       (* libjpeg: outside this model, see c1c_get_stream_data *)
      end in
    if snd r then r else
    match p with
    | C1cPostNone => r
    | C1cPostPng pp => (png_run false pp [fst r], false)
    | C1cPostTiff tp => tiff_run false tp [fst r]
    end.

  Fixpoint c1c_pipe (st : list (c1c_kind * c1c_cfg * c1c_post)) (d : list N) : fres :=
    match st with
    | [] => (d, false)
    | (k, c, p) :: r =>
        let '(o, e) := c1c_stage_run k c p d in
        if e then (o, true) else c1c_pipe r o
    end.

  Inductive c1c_outcome :=
  | C1cData (d : list N)          (* the decoded data *)
  | C1cUnfilterable               (* QPDFExc "getStreamData called on unfilterable stream", nothing else reported *)
  | C1cDecodeError                (* a decoder threw: warning "error decoding stream data", then the same QPDFExc *)
  | C1cThrow                      (* a pipeline constructor threw (std::runtime_error / std::range_error) *)
  | C1cOutside.                   (* DCT at decode level all: not modelled *)

  (* Stream::getStreamData(level) on a stream read from the file, raw = the /Length bytes after 'stream' *)
  Definition c1c_get_stream_data (lv : c1c_level) (fobj pobj : mobj) (raw : list N) : c1c_outcome :=
    let empty := match raw with [] => true | _ => false end in
    if negb (empty || negb (c1c_rank lv =? 0)) then C1cUnfilterable else
    match c1c_filterable lv fobj pobj with
    | None => C1cUnfilterable
    | Some st =>
        if existsb (fun kc => match fst kc with C1cDct => true | _ => false end) st then C1cOutside else
        match c1c_prepare st with
        | None => C1cThrow
        | Some pst => let '(o, e) := c1c_pipe pst raw in if e then C1cDecodeError else C1cData o
        end
    end.

  (* the decode levels the two readers ask for *)
  Definition c1c_objstm_level : c1c_level := C1cLvSpecialized.     (* Objects::resolveObjectsInStream *)
  Definition c1c_xref_level : c1c_level := C1cLvSpecialized.       (* Objects::processXRefStream *)

  Definition c1c_objstm_data (dict : list (list N * mobj)) (raw : list N) : c1c_outcome :=
    c1c_get_stream_data c1c_objstm_level (c1c_dict_get c1c_s_Filter dict) (c1c_dict_get c1c_s_DecodeParms dict) raw.
  Definition c1c_xref_data (dict : list (list N * mobj)) (raw : list N) : c1c_outcome :=
    c1c_get_stream_data c1c_xref_level (c1c_dict_get c1c_s_Filter dict) (c1c_dict_get c1c_s_DecodeParms dict) raw.
End Decode.

(* executable instances (extracted): zlib is the inflate model of File/Inflate.v *)
Definition c1c_infl (d : list N) : option (list N) :=
  match zlib_inflate d with Some (o, _) => Some o | None => None end.
Definition c1c_run_get (lv : N) (fobj pobj : mobj) (raw : list N) : c1c_outcome :=
  c1c_get_stream_data c1c_infl
    (if lv =? 0 then C1cLvNone else if lv =? 1 then C1cLvGeneralized else if lv =? 2 then C1cLvSpecialized else C1cLvAll) fobj pobj raw.
Definition c1c_run_objstm (fobj pobj : mobj) (raw : list N) : c1c_outcome :=
  c1c_objstm_data c1c_infl [(c1c_s_Filter, fobj); (c1c_s_DecodeParms, pobj)] raw.
Definition c1c_run_xref (fobj pobj : mobj) (raw : list N) : c1c_outcome :=
  c1c_xref_data c1c_infl [(c1c_s_Filter, fobj); (c1c_s_DecodeParms, pobj)] raw.
