#!/bin/bash
# usage: tools/try_seeded_scratch.sh <patch file or seeded dir name> <check id> [...]
# Applies the patch in a scratch worktree of /repo (/tmp/scratch-seed, kept between calls for incremental builds; remove
# it with `git -C /repo worktree remove --force /tmp/scratch-seed` when done) and runs the quick checks against it through
# VERIF_REPO: /repo itself, its build and the evidence files are not touched, so this can run while other checks run.
cd /verif
p=$1; shift
[ -f "$p" ] || p=/verif/seeded/$p/patch.diff
S=/tmp/scratch-seed
if [ ! -d $S ]; then git -C /repo worktree add --detach $S HEAD >/dev/null 2>&1 || exit 2; fi
git -C $S checkout -q -- . ; git -C $S checkout -q --detach $(git -C /repo rev-parse HEAD)
git -C $S apply "$p" || { echo "patch does not apply"; exit 2; }
for id in "$@"; do
  VERIF_REPO=$S ./check $id --tier ${TIER:-quick} 2>&1 | grep -E "VIOLATION|tier=" | cut -c1-300
done
git -C $S checkout -q -- .
