(* Base conventions: a byte is an N below 256, a string is a list of bytes.
   Everything here is executable and extraction-friendly (linear time). *)
From Coq Require Export List NArith ZArith Bool Lia.
Export ListNotations.
Local Open Scope N_scope.

Definition byte (b : N) : Prop := b < 256.
Definition byteb (b : N) : bool := b <? 256.
Definition bytes := list N.

Definition all_bytes : list N := map N.of_nat (seq 0 256).

Lemma all_bytes_complete : forall b, b < 256 -> In b all_bytes.
Proof.
  intros b Hb. unfold all_bytes. apply in_map_iff.
  exists (N.to_nat b). split; [apply N2Nat.id|].
  apply in_seq. lia.
Qed.

(* A property of bytes decided by a finite sweep. *)
Lemma byte_sweep (P : N -> bool) :
  forallb P all_bytes = true -> forall b, b < 256 -> P b = true.
Proof.
  intros H b Hb. rewrite forallb_forall in H. apply H, all_bytes_complete, Hb.
Qed.

(* linear reverse, usable both in proofs (rev_alt) and in extracted code *)
Definition rev' {A} (l : list A) : list A := rev_append l [].
Lemma rev'_rev {A} (l : list A) : rev' l = rev l.
Proof. unfold rev'. symmetry. apply rev_alt. Qed.

Fixpoint list_eqb {A} (eqb : A -> A -> bool) (a b : list A) : bool :=
  match a, b with
  | [], [] => true
  | x :: a', y :: b' => eqb x y && list_eqb eqb a' b'
  | _, _ => false
  end.

Lemma list_eqb_N_eq : forall a b, list_eqb N.eqb a b = true <-> a = b.
Proof.
  induction a as [|x a IH]; destruct b as [|y b]; simpl; split; intros H;
    try reflexivity; try discriminate.
  - apply andb_true_iff in H. destruct H as [H1 H2].
    apply N.eqb_eq in H1. apply IH in H2. subst. reflexivity.
  - injection H as -> ->. rewrite N.eqb_refl. simpl. apply IH. reflexivity.
Qed.

(* ASCII helpers *)
Definition is_digit (b : N) : bool := (48 <=? b) && (b <=? 57).
Definition digit_val (b : N) : N := b - 48.

(* decimal printing of a natural number (N), most significant first, on fuel *)
Fixpoint dec_digits_fuel (fuel : nat) (n : N) (acc : list N) : list N :=
  match fuel with
  | O => acc
  | S f => let q := n / 10 in let r := n mod 10 in
           if q =? 0 then (48 + r) :: acc else dec_digits_fuel f q ((48 + r) :: acc)
  end.
Definition dec_of_N (n : N) : list N := dec_digits_fuel (S (N.to_nat (N.log2 n))) n [].

Definition dec_of_Z (z : Z) : list N :=
  match z with
  | Z0 => [48]
  | Zpos p => dec_of_N (Npos p)
  | Zneg p => 45 :: dec_of_N (Npos p)
  end.

(* value of a digit string, most significant first *)
Definition dec_value (ds : list N) : N :=
  fold_left (fun acc d => acc * 10 + digit_val d) ds 0.

Lemma dec_value_app ds1 ds2 :
  dec_value (ds1 ++ ds2) = fold_left (fun acc d => acc * 10 + digit_val d) ds2 (dec_value ds1).
Proof. unfold dec_value. apply fold_left_app. Qed.
