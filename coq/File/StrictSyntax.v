(* Strict object syntax of ISO 32000-1 7.2-7.3, written from the standard: a zero-tolerance
   tokenizer and object parser used by the strict file reader. Independent of the model of
   qpdf's tokenizer. Anything not explicitly legal is rejected (None). *)
From QV Require Import Base.Bytes.
Local Open Scope N_scope.

Inductive pobj :=
| SpNull | SpBool (b : bool) | SpInt (z : Z) | SpReal (spelling : list N)
| SpStr (s : list N) | SpName (n : list N)
| SpArr (l : list pobj) | SpDict (d : list (list N * pobj)) | SpRef (n g : N).

Inductive tok :=
| StInt (z : Z) | StReal (sp : list N) | StStr (s : list N) | StName (n : list N)
| StKw (w : list N) | StArrO | StArrC | StDictO | StDictC.

(* 7.2.2: white space is NUL HT LF FF CR SP; delimiters ( ) < > [ ] { } / % *)
Definition is_ws (c : N) : bool := (c =? 0) || (c =? 9) || (c =? 10) || (c =? 12) || (c =? 13) || (c =? 32).
Definition is_delim (c : N) : bool :=
  (c =? 40) || (c =? 41) || (c =? 60) || (c =? 62) || (c =? 91) || (c =? 93) || (c =? 123) || (c =? 125) || (c =? 47) || (c =? 37).
Definition is_regular (c : N) : bool := negb (is_ws c) && negb (is_delim c).

(* skip white space and comments (a comment runs to the end of the line; the EOL is white space) *)
Fixpoint skip_ws_c (in_comment : bool) (s : list N) : list N :=
  match s with
  | [] => []
  | c :: t =>
      if in_comment then (if (c =? 10) || (c =? 13) then skip_ws_c false t else skip_ws_c true t)
      else if is_ws c then skip_ws_c false t
      else if c =? 37 then skip_ws_c true t
      else s
  end.
Definition skip_ws (s : list N) : list N := skip_ws_c false s.

Fixpoint take_regular (s : list N) : list N * list N :=
  match s with
  | c :: t => if is_regular c then let (a, b) := take_regular t in (c :: a, b) else ([], s)
  | [] => ([], [])
  end.

Definition hexv (c : N) : option N :=
  if (48 <=? c) && (c <=? 57) then Some (c - 48)
  else if (65 <=? c) && (c <=? 70) then Some (c - 55)
  else if (97 <=? c) && (c <=? 102) then Some (c - 87)
  else None.

(* 7.3.5 names: #xx stands for the byte xx. A '#' that is not followed by two hexadecimal digits is
   not legal in PDF >= 1.2; qpdf preserves such a name from a damaged input (with a warning), and
   the file-structure predicate does not judge it: it is taken literally (PDF 1.0/1.1 reading). *)
Fixpoint name_unescape (s : list N) : option (list N) :=
  match s with
  | [] => Some []
  | c :: rest =>
      let literal := match name_unescape rest with Some r => Some (c :: r) | None => None end in
      if c =? 35 then
        match rest with
        | a :: b :: t =>
            match hexv a, hexv b with
            | Some x, Some y =>
                match name_unescape t with
                | Some r => if x * 16 + y =? 0 then None else Some ((x * 16 + y) :: r)
                | None => None
                end
            | _, _ => literal
            end
        | _ => literal
        end
      else literal
  end.

(* 7.3.3 numbers *)
Fixpoint all_digits (s : list N) : bool :=
  match s with [] => true | c :: t => is_digit c && all_digits t end.
Definition strip_sign (s : list N) : bool * list N :=
  match s with
  | 43 :: t => (false, t)
  | 45 :: t => (true, t)
  | _ => (false, s)
  end.
Definition parse_number (s : list N) : option tok :=
  let (neg, body) := strip_sign s in
  match body with
  | [] => None
  | _ =>
      if all_digits body then
        let v := Z.of_N (dec_value body) in Some (StInt (if neg then (- v)%Z else v))
      else
        (* real: digits with exactly one '.', at least one digit *)
        let fix split_dot (l : list N) : option (list N * list N) :=
            match l with
            | [] => None
            | 46 :: t => Some ([], t)
            | c :: t => match split_dot t with Some (a, b) => Some (c :: a, b) | None => None end
            end in
        match split_dot body with
        | Some (a, b) => if all_digits a && all_digits b && negb (Nat.eqb (length a + length b) 0)
                         then Some (StReal s) else None
        | None => None
        end
  end.

(* 7.3.4.2 literal strings: balanced parentheses, escapes, EOL normalisation *)
Definition is_oct (c : N) : bool := (48 <=? c) && (c <=? 55).
Fixpoint lit_string (depth : nat) (s : list N) (acc : list N) : option (list N * list N) :=
      match s with
      | [] => None
      | 41 :: t => match depth with
                   | O => Some (rev' acc, t)
                   | S d => lit_string d t (41 :: acc)
                   end
      | 40 :: t => lit_string (S depth) t (40 :: acc)
      | 92 :: t =>
          match t with
          | [] => None
          | 110 :: u => lit_string depth u (10 :: acc)
          | 114 :: u => lit_string depth u (13 :: acc)
          | 116 :: u => lit_string depth u (9 :: acc)
          | 98 :: u => lit_string depth u (8 :: acc)
          | 102 :: u => lit_string depth u (12 :: acc)
          | 40 :: u => lit_string depth u (40 :: acc)
          | 41 :: u => lit_string depth u (41 :: acc)
          | 92 :: u => lit_string depth u (92 :: acc)
          | 13 :: 10 :: u => lit_string depth u acc
          | 13 :: u => lit_string depth u acc
          | 10 :: u => lit_string depth u acc
          | a :: u =>
              if is_oct a then
                match u with
                | b :: v => if is_oct b then
                              match v with
                              | c :: w => if is_oct c
                                          then lit_string depth w ((((a - 48) * 64 + (b - 48) * 8 + (c - 48)) mod 256) :: acc)
                                          else lit_string depth v (((a - 48) * 8 + (b - 48)) :: acc)
                              | [] => lit_string depth v (((a - 48) * 8 + (b - 48)) :: acc)
                              end
                            else lit_string depth u ((a - 48) :: acc)
                | [] => lit_string depth u ((a - 48) :: acc)
                end
              else lit_string depth u (a :: acc)     (* unknown escape: the backslash is ignored *)
          end
      | 13 :: 10 :: t => lit_string depth t (10 :: acc)
      | 13 :: t => lit_string depth t (10 :: acc)
      | c :: t => lit_string depth t (c :: acc)
      end.

(* 7.3.4.3 hex strings *)
Fixpoint hex_string (s : list N) (pending : option N) (acc : list N) : option (list N * list N) :=
  match s with
  | [] => None
  | 62 :: t => Some (rev' (match pending with Some h => (h * 16) :: acc | None => acc end), t)
  | c :: t =>
      if is_ws c then hex_string t pending acc else
      match hexv c with
      | None => None
      | Some v => match pending with
                  | None => hex_string t (Some v) acc
                  | Some h => hex_string t None ((h * 16 + v) :: acc)
                  end
      end
  end.

Definition next_tok (s0 : list N) : option (tok * list N) :=
  let s := skip_ws s0 in
  match s with
  | [] => None
  | 40 :: t => match lit_string 0 t [] with Some (v, r) => Some (StStr v, r) | None => None end
  | 60 :: 60 :: t => Some (StDictO, t)
  | 60 :: t => match hex_string t None [] with Some (v, r) => Some (StStr v, r) | None => None end
  | 62 :: 62 :: t => Some (StDictC, t)
  | 91 :: t => Some (StArrO, t)
  | 93 :: t => Some (StArrC, t)
  | 47 :: t => let (w, r) := take_regular t in
               match name_unescape w with Some n => Some (StName n, r) | None => None end
  | c :: _ =>
      if is_delim c then None else
      let (w, r) := take_regular s in
      match w with
      | [] => None
      | h :: _ => if is_digit h || (h =? 43) || (h =? 45) || (h =? 46)
                  then match parse_number w with Some t => Some (t, r) | None => None end
                  else Some (StKw w, r)
      end
  end.

Definition kw_R : list N := [82].
Definition kw_true : list N := [116; 114; 117; 101].
Definition kw_false : list N := [102; 97; 108; 115; 101].
Definition kw_null : list N := [110; 117; 108; 108].
Definition beq (a b : list N) : bool := list_eqb N.eqb a b.

(* object parser on fuel (one unit per token consumed at this nesting or below) *)
Fixpoint parse_obj (fuel : nat) (s : list N) : option (pobj * list N) :=
  match fuel with
  | O => None
  | S f =>
      match next_tok s with
      | None => None
      | Some (t, r) =>
          match t with
          | StInt z =>
              (* n g R ? *)
              match next_tok r with
              | Some (StInt g, r2) =>
                  match next_tok r2 with
                  | Some (StKw w, r3) =>
                      if beq w kw_R && (0 <? z)%Z && (0 <=? g)%Z then Some (SpRef (Z.to_N z) (Z.to_N g), r3)
                      else Some (SpInt z, r)
                  | _ => Some (SpInt z, r)
                  end
              | _ => Some (SpInt z, r)
              end
          | StReal sp => Some (SpReal sp, r)
          | StStr v => Some (SpStr v, r)
          | StName n => Some (SpName n, r)
          | StKw w => if beq w kw_true then Some (SpBool true, r)
                     else if beq w kw_false then Some (SpBool false, r)
                     else if beq w kw_null then Some (SpNull, r)
                     else None
          | StArrO =>
              (fix arr (k : nat) (s1 : list N) (acc : list pobj) : option (pobj * list N) :=
                 match k with
                 | O => None
                 | S k' =>
                     match next_tok s1 with
                     | Some (StArrC, r1) => Some (SpArr (rev' acc), r1)
                     | _ => match parse_obj f s1 with
                            | Some (o, r1) => arr k' r1 (o :: acc)
                            | None => None
                            end
                     end
                 end) f r []
          | StDictO =>
              (fix dict (k : nat) (s1 : list N) (acc : list (list N * pobj)) : option (pobj * list N) :=
                 match k with
                 | O => None
                 | S k' =>
                     match next_tok s1 with
                     | Some (StDictC, r1) => Some (SpDict (rev' acc), r1)
                     | Some (StName key, r1) =>
                         match parse_obj f r1 with
                         | Some (o, r2) => dict k' r2 ((key, o) :: acc)
                         | None => None
                         end
                     | _ => None
                     end
                 end) f r []
          | _ => None
          end
      end
  end.

Fixpoint dict_get (d : list (list N * pobj)) (k : list N) : option pobj :=
  match d with
  | [] => None
  | (k', v) :: t => if beq k k' then Some v else dict_get t k
  end.

Fixpoint has_dup_keys (d : list (list N * pobj)) : bool :=
  match d with
  | [] => false
  | (k, _) :: t => existsb (fun kv => beq k (fst kv)) t || has_dup_keys t
  end.
