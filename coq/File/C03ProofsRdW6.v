(* C03 - towards rd_reads_writer_output, continued: read_xref (model) on a file whose single section is a classic table as
   the writer model prints it: `xref LF 0 n+1 LF` object 0 free, n lines, `trailer << entries /ID [..] >> LF startxref ..`.
   Steps (2a)-(2c) composed. *)
From QV Require Import Base.Bytes Lex.TokModel Lex.LexSpec Lex.TokInterp Lex.LexRun Lex.LexProofs
     Obj.Unparse Obj.UnparseProofs Obj.SynSpec Obj.SynMachine Obj.ParseModel Obj.ParseProofs Obj.ParseSim
     Obj.Queue Obj.C01QueueProofs File.WriterArith Obj.WriterModel Obj.WmPrinters File.C02Proofs Obj.C01WriterProofs Obj.C01FileProofs
     File.XrefModel File.RdModel File.C03ProofsRd File.C03ProofsRdW File.C03ProofsRdW2 File.C03ProofsRdW3 File.C03ProofsRdW5
     File.C03ProofsRdX.
From Coq Require Import Lia.
Local Open Scope N_scope.

Lemma rw_dict_absent : forall d acc, R_dict d acc -> forall k, (forall sv, ~ In (k, sv) acc) -> rd_dict_get (47 :: k) d = MoNull.
Proof.
  induction 1 as [|d acc k0 v0 sv0 HR IH Hv Hk]; intros k Hno; [reflexivity|].
  rewrite rw_get_put_other.
  - apply IH. intros sv Hin. apply (Hno sv). right. exact Hin.
  - destruct (list_eqb N.eqb (47 :: k) (47 :: k0)) eqn:E; [|reflexivity].
    apply list_eqb_N_eq in E. injection E as ->. exfalso. apply (Hno sv0). left. reflexivity.
Qed.

Definition rw_k_Prev : list N := [80; 114; 101; 118].
Definition rw_k_XRefStm : list N := [88; 82; 101; 102; 83; 116; 109].

Lemma rd_read_xref_section_step : forall file max_id xoff offs objs ren d' id1 id2 zs TL,
  let n := N.of_nat (length offs) in
  let o := rw_trailer_obj d' id1 id2 in
  let F := 10 :: rd_s_startxref ++ 10 :: TL in
  let ttext := 32 :: 60 :: 60 :: flat_map (rw_entry_text objs ren) d'
               ++ [32; 47; 73; 68; 32; 91] ++ hexstr id1 ++ hexstr id2 ++ [93] ++ [32; 62; 62] ++ F in
  rd_at file xoff = [120; 114; 101; 102; 10] ++ [48; 32] ++ dec_of_N (n + 1) ++ [10] ++ s_free
                    ++ flat_map (fun ko : N * N => xref_line (snd ko)) offs ++ rd_s_trailer ++ ttext ->
  xoff <> 0 -> n < 2147483647 -> Forall (fun ko : N * N => snd ko < 10 ^ 10) offs ->
  (forall id, 0 < ren id) -> rw_wf o = true -> rw_nd objs o = true ->
  ints_ok (rd_toks objs ren o) -> refs_ok (rd_toks objs ren o) = true ->
  opens (rd_toks objs ren o) <= 500 -> len (rd_toks objs ren o) < 4294967295 ->
  bytes_ok TL -> bytes_ok (flat_map (rw_entry_text objs ren) d') ->
  In (k_Size, SyInt zs) (rw_sy_entries objs ren d') ->
  (forall sv, ~ In (rw_k_Prev, sv) (rw_sy_entries objs ren d')) ->
  (forall sv, ~ In (rw_k_XRefStm, sv) (rw_sy_entries objs ren d')) ->
  let st0 := Build_c3_state [] [] in
  let st1 := rdx_insert max_id st0 1 offs in
  exists o' dm,
    R_obj o' (rd_sy objs ren o) /\ o' = MoDict dm /\
    rd_read_xref (S (length file)) file max_id (mkRdXst st0 None [] []) xoff []
    = RdGo (mkRdXst (fold_left (c3_entry max_id) [(0, C3Free 65535)] st1)
                    (Some (rd_fixrefs (rd_known (mkRdEnv file (c3_tbl st1) [] max_id false)) (MoDict dm))) [] []).
Proof.
  intros file max_id xoff offs objs ren d' id1 id2 zs TL n o F ttext Hat Hx0 Hn Hoffs Hren W ND Hi Hr Ho Hl BTL Bent HSize HPrev HStm st0 st1.
  assert (BF : bytes_ok F) by (unfold F, rd_s_startxref; cbn [app]; repeat (first [assumption | constructor; [reflexivity|]])).
  (* bytes of the trailer text: from the chain *)
  unfold o, rw_trailer_obj in W. pose proof W as W0. cbn [rw_wf] in W0. rewrite forallb_app in W0. apply andb_true_iff in W0. destruct W0 as [Wd Wid].
  cbn [forallb rw_wf] in Wid. rewrite !andb_true_r in Wid. apply andb_true_iff in Wid. destruct Wid as [_ Wid].
  apply andb_true_iff in Wid. destruct Wid as [W1 W2].
  pose proof (rw_bytes_of _ W1) as B1. pose proof (rw_bytes_of _ W2) as B2.
  assert (Btt : bytes_ok ttext).
  { assert (B9 : bytes_ok ([93] ++ [32; 62; 62] ++ F)) by (cbn [app]; repeat (first [assumption | constructor; [reflexivity|]])).
    destruct (rw_step_hexstr id2 _ B2 B9) as (B10 & _).
    destruct (rw_step_hexstr id1 _ B1 B10) as (B11 & _).
    unfold ttext. constructor; [reflexivity|]. constructor; [reflexivity|]. constructor; [reflexivity|].
    apply Forall_app. split; [exact Bent|].
    cbn [app]. repeat (first [exact B11 | constructor; [reflexivity|]]). }
  (* the table *)
  pose proof (rw_rd_at_shift file xoff [120; 114; 101; 102; 10] _ Hat) as Hat5. change (rd_len [120; 114; 101; 102; 10]) with 5 in Hat5.
  destruct (rd_table_section_model_step file (xoff + 5) offs ttext max_id st0 Hat5 Hn Hoffs Btt eq_refl) as (tpos & Htab).
  (* the trailer *)
  destruct (rd_trailer_parses_step objs ren d' id1 id2 F rd_tk tpos Hren W ND Hi Hr Ho Hl BF eq_refl ltac:(discriminate))
    as (o' & P1 & P2 & P3 & P4).
  fold ttext in P1, P3, P4. set (r := parse_object false false rd_tk ttext tpos) in *.
  assert (Hsy : rd_sy objs ren o = SyDict (rw_sy_entries objs ren d' ++ [(rw_k_ID, SyArr [SyStr id1; SyStr id2])])).
  { unfold o, rw_trailer_obj. cbn [rd_sy]. unfold rw_sy_entries. rewrite flat_map_app. reflexivity. }
  pose proof P2 as P2'. fold o in P2'. rewrite Hsy in P2'. inversion P2' as [| | | | | | |dm acc HRd Eo Hrev|]. subst o'.
  exists (MoDict dm), dm. split; [exact P2|]. split; [reflexivity|].
  assert (Hacc : forall k sv, In (k, sv) acc <-> In (k, sv) (rw_sy_entries objs ren d' ++ [(rw_k_ID, SyArr [SyStr id1; SyStr id2])])).
  { intros k sv. rewrite <- Hrev. apply in_rev. }
  set (e1 := mkRdEnv file (c3_tbl st1) [] max_id false).
  set (dfix := map (fun kv : list N * mobj => match kv with (k0, v0) => (k0, rd_fixrefs (rd_known e1) v0) end) dm).
  assert (GSize : rd_dict_get rd_s_Size dfix = MoInt zs).
  { unfold dfix. rewrite rw_get_fixrefs. change rd_s_Size with (47 :: k_Size).
    destruct (rd_dict_lookup_lemma dm acc HRd k_Size (SyInt zs)) as (v & Hg & Hv).
    - apply Hacc. apply in_or_app. left. exact HSize.
    - inversion Hv; subst. rewrite <- H. reflexivity. }
  assert (GPrev : rd_dict_get rd_s_Prev dfix = MoNull).
  { unfold dfix. rewrite rw_get_fixrefs. change rd_s_Prev with (47 :: rw_k_Prev). rewrite (rw_dict_absent dm acc HRd); [reflexivity|].
    intros sv Hin. apply Hacc in Hin. apply in_app_or in Hin. destruct Hin as [Hin|[Hin|[]]]; [exact (HPrev sv Hin) | discriminate Hin]. }
  assert (GStm : rd_dict_get rd_s_XRefStm dfix = MoNull).
  { unfold dfix. rewrite rw_get_fixrefs. change rd_s_XRefStm with (47 :: rw_k_XRefStm). rewrite (rw_dict_absent dm acc HRd); [reflexivity|].
    intros sv Hin. apply Hacc in Hin. apply in_app_or in Hin. destruct Hin as [Hin|[Hin|[]]]; [exact (HStm sv Hin) | discriminate Hin]. }
  (* the token after the trailer dictionary is `startxref`, not `stream` *)
  assert (S9 : rw_step F (PKeyword rd_s_startxref) (10 :: TL)).
  { unfold F. apply rw_step_ws; [reflexivity | reflexivity|].
    apply (rw_step_kw rd_s_startxref (PKeyword rd_s_startxref) (10 :: TL)); try reflexivity; [discriminate | constructor; [reflexivity | exact BTL]]. }
  destruct (rw_tok_step _ _ _ (pr_pos r) S9) as (tk9 & p9 & l9 & T9 & I9).
  pose proof (rw_word_tok _ _ I9 rd_s_stream) as W9. change (list_eqb N.eqb rd_s_startxref rd_s_stream) with false in W9.
  (* read_xrefTable *)
  assert (Hxt : rd_read_xtable file max_id (mkRdXst st0 None [] []) (xoff + 5)
                = RdGo (mkRdXst (fold_left (c3_entry max_id) [(0, C3Free 65535)] st1) (Some (MoDict dfix)) [] [], 0%Z)).
  { unfold rd_read_xtable. cbn [rdx_st rdx_pre rdx_trailer rdx_w]. fold st0. rewrite Htab. fold st1. fold r. fold e1.
    rewrite P1. cbn [rd_fixrefs]. fold dfix. rewrite P4, T9, W9, P3.
    rewrite GSize, GStm, GPrev. cbn [rd_is_ref orb andb negb map app rev']. reflexivity. }
  (* read_xref: one iteration *)
  cbn [rd_read_xref]. rewrite Hat.
  change (rd_skip_space ([120; 114; 101; 102; 10] ++ [48; 32] ++ dec_of_N (n + 1) ++ [10] ++ s_free
            ++ flat_map (fun ko : N * N => xref_line (snd ko)) offs ++ rd_s_trailer ++ ttext) 0)
    with ([120; 114; 101; 102; 10] ++ [48; 32] ++ dec_of_N (n + 1) ++ [10] ++ s_free
            ++ flat_map (fun ko : N * N => xref_line (snd ko)) offs ++ rd_s_trailer ++ ttext, 0).
  cbv beta iota. cbn [app firstn]. 
  change (rd_prefix rd_s_xref [120; 114; 101; 102; 10; 48]) with true.
  cbn [nth andb]. change (Filters.util_is_space 10) with true. change (Filters.util_is_space 48) with false. cbv iota.
  rewrite Hxt. cbn [rdx_st rdx_trailer rdx_pre rdx_w]. change (0 <? 0) with false. cbv iota.
  change ((0 <? 0)%Z) with false. cbv iota. cbn [existsb]. 
  assert (Ex : (Z.to_N 0 =? xoff) = false) by (apply N.eqb_neq; cbn; lia). rewrite Ex. cbn [orb].
  change ((0 =? 0)%Z) with true. cbv iota. reflexivity.
Qed.
