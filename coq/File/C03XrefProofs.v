(* Proofs for C03 (file structure): qpdf's way of combining cross-reference sections against the ISO lookup
   rule. Statements are fixed. *)
From QV Require Import Base.Bytes File.XrefModel.
From Coq Require Import Lia.
Local Open Scope N_scope.

(* For every well-formed chain without reuse of an object number at another generation, qpdf's table equals the
   ISO lookup for every object: the newest section that mentions an object wins; a free entry there makes it read
   as null unless that same section's /XRefStm holds it (hidden object of a hybrid-reference file); objects
   never mentioned are absent. *)
Lemma xref_chain_newest_wins_lemma : forall max_id chain obj,
  Forall (c3_section_ok max_id) chain -> c3_single_gen chain ->
  (forall s, In s chain -> c3_is_table s = false -> c3_stm s = []) ->
  (forall s stm idx, In s chain -> In (obj, C3Comp stm idx) (c3_table s ++ c3_stm s) ->
     forall s' o' g', In s' chain -> In (obj, C3Use o' g') (c3_table s' ++ c3_stm s') -> g' = 0) ->
  c3_qpdf_view max_id chain obj = c3_spec_view chain obj.
Proof. Abort.

(* The hybrid layout of ISO 32000-1 7.5.8.4 (hidden objects listed FREE in the table of the very section whose
   /XRefStm holds them) is read as the standard says. *)
Lemma hybrid_hidden_objects_read_lemma :
  let chain := [ {| c3_is_table := true; c3_table := [(0, C3Free 65535); (1, C3Use 15 0); (2, C3Free 65535)];
                   c3_stm := [(2, C3Comp 1 0)] |} ] in
  c3_qpdf_view 5 chain 2 = Some (0, C3Comp 1 0) /\ c3_qpdf_view 5 chain 2 = c3_spec_view chain 2.
Proof. Abort.

(* free in the newest section that mentions the object (and not hidden in its /XRefStm): it reads as null
   whatever older sections say *)
Lemma free_reads_null_lemma : forall max_id s older obj g,
  c3_section_ok max_id s -> c3_find (c3_table s) obj = Some (C3Free g) -> c3_find (c3_stm s) obj = None ->
  obj <= max_id ->
  c3_qpdf_view max_id (s :: older) obj = None.
Proof. Abort.
