(* C12 - property theorems. Only statements closed by `exact`, with Print Assumptions. *)
From QV Require Import Base.Bytes Struct.NumRange Struct.RangeSpec Struct.PageOps Struct.C12Proofs.
From Coq Require Permutation.

(* The model of QUtil::parse_numrange accepts exactly the strings of the manual's range
   grammar and returns exactly the page list the declarative denotation gives; every other
   string, and every out-of-range number, is rejected. For all strings, all max. *)
Theorem numrange_spec : forall s max, nr_ok (parse_numrange s max) = range_spec s max.
Proof. exact numrange_spec_lemma. Qed.
Print Assumptions numrange_spec.

(* The collation loop of handlePageSpecs is the round-robin of the manual. *)
Theorem collate_refines : forall (A : Type) (sels : list (list A)) (cs : list nat),
  length cs = length sels -> Forall (fun c => 0 < c)%nat cs ->
  collate sels cs = collate_spec sels cs.
Proof. exact collate_refines_lemma. Qed.
Print Assumptions collate_refines.

(* Collation neither loses nor duplicates a selected page. *)
Theorem collate_perm : forall (A : Type) (sels : list (list A)) (cs : list nat),
  length cs = length sels -> Forall (fun c => 0 < c)%nat cs ->
  Permutation.Permutation (collate sels cs) (concat sels).
Proof. exact collate_perm_lemma. Qed.
Print Assumptions collate_perm.

(* The split outputs concatenated in order reproduce the page sequence; every file has
   between 1 and n pages. *)
Theorem split_concat : forall (A : Type) (n : nat) (ps : list A), (0 < n)%nat ->
  concat (split_pages n ps) = ps
  /\ Forall (fun c => 0 < length c <= n)%nat (split_pages n ps).
Proof. exact split_concat_lemma. Qed.
Print Assumptions split_concat.

(* Rotation: the written /Rotate is congruent to the requested one modulo 360 (C++ % written
   out), and lies in [0,360) whenever the sum is at least -360. *)
Theorem rotate_mod360 : forall old a rel r, (a mod 90 = 0)%Z ->
  rotate_angle old a rel = Some r ->
  let eff := if (old mod 90 =? 0)%Z then old else 0%Z in
  (r mod 360 = (if rel then eff + a else a) mod 360)%Z
  /\ ((-360 <= (if rel then eff + a else a))%Z -> (0 <= r < 360)%Z).
Proof. exact rotate_mod360_lemma. Qed.
Print Assumptions rotate_mod360.

Theorem rotate_rejects : forall old a rel, (a mod 90 <> 0)%Z -> rotate_angle old a rel = None.
Proof. exact rotate_rejects_lemma. Qed.
Print Assumptions rotate_rejects.

(* non-vacuity: concrete non-trivial instances of the hypotheses *)
Example numrange_example :
  nr_ok (parse_numrange [49;45;51;44;120;50;44;122;44;114;50;45;53;58;101;118;101;110]%N 10)
  = Some [3;9;7;5]%Z.
Proof. vm_compute. reflexivity. Qed.
Example collate_example : collate [[1;2;3;4;5];[10;20];[100;200;300]]%Z [2;1;1]%nat
  = [1;2;10;100;3;4;20;200;5;300]%Z.
Proof. vm_compute. reflexivity. Qed.
Example rotate_negative_example : rotate_angle (-720) (-270) true = Some (-270)%Z.
Proof. vm_compute. reflexivity. Qed.
