(* CBC mode over an abstract block cipher: what the ISO reader (IsoRef.v) does to what the model
   of qpdf's Pl_AES_PDF (AesPdf.v) wrote.  The block cipher is abstract: everything is stated for
   round keys satisfying cipher_ok (16-byte blocks to 16-byte blocks of bytes, inverse cipher
   undoing the cipher on blocks of bytes). *)
From QV Require Import Base.Bytes Crypto.Nib Crypto.AES Crypto.AesPdf Crypto.IsoRef.
From Coq Require Import Arith.
Local Open Scope N_scope.

Definition byte_list (l : list N) : Prop := Forall (fun b => b < 256) l.
Definition cipher_ok (rks : list (list hb)) : Prop :=
  (forall b, length b = 16%nat -> length (aes_cipher rks b) = 16%nat) /\
  (forall b, byte_list (aes_cipher rks b)) /\
  (forall b, length b = 16%nat -> byte_list b -> aes_inv_cipher rks (aes_cipher rks b) = b).

Opaque aes_cipher aes_inv_cipher aes_key_schedule.

(* ---- bytes and xor ---- *)
Lemma lxor_byte : forall a b, a < 256 -> b < 256 -> N.lxor a b < 256.
Proof.
  intros a b Ha Hb.
  destruct (N.eq_dec (N.lxor a b) 0) as [E|E]; [rewrite E; reflexivity|].
  assert (La : N.log2 a < 8).
  { destruct (N.eq_dec a 0) as [->|Na]; [reflexivity|].
    apply N.log2_lt_pow2; [lia|exact Ha]. }
  assert (Lb : N.log2 b < 8).
  { destruct (N.eq_dec b 0) as [->|Nb]; [reflexivity|].
    apply N.log2_lt_pow2; [lia|exact Hb]. }
  change 256 with (2 ^ 8). apply N.log2_lt_pow2; [lia|].
  pose proof (N.log2_lxor a b). lia.
Qed.

Lemma byte_list_app : forall a b, byte_list (a ++ b) <-> byte_list a /\ byte_list b.
Proof. intros. unfold byte_list. apply Forall_app. Qed.

Lemma xor_bytes_length : forall a b, length a = length b -> length (xor_bytes a b) = length a.
Proof.
  induction a as [|x a IH]; destruct b as [|y b]; simpl; intros H; try reflexivity; try discriminate.
  f_equal. apply IH. congruence.
Qed.

Lemma xor_bytes_bytes : forall a b, byte_list a -> byte_list b -> byte_list (xor_bytes a b).
Proof.
  induction a as [|x a IH]; destruct b as [|y b]; simpl; intros Ha Hb; try constructor.
  - inversion Ha; inversion Hb; subst. apply lxor_byte; assumption.
  - inversion Ha; inversion Hb; subst. apply IH; assumption.
Qed.

Lemma xor_bytes_invol : forall a b, length a = length b -> xor_bytes (xor_bytes a b) b = a.
Proof.
  induction a as [|x a IH]; destruct b as [|y b]; simpl; intros H; try reflexivity; try discriminate.
  rewrite N.lxor_assoc, N.lxor_nilpotent, N.lxor_0_r. f_equal. apply IH. congruence.
Qed.

(* ---- cutting into 16-byte blocks ---- *)
Definition blocks16 (bs : list (list N)) : Prop := Forall (fun b => length b = 16%nat) bs.

Lemma concat_length16 : forall bs, blocks16 bs -> length (concat bs) = (16 * length bs)%nat.
Proof.
  induction bs as [|b t IH]; intros H; [reflexivity|].
  inversion H; subst. cbn [concat length]. rewrite app_length, IH by assumption. lia.
Qed.

Lemma firstn16_app : forall (b r : list N), length b = 16%nat -> firstn 16 (b ++ r) = b.
Proof.
  intros b r H. rewrite <- H. rewrite firstn_app, Nat.sub_diag, firstn_all.
  cbn [firstn]. apply app_nil_r.
Qed.

Lemma skipn16_app : forall (b r : list N), length b = 16%nat -> skipn 16 (b ++ r) = r.
Proof.
  intros b r H. rewrite <- H. rewrite skipn_app, Nat.sub_diag, skipn_all. reflexivity.
Qed.

(* chunks16 of (b ++ rest) when length b = 16 and the fuel is at least 1 *)
Lemma chunks16_app : forall f b r, length b = 16%nat ->
  chunks16 (S f) (b ++ r) = b :: chunks16 f r.
Proof.
  intros f b r H.
  destruct b as [|x b]; [discriminate|].
  change (chunks16 (S f) ((x :: b) ++ r))
    with (firstn 16 ((x :: b) ++ r) :: chunks16 f (skipn 16 ((x :: b) ++ r))).
  rewrite firstn16_app, skipn16_app by assumption. reflexivity.
Qed.

(* chunks16 with at least as much fuel as blocks recovers the blocks (more fuel changes nothing) *)
Lemma chunks16_concat : forall bs f, blocks16 bs -> (length bs <= f)%nat ->
  chunks16 f (concat bs) = bs.
Proof.
  induction bs as [|b t IH]; intros f H Hf.
  - destruct f; reflexivity.
  - inversion H; subst. destruct f as [|f]; [simpl in Hf; lia|].
    cbn [concat]. rewrite chunks16_app by assumption. f_equal.
    apply IH; [assumption|simpl in Hf; lia].
Qed.

Lemma iso_blocks_concat : forall bs, blocks16 bs -> iso_blocks (concat bs) = bs.
Proof.
  intros bs H. unfold iso_blocks. apply chunks16_concat; [assumption|].
  rewrite concat_length16 by assumption.
  rewrite Nat.mul_comm, Nat.div_mul by discriminate. lia.
Qed.

Lemma split16 : forall k l, length l = (16 * k)%nat ->
  exists bs, concat bs = l /\ blocks16 bs /\ length bs = k.
Proof.
  induction k as [|k IH]; intros l H.
  - exists []. destruct l; [repeat split; constructor|discriminate].
  - destruct (IH (skipn 16 l)) as [bs [Hc [Hb Hl]]].
    { rewrite skipn_length. lia. }
    exists (firstn 16 l :: bs). repeat split.
    + cbn [concat]. rewrite Hc. apply firstn_skipn.
    + constructor; [|assumption]. rewrite firstn_length. lia.
    + cbn [length]. congruence.
Qed.

Lemma split16_mod : forall l, (length l mod 16 = 0)%nat ->
  exists bs, concat bs = l /\ blocks16 bs /\ length bs = (length l / 16)%nat.
Proof.
  intros l H. apply split16. apply Nat.div_exact; [discriminate|assumption].
Qed.

Lemma byte_list_concat : forall bs, byte_list (concat bs) -> Forall byte_list bs.
Proof.
  induction bs as [|b t IH]; intros H; [constructor|].
  cbn [concat] in H. apply byte_list_app in H. destruct H. constructor; auto.
Qed.

(* ---- CBC encryption as a list of ciphertext blocks ---- *)
Fixpoint enc_list (rks : list (list hb)) (prev : list N) (bs : list (list N)) : list (list N) :=
  match bs with
  | [] => []
  | b :: t => let c := aes_cipher rks (xor_bytes b prev) in c :: enc_list rks c t
  end.

Lemma iso_cbc_enc_concat : forall rks bs prev,
  iso_cbc_enc rks prev bs = concat (enc_list rks prev bs).
Proof.
  induction bs as [|b t IH]; intros prev; [reflexivity|].
  cbn [iso_cbc_enc enc_list concat]. rewrite IH. reflexivity.
Qed.

(* with the flag cbc = true the pipeline's block loop is the reader's CBC *)
Lemma cbc_encrypt_blocks_iso : forall rks bs prev,
  cbc_encrypt_blocks rks true prev bs = iso_cbc_enc rks prev bs.
Proof.
  induction bs as [|b t IH]; intros prev; [reflexivity|].
  cbn [cbc_encrypt_blocks iso_cbc_enc]. rewrite IH. reflexivity.
Qed.

Lemma enc_list_length : forall rks bs prev, length (enc_list rks prev bs) = length bs.
Proof.
  induction bs as [|b t IH]; intros prev; [reflexivity|].
  cbn [enc_list length]. rewrite IH. reflexivity.
Qed.

Lemma enc_list_blocks16 : forall rks, cipher_ok rks -> forall bs prev,
  blocks16 bs -> length prev = 16%nat -> blocks16 (enc_list rks prev bs).
Proof.
  intros rks [Hlen _]. induction bs as [|b t IH]; intros prev H Hp; [constructor|].
  inversion H; subst. cbn [enc_list].
  assert (Hc : length (aes_cipher rks (xor_bytes b prev)) = 16%nat).
  { apply Hlen. rewrite xor_bytes_length; congruence. }
  constructor; [assumption|]. apply IH; assumption.
Qed.

Lemma iso_cbc_enc_bytes_gen : forall rks, cipher_ok rks -> forall bs prev,
  byte_list (iso_cbc_enc rks prev bs).
Proof.
  intros rks [_ [Hb _]]. induction bs as [|b t IH]; intros prev; [constructor|].
  cbn [iso_cbc_enc]. apply byte_list_app. split; [apply Hb|apply IH].
Qed.

Lemma dec_enc_list : forall rks, cipher_ok rks -> forall bs prev,
  blocks16 bs -> Forall byte_list bs -> length prev = 16%nat -> byte_list prev ->
  iso_cbc_dec rks prev (enc_list rks prev bs) = concat bs.
Proof.
  intros rks [Hlen [Hbytes Hinv]]. induction bs as [|b t IH]; intros prev H HB Hp Hpb; [reflexivity|].
  inversion H; subst. inversion HB; subst.
  cbn [enc_list iso_cbc_dec concat].
  assert (Hx : length (xor_bytes b prev) = 16%nat) by (rewrite xor_bytes_length; congruence).
  rewrite Hinv by (try assumption; apply xor_bytes_bytes; assumption).
  rewrite xor_bytes_invol by congruence.
  f_equal. apply IH; try assumption.
  - apply Hlen; assumption.
  - apply Hbytes.
Qed.

(* ---- 4. plain CBC round trip ---- *)
Lemma iso_cbc_enc_bytes : forall rks iv data, cipher_ok rks ->
  byte_list (iso_cbc_enc rks iv (iso_blocks data)).
Proof. intros. apply iso_cbc_enc_bytes_gen; assumption. Qed.

(* the premise length iv = 16 cannot be dropped: xor_bytes b iv is as short as iv and cipher_ok
   says nothing about the image of a short block; with the real cipher and iv = [] the
   ciphertext of 16 zero bytes under any 16-byte key is empty (vm_compute) *)
Lemma iso_cbc_enc_length : forall rks iv data, cipher_ok rks -> length iv = 16%nat ->
  (length data mod 16 = 0)%nat ->
  length (iso_cbc_enc rks iv (iso_blocks data)) = length data.
Proof.
  intros rks iv data Hok Hiv Hm.
  destruct (split16_mod data Hm) as [bs [Hc [Hb Hl]]]. subst data.
  rewrite iso_blocks_concat by assumption.
  rewrite iso_cbc_enc_concat.
  rewrite !concat_length16; [rewrite enc_list_length; reflexivity|assumption|].
  apply enc_list_blocks16; assumption.
Qed.

(* without any premise on the IV: the ciphertext of no data is empty *)
Lemma iso_cbc_enc_nil : forall rks iv, iso_cbc_enc rks iv (iso_blocks []) = [].
Proof. reflexivity. Qed.

Lemma iso_cbc_dec_enc : forall rks iv data,
  cipher_ok rks -> length iv = 16%nat -> byte_list iv -> (length data mod 16 = 0)%nat -> byte_list data ->
  iso_cbc_dec rks iv (iso_blocks (iso_cbc_enc rks iv (iso_blocks data))) = data.
Proof.
  intros rks iv data Hok Hiv Hivb Hm Hd.
  destruct (split16_mod data Hm) as [bs [Hc [Hb Hl]]]. subst data.
  rewrite (iso_blocks_concat bs) by assumption.
  rewrite iso_cbc_enc_concat.
  rewrite iso_blocks_concat by (apply enc_list_blocks16; assumption).
  apply dec_enc_list; try assumption. apply byte_list_concat; assumption.
Qed.

(* ---- PKCS padding ---- *)
Definition pad_len (s : list N) : nat := (16 - length s mod 16)%nat.

Lemma pad_len_range : forall s, (1 <= pad_len s <= 16)%nat.
Proof.
  intros s. unfold pad_len. pose proof (Nat.mod_upper_bound (length s) 16). lia.
Qed.

Lemma pkcs_pad_eq : forall s,
  pkcs_pad s = s ++ repeat (N.of_nat (pad_len s)) (pad_len s).
Proof.
  intros s. unfold pkcs_pad, pad_len.
  assert (E : 16 - N.of_nat (length s) mod 16 = N.of_nat (16 - length s mod 16)).
  { pose proof (Nat.mod_upper_bound (length s) 16).
    rewrite Nat2N.inj_sub. change (N.of_nat 16) with 16. f_equal.
    change 16 with (N.of_nat 16) at 1. rewrite <- Nat2N.inj_mod. reflexivity. }
  cbv zeta. rewrite E, Nat2N.id. reflexivity.
Qed.

Lemma pkcs_pad_length : forall s, length (pkcs_pad s) = (16 * (length s / 16 + 1))%nat.
Proof.
  intros s. rewrite pkcs_pad_eq, app_length, repeat_length. unfold pad_len.
  pose proof (Nat.div_mod (length s) 16). pose proof (Nat.mod_upper_bound (length s) 16). lia.
Qed.

Lemma pkcs_pad_bytes : forall s, byte_list s -> byte_list (pkcs_pad s).
Proof.
  intros s H. rewrite pkcs_pad_eq. apply byte_list_app. split; [assumption|].
  pose proof (pad_len_range s).
  unfold byte_list. apply Forall_forall. intros x Hx. apply repeat_spec in Hx. subst x. lia.
Qed.

Lemma last_app_repeat : forall (l : list N) x m d, last (l ++ repeat x (S m)) d = x.
Proof.
  intros l x m d. cbn [repeat]. rewrite repeat_cons, app_assoc. apply last_last.
Qed.

Lemma forallb_eqb_repeat : forall x m, forallb (N.eqb x) (repeat x m) = true.
Proof.
  intros x m. induction m as [|m IH]; [reflexivity|].
  cbn [repeat forallb]. rewrite N.eqb_refl, IH. reflexivity.
Qed.

(* the reader's padding check on a correctly padded plaintext *)
Lemma iso_unpad_pkcs : forall s,
  let pt := pkcs_pad s in
  let p := last pt 0 in
  ((1 <=? p) && (p <=? 16) && forallb (N.eqb p) (skipn (length pt - N.to_nat p) pt) = true) /\
  firstn (length pt - N.to_nat p) pt = s.
Proof.
  intros s. cbv zeta. rewrite pkcs_pad_eq.
  pose proof (pad_len_range s) as Hr.
  set (n := pad_len s) in *.
  assert (Hlast : last (s ++ repeat (N.of_nat n) n) 0 = N.of_nat n).
  { destruct n as [|m]; [lia|]. apply last_app_repeat. }
  rewrite Hlast, Nat2N.id, app_length, repeat_length.
  replace (length s + n - n)%nat with (length s) by lia.
  rewrite skipn_app, firstn_app, Nat.sub_diag, skipn_all, firstn_all.
  cbn [skipn firstn app]. rewrite app_nil_r, forallb_eqb_repeat.
  split; [|reflexivity].
  assert (H1 : (1 <=? N.of_nat n) = true) by (apply N.leb_le; lia).
  assert (H2 : (N.of_nat n <=? 16) = true) by (apply N.leb_le; lia).
  rewrite H1, H2. reflexivity.
Qed.

(* ---- the pipeline's blocks ---- *)
Lemma key_len_ok_negb : forall key, key_len_ok key = true -> negb (key_len_ok key) = false.
Proof. intros key H. rewrite H. reflexivity. Qed.

Lemma firstn_whole : forall (data : list N), (length data mod 16 = 0)%nat ->
  firstn (16 * (length data / 16)) data = data.
Proof.
  intros data H. apply Nat.div_exact in H; [|discriminate]. rewrite <- H. apply firstn_all.
Qed.

Lemma pl_encrypt_nopad : forall key ivm data,
  key_len_ok key = true -> (length data mod 16 = 0)%nat ->
  (match ivm with IvWritten _ => False | _ => True end) ->
  pl_aes_encrypt key true ivm false data =
  Some (iso_cbc_enc (aes_key_schedule key) (iv_bytes ivm) (iso_blocks data)).
Proof.
  intros key ivm data Hk Hm Hiv. unfold pl_aes_encrypt.
  rewrite key_len_ok_negb by assumption. cbv zeta.
  rewrite firstn_whole by assumption. fold (iso_blocks data).
  destruct (iso_blocks data) as [|b t] eqn:E; [reflexivity|].
  rewrite cbc_encrypt_blocks_iso.
  destruct ivm; try contradiction; reflexivity.
Qed.

(* ---- 3. padding disabled, IV given or zero, whole blocks: the pipeline is plain CBC ---- *)
Lemma pl_encrypt_nopad_given : forall key iv data,
  key_len_ok key = true -> (length data mod 16 = 0)%nat ->
  pl_aes_encrypt key true (IvGiven iv) false data =
  Some (iso_cbc_enc (aes_key_schedule key) iv (iso_blocks data)).
Proof. intros. apply (pl_encrypt_nopad key (IvGiven iv)); auto. Qed.

Lemma pl_encrypt_nopad_zero : forall key data,
  key_len_ok key = true -> (length data mod 16 = 0)%nat ->
  pl_aes_encrypt key true IvZero false data =
  Some (iso_cbc_enc (aes_key_schedule key) iso_zero_iv (iso_blocks data)).
Proof. intros. apply (pl_encrypt_nopad key IvZero); auto. Qed.

(* ---- the padded pipeline with the IV written in front ---- *)
Lemma pl_encrypt_padded : forall key iv s,
  key_len_ok key = true ->
  exists bs, concat bs = pkcs_pad s /\ blocks16 bs /\ length bs = (length s / 16 + 1)%nat /\
  opt_bytes (pl_aes_encrypt key true (IvWritten iv) true s) =
  iv ++ concat (enc_list (aes_key_schedule key) iv bs).
Proof.
  intros key iv s Hk.
  destruct (split16 (length s / 16 + 1) (pkcs_pad s) (pkcs_pad_length s)) as [bs [Hc [Hb Hl]]].
  exists bs. repeat split; try assumption.
  unfold pl_aes_encrypt. rewrite key_len_ok_negb by assumption. cbv zeta.
  fold (iso_blocks (pkcs_pad s)). rewrite <- Hc, iso_blocks_concat by assumption.
  destruct bs as [|b t]; [rewrite Nat.add_1_r in Hl; discriminate|].
  cbn [opt_bytes iv_bytes]. rewrite cbc_encrypt_blocks_iso, iso_cbc_enc_concat. reflexivity.
Qed.

(* ---- 2. length of the ciphertext: IV + padded data ---- *)
Lemma pl_encrypt_length : forall key iv s,
  cipher_ok (aes_key_schedule key) -> key_len_ok key = true -> length iv = 16%nat ->
  length (opt_bytes (pl_aes_encrypt key true (IvWritten iv) true s)) = (16 + 16 * (length s / 16 + 1))%nat.
Proof.
  intros key iv s Hok Hk Hiv.
  destruct (pl_encrypt_padded key iv s Hk) as [bs [Hc [Hb [Hl E]]]].
  rewrite E, app_length, Hiv, concat_length16 by (apply enc_list_blocks16; assumption).
  rewrite enc_list_length, Hl. reflexivity.
Qed.

(* ---- 1. what the ISO reader does to what qpdf's pipeline wrote ---- *)
Lemma pl_encrypt_iso_decrypt : forall key iv s,
  cipher_ok (aes_key_schedule key) -> key_len_ok key = true ->
  length iv = 16%nat -> byte_list iv -> byte_list s ->
  iso_aes_decrypt key (opt_bytes (pl_aes_encrypt key true (IvWritten iv) true s)) = Some s.
Proof.
  intros key iv s Hok Hk Hiv Hivb Hs.
  pose proof (pl_encrypt_length key iv s Hok Hk Hiv) as Hlen.
  destruct (pl_encrypt_padded key iv s Hk) as [bs [Hc [Hb [Hl E]]]].
  rewrite E in *. clear E.
  set (C := concat (enc_list (aes_key_schedule key) iv bs)) in *.
  unfold iso_aes_decrypt. cbv zeta. rewrite Hlen.
  assert (Hlt : Nat.ltb (16 + 16 * (length s / 16 + 1)) 32 = false) by (apply Nat.ltb_ge; lia).
  assert (Hmod : Nat.eqb ((16 + 16 * (length s / 16 + 1)) mod 16) 0 = true).
  { apply Nat.eqb_eq. replace (16 + 16 * (length s / 16 + 1))%nat with ((length s / 16 + 2) * 16)%nat by lia.
    apply Nat.mod_mul. discriminate. }
  rewrite Hlt, Hmod. cbn [orb negb].
  rewrite !(firstn16_app iv C Hiv), !(skipn16_app iv C Hiv).
  unfold C. rewrite iso_blocks_concat by (apply enc_list_blocks16; assumption).
  rewrite dec_enc_list; try assumption.
  2:{ apply byte_list_concat. rewrite Hc. apply pkcs_pad_bytes. assumption. }
  rewrite Hc.
  destruct (iso_unpad_pkcs s) as [H1 H2]. cbv zeta in H1, H2.
  rewrite H1, H2. reflexivity.
Qed.

Print Assumptions pl_encrypt_iso_decrypt.
Print Assumptions pl_encrypt_length.
Print Assumptions pl_encrypt_nopad_given.
Print Assumptions pl_encrypt_nopad_zero.
Print Assumptions iso_cbc_dec_enc.
Print Assumptions iso_cbc_enc_length.
Print Assumptions iso_cbc_enc_bytes.
