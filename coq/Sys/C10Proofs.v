(* C10 - theorems about qpdf's output sinks over the stream model (all buffer sizes, all data, all
   fault oracles, all capacities). *)
From QV Require Import Base.Bytes Sys.StdioModel Sys.StdioProofs Sys.SinkModel Sys.OutputSpec.
From Coq Require Import Arith Lia.
Local Open Scope nat_scope.

Definition c10_at (w : c10_world) (name : nat) : option sfile := c10_lookup (cw_dir w) name.

(* ---- directory facts *)
Lemma c10_lookup_remove_same d n : c10_lookup (c10_remove d n) n = None.
Proof.
  induction d as [|[m f] tl IH]; simpl; auto.
  destruct (Nat.eqb m n) eqn:E; auto. simpl. rewrite E. auto.
Qed.
Lemma c10_lookup_remove_other d n m : m <> n -> c10_lookup (c10_remove d n) m = c10_lookup d m.
Proof.
  intros H. induction d as [|[k f] tl IH]; simpl; auto.
  destruct (Nat.eqb k n) eqn:E.
  - apply Nat.eqb_eq in E. subst. destruct (Nat.eqb n m) eqn:E2; auto. apply Nat.eqb_eq in E2. congruence.
  - simpl. rewrite IH. reflexivity.
Qed.
Lemma c10_lookup_bind_same d n f : c10_lookup (c10_bind_name d n f) n = Some f.
Proof. unfold c10_bind_name. simpl. rewrite Nat.eqb_refl. reflexivity. Qed.
Lemma c10_lookup_bind_other d n m f : m <> n -> c10_lookup (c10_bind_name d n f) m = c10_lookup d m.
Proof.
  intros H. unfold c10_bind_name. simpl. destruct (Nat.eqb n m) eqn:E.
  - apply Nat.eqb_eq in E. congruence.
  - apply c10_lookup_remove_other; auto.
Qed.
Lemma c10_lookup_map d g n :
  c10_lookup (map (fun p : nat * sfile => (fst p, g (snd p))) d) n = option_map g (c10_lookup d n).
Proof. induction d as [|[m f] tl IH]; simpl; auto. destruct (Nat.eqb m n); auto. Qed.

(* ---- one stdio call *)
Definition c10_frame (name : nat) (w w' : c10_world) : Prop :=
  (forall m, m <> name -> c10_at w' m = c10_at w m) /\ cw_diag w' = cw_diag w /\ cw_cout_bad w' = cw_cout_bad w.
Lemma c10_frame_refl name w : c10_frame name w w.
Proof. repeat split; auto. Qed.
Lemma c10_frame_trans name a b c : c10_frame name a b -> c10_frame name b c -> c10_frame name a c.
Proof. intros (A1 & A2 & A3) (B1 & B2 & B3). repeat split; try congruence. intros m Hm. rewrite B1, A1; auto. Qed.

Lemma c10_stream_op_ok {A} en name w (call : sfile -> A * sfile) ev dflt f a w' :
  c10_at w name = Some f ->
  c10_stream_op en name w call ev dflt = ROk a w' ->
  exists f', call (c10_apply_fault (en_fault en (S (cw_n w))) f) = (a, f') /\ c10_at w' name = Some f' /\
             c10_frame name w w'.
Proof.
  unfold c10_stream_op, c10_at. simpl. intros Hf.
  destruct (c10_is_killb (en_fault en (S (cw_n w)))); [discriminate|].
  rewrite Hf. destruct (call (c10_apply_fault (en_fault en (S (cw_n w))) f)) as [a0 f0] eqn:Hc.
  destruct (c10_is_killa (en_fault en (S (cw_n w)))); [discriminate|].
  intros H; inversion H; subst; clear H. exists f0. split; [reflexivity|]. simpl.
  split; [apply c10_lookup_bind_same|]. split; [|split; reflexivity].
  intros m Hm. unfold c10_at. simpl. apply c10_lookup_bind_other; auto.
Qed.

Lemma c10_apply_fault_rel fa f : sio_rel f (c10_apply_fault fa f) [].
Proof. destruct fa; simpl; try apply sio_rel_refl; apply sio_set_cap_rel. Qed.

(* the stream `name` is open and, unless its error indicator is set, holds exactly `data` *)
Definition c10_sinv (w : c10_world) (name : nat) (data : list N) : Prop :=
  exists f, c10_at w name = Some f /\ sf_open f = true /\ (sf_err f = false -> sio_logical f = data).

Lemma c10_fwrite_inv en name d w r w' data :
  c10_sinv w name data -> c10_fwrite en name d w = ROk r w' ->
  r <= length d /\ c10_sinv w' name (data ++ firstn r d) /\ c10_frame name w w'.
Proof.
  intros (f & Hat & Hop & Hlog) H. unfold c10_fwrite in H.
  destruct (c10_stream_op_ok _ _ _ _ _ _ _ _ _ Hat H) as (f' & Hc & Hat' & Hfr).
  apply sio_fwrite_spec in Hc. destruct Hc as (C1 & C2 & C3).
  pose proof (c10_apply_fault_rel (en_fault en (S (cw_n w))) f) as (F1 & F2 & F3 & F4 & F5).
  split; [exact C1|]. split; [|exact Hfr].
  exists f'. split; [exact Hat'|]. split.
  - destruct C3 as (_ & _ & O & _). congruence.
  - intros He. destruct (C2 He) as [Hr (R1 & _)]. destruct (R1 He) as [He0 Hl].
    destruct (F1 He0) as [Hef Hl0]. rewrite app_nil_r in Hl0.
    rewrite Hl, Hl0, (Hlog Hef), Hr, firstn_all. reflexivity.
Qed.

Lemma c10_pl_write_inv en name : forall fuel d w w' data,
  c10_sinv w name data -> c10_pl_write fuel en name d w = ROk tt w' ->
  c10_sinv w' name (data ++ d) /\ c10_frame name w w'.
Proof.
  induction fuel as [|fu IH]; intros d w w' data Hinv H; destruct d as [|b tl]; simpl in H.
  - inversion H; subst. rewrite app_nil_r. split; [exact Hinv|apply c10_frame_refl].
  - discriminate.
  - inversion H; subst. rewrite app_nil_r. split; [exact Hinv|apply c10_frame_refl].
  - destruct (c10_fwrite en name (b :: tl) w) as [r w1|e w1|w1] eqn:Hw; simpl in H; try discriminate.
    destruct (c10_fwrite_inv _ _ _ _ _ _ _ Hinv Hw) as (Hr & Hinv1 & Hfr1).
    destruct (Nat.eqb r 0); [discriminate|].
    destruct (IH _ _ _ _ Hinv1 H) as (Hinv2 & Hfr2).
    rewrite <- app_assoc, firstn_skipn in Hinv2.
    split; [exact Hinv2|eapply c10_frame_trans; eauto].
Qed.

Lemma c10_pl_write_chunks_inv en name : forall chunks w w' data,
  c10_sinv w name data -> c10_pl_write_chunks en name chunks w = ROk tt w' ->
  c10_sinv w' name (data ++ concat chunks) /\ c10_frame name w w'.
Proof.
  induction chunks as [|d tl IH]; intros w w' data Hinv H; simpl in H.
  - inversion H; subst. simpl. rewrite app_nil_r. split; [exact Hinv|apply c10_frame_refl].
  - unfold c10_pl_write_all in H.
    destruct (c10_pl_write (S (length d)) en name d w) as [[] w1|e w1|w1] eqn:Hw; simpl in H; try discriminate.
    destruct (c10_pl_write_inv _ _ _ _ _ _ _ Hinv Hw) as (Hinv1 & Hfr1).
    destruct (IH _ _ _ Hinv1 H) as (Hinv2 & Hfr2).
    simpl. rewrite app_assoc. split; [exact Hinv2|eapply c10_frame_trans; eauto].
Qed.

(* a finish() from a Popper destructor that returns normally keeps the invariant *)
Lemma c10_pop_finish_inv en name w w' data :
  c10_sinv w name data -> c10_pop_finish en name w = ROk tt w' -> c10_sinv w' name data /\ c10_frame name w w'.
Proof.
  intros (f & Hat & Hop & Hlog) H. unfold c10_pop_finish, c10_fflush in H.
  destruct (c10_stream_op en name w sio_fflush (fun ok => EvFlush name ok) true) as [ok w1|e w1|w1] eqn:Hs; simpl in H; try discriminate.
  destruct (c10_stream_op_ok _ _ _ _ _ _ _ _ _ Hat Hs) as (f' & Hc & Hat' & Hfr).
  assert (Hw : w' = w1).
  { destruct (ck_finish (en_ck en) && (negb ok || c10_ferror w1 name)); [destruct (ck_popper (en_ck en)); [|discriminate]|]; inversion H; reflexivity. }
  subst w'. split; [|exact Hfr].
  apply sio_fflush_spec in Hc. destruct Hc as ((R1 & _ & _ & R4 & _) & _ & _).
  pose proof (c10_apply_fault_rel (en_fault en (S (cw_n w))) f) as (F1 & _ & _ & F4 & _).
  exists f'. split; [exact Hat'|]. split; [congruence|].
  intros He. destruct (R1 He) as [He0 Hl]. destruct (F1 He0) as [Hef Hl0]. rewrite app_nil_r in Hl, Hl0.
  rewrite Hl, Hl0. auto.
Qed.
Lemma c10_pop_finish_n_inv en name : forall n w w' data,
  c10_sinv w name data -> c10_pop_finish_n n en name w = ROk tt w' -> c10_sinv w' name data /\ c10_frame name w w'.
Proof.
  induction n as [|k IH]; intros w w' data Hinv H; simpl in H.
  - inversion H; subst. split; [exact Hinv|apply c10_frame_refl].
  - destruct (c10_pop_finish en name w) as [[] w1|e w1|w1] eqn:Hp; simpl in H; try discriminate.
    destruct (c10_pop_finish_inv _ _ _ _ _ Hinv Hp) as (H1 & F1). destruct (IH _ _ _ H1 H) as (H2 & F2).
    split; [exact H2|eapply c10_frame_trans; eauto].
Qed.

(* a stream that has been flushed and found clean: the kernel has exactly `data` *)
Definition c10_clean (w : c10_world) (name : nat) (data : list N) (open : bool) : Prop :=
  exists f, c10_at w name = Some f /\ sf_open f = open /\ sf_err f = false /\ sf_rbuf f = [] /\ sio_disk f = data.

Lemma c10_pl_finish_inv en name w w' data :
  ck_finish (en_ck en) = true ->
  c10_sinv w name data -> c10_pl_finish en name w = ROk tt w' ->
  c10_clean w' name data true /\ c10_frame name w w'.
Proof.
  intros Hck (f & Hat & Hop & Hlog) H. unfold c10_pl_finish, c10_fflush in H.
  destruct (c10_stream_op en name w sio_fflush (fun ok => EvFlush name ok) true) as [ok w1|e w1|w1] eqn:Hs; simpl in H; try discriminate.
  destruct (c10_stream_op_ok _ _ _ _ _ _ _ _ _ Hat Hs) as (f' & Hc & Hat' & Hfr).
  rewrite Hck in H. simpl in H. unfold c10_ferror in H. fold (c10_at w1 name) in H. rewrite Hat' in H.
  destruct (negb ok || sf_err f') eqn:E; [discriminate|]. inversion H; subst; clear H.
  apply orb_false_iff in E. destruct E as [_ He].
  apply sio_fflush_spec in Hc. destruct Hc as ((R1 & _ & _ & R4 & _) & Hb & _).
  pose proof (c10_apply_fault_rel (en_fault en (S (cw_n w))) f) as (F1 & _ & _ & F4 & _).
  destruct (R1 He) as [He0 Hl]. destruct (F1 He0) as [Hef Hl0]. rewrite app_nil_r in Hl, Hl0.
  split; [|exact Hfr]. exists f'. split; [exact Hat'|]. split; [congruence|]. split; [exact He|]. split; [exact Hb|].
  rewrite (sio_disk_logical _ Hb), Hl, Hl0. auto.
Qed.

Lemma c10_fclose_clean en name w w' data ok :
  c10_clean w name data true -> c10_fclose en name w = ROk ok w' ->
  c10_clean w' name data false /\ c10_frame name w w'.
Proof.
  intros (f & Hat & Hop & He & Hb & Hd) H. unfold c10_fclose in H.
  destruct (c10_stream_op_ok _ _ _ _ _ _ _ _ _ Hat H) as (f' & Hc & Hat' & Hfr).
  split; [|exact Hfr]. exists f'. split; [exact Hat'|].
  (* the buffer is empty: nothing is written, whatever the fault did to the capacity *)
  unfold sio_fclose, sio_flushbuf in Hc.
  assert (Hb0 : sf_rbuf (c10_apply_fault (en_fault en (S (cw_n w))) f) = []) by (destruct (en_fault en (S (cw_n w))); simpl; auto).
  rewrite Hb0 in Hc. inversion Hc; subst; clear Hc. simpl.
  destruct (en_fault en (S (cw_n w))); simpl; unfold sio_disk in *; simpl; auto.
Qed.

(* ---- QPDFWriter to a named file, repaired checks: a normal return means a complete, closed file *)
Lemma c10_writer_file_complete en name chunks w w' :
  ck_finish (en_ck en) = true ->
  c10_writer_file en name chunks w = ROk tt w' ->
  c10_clean w' name (concat chunks) false /\ c10_frame name w w'.
Proof.
  intros Hck H. unfold c10_writer_file in H.
  destruct (c10_fopen en name w) as [ok w1|e w1|w1] eqn:Ho; simpl in H; try discriminate.
  destruct ok; simpl in H; [|discriminate].
  (* fopen *)
  assert (Hinv1 : c10_sinv w1 name [] /\ c10_frame name w w1).
  { unfold c10_fopen in Ho. simpl in Ho.
    destruct (c10_is_killb (en_fault en (S (cw_n w)))); [discriminate|].
    set (f0 := c10_apply_fault (en_fault en (S (cw_n w))) (sio_new_glitch (en_initcap en) false (en_glitch en))) in *.
    assert (Hf0 : sf_open f0 = true /\ (sf_err f0 = false -> sio_logical f0 = [])).
    { subst f0. destruct (en_fault en (S (cw_n w))); simpl; auto. }
    destruct (en_fault en (S (cw_n w))) eqn:Efa; simpl in Ho; try discriminate;
      inversion Ho; subst; clear Ho;
      (split; [exists f0; split; [apply c10_lookup_bind_same|exact Hf0]
              |split; [intros m Hm; unfold c10_at; simpl; apply c10_lookup_bind_other; auto|split; reflexivity]]). }
  destruct Hinv1 as [Hinv1 Hfr1].
  set (body := c10_bind (c10_with_pops en name (c10_pl_write_chunks en name chunks w1)) _) in H.
  destruct body as [[] w5|e w5|w5] eqn:Hbody; simpl in H; try discriminate.
  2:{ destruct (c10_is_open w5 name); [destruct (c10_fclose en name w5); discriminate|discriminate]. }
  subst body.
  destruct (c10_pl_write_chunks en name chunks w1) as [[] w2|e w2|w2] eqn:Hw; simpl in Hbody; try discriminate.
  2:{ destruct (c10_pop_finish_n (en_md5_pops en) en name w2) as [[]| |]; discriminate. }
  destruct (c10_pl_write_chunks_inv _ _ _ _ _ _ Hinv1 Hw) as (Hinv2a & Hfr2a). simpl in Hinv2a.
  destruct (c10_pop_finish_n (en_md5_pops en) en name w2) as [[] w2'|e w2'|w2'] eqn:Hpop; simpl in Hbody; try discriminate.
  destruct (c10_pop_finish_n_inv _ _ _ _ _ _ Hinv2a Hpop) as (Hinv2 & Hfr2b).
  pose proof (c10_frame_trans _ _ _ _ Hfr2a Hfr2b) as Hfr2.
  destruct (c10_pl_finish en name w2') as [[] w3|e w3|w3] eqn:Hfin; simpl in Hbody; try discriminate.
  destruct (c10_pl_finish_inv _ _ _ _ _ Hck Hinv2 Hfin) as (Hcl3 & Hfr3).
  destruct (c10_fclose en name w3) as [okc w4|e w4|w4] eqn:Hcl; simpl in Hbody; try discriminate.
  destruct (c10_fclose_clean _ _ _ _ _ _ Hcl3 Hcl) as (Hcl4 & Hfr4).
  destruct (ck_wclose (en_ck en) && negb okc); [discriminate|]. inversion Hbody; subst; clear Hbody.
  (* ~Writer: the file is closed already *)
  assert (Hopen : c10_is_open w5 name = false).
  { destruct Hcl4 as (f & Hat & Hop & _). unfold c10_is_open. fold (c10_at w5 name). rewrite Hat. exact Hop. }
  rewrite Hopen in H. inversion H; subst; clear H.
  split; [exact Hcl4|].
  eapply c10_frame_trans; [exact Hfr1|]. eapply c10_frame_trans; [exact Hfr2|]. eapply c10_frame_trans; [exact Hfr3|exact Hfr4].
Qed.

(* ---- what the user asked to be written, by scenario (independent of the sinks) *)
Fixpoint c10_json_data (name : nat) (main : bool) (items : list c10_jitem) : list N :=
  match items with
  | [] => []
  | JChunk d :: tl => (if main then d else []) ++ c10_json_data name main tl
  | JStreamChunk s d :: tl => (if negb main && Nat.eqb s name then d else []) ++ c10_json_data name main tl
  | _ :: tl => c10_json_data name main tl
  end.
Fixpoint c10_json_streams (items : list c10_jitem) : list nat :=
  match items with
  | [] => []
  | JStreamOpen s :: tl => s :: c10_json_streams tl
  | _ :: tl => c10_json_streams tl
  end.
Fixpoint c10_stdout_data (items : list c10_oitem) : list N :=
  match items with
  | [] => []
  | OChunk d :: tl => d ++ c10_stdout_data tl
  | OTie :: tl => c10_stdout_data tl
  end.
Definition c10_intended (sc : c10_scen) : list (nat * list N) :=
  match sc with
  | ScWrite out chunks => [(out, concat chunks)]
  | ScSplit outs => map (fun p => (fst p, concat (snd p))) outs
  | ScJson main items => (main, c10_json_data main true items) :: map (fun s => (s, c10_json_data s false items)) (c10_json_streams items)
  | ScStdout items _ _ _ => [(c10_stdout, c10_stdout_data items)]
  | ScReplace inp _ _ chunks => [(inp, concat chunks)]
  end.
Definition c10_wf (sc : c10_scen) : Prop :=
  match sc with
  | ScSplit outs => NoDup (map fst outs)
  | ScReplace inp backup temp _ => inp <> backup /\ inp <> temp /\ backup <> temp
  | _ => True
  end.
(* the scenarios whose sink is QPDFWriter over a named file *)
Definition c10_writer_scen (sc : c10_scen) : bool :=
  match sc with ScWrite _ _ | ScSplit _ | ScReplace _ _ _ _ => true | _ => false end.

Lemma c10_clean_frame name m w w' data o :
  m <> name -> c10_frame name w w' -> c10_clean w m data o -> c10_clean w' m data o.
Proof. intros Hm (F & _) (f & Hat & H). exists f. rewrite F; auto. Qed.

Lemma c10_split_complete en : forall outs w w',
  ck_finish (en_ck en) = true -> NoDup (map fst outs) ->
  c10_split en outs w = ROk tt w' ->
  (forall n c, In (n, c) outs -> c10_clean w' n (concat c) false) /\
  (forall m, ~ In m (map fst outs) -> c10_at w' m = c10_at w m) /\ cw_diag w' = cw_diag w.
Proof.
  induction outs as [|[name chunks] tl IH]; intros w w' Hck Hnd H; simpl in H.
  - inversion H; subst. repeat split; auto. intros n c [].
  - destruct (c10_writer_file en name chunks w) as [[] w1|e w1|w1] eqn:Hw; simpl in H; try discriminate.
    destruct (c10_writer_file_complete _ _ _ _ _ Hck Hw) as (Hcl & Hfr).
    inversion Hnd as [|? ? Hnotin Hnd']; subst.
    destruct (IH _ _ Hck Hnd' H) as (I1 & I2 & I3).
    split; [|split].
    + intros n c [Heq|Hin].
      * inversion Heq; subst. destruct Hcl as (f & Hat & Hrest). exists f. rewrite I2; auto.
      * apply I1; auto.
    + intros m Hm. simpl in Hm. rewrite I2 by tauto. destruct Hfr as (F & _). apply F. intros ->. apply Hm. left; reflexivity.
    + destruct Hfr as (_ & D & _). congruence.
Qed.

(* rename / unlink *)
Lemma c10_rename_cases en a b w ok w' :
  a <> b -> c10_rename en a b w = ROk ok w' ->
  (ok = false /\ cw_dir w' = cw_dir w) \/
  (ok = true /\ exists f, c10_at w a = Some f /\ c10_at w' b = Some f /\ c10_at w' a = None /\
                (forall m, m <> a -> m <> b -> c10_at w' m = c10_at w m)).
Proof.
  intros Hab H. unfold c10_rename in H. simpl in H.
  destruct (c10_is_killb (en_fault en (S (cw_n w)))); [discriminate|].
  destruct (c10_path_fails (en_fault en (S (cw_n w)))).
  - inversion H; subst. left. split; reflexivity.
  - destruct (c10_lookup (cw_dir w) a) as [f|] eqn:Hl.
    + destruct (c10_is_killa (en_fault en (S (cw_n w)))); [discriminate|]. inversion H; subst; clear H.
      right. split; [reflexivity|]. exists f. unfold c10_at, c10_log, c10_set_dir, c10_tick; cbn [cw_dir]. split; [exact Hl|].
      split; [apply c10_lookup_bind_same|]. split.
      * rewrite c10_lookup_bind_other by auto. apply c10_lookup_remove_same.
      * intros m Ha Hb. rewrite c10_lookup_bind_other by auto. apply c10_lookup_remove_other; auto.
    + inversion H; subst. left. split; reflexivity.
Qed.

Lemma c10_unlink_cases en a w ok w' :
  c10_unlink en a w = ROk ok w' ->
  (forall m, m <> a -> c10_at w' m = c10_at w m) /\ (ok = true -> c10_at w' a = None) /\ (ok = false -> cw_dir w' = cw_dir w).
Proof.
  intros H. unfold c10_unlink in H. simpl in H.
  destruct (c10_is_killb (en_fault en (S (cw_n w)))); [discriminate|].
  destruct (c10_path_fails (en_fault en (S (cw_n w)))).
  - inversion H; subst. repeat split; auto; discriminate.
  - destruct (c10_is_killa (en_fault en (S (cw_n w)))); [discriminate|]. inversion H; subst; clear H.
    unfold c10_at, c10_log, c10_set_dir, c10_tick; cbn [cw_dir]. split; [|split].
    + intros m Hm. apply c10_lookup_remove_other; auto.
    + intros _. apply c10_lookup_remove_same.
    + discriminate.
Qed.

Lemma c10_at_say w d m : c10_at (c10_say w d) m = c10_at w m.
Proof. reflexivity. Qed.

(* --replace-input, repaired checks: a normal return leaves the complete new file under the input name,
   nothing under the temporary name, and the original under the backup name exactly when it is kept *)
Lemma c10_replace_complete en warn inp backup temp chunks w w' forig :
  ck_finish (en_ck en) = true -> inp <> backup -> inp <> temp -> backup <> temp ->
  c10_at w inp = Some forig ->
  c10_replace en warn inp backup temp chunks w = ROk tt w' ->
  c10_clean w' inp (concat chunks) false /\ c10_at w' temp = None /\
  (c10_at w' backup = Some forig \/ (warn = false /\ c10_at w' backup = None)).
Proof.
  intros Hck Hib Hit Hbt Horig H. unfold c10_replace in H.
  destruct (c10_writer_file en temp chunks w) as [[] w1|e w1|w1] eqn:Hw; simpl in H; try discriminate.
  destruct (c10_writer_file_complete _ _ _ _ _ Hck Hw) as (Hcl & (Hfr & _)).
  destruct (c10_rename en inp backup w1) as [ok1 w2|e w2|w2] eqn:Hr1; simpl in H; try discriminate.
  destruct (c10_rename_cases _ _ _ _ _ _ Hib Hr1) as [[-> _]|[-> (f1 & A1 & A2 & A3 & A4)]]; simpl in H; [discriminate|].
  rewrite Hfr in A1 by auto. rewrite Horig in A1. inversion A1; subst f1; clear A1.
  destruct (c10_rename en temp inp w2) as [ok2 w3|e w3|w3] eqn:Hr2; simpl in H; try discriminate.
  assert (Hti : temp <> inp) by auto.
  destruct (c10_rename_cases _ _ _ _ _ _ Hti Hr2) as [[-> _]|[-> (f2 & B1 & B2 & B3 & B4)]]; simpl in H; [discriminate|].
  rewrite A4 in B1 by auto.
  destruct Hcl as (ft & Hat & Hrest). rewrite Hat in B1. inversion B1; subst f2; clear B1.
  assert (Hb3 : c10_at w3 backup = Some forig) by (rewrite B4 by auto; exact A2).
  destruct warn.
  - inversion H; subst; clear H. split; [exists ft; rewrite c10_at_say; split; [exact B2|exact Hrest]|].
    split; [rewrite c10_at_say; exact B3|]. left. rewrite c10_at_say. exact Hb3.
  - destruct (c10_unlink en backup w3) as [ok3 w4|e w4|w4] eqn:Hu; simpl in H; try discriminate.
    destruct (c10_unlink_cases _ _ _ _ _ Hu) as (U1 & U2 & U3).
    assert (Hres : c10_clean w4 inp (concat chunks) false /\ c10_at w4 temp = None /\
                   (c10_at w4 backup = Some forig \/ (false = false /\ c10_at w4 backup = None))).
    { split; [exists ft; split; [rewrite U1 by auto; exact B2|exact Hrest]|].
      split; [rewrite U1 by auto; exact B3|].
      destruct ok3.
      - right. split; [reflexivity|apply U2; reflexivity].
      - left. unfold c10_at. rewrite (U3 eq_refl). exact Hb3. }
    destruct ok3; inversion H; subst; clear H; [exact Hres|].
    destruct Hres as (R1 & R2 & R3). rewrite !c10_at_say.
    split; [|split; [exact R2|exact R3]].
    destruct R1 as (f & Hf & Hr). exists f. rewrite c10_at_say. split; [exact Hf|exact Hr].
Qed.

(* ---- the process: realmain, exit status, what is on disk afterwards *)
Lemma c10_file_of_clean code w name data :
  c10_clean w name data false -> c10_file_of (mk_result code (c10_exit_flush_all w)) name = Some data.
Proof.
  intros (f & Hat & Hop & He & Hb & Hd). unfold c10_file_of, c10_exit_flush_all. simpl.
  rewrite c10_lookup_map. unfold c10_at in Hat. rewrite Hat. simpl.
  unfold sio_exit_flush. rewrite Hop. rewrite Hd. reflexivity.
Qed.

Lemma c10_run_writer_scen en warn wx0 sc orig :
  c10_writer_scen sc = true ->
  c10_run en warn wx0 sc orig =
  match c10_job en warn sc (c10_initial en sc orig) with
  | ROk extra w => mk_result (Some (if (warn || extra) && negb wx0 then 3 else 0))
                             (c10_exit_flush_all (if warn || extra then c10_say w DgWarn else w))
  | RExc e w => mk_result (Some 2) (c10_exit_flush_all (c10_say w (c10_exn_diag e)))
  | RDead w => mk_result None w
  end.
Proof.
  intros Hs. unfold c10_run, c10_fail_exit, c10_main_stdout_check. destruct sc; try discriminate; simpl; rewrite ?andb_false_r;
    match goal with |- context [c10_no_warning ?x] => destruct x as [[] w1|e w1|w1]; simpl; try reflexivity end;
    destruct warn; reflexivity.
Qed.

(* C10, third sentence, for the repaired sinks and the scenarios whose sink is QPDFWriter over a named file
   (plain, --linearize, --qdf, --split-pages, --replace-input): for every buffer size, every data, every
   fault oracle (any faults at any operations, any kill) and every file-size limit,
   exit status 0 or 3 implies that every output file holds exactly what was to be written. *)
Lemma exit_ok_implies_complete_writer_lemma : forall en warn wx0 sc orig n c,
  ck_finish (en_ck en) = true -> c10_writer_scen sc = true -> c10_wf sc ->
  (rs_exit (c10_run en warn wx0 sc orig) = Some 0 \/ rs_exit (c10_run en warn wx0 sc orig) = Some 3) ->
  In (n, c) (c10_intended sc) ->
  c10_file_of (c10_run en warn wx0 sc orig) n = Some c.
Proof.
  intros en warn wx0 sc orig n c Hck Hs Hwf Hexit Hin.
  rewrite (c10_run_writer_scen _ _ _ _ _ Hs) in *.
  destruct sc as [out chunks|outs| | |inp backup temp chunks]; try discriminate; simpl in Hin, Hexit |- *.
  - destruct Hin as [Heq|[]]. inversion Heq; subst; clear Heq.
    destruct (c10_writer_file en n chunks _) as [[] w1|e w1|w1] eqn:Hw; simpl in *;
      try (destruct Hexit; discriminate).
    destruct (c10_writer_file_complete _ _ _ _ _ Hck Hw) as (Hcl & _).
    apply c10_file_of_clean. destruct (warn || false); [|exact Hcl].
    destruct Hcl as (f & Hat & Hr). exists f. rewrite c10_at_say. split; [exact Hat|exact Hr].
  - destruct (c10_split en outs _) as [[] w1|e w1|w1] eqn:Hw; simpl in *; try (destruct Hexit; discriminate).
    destruct (c10_split_complete _ _ _ _ Hck Hwf Hw) as (I1 & _).
    apply in_map_iff in Hin. destruct Hin as ([n0 c0] & Heq & Hin0). simpl in Heq. inversion Heq; subst; clear Heq.
    apply c10_file_of_clean. specialize (I1 _ _ Hin0). destruct (warn || false); [|exact I1].
    destruct I1 as (f & Hat & Hr). exists f. rewrite c10_at_say. split; [exact Hat|exact Hr].
  - destruct Hin as [Heq|[]]. inversion Heq; subst; clear Heq.
    destruct Hwf as (Hib & Hit & Hbt).
    destruct (c10_replace en warn n backup temp chunks _) as [[] w1|e w1|w1] eqn:Hw; simpl in *;
      try (destruct Hexit; discriminate).
    assert (Horig : c10_at (c10_initial en (ScReplace n backup temp chunks) orig) n = Some (sio_static orig)).
    { unfold c10_at, c10_initial. simpl. rewrite Nat.eqb_refl. reflexivity. }
    destruct (c10_replace_complete _ _ _ _ _ _ _ _ _ Hck Hib Hit Hbt Horig Hw) as (Hcl & _).
    apply c10_file_of_clean. destruct (warn || false); [|exact Hcl].
    destruct Hcl as (f & Hat & Hr). exists f. rewrite c10_at_say. split; [exact Hat|exact Hr].
Qed.

(* the same with the state of the stream: closed, error indicator clear *)
Lemma c10_final_clean code w name data :
  c10_clean w name data false ->
  exists f, c10_lookup (cw_dir (rs_world (mk_result code (c10_exit_flush_all w)))) name = Some f /\
            sf_err f = false /\ sf_open f = false /\ sio_disk f = data.
Proof.
  intros (f & Hat & Hop & He & Hb & Hd). exists f. unfold c10_exit_flush_all. simpl.
  rewrite c10_lookup_map. unfold c10_at in Hat. rewrite Hat. simpl. unfold sio_exit_flush. rewrite Hop. auto.
Qed.

(* C10, second sentence (repaired sinks, writer scenarios): if at the end of the run the error indicator of an
   output stream is set - i.e. the kernel refused a write on it at some point, for whatever reason - the run
   did not exit with status 0 or 3. *)
Lemma write_error_implies_exit2_writer_lemma : forall en warn wx0 sc orig n c f,
  ck_finish (en_ck en) = true -> c10_writer_scen sc = true -> c10_wf sc ->
  In (n, c) (c10_intended sc) ->
  c10_lookup (cw_dir (rs_world (c10_run en warn wx0 sc orig))) n = Some f -> sf_err f = true ->
  rs_exit (c10_run en warn wx0 sc orig) = Some 2 \/ rs_exit (c10_run en warn wx0 sc orig) = None.
Proof.
  intros en warn wx0 sc orig n c f Hck Hs Hwf Hin Hl He.
  destruct (rs_exit (c10_run en warn wx0 sc orig)) as [code|] eqn:Hx; [|right; reflexivity].
  left. rewrite (c10_run_writer_scen _ _ _ _ _ Hs) in *.
  assert (Hgoal : forall w1 extra, c10_job en warn sc (c10_initial en sc orig) = ROk extra w1 ->
                  c10_clean w1 n c false).
  { intros w1 extra Hj.
    destruct sc as [out chunks|outs| | |inp backup temp chunks]; try discriminate; simpl in Hin, Hj.
    - destruct Hin as [Heq|[]]. inversion Heq; subst; clear Heq.
      destruct (c10_writer_file en n chunks _) as [[] w2|e w2|w2] eqn:Hw; simpl in Hj; try discriminate.
      inversion Hj; subst. apply (c10_writer_file_complete _ _ _ _ _ Hck Hw).
    - destruct (c10_split en outs _) as [[] w2|e w2|w2] eqn:Hw; simpl in Hj; try discriminate.
      inversion Hj; subst. destruct (c10_split_complete _ _ _ _ Hck Hwf Hw) as (I1 & _).
      apply in_map_iff in Hin. destruct Hin as ([n0 c0] & Heq & Hin0). simpl in Heq. inversion Heq; subst. apply I1; auto.
    - destruct Hin as [Heq|[]]. inversion Heq; subst; clear Heq. destruct Hwf as (Hib & Hit & Hbt).
      destruct (c10_replace en warn n backup temp chunks _) as [[] w2|e w2|w2] eqn:Hw; simpl in Hj; try discriminate.
      inversion Hj; subst.
      assert (Horig : c10_at (c10_initial en (ScReplace n backup temp chunks) orig) n = Some (sio_static orig)).
      { unfold c10_at, c10_initial. simpl. rewrite Nat.eqb_refl. reflexivity. }
      apply (c10_replace_complete _ _ _ _ _ _ _ _ _ Hck Hib Hit Hbt Horig Hw). }
  destruct (c10_job en warn sc (c10_initial en sc orig)) as [extra w1|e w1|w1] eqn:Hj; simpl in *.
  - exfalso. specialize (Hgoal _ _ eq_refl).
    assert (Hcl : c10_clean (if warn || extra then c10_say w1 DgWarn else w1) n c false).
    { destruct (warn || extra); [|exact Hgoal]. destruct Hgoal as (g & Hat & Hr). exists g. rewrite c10_at_say. split; [exact Hat|exact Hr]. }
    destruct (c10_final_clean (Some (if (warn || extra) && negb wx0 then 3 else 0)) _ _ _ Hcl) as (g & Hg & Heg & _).
    simpl in Hg. rewrite Hg in Hl. inversion Hl; subst. congruence.
  - inversion Hx; reflexivity.
  - discriminate.
Qed.

(* The pinned sinks (no result of fflush/fclose is looked at) violate the third sentence: a 3-byte output,
   the device full from the first write on: exit status 0 and an empty file. *)
Definition c10_witness_env : c10_env :=
  mk_env 4096 (fun n => if Nat.eqb n 2 then FaFull else FaNone) None 2 c10_unrepaired 0 None.
Lemma exit_ok_implies_complete_refuted_lemma :
  exists en warn wx0 sc orig n c,
    en_ck en = c10_unrepaired /\ c10_writer_scen sc = true /\ c10_wf sc /\
    rs_exit (c10_run en warn wx0 sc orig) = Some 0 /\ In (n, c) (c10_intended sc) /\
    c10_file_of (c10_run en warn wx0 sc orig) n = Some [] /\ c <> [].
Proof.
  exists c10_witness_env, false, false, (ScWrite 1 [[37; 80; 68]%N]), [], 1, [37; 80; 68]%N.
  repeat split; try (vm_compute; auto; fail). discriminate.
Qed.

(* and std::cout: every line flush fails, every fwrite reports the full count, nothing is ever noticed *)
Lemma stdout_exit_ok_implies_complete_refuted_lemma :
  exists en sc, en_ck en = c10_unrepaired /\
    rs_exit (c10_run en false false sc []) = Some 0 /\
    c10_intended sc = [(c10_stdout, [37; 80; 10; 68; 10]%N)] /\
    c10_file_of (c10_run en false false sc []) c10_stdout = Some [].
Proof.
  exists (mk_env 4096 (fun n => if Nat.eqb n 1 then FaFull else FaNone) None 2 c10_unrepaired 0 None),
         (ScStdout [OChunk [37; 80; 10]%N; OChunk [68; 10]%N] 1 0 false).
  repeat split; vm_compute; auto.
Qed.

(* ---- exit status = diagnostics.  Nothing below the job level prints anything, whatever happens. *)
Definition c10_diag_of {A} (r : c10_res A) : list c10_diag :=
  match r with ROk _ w | RExc _ w | RDead w => cw_diag w end.

Lemma c10_dq_bind {A C} (r : c10_res A) (k : A -> c10_world -> c10_res C) l :
  c10_diag_of r = l -> (forall a w1, cw_diag w1 = l -> c10_diag_of (k a w1) = l) -> c10_diag_of (c10_bind r k) = l.
Proof. intros Hr Hk. destruct r; simpl in *; auto. Qed.

Lemma c10_dq_stream_op {A} en name w (call : sfile -> A * sfile) ev dflt :
  c10_diag_of (c10_stream_op en name w call ev dflt) = cw_diag w.
Proof.
  unfold c10_stream_op. simpl. destruct (c10_is_killb _); [reflexivity|].
  destruct (c10_lookup (cw_dir w) name); [|reflexivity].
  destruct (call _) as [a f']. destruct (c10_is_killa _); reflexivity.
Qed.
Lemma c10_dq_fopen en name w : c10_diag_of (c10_fopen en name w) = cw_diag w.
Proof.
  unfold c10_fopen. simpl. destruct (c10_is_killb _); [reflexivity|].
  destruct (en_fault en (S (cw_n w))); simpl; try reflexivity.
Qed.
Lemma c10_dq_rename en a b w : c10_diag_of (c10_rename en a b w) = cw_diag w.
Proof.
  unfold c10_rename. simpl. destruct (c10_is_killb _); [reflexivity|]. destruct (c10_path_fails _); [reflexivity|].
  destruct (c10_lookup (cw_dir w) a); [|reflexivity]. destruct (c10_is_killa _); reflexivity.
Qed.
Lemma c10_dq_unlink en a w : c10_diag_of (c10_unlink en a w) = cw_diag w.
Proof.
  unfold c10_unlink. simpl. destruct (c10_is_killb _); [reflexivity|]. destruct (c10_path_fails _); [reflexivity|].
  destruct (c10_is_killa _); reflexivity.
Qed.

Lemma c10_dq_pl_write en name : forall fuel d w, c10_diag_of (c10_pl_write fuel en name d w) = cw_diag w.
Proof.
  induction fuel as [|fu IH]; intros d w; destruct d as [|b tl]; simpl; try reflexivity.
  apply c10_dq_bind; [apply c10_dq_stream_op|]. intros r w1 H1. destruct (Nat.eqb r 0); simpl; [exact H1|].
  rewrite IH. exact H1.
Qed.
Lemma c10_dq_pl_write_chunks en name : forall chunks w, c10_diag_of (c10_pl_write_chunks en name chunks w) = cw_diag w.
Proof.
  induction chunks as [|d tl IH]; intros w; simpl; [reflexivity|].
  apply c10_dq_bind; [apply c10_dq_pl_write|]. intros _ w1 H1. rewrite IH. exact H1.
Qed.
Lemma c10_dq_pl_finish en name w : c10_diag_of (c10_pl_finish en name w) = cw_diag w.
Proof.
  unfold c10_pl_finish. apply c10_dq_bind; [apply c10_dq_stream_op|]. intros ok w1 H1.
  destruct (ck_finish (en_ck en) && (negb ok || c10_ferror w1 name)); exact H1.
Qed.
Lemma c10_dq_pop_finish_n en name : forall n w, c10_diag_of (c10_pop_finish_n n en name w) = cw_diag w.
Proof.
  induction n as [|k IH]; intros w; simpl; [reflexivity|].
  apply c10_dq_bind.
  - unfold c10_pop_finish. apply c10_dq_bind; [apply c10_dq_stream_op|]. intros ok w1 H1.
    destruct (ck_finish (en_ck en) && (negb ok || c10_ferror w1 name)); [destruct (ck_popper (en_ck en))|]; exact H1.
  - intros _ w1 H1. rewrite IH. exact H1.
Qed.
Lemma c10_dq_with_pops en name r : c10_diag_of (c10_with_pops en name r) = c10_diag_of r.
Proof.
  destruct r as [[] w|e w|w]; simpl; [apply c10_dq_pop_finish_n| |reflexivity].
  pose proof (c10_dq_pop_finish_n en name (en_md5_pops en) w) as H. destruct (c10_pop_finish_n _ en name w); exact H.
Qed.
Lemma c10_dq_fclose en name w : c10_diag_of (c10_fclose en name w) = cw_diag w.
Proof. apply c10_dq_stream_op. Qed.
Lemma c10_dq_dtor_close {A} en name (r : c10_res A) : c10_diag_of (c10_dtor_close en name r) = c10_diag_of r.
Proof.
  destruct r as [a w|e w|w]; simpl; [| |reflexivity]; destruct (c10_is_open w name); try reflexivity;
    pose proof (c10_dq_fclose en name w) as H; destruct (c10_fclose en name w); exact H.
Qed.
Lemma c10_dq_writer_file en name chunks w : c10_diag_of (c10_writer_file en name chunks w) = cw_diag w.
Proof.
  unfold c10_writer_file. apply c10_dq_bind; [apply c10_dq_fopen|]. intros ok w1 H1.
  destruct ok; simpl; [|exact H1]. rewrite c10_dq_dtor_close.
  apply c10_dq_bind; [rewrite c10_dq_with_pops, c10_dq_pl_write_chunks; exact H1|]. intros _ w2 H2.
  apply c10_dq_bind; [rewrite c10_dq_pl_finish; exact H2|]. intros _ w3 H3.
  apply c10_dq_bind; [rewrite c10_dq_fclose; exact H3|]. intros okc w4 H4.
  destruct (ck_wclose (en_ck en) && negb okc); exact H4.
Qed.
Lemma c10_dq_split en : forall outs w, c10_diag_of (c10_split en outs w) = cw_diag w.
Proof.
  induction outs as [|[name chunks] tl IH]; intros w; simpl; [reflexivity|].
  apply c10_dq_bind; [apply c10_dq_writer_file|]. intros _ w1 H1. rewrite IH. exact H1.
Qed.
Lemma c10_dq_json_items en main : forall items w, c10_diag_of (c10_json_items en main items w) = cw_diag w.
Proof.
  induction items as [|it tl IH]; intros w; simpl; [reflexivity|]. destruct it.
  - apply c10_dq_bind; [apply c10_dq_pl_write|]. intros _ w1 H1. rewrite IH. exact H1.
  - apply c10_dq_bind; [apply c10_dq_fopen|]. intros ok w1 H1. destruct ok; simpl; [rewrite IH|]; exact H1.
  - apply c10_dq_bind; [apply c10_dq_pl_write|]. intros _ w1 H1. rewrite IH. exact H1.
  - apply c10_dq_bind; [apply c10_dq_pl_finish|]. intros _ w1 H1.
    apply c10_dq_bind; [rewrite c10_dq_fclose; exact H1|]. intros okc w2 H2.
    destruct (ck_jsclose (en_ck en) && negb okc); simpl; [|rewrite IH]; exact H2.
Qed.
Lemma c10_dq_json_file en main items w : c10_diag_of (c10_json_file en main items w) = cw_diag w.
Proof.
  unfold c10_json_file. apply c10_dq_bind; [apply c10_dq_fopen|]. intros ok w1 H1.
  destruct ok; simpl; [|exact H1]. rewrite c10_dq_dtor_close.
  apply c10_dq_bind; [rewrite c10_dq_json_items; exact H1|]. intros _ w2 H2.
  destruct (ck_jclose (en_ck en)); [|exact H2].
  apply c10_dq_bind; [rewrite c10_dq_pl_finish; exact H2|]. intros _ w3 H3.
  apply c10_dq_bind; [rewrite c10_dq_fclose; exact H3|]. intros okc w4 H4. destruct (negb okc); exact H4.
Qed.
Lemma c10_dq_os_flush en w : c10_diag_of (c10_os_flush en w) = cw_diag w.
Proof.
  unfold c10_os_flush. destruct (cw_cout_bad w); [reflexivity|].
  apply c10_dq_bind; [apply c10_dq_stream_op|]. intros ok w1 H1. destruct ok; exact H1.
Qed.
Lemma c10_dq_os_tie_n en : forall n w, c10_diag_of (c10_os_tie_n n en w) = cw_diag w.
Proof.
  induction n as [|k IH]; intros w; simpl; [reflexivity|].
  apply c10_dq_bind; [apply c10_dq_os_flush|]. intros _ w1 H1. rewrite IH. exact H1.
Qed.
Lemma c10_dq_os_write en d w : c10_diag_of (c10_os_write en d w) = cw_diag w.
Proof.
  unfold c10_os_write. destruct d; [reflexivity|]. destruct (cw_cout_bad w); [reflexivity|].
  apply c10_dq_bind; [apply c10_dq_stream_op|]. intros r w1 H1. simpl. destruct (r <? _); exact H1.
Qed.
Lemma c10_dq_os_items en : forall items w, c10_diag_of (c10_os_items en items w) = cw_diag w.
Proof.
  induction items as [|it tl IH]; intros w; simpl; [reflexivity|]. destruct it.
  - apply c10_dq_bind; [apply c10_dq_os_write|]. intros _ w1 H1. rewrite IH. exact H1.
  - apply c10_dq_bind; [apply c10_dq_os_flush|]. intros _ w1 H1. rewrite IH. exact H1.
Qed.
Lemma c10_dq_os_finish en w : c10_diag_of (c10_os_finish en w) = cw_diag w.
Proof.
  unfold c10_os_finish. apply c10_dq_bind; [apply c10_dq_os_flush|]. intros _ w1 H1.
  destruct (ck_ostream (en_ck en) && cw_cout_bad w1); exact H1.
Qed.
Lemma c10_dq_os_finish_n en : forall n w, c10_diag_of (c10_os_finish_n n en w) = cw_diag w.
Proof.
  induction n as [|k IH]; intros w; simpl; [reflexivity|].
  apply c10_dq_bind; [apply c10_dq_os_finish|]. intros _ w1 H1. rewrite IH. exact H1.
Qed.
Lemma c10_dq_exit_rounds en : forall n wbad w, c10_diag_of (c10_exit_rounds n en wbad w) = cw_diag w.
Proof.
  induction n as [|k IH]; intros wbad w; simpl; [reflexivity|].
  apply c10_dq_bind; [apply c10_dq_os_flush|]. intros _ w1 H1. destruct wbad; [rewrite IH; exact H1|].
  apply c10_dq_bind; [unfold c10_fflush; rewrite c10_dq_stream_op; exact H1|]. intros ok w2 H2. rewrite IH. exact H2.
Qed.

(* messages that are neither an error nor the warning summary *)
Definition c10_is_note (d : c10_diag) : bool := match d with DgKept | DgUnlink => true | _ => false end.
Definition c10_has_err (l : list c10_diag) : bool := existsb (fun d => match d with DgErr _ _ => true | _ => false end) l.
Definition c10_has_warn (l : list c10_diag) : bool := existsb (fun d => match d with DgWarn => true | _ => false end) l.

Lemma c10_notes_no_err l : forallb c10_is_note l = true -> c10_has_err l = false /\ c10_has_warn l = false.
Proof.
  induction l as [|d tl IH]; simpl; [auto|]. intros H. apply andb_true_iff in H. destruct H as [H1 H2].
  destruct (IH H2) as [A B]. destruct d; simpl in *; try discriminate; auto.
Qed.

Lemma c10_replace_notes en warn inp backup temp chunks w :
  forallb c10_is_note (cw_diag w) = true ->
  forallb c10_is_note (c10_diag_of (c10_replace en warn inp backup temp chunks w)) = true.
Proof.
  intros Hq. unfold c10_replace.
  pose proof (c10_dq_writer_file en temp chunks w) as H0.
  destruct (c10_writer_file en temp chunks w) as [[] w1|e w1|w1]; simpl in *; try (rewrite H0; exact Hq).
  pose proof (c10_dq_rename en inp backup w1) as H1.
  destruct (c10_rename en inp backup w1) as [ok1 w2|e w2|w2]; simpl in *; try (rewrite H1, H0; exact Hq).
  destruct ok1; simpl; [|rewrite H1, H0; exact Hq].
  pose proof (c10_dq_rename en temp inp w2) as H2.
  destruct (c10_rename en temp inp w2) as [ok2 w3|e w3|w3]; simpl in *; try (rewrite H2, H1, H0; exact Hq).
  destruct ok2; simpl; [|rewrite H2, H1, H0; exact Hq].
  destruct warn; simpl; [rewrite H2, H1, H0; exact Hq|].
  pose proof (c10_dq_unlink en backup w3) as H3.
  destruct (c10_unlink en backup w3) as [ok3 w4|e w4|w4]; simpl in *; try (rewrite H3, H2, H1, H0; exact Hq).
  destruct ok3; simpl; rewrite H3, H2, H1, H0; exact Hq.
Qed.

Lemma c10_job_notes en warn sc w :
  forallb c10_is_note (cw_diag w) = true -> forallb c10_is_note (c10_diag_of (c10_job en warn sc w)) = true.
Proof.
  intros Hq. destruct sc as [out chunks|outs|main items|items nfin ntie sw|inp backup temp chunks]; simpl.
  - pose proof (c10_dq_writer_file en out chunks w) as H. destruct (c10_writer_file en out chunks w) as [[]| |]; simpl in *; rewrite H; exact Hq.
  - pose proof (c10_dq_split en outs w) as H. destruct (c10_split en outs w) as [[]| |]; simpl in *; rewrite H; exact Hq.
  - pose proof (c10_dq_json_file en main items w) as H. destruct (c10_json_file en main items w) as [[]| |]; simpl in *; rewrite H; exact Hq.
  - assert (H : c10_diag_of (c10_bind (c10_os_items en items w) (fun _ w1 => c10_os_finish_n nfin en w1)) = cw_diag w).
    { apply c10_dq_bind; [apply c10_dq_os_items|]. intros _ w1 H1. rewrite c10_dq_os_finish_n. exact H1. }
    destruct (c10_bind (c10_os_items en items w) (fun _ w1 => c10_os_finish_n nfin en w1)) as [[]| |]; simpl in *;
      try destruct sw; simpl; rewrite H; exact Hq.
  - pose proof (c10_replace_notes en warn inp backup temp chunks w Hq) as H.
    destruct (c10_replace en warn inp backup temp chunks w) as [[]| |]; simpl in *; exact H.
Qed.

Lemma c10_process_exit_diag en sc code w :
  cw_diag (rs_world (c10_process_exit en sc code w)) = cw_diag w /\
  (rs_exit (c10_process_exit en sc code w) = Some code \/ rs_exit (c10_process_exit en sc code w) = None).
Proof.
  unfold c10_process_exit. destruct (c10_uses_stdout sc); [|simpl; auto].
  assert (H : c10_diag_of (c10_bind (c10_os_tie_n 2 en w) (fun _ w0 => c10_exit_rounds (en_exit_rounds en) en false w0)) = cw_diag w).
  { apply c10_dq_bind; [apply c10_dq_os_tie_n|]. intros _ w1 H1. rewrite c10_dq_exit_rounds. exact H1. }
  destruct (c10_bind (c10_os_tie_n 2 en w) _) as [a w1|e w1|w1]; simpl in *; auto.
Qed.

(* C10, first sentence: whenever the process exits (is not killed), for EVERY scenario, checks vector, fault
   oracle: status 2 iff an error message was printed; otherwise 3 iff the warning summary was printed and
   --warning-exit-0 was not given; otherwise 0. *)
Lemma exit_status_matches_diagnostics_lemma : forall en warn wx0 sc orig code,
  rs_exit (c10_run en warn wx0 sc orig) = Some code ->
  let diag := cw_diag (rs_world (c10_run en warn wx0 sc orig)) in
  code = (if c10_has_err diag then 2 else if c10_has_warn diag && negb wx0 then 3 else 0).
Proof.
  intros en warn wx0 sc orig code Hx diag. subst diag. unfold c10_run, c10_fail_exit in *.
  assert (Hq0 : forallb c10_is_note (cw_diag (c10_initial en sc orig)) = true) by (destruct sc; reflexivity).
  pose proof (c10_job_notes en warn sc _ Hq0) as Hj.
  destruct (c10_job en warn sc (c10_initial en sc orig)) as [extra w1|e w1|w1]; simpl in Hj, Hx |- *.
  - set (wn := warn || extra) in *.
    set (w1' := if wn then c10_say w1 DgWarn else w1) in *.
    pose proof (c10_dq_os_tie_n en (c10_closing_ties sc) w1') as Ht.
    destruct (c10_os_tie_n (c10_closing_ties sc) en w1') as [[] w2|e2 w2|w2]; simpl in Ht, Hx |- *.
    + assert (Hm : c10_diag_of (c10_main_stdout_check en sc w2) = cw_diag w2).
      { unfold c10_main_stdout_check. destruct (ck_stdout (en_ck en) && c10_uses_stdout sc); [|reflexivity].
        apply c10_dq_bind; [apply c10_dq_stream_op|]. intros ok w3 H3. destruct (negb ok || _ || _); exact H3. }
      destruct (c10_main_stdout_check en sc w2) as [[] w3|e3 w3|w3]; simpl in Hm, Hx |- *.
      * destruct (c10_process_exit_diag en sc (if wn && negb wx0 then 3 else 0) w3) as [D [E|E]]; rewrite E in Hx; [|discriminate].
        inversion Hx; subst. rewrite D, Hm, Ht. subst w1'. destruct (c10_notes_no_err _ Hj) as [A B].
        destruct wn; simpl; rewrite A; [reflexivity|rewrite B; reflexivity].
      * pose proof (c10_dq_os_tie_n en (c10_catch_ties sc) (c10_say w3 (c10_exn_diag e3))) as Hc.
        destruct (c10_os_tie_n (c10_catch_ties sc) en (c10_say w3 (c10_exn_diag e3))) as [[] w4|e4 w4|w4]; simpl in Hc, Hx |- *; try discriminate;
          (destruct (c10_process_exit_diag en sc 2 w4) as [D [E|E]]; rewrite E in Hx; [|discriminate];
           inversion Hx; subst; rewrite D, Hc; simpl; destruct e3; reflexivity).
      * discriminate.
    + pose proof (c10_dq_os_tie_n en (c10_catch_ties sc) (c10_say w2 (c10_exn_diag e2))) as Hc.
      destruct (c10_os_tie_n (c10_catch_ties sc) en (c10_say w2 (c10_exn_diag e2))) as [[] w4|e4 w4|w4]; simpl in Hc, Hx |- *; try discriminate;
        (destruct (c10_process_exit_diag en sc 2 w4) as [D [E|E]]; rewrite E in Hx; [|discriminate];
         inversion Hx; subst; rewrite D, Hc; simpl; destruct e2; reflexivity).
    + discriminate.
  - pose proof (c10_dq_os_tie_n en (c10_catch_ties sc) (c10_say w1 (c10_exn_diag e))) as Hc.
    destruct (c10_os_tie_n (c10_catch_ties sc) en (c10_say w1 (c10_exn_diag e))) as [[] w4|e4 w4|w4]; simpl in Hc, Hx |- *; try discriminate;
      (destruct (c10_process_exit_diag en sc 2 w4) as [D [E|E]]; rewrite E in Hx; [|discriminate];
       inversion Hx; subst; rewrite D, Hc; simpl; destruct e; reflexivity).
  - discriminate.
Qed.

(* ---- the pinned sinks (ANY checks vector): what remains true.  A stream that was flushed and closed holds
   exactly what was written UNLESS its error indicator is set - which is the class of D2: a write error
   that libc recorded and qpdf did not look at. *)
Definition c10_wclean (w : c10_world) (name : nat) (data : list N) (open : bool) : Prop :=
  exists f, c10_at w name = Some f /\ sf_open f = open /\ sf_rbuf f = [] /\ (sf_err f = false -> sio_disk f = data).

Lemma c10_pl_finish_weak en name w w' data :
  c10_sinv w name data -> c10_pl_finish en name w = ROk tt w' ->
  c10_wclean w' name data true /\ c10_frame name w w'.
Proof.
  intros (f & Hat & Hop & Hlog) H. unfold c10_pl_finish, c10_fflush in H.
  destruct (c10_stream_op en name w sio_fflush (fun ok => EvFlush name ok) true) as [ok w1|e w1|w1] eqn:Hs; simpl in H; try discriminate.
  destruct (c10_stream_op_ok _ _ _ _ _ _ _ _ _ Hat Hs) as (f' & Hc & Hat' & Hfr).
  assert (Hw : w' = w1) by (destruct (ck_finish (en_ck en) && (negb ok || c10_ferror w1 name)); [discriminate|inversion H; reflexivity]).
  subst w'.
  apply sio_fflush_spec in Hc. destruct Hc as ((R1 & _ & _ & R4 & _) & Hb & _).
  pose proof (c10_apply_fault_rel (en_fault en (S (cw_n w))) f) as (F1 & _ & _ & F4 & _).
  split; [|exact Hfr]. exists f'. split; [exact Hat'|]. split; [congruence|]. split; [exact Hb|].
  intros He. destruct (R1 He) as [He0 Hl]. destruct (F1 He0) as [Hef Hl0]. rewrite app_nil_r in Hl, Hl0.
  rewrite (sio_disk_logical _ Hb), Hl, Hl0. auto.
Qed.

Lemma c10_fclose_weak en name w w' data ok :
  c10_wclean w name data true -> c10_fclose en name w = ROk ok w' ->
  c10_wclean w' name data false /\ c10_frame name w w'.
Proof.
  intros (f & Hat & Hop & Hb & Hd) H. unfold c10_fclose in H.
  destruct (c10_stream_op_ok _ _ _ _ _ _ _ _ _ Hat H) as (f' & Hc & Hat' & Hfr).
  split; [|exact Hfr]. exists f'. split; [exact Hat'|].
  unfold sio_fclose, sio_flushbuf in Hc.
  assert (Hb0 : sf_rbuf (c10_apply_fault (en_fault en (S (cw_n w))) f) = []) by (destruct (en_fault en (S (cw_n w))); simpl; auto).
  rewrite Hb0 in Hc. inversion Hc; subst; clear Hc. simpl.
  destruct (en_fault en (S (cw_n w))); simpl; unfold sio_disk in *; simpl; auto.
Qed.

Lemma c10_writer_file_weak en name chunks w w' :
  c10_writer_file en name chunks w = ROk tt w' ->
  c10_wclean w' name (concat chunks) false /\ c10_frame name w w'.
Proof.
  intros H. unfold c10_writer_file in H.
  destruct (c10_fopen en name w) as [ok w1|e w1|w1] eqn:Ho; simpl in H; try discriminate.
  destruct ok; simpl in H; [|discriminate].
  assert (Hinv1 : c10_sinv w1 name [] /\ c10_frame name w w1).
  { unfold c10_fopen in Ho. simpl in Ho.
    destruct (c10_is_killb (en_fault en (S (cw_n w)))); [discriminate|].
    set (f0 := c10_apply_fault (en_fault en (S (cw_n w))) (sio_new_glitch (en_initcap en) false (en_glitch en))) in *.
    assert (Hf0 : sf_open f0 = true /\ (sf_err f0 = false -> sio_logical f0 = [])).
    { subst f0. destruct (en_fault en (S (cw_n w))); simpl; auto. }
    destruct (en_fault en (S (cw_n w))) eqn:Efa; simpl in Ho; try discriminate;
      inversion Ho; subst; clear Ho;
      (split; [exists f0; split; [apply c10_lookup_bind_same|exact Hf0]
              |split; [intros m Hm; unfold c10_at; simpl; apply c10_lookup_bind_other; auto|split; reflexivity]]). }
  destruct Hinv1 as [Hinv1 Hfr1].
  set (body := c10_bind (c10_with_pops en name (c10_pl_write_chunks en name chunks w1)) _) in H.
  destruct body as [[] w5|e w5|w5] eqn:Hbody; simpl in H; try discriminate.
  2:{ destruct (c10_is_open w5 name); [destruct (c10_fclose en name w5); discriminate|discriminate]. }
  subst body.
  destruct (c10_pl_write_chunks en name chunks w1) as [[] w2|e w2|w2] eqn:Hw; simpl in Hbody; try discriminate.
  2:{ destruct (c10_pop_finish_n (en_md5_pops en) en name w2) as [[]| |]; discriminate. }
  destruct (c10_pl_write_chunks_inv _ _ _ _ _ _ Hinv1 Hw) as (Hinv2a & Hfr2a). simpl in Hinv2a.
  destruct (c10_pop_finish_n (en_md5_pops en) en name w2) as [[] w2'|e w2'|w2'] eqn:Hpop; simpl in Hbody; try discriminate.
  destruct (c10_pop_finish_n_inv _ _ _ _ _ _ Hinv2a Hpop) as (Hinv2 & Hfr2b).
  pose proof (c10_frame_trans _ _ _ _ Hfr2a Hfr2b) as Hfr2.
  destruct (c10_pl_finish en name w2') as [[] w3|e w3|w3] eqn:Hfin; simpl in Hbody; try discriminate.
  destruct (c10_pl_finish_weak _ _ _ _ _ Hinv2 Hfin) as (Hcl3 & Hfr3).
  destruct (c10_fclose en name w3) as [okc w4|e w4|w4] eqn:Hcl; simpl in Hbody; try discriminate.
  destruct (c10_fclose_weak _ _ _ _ _ _ Hcl3 Hcl) as (Hcl4 & Hfr4).
  destruct (ck_wclose (en_ck en) && negb okc); [discriminate|]. inversion Hbody; subst; clear Hbody.
  assert (Hopen : c10_is_open w5 name = false).
  { destruct Hcl4 as (f & Hat & Hop & _). unfold c10_is_open. fold (c10_at w5 name). rewrite Hat. exact Hop. }
  rewrite Hopen in H. inversion H; subst; clear H.
  split; [exact Hcl4|].
  eapply c10_frame_trans; [exact Hfr1|]. eapply c10_frame_trans; [exact Hfr2|]. eapply c10_frame_trans; [exact Hfr3|exact Hfr4].
Qed.

Lemma c10_split_weak en : forall outs w w',
  NoDup (map fst outs) -> c10_split en outs w = ROk tt w' ->
  (forall n c, In (n, c) outs -> c10_wclean w' n (concat c) false) /\
  (forall m, ~ In m (map fst outs) -> c10_at w' m = c10_at w m).
Proof.
  induction outs as [|[name chunks] tl IH]; intros w w' Hnd H; simpl in H.
  - inversion H; subst. split; auto. intros n c [].
  - destruct (c10_writer_file en name chunks w) as [[] w1|e w1|w1] eqn:Hw; simpl in H; try discriminate.
    destruct (c10_writer_file_weak _ _ _ _ _ Hw) as (Hcl & Hfr).
    inversion Hnd as [|? ? Hnotin Hnd']; subst.
    destruct (IH _ _ Hnd' H) as (I1 & I2).
    split.
    + intros n c [Heq|Hin].
      * inversion Heq; subst. destruct Hcl as (f & Hat & Hrest). exists f. rewrite I2; auto.
      * apply I1; auto.
    + intros m Hm. simpl in Hm. rewrite I2 by tauto. destruct Hfr as (F & _). apply F. intros ->. apply Hm. left; reflexivity.
Qed.

Lemma c10_replace_weak en warn inp backup temp chunks w w' :
  inp <> backup -> inp <> temp -> backup <> temp ->
  c10_replace en warn inp backup temp chunks w = ROk tt w' ->
  c10_wclean w' inp (concat chunks) false.
Proof.
  intros Hib Hit Hbt H. unfold c10_replace in H.
  destruct (c10_writer_file en temp chunks w) as [[] w1|e w1|w1] eqn:Hw; simpl in H; try discriminate.
  destruct (c10_writer_file_weak _ _ _ _ _ Hw) as ((ft & Hat & Hrest) & _).
  destruct (c10_rename en inp backup w1) as [ok1 w2|e w2|w2] eqn:Hr1; simpl in H; try discriminate.
  destruct (c10_rename_cases _ _ _ _ _ _ Hib Hr1) as [[-> _]|[-> (f1 & A1 & A2 & A3 & A4)]]; simpl in H; [discriminate|].
  destruct (c10_rename en temp inp w2) as [ok2 w3|e w3|w3] eqn:Hr2; simpl in H; try discriminate.
  assert (Hti : temp <> inp) by auto.
  destruct (c10_rename_cases _ _ _ _ _ _ Hti Hr2) as [[-> _]|[-> (f2 & B1 & B2 & B3 & B4)]]; simpl in H; [discriminate|].
  rewrite A4 in B1 by auto. rewrite Hat in B1. inversion B1; subst f2; clear B1.
  destruct warn.
  - inversion H; subst. exists ft. rewrite c10_at_say. split; [exact B2|exact Hrest].
  - destruct (c10_unlink en backup w3) as [ok3 w4|e w4|w4] eqn:Hu; simpl in H; try discriminate.
    destruct (c10_unlink_cases _ _ _ _ _ Hu) as (U1 & _).
    destruct ok3; inversion H; subst; exists ft; rewrite ?c10_at_say; (split; [rewrite U1 by auto; exact B2|exact Hrest]).
Qed.

(* C10, third sentence, for ANY checks vector (in particular the pinned tree), writer scenarios: exit status 0 or 3
   implies that every output file is closed and - unless the error indicator of its stream is set, i.e. unless a
   write error was recorded by libc and ignored by qpdf (finding D2) - complete. *)
Lemma exit_ok_implies_complete_partial_lemma : forall en warn wx0 sc orig n c,
  c10_writer_scen sc = true -> c10_wf sc ->
  (rs_exit (c10_run en warn wx0 sc orig) = Some 0 \/ rs_exit (c10_run en warn wx0 sc orig) = Some 3) ->
  In (n, c) (c10_intended sc) ->
  exists f, c10_lookup (cw_dir (rs_world (c10_run en warn wx0 sc orig))) n = Some f /\ sf_open f = false /\
            (sf_err f = false -> c10_file_of (c10_run en warn wx0 sc orig) n = Some c).
Proof.
  intros en warn wx0 sc orig n c Hs Hwf Hexit Hin.
  rewrite (c10_run_writer_scen _ _ _ _ _ Hs) in *.
  assert (Hfin : forall code w, c10_wclean w n c false ->
            exists f, c10_lookup (cw_dir (rs_world (mk_result code (c10_exit_flush_all w)))) n = Some f /\ sf_open f = false /\
                      (sf_err f = false -> c10_file_of (mk_result code (c10_exit_flush_all w)) n = Some c)).
  { intros code w (f & Hat & Hop & Hb & Hd). exists f. unfold c10_file_of, c10_exit_flush_all. simpl.
    rewrite c10_lookup_map. unfold c10_at in Hat. rewrite Hat. simpl. unfold sio_exit_flush. rewrite Hop.
    split; [reflexivity|]. split; [reflexivity|]. intros He. unfold sio_disk in *. rewrite (Hd He). reflexivity. }
  assert (Hsay : forall w (b : bool), c10_wclean w n c false -> c10_wclean (if b then c10_say w DgWarn else w) n c false).
  { intros w b Hc. destruct b; [|exact Hc]. destruct Hc as (f & Hat & Hr). exists f. rewrite c10_at_say. split; [exact Hat|exact Hr]. }
  destruct sc as [out chunks|outs| | |inp backup temp chunks]; try discriminate; simpl in Hin, Hexit |- *.
  - destruct Hin as [Heq|[]]. inversion Heq; subst; clear Heq.
    destruct (c10_writer_file en n chunks _) as [[] w1|e w1|w1] eqn:Hw; simpl in *; try (destruct Hexit; discriminate).
    destruct (c10_writer_file_weak _ _ _ _ _ Hw) as (Hcl & _). apply Hfin, Hsay, Hcl.
  - destruct (c10_split en outs _) as [[] w1|e w1|w1] eqn:Hw; simpl in *; try (destruct Hexit; discriminate).
    destruct (c10_split_weak _ _ _ _ Hwf Hw) as (I1 & _).
    apply in_map_iff in Hin. destruct Hin as ([n0 c0] & Heq & Hin0). simpl in Heq. inversion Heq; subst; clear Heq.
    apply Hfin, Hsay, I1, Hin0.
  - destruct Hin as [Heq|[]]. inversion Heq; subst; clear Heq. destruct Hwf as (Hib & Hit & Hbt).
    destruct (c10_replace en warn n backup temp chunks _) as [[] w1|e w1|w1] eqn:Hw; simpl in *; try (destruct Hexit; discriminate).
    apply Hfin, Hsay. apply (c10_replace_weak _ _ _ _ _ _ _ _ Hib Hit Hbt Hw).
Qed.

(* ---- std::cout scenarios, repaired realmain *)
Definition c10_oinv (w : c10_world) (data : list N) : Prop :=
  exists f, c10_at w c10_stdout = Some f /\ sf_open f = true /\
            (sf_err f = false -> cw_cout_bad w = false -> sio_logical f = data).

Lemma c10_stream_op_no_exc {A} en name w (call : sfile -> A * sfile) ev dflt e w1 :
  c10_stream_op en name w call ev dflt <> RExc e w1.
Proof.
  unfold c10_stream_op. destruct (c10_is_killb _); [discriminate|]. destruct (c10_lookup _ _); [|discriminate].
  destruct (call _). destruct (c10_is_killa _); discriminate.
Qed.
Lemma c10_os_write_no_exc en d w e w1 : c10_os_write en d w <> RExc e w1.
Proof.
  unfold c10_os_write. destruct d; [discriminate|]. destruct (cw_cout_bad w); [discriminate|]. unfold c10_fwrite.
  pose proof (c10_stream_op_no_exc en c10_stdout w (fun f => sio_fwrite (en_B en) f (n :: d)) (fun r => EvWrite c10_stdout (length (n :: d)) r) 0) as H.
  destruct (c10_stream_op _ _ _ _ _ _) as [r w2|e2 w2|w2]; simpl; try discriminate. exfalso. eapply H; reflexivity.
Qed.

Lemma c10_os_write_inv en d w w' data :
  c10_oinv w data -> c10_os_write en d w = ROk tt w' -> c10_oinv w' (data ++ d).
Proof.
  intros (f & Hat & Hop & Hlog) H. unfold c10_os_write in H. destruct d as [|b tl].
  - inversion H; subst. rewrite app_nil_r. exists f. auto.
  - destruct (cw_cout_bad w) eqn:Hbad.
    + inversion H; subst. exists f. split; [exact Hat|]. split; [exact Hop|]. intros _ Hb. congruence.
    + unfold c10_fwrite in H.
      destruct (c10_stream_op en c10_stdout w (fun f0 => sio_fwrite (en_B en) f0 (b :: tl)) (fun r => EvWrite c10_stdout (length (b :: tl)) r) 0)
        as [r w1|e w1|w1] eqn:Hs; simpl in H; try discriminate.
      destruct (c10_stream_op_ok _ _ _ _ _ _ _ _ _ Hat Hs) as (f' & Hc & Hat' & (_ & _ & Hb1)).
      inversion H; subst w'; clear H.
      apply sio_fwrite_spec in Hc. destruct Hc as (C1 & C2 & (_ & _ & C3 & _)).
      pose proof (c10_apply_fault_rel (en_fault en (S (cw_n w))) f) as (F1 & _ & _ & F4 & _).
      exists f'. split; [destruct (r <? _); exact Hat'|]. split; [congruence|].
      intros He Hb. destruct (C2 He) as [Hr (R & _)]. destruct (R He) as [He0 Hl]. destruct (F1 He0) as [Hef Hl0].
      rewrite app_nil_r in Hl0. rewrite Hl, Hl0. rewrite (Hlog Hef eq_refl). reflexivity.
Qed.

Lemma c10_os_flush_inv en w data :
  c10_oinv w data ->
  match c10_os_flush en w with ROk _ w' => c10_oinv w' data | RExc _ _ => False | RDead _ => True end.
Proof.
  intros (f & Hat & Hop & Hlog). unfold c10_os_flush. destruct (cw_cout_bad w) eqn:Hbad.
  - exists f. split; [exact Hat|]. split; [exact Hop|]. intros _ Hb. congruence.
  - unfold c10_fflush.
    destruct (c10_stream_op en c10_stdout w sio_fflush (fun ok => EvFlush c10_stdout ok) true) as [ok w1|e w1|w1] eqn:Hs; simpl; auto.
    + destruct (c10_stream_op_ok _ _ _ _ _ _ _ _ _ Hat Hs) as (f' & Hc & Hat' & (_ & _ & Hb1)).
      apply sio_fflush_spec in Hc. destruct Hc as ((R1 & _ & _ & R4 & _) & _ & _).
      pose proof (c10_apply_fault_rel (en_fault en (S (cw_n w))) f) as (F1 & _ & _ & F4 & _).
      exists f'. split; [destruct ok; exact Hat'|]. split; [congruence|].
      intros He Hb. destruct (R1 He) as [He0 Hl]. destruct (F1 He0) as [Hef Hl0]. rewrite app_nil_r in Hl, Hl0.
      rewrite Hl, Hl0. apply Hlog; auto.
    + exact (c10_stream_op_no_exc _ _ _ _ _ _ _ _ Hs).
Qed.

Lemma c10_os_tie_n_inv en : forall n w data,
  c10_oinv w data ->
  match c10_os_tie_n n en w with ROk _ w' => c10_oinv w' data | RExc _ _ => False | RDead _ => True end.
Proof.
  induction n as [|k IH]; intros w data Hinv; simpl; [exact Hinv|].
  pose proof (c10_os_flush_inv en w data Hinv) as H.
  destruct (c10_os_flush en w) as [[] w1|e w1|w1]; simpl; auto. apply IH; auto.
Qed.

Lemma c10_os_items_inv en : forall items w data,
  c10_oinv w data ->
  match c10_os_items en items w with ROk _ w' => c10_oinv w' (data ++ c10_stdout_data items) | RExc _ _ => False | RDead _ => True end.
Proof.
  induction items as [|it tl IH]; intros w data Hinv; simpl.
  - rewrite app_nil_r. exact Hinv.
  - destruct it as [d|].
    + destruct (c10_os_write en d w) as [[] w1|e w1|w1] eqn:Hw; simpl; auto.
      * pose proof (c10_os_write_inv _ _ _ _ _ Hinv Hw) as H1. specialize (IH w1 (data ++ d) H1).
        rewrite <- app_assoc in IH. exact IH.
      * exact (c10_os_write_no_exc _ _ _ _ _ Hw).
    + pose proof (c10_os_flush_inv en w data Hinv) as H.
      destruct (c10_os_flush en w) as [[] w1|e w1|w1]; simpl; auto. apply IH; auto.
Qed.

Lemma c10_os_finish_n_inv en : forall n w data,
  c10_oinv w data ->
  match c10_os_finish_n n en w with ROk _ w' | RExc _ w' => c10_oinv w' data | RDead _ => True end.
Proof.
  induction n as [|k IH]; intros w data Hinv; simpl; [exact Hinv|].
  unfold c10_os_finish. pose proof (c10_os_flush_inv en w data Hinv) as H.
  destruct (c10_os_flush en w) as [[] w1|e w1|w1]; simpl; auto; [|contradiction].
  destruct (ck_ostream (en_ck en) && cw_cout_bad w1); simpl; [exact H|]. apply IH; auto.
Qed.

(* after realmain's check: the kernel has everything and the buffer is empty; later flushes are no-ops *)
Definition c10_oclean (w : c10_world) (data : list N) : Prop :=
  exists f, c10_at w c10_stdout = Some f /\ sf_open f = true /\ sf_rbuf f = [] /\ sio_disk f = data.

Lemma c10_fflush_oclean en w data :
  c10_oclean w data ->
  match c10_fflush en c10_stdout w with ROk _ w' => c10_oclean w' data | RExc _ _ => False | RDead _ => True end.
Proof.
  intros (f & Hat & Hop & Hb & Hd). unfold c10_fflush, c10_stream_op. simpl.
  destruct (c10_is_killb _); [exact I|]. unfold c10_at in Hat. rewrite Hat.
  assert (Hf : sio_fflush (c10_apply_fault (en_fault en (S (cw_n w))) f) = (true, c10_apply_fault (en_fault en (S (cw_n w))) f)).
  { unfold sio_fflush, sio_flushbuf. destruct (en_fault en (S (cw_n w))); simpl; rewrite Hb; reflexivity. }
  rewrite Hf. destruct (c10_is_killa _); [exact I|].
  exists (c10_apply_fault (en_fault en (S (cw_n w))) f). unfold c10_at, c10_log, c10_put, c10_set_dir, c10_tick; cbn [cw_dir].
  split; [apply c10_lookup_bind_same|]. destruct (en_fault en (S (cw_n w))); simpl; auto.
Qed.
Lemma c10_os_flush_oclean en w data :
  c10_oclean w data ->
  match c10_os_flush en w with ROk _ w' => c10_oclean w' data | RExc _ _ => False | RDead _ => True end.
Proof.
  intros Hc. unfold c10_os_flush. destruct (cw_cout_bad w); [exact Hc|].
  pose proof (c10_fflush_oclean en w data Hc) as H. destruct (c10_fflush en c10_stdout w) as [ok w1|e w1|w1]; simpl; auto.
  destruct ok; [exact H|]. destruct H as (f & Hf). exists f. exact Hf.
Qed.
Lemma c10_os_tie_n_oclean en : forall n w data,
  c10_oclean w data ->
  match c10_os_tie_n n en w with ROk _ w' => c10_oclean w' data | RExc _ _ => False | RDead _ => True end.
Proof.
  induction n as [|k IH]; intros w data Hc; simpl; [exact Hc|].
  pose proof (c10_os_flush_oclean en w data Hc) as H. destruct (c10_os_flush en w) as [[] w1|e w1|w1]; simpl; auto. apply IH; auto.
Qed.
Lemma c10_exit_rounds_oclean en : forall n wbad w data,
  c10_oclean w data ->
  match c10_exit_rounds n en wbad w with ROk _ w' => c10_oclean w' data | RExc _ _ => False | RDead _ => True end.
Proof.
  induction n as [|k IH]; intros wbad w data Hc; simpl; [exact Hc|].
  pose proof (c10_os_flush_oclean en w data Hc) as H. destruct (c10_os_flush en w) as [[] w1|e w1|w1]; simpl; auto.
  destruct wbad; [apply IH; auto|].
  pose proof (c10_fflush_oclean en w1 data H) as H2. destruct (c10_fflush en c10_stdout w1) as [ok w2|e w2|w2]; simpl; auto. apply IH; auto.
Qed.

Lemma c10_process_exit_oclean en items nfin ntie sw code w data c :
  c10_oclean w data ->
  rs_exit (c10_process_exit en (ScStdout items nfin ntie sw) code w) = Some c ->
  c10_file_of (c10_process_exit en (ScStdout items nfin ntie sw) code w) c10_stdout = Some data.
Proof.
  intros Hc. unfold c10_process_exit. cbn [c10_uses_stdout].
  pose proof (c10_os_tie_n_oclean en 2 w data Hc) as H1.
  destruct (c10_os_tie_n 2 en w) as [[] w1|e w1|w1]; cbn [c10_bind]; [|contradiction|cbn; discriminate].
  pose proof (c10_exit_rounds_oclean en (en_exit_rounds en) false w1 data H1) as H2.
  destruct (c10_exit_rounds (en_exit_rounds en) en false w1) as [[] w2|e w2|w2]; [|contradiction|cbn; discriminate].
  intros _. destruct H2 as (f & Hat & Hop & Hb & Hd). unfold c10_file_of, c10_exit_flush_all. cbn [rs_world cw_dir c10_set_dir].
  rewrite c10_lookup_map. unfold c10_at in Hat. rewrite Hat. cbn [option_map]. unfold sio_exit_flush, sio_flushbuf. rewrite Hop, Hb. cbn [snd]. rewrite Hd. reflexivity.
Qed.

Lemma c10_fail_exit_code en sc e w :
  rs_exit (c10_fail_exit en sc e w) = Some 2 \/ rs_exit (c10_fail_exit en sc e w) = None.
Proof.
  unfold c10_fail_exit. destruct (c10_os_tie_n (c10_catch_ties sc) en _) as [[] w4|e4 w4|w4]; cbn [rs_exit]; auto;
    apply (c10_process_exit_diag en sc 2 w4).
Qed.
Lemma c10_fail_exit_not_ok en sc e w : ~ (rs_exit (c10_fail_exit en sc e w) = Some 0 \/ rs_exit (c10_fail_exit en sc e w) = Some 3).
Proof. destruct (c10_fail_exit_code en sc e w) as [H|H]; rewrite H; intros [A|A]; discriminate. Qed.

(* C10, third sentence, std::cout scenarios (qpdf in - , --show-attachment, JSON to stdout), with the repaired realmain
   (stdout is flushed and its error indicator and cout's state are looked at before the status is chosen): for every
   buffer size, data, fault oracle, capacity, whatever Pl_OStream::finish does: exit 0 or 3 implies that standard
   output received exactly what was written. *)
Lemma exit_ok_implies_complete_stdout_lemma : forall en warn wx0 items nfin ntie sw orig,
  ck_stdout (en_ck en) = true ->
  let r := c10_run en warn wx0 (ScStdout items nfin ntie sw) orig in
  (rs_exit r = Some 0 \/ rs_exit r = Some 3) ->
  c10_file_of r c10_stdout = Some (c10_stdout_data items).
Proof.
  intros en warn wx0 items nfin ntie sw orig Hck r Hx. subst r. unfold c10_run in *.
  set (sc := ScStdout items nfin ntie sw) in *.
  set (w0 := c10_initial en sc orig) in *.
  assert (Hinv0 : c10_oinv w0 []).
  { exists (sio_new (en_initcap en) true). subst w0 sc. unfold c10_at, c10_initial. simpl. auto. }
  assert (Hjob : match c10_job en warn sc w0 with
                 | ROk _ w' => c10_oinv w' (c10_stdout_data items) | RExc _ _ => True | RDead _ => True end).
  { subst sc. cbn [c10_job]. pose proof (c10_os_items_inv en items w0 [] Hinv0) as H1. cbn [app] in H1.
    destruct (c10_os_items en items w0) as [[] w1|e w1|w1]; cbn [c10_bind]; try contradiction; auto.
    pose proof (c10_os_finish_n_inv en nfin w1 _ H1) as H2.
    destruct (c10_os_finish_n nfin en w1) as [[] w2|e w2|w2]; cbn [c10_no_warning c10_bind]; auto. destruct sw; auto. }
  destruct (c10_job en warn sc w0) as [extra w1|e w1|w1]; cbn [c10_bind] in Hx |- *.
  2:{ exfalso. exact (c10_fail_exit_not_ok _ _ _ _ Hx). }
  2:{ destruct Hx; discriminate. }
  set (w1' := if warn || extra then c10_say w1 DgWarn else w1) in *.
  assert (Hinv1 : c10_oinv w1' (c10_stdout_data items)).
  { subst w1'. destruct (warn || extra); [|exact Hjob]. destruct Hjob as (f & Hf). exists f. exact Hf. }
  assert (Hties : c10_closing_ties sc = ntie) by reflexivity. rewrite Hties in *.
  pose proof (c10_os_tie_n_inv en ntie w1' _ Hinv1) as Ht.
  destruct (c10_os_tie_n ntie en w1') as [[] w2|e w2|w2]; cbn [c10_bind] in Hx |- *; try contradiction.
  2:{ destruct Hx; discriminate. }
  unfold c10_main_stdout_check in *. rewrite Hck in *.
  assert (Hu : c10_uses_stdout sc = true) by reflexivity. rewrite Hu in *. cbn [andb] in Hx |- *.
  destruct Ht as (f & Hat & Hop & Hlog).
  unfold c10_fflush in *.
  destruct (c10_stream_op en c10_stdout w2 sio_fflush (fun ok => EvFlush c10_stdout ok) true) as [ok w3|e w3|w3] eqn:Hs; cbn [c10_bind] in Hx |- *.
  - destruct (c10_stream_op_ok _ _ _ _ _ _ _ _ _ Hat Hs) as (f' & Hc & Hat' & (_ & _ & Hb3)).
    unfold c10_ferror in *. fold (c10_at w3 c10_stdout) in *. rewrite Hat' in *.
    destruct (negb ok || sf_err f' || cw_cout_bad w3) eqn:E; cbn [c10_bind] in Hx |- *.
    + exfalso. exact (c10_fail_exit_not_ok _ _ _ _ Hx).
    + apply orb_false_iff in E. destruct E as [E Eb]. apply orb_false_iff in E. destruct E as [_ Ee].
      apply sio_fflush_spec in Hc. destruct Hc as ((R1 & _ & _ & R4 & _) & Hbuf & _).
      pose proof (c10_apply_fault_rel (en_fault en (S (cw_n w2))) f) as (F1 & _ & _ & F4 & _).
      destruct (R1 Ee) as [He0 Hl]. destruct (F1 He0) as [Hef Hl0]. rewrite app_nil_r in Hl, Hl0.
      assert (Hclean : c10_oclean w3 (c10_stdout_data items)).
      { exists f'. split; [exact Hat'|]. split; [congruence|]. split; [exact Hbuf|].
        rewrite (sio_disk_logical _ Hbuf), Hl, Hl0. apply Hlog; [exact Hef|congruence]. }
      destruct (rs_exit (c10_process_exit en sc (if (warn || extra) && negb wx0 then 3 else 0) w3)) eqn:Ex.
      * subst sc. eapply c10_process_exit_oclean; eauto.
      * destruct Hx; discriminate.
  - exfalso. exact (c10_fail_exit_not_ok _ _ _ _ Hx).
  - destruct Hx; discriminate.
Qed.

(* ---- qpdf JSON with stream-data files: main file + stream files opened, fed and closed in between *)
(* what the item sequence asks for, independently of the sinks: per stream name (open?, data so far); main data *)
Definition c10_jst := nat -> option (bool * list N).
Definition c10_jupd (st : c10_jst) (s : nat) (v : bool * list N) : c10_jst := fun k => if Nat.eqb k s then Some v else st k.
Fixpoint c10_json_sim (main : nat) (items : list c10_jitem) (st : c10_jst) (md : list N) : option (c10_jst * list N) :=
  match items with
  | [] => Some (st, md)
  | JChunk d :: tl => c10_json_sim main tl st (md ++ d)
  | JStreamOpen s :: tl =>
    if Nat.eqb s main then None else
    match st s with Some _ => None | None => c10_json_sim main tl (c10_jupd st s (true, [])) md end
  | JStreamChunk s d :: tl =>
    match st s with Some (true, x) => c10_json_sim main tl (c10_jupd st s (true, x ++ d)) md | _ => None end
  | JStreamEnd s :: tl =>
    match st s with Some (true, x) => c10_json_sim main tl (c10_jupd st s (false, x)) md | _ => None end
  end.

Definition c10_jinv (w : c10_world) (main : nat) (st : c10_jst) (md : list N) : Prop :=
  c10_sinv w main md /\
  forall s, match st s with
            | None => True
            | Some (true, x) => s <> main /\ c10_sinv w s x
            | Some (false, x) => s <> main /\ c10_clean w s x false
            end.

Lemma c10_sinv_frame name m w w' data : m <> name -> c10_frame name w w' -> c10_sinv w m data -> c10_sinv w' m data.
Proof. intros Hm (F & _) (f & Hat & H). exists f. rewrite F; auto. Qed.

Lemma c10_jinv_step w w' main st md name st' md' :
  c10_frame name w w' ->
  c10_sinv w' main md' ->
  (forall s, s <> name -> st' s = st s) ->
  (match st' name with
   | None => True
   | Some (true, x) => name <> main /\ c10_sinv w' name x
   | Some (false, x) => name <> main /\ c10_clean w' name x false
   end) ->
  c10_jinv w main st md -> c10_jinv w' main st' md'.
Proof.
  intros Hfr Hmain Hsame Hname (_ & Hall). split; [exact Hmain|].
  intros s. destruct (Nat.eq_dec s name) as [->|Hne]; [exact Hname|].
  rewrite (Hsame s Hne). specialize (Hall s). destruct (st s) as [[[] x]|]; auto.
  - destruct Hall as [A B]. split; [exact A|]. eapply c10_sinv_frame; eauto.
  - destruct Hall as [A B]. split; [exact A|]. eapply c10_clean_frame; eauto.
Qed.

Lemma c10_jupd_same st s v : c10_jupd st s v s = Some v.
Proof. unfold c10_jupd. rewrite Nat.eqb_refl. reflexivity. Qed.
Lemma c10_jupd_other st s v k : k <> s -> c10_jupd st s v k = st k.
Proof. intros H. unfold c10_jupd. destruct (Nat.eqb k s) eqn:E; [apply Nat.eqb_eq in E; congruence|reflexivity]. Qed.

Lemma c10_fopen_inv en name w w1 :
  c10_fopen en name w = ROk true w1 -> c10_sinv w1 name [] /\ c10_frame name w w1.
Proof.
  intros Ho. unfold c10_fopen in Ho. simpl in Ho.
  destruct (c10_is_killb (en_fault en (S (cw_n w)))); [discriminate|].
  set (f0 := c10_apply_fault (en_fault en (S (cw_n w))) (sio_new_glitch (en_initcap en) false (en_glitch en))) in *.
  assert (Hf0 : sf_open f0 = true /\ (sf_err f0 = false -> sio_logical f0 = [])).
  { subst f0. destruct (en_fault en (S (cw_n w))); simpl; auto. }
  destruct (en_fault en (S (cw_n w))) eqn:Efa; simpl in Ho; try discriminate;
    inversion Ho; subst; clear Ho;
    (split; [exists f0; split; [apply c10_lookup_bind_same|exact Hf0]
            |split; [intros m Hm; unfold c10_at; simpl; apply c10_lookup_bind_other; auto|split; reflexivity]]).
Qed.

Lemma c10_json_items_inv en main : ck_finish (en_ck en) = true ->
  forall items st md w w' st' md',
  c10_jinv w main st md -> c10_json_sim main items st md = Some (st', md') ->
  c10_json_items en main items w = ROk tt w' -> c10_jinv w' main st' md'.
Proof.
  intros Hck. induction items as [|it tl IH]; intros st md w w' st' md' Hinv Hsim H; simpl in Hsim, H.
  - inversion Hsim; inversion H; subst. exact Hinv.
  - destruct it as [d|s|s d|s].
    + (* main chunk *)
      unfold c10_pl_write_all in H.
      destruct (c10_pl_write (S (length d)) en main d w) as [[] w1|e w1|w1] eqn:Hw; simpl in H; try discriminate.
      destruct (c10_pl_write_inv _ _ _ _ _ _ _ (proj1 Hinv) Hw) as (Hm1 & Hfr).
      eapply IH; [|exact Hsim|exact H].
      destruct Hinv as (_ & Hall). split; [exact Hm1|]. intros s. specialize (Hall s).
      destruct (st s) as [[[] x]|]; auto; destruct Hall as [A B]; (split; [exact A|]).
      * eapply c10_sinv_frame; eauto.
      * eapply c10_clean_frame; eauto.
    + (* open a stream file *)
      destruct (Nat.eqb s main) eqn:Esm; [discriminate|]. apply Nat.eqb_neq in Esm.
      destruct (st s) eqn:Ests; [discriminate|].
      destruct (c10_fopen en s w) as [ok w1|e w1|w1] eqn:Ho; simpl in H; try discriminate.
      destruct ok; simpl in H; [|discriminate].
      destruct (c10_fopen_inv _ _ _ _ Ho) as (Hs1 & Hfr).
      eapply IH; [|exact Hsim|exact H].
      eapply (c10_jinv_step w w1 main st md s); eauto.
      * eapply c10_sinv_frame; [| exact Hfr | exact (proj1 Hinv)]. auto.
      * intros k Hk. apply c10_jupd_other; auto.
      * rewrite c10_jupd_same. split; auto.
    + (* data into a stream file *)
      destruct (st s) as [[[] x]|] eqn:Ests; try discriminate.
      pose proof (proj2 Hinv s) as Hs. rewrite Ests in Hs. destruct Hs as [Hne Hsinv].
      unfold c10_pl_write_all in H.
      destruct (c10_pl_write (S (length d)) en s d w) as [[] w1|e w1|w1] eqn:Hw; simpl in H; try discriminate.
      destruct (c10_pl_write_inv _ _ _ _ _ _ _ Hsinv Hw) as (Hs1 & Hfr).
      eapply IH; [|exact Hsim|exact H].
      eapply (c10_jinv_step w w1 main st md s); eauto.
      * eapply c10_sinv_frame; [| exact Hfr | exact (proj1 Hinv)]. auto.
      * intros k Hk. apply c10_jupd_other; auto.
      * rewrite c10_jupd_same. split; auto.
    + (* finish and close a stream file *)
      destruct (st s) as [[[] x]|] eqn:Ests; try discriminate.
      pose proof (proj2 Hinv s) as Hs. rewrite Ests in Hs. destruct Hs as [Hne Hsinv].
      destruct (c10_pl_finish en s w) as [[] w1|e w1|w1] eqn:Hf; simpl in H; try discriminate.
      destruct (c10_pl_finish_inv _ _ _ _ _ Hck Hsinv Hf) as (Hc1 & Hfr1).
      destruct (c10_fclose en s w1) as [okc w2|e w2|w2] eqn:Hc; simpl in H; try discriminate.
      destruct (c10_fclose_clean _ _ _ _ _ _ Hc1 Hc) as (Hc2 & Hfr2).
      destruct (ck_jsclose (en_ck en) && negb okc); [discriminate|].
      pose proof (c10_frame_trans _ _ _ _ Hfr1 Hfr2) as Hfr.
      eapply IH; [|exact Hsim|exact H].
      eapply (c10_jinv_step w w2 main st md s); eauto.
      * eapply c10_sinv_frame; [| exact Hfr | exact (proj1 Hinv)]. auto.
      * intros k Hk. apply c10_jupd_other; auto.
      * rewrite c10_jupd_same. split; auto.
Qed.

Lemma c10_json_file_complete en main items w w' st' md' :
  ck_finish (en_ck en) = true -> ck_jclose (en_ck en) = true ->
  c10_json_sim main items (fun _ => None) [] = Some (st', md') ->
  c10_json_file en main items w = ROk tt w' ->
  c10_clean w' main md' false /\ (forall s x, st' s = Some (false, x) -> c10_clean w' s x false).
Proof.
  intros Hck Hjc Hsim H. unfold c10_json_file in H.
  destruct (c10_fopen en main w) as [ok w1|e w1|w1] eqn:Ho; simpl in H; try discriminate.
  destruct ok; simpl in H; [|discriminate].
  destruct (c10_fopen_inv _ _ _ _ Ho) as (Hm1 & _).
  rewrite Hjc in H.
  set (body := c10_bind (c10_json_items en main items w1) _) in H.
  destruct body as [[] w5|e w5|w5] eqn:Hbody; simpl in H; try discriminate.
  2:{ destruct (c10_is_open w5 main); [destruct (c10_fclose en main w5); discriminate|discriminate]. }
  subst body.
  destruct (c10_json_items en main items w1) as [[] w2|e w2|w2] eqn:Hit; simpl in Hbody; try discriminate.
  assert (Hinv1 : c10_jinv w1 main (fun _ => None) []) by (split; [exact Hm1|intros s; exact I]).
  pose proof (c10_json_items_inv en main Hck _ _ _ _ _ _ _ Hinv1 Hsim Hit) as (Hm2 & Hall2).
  destruct (c10_pl_finish en main w2) as [[] w3|e w3|w3] eqn:Hf; simpl in Hbody; try discriminate.
  destruct (c10_pl_finish_inv _ _ _ _ _ Hck Hm2 Hf) as (Hc3 & Hfr3).
  destruct (c10_fclose en main w3) as [okc w4|e w4|w4] eqn:Hc; simpl in Hbody; try discriminate.
  destruct (c10_fclose_clean _ _ _ _ _ _ Hc3 Hc) as (Hc4 & Hfr4).
  destruct (negb okc); [discriminate|]. inversion Hbody; subst; clear Hbody.
  assert (Hopen : c10_is_open w5 main = false).
  { destruct Hc4 as (f & Hat & Hop & _). unfold c10_is_open. fold (c10_at w5 main). rewrite Hat. exact Hop. }
  rewrite Hopen in H. inversion H; subst; clear H.
  split; [exact Hc4|]. intros s x Hs. specialize (Hall2 s). rewrite Hs in Hall2. destruct Hall2 as [Hne Hcl].
  eapply c10_clean_frame; [exact Hne|exact (c10_frame_trans _ _ _ _ Hfr3 Hfr4)|exact Hcl].
Qed.

(* C10, third sentence, qpdf JSON with stream-data files, repaired sinks (finish checked; writeJSON closes explicitly and
   checks): for every buffer size, data, fault oracle, capacity: exit status 0 or 3 implies that the main file holds all
   main-file writes and every stream file that was opened, fed and closed holds exactly its data. *)
Lemma exit_ok_implies_complete_json_lemma : forall en warn wx0 main items orig st' md',
  ck_finish (en_ck en) = true -> ck_jclose (en_ck en) = true ->
  c10_json_sim main items (fun _ => None) [] = Some (st', md') ->
  let r := c10_run en warn wx0 (ScJson main items) orig in
  (rs_exit r = Some 0 \/ rs_exit r = Some 3) ->
  c10_file_of r main = Some md' /\ (forall s x, st' s = Some (false, x) -> c10_file_of r s = Some x).
Proof.
  intros en warn wx0 main items orig st' md' Hck Hjc Hsim r Hx. subst r.
  assert (Hrun : c10_run en warn wx0 (ScJson main items) orig =
    match c10_json_file en main items (c10_initial en (ScJson main items) orig) with
    | ROk _ w => mk_result (Some (if (warn || false) && negb wx0 then 3 else 0)) (c10_exit_flush_all (if warn || false then c10_say w DgWarn else w))
    | RExc e w => mk_result (Some 2) (c10_exit_flush_all (c10_say w (c10_exn_diag e)))
    | RDead w => mk_result None w
    end).
  { unfold c10_run, c10_fail_exit, c10_main_stdout_check. simpl. rewrite ?andb_false_r.
    destruct (c10_json_file en main items _) as [[] w1|e w1|w1]; simpl; try reflexivity; try (destruct warn; reflexivity). }
  rewrite Hrun in *. clear Hrun.
  destruct (c10_json_file en main items _) as [[] w1|e w1|w1] eqn:Hj; simpl in Hx |- *; try (destruct Hx; discriminate).
  destruct (c10_json_file_complete _ _ _ _ _ _ _ Hck Hjc Hsim Hj) as (Hm & Hs).
  assert (Hsay : forall n c, c10_clean w1 n c false -> c10_clean (if warn || false then c10_say w1 DgWarn else w1) n c false).
  { intros n c Hc. destruct (warn || false); [|exact Hc]. destruct Hc as (f & Hat & Hr). exists f. rewrite c10_at_say. split; [exact Hat|exact Hr]. }
  split; [apply c10_file_of_clean, Hsay, Hm|]. intros s x Hsx. apply c10_file_of_clean, Hsay, Hs, Hsx.
Qed.

(* ---- std::terminate: only a throwing finish() inside the Popper destructor sets it *)
Definition c10_ab_of {A} (r : c10_res A) : bool :=
  match r with ROk _ w | RExc _ w | RDead w => cw_aborted w end.

Lemma c10_ab_bind {A C} (r : c10_res A) (k : A -> c10_world -> c10_res C) l :
  c10_ab_of r = l -> (forall a w1, cw_aborted w1 = l -> c10_ab_of (k a w1) = l) -> c10_ab_of (c10_bind r k) = l.
Proof. intros Hr Hk. destruct r; simpl in *; auto. Qed.

Lemma c10_ab_stream_op {A} en name w (call : sfile -> A * sfile) ev dflt :
  c10_ab_of (c10_stream_op en name w call ev dflt) = cw_aborted w.
Proof.
  unfold c10_stream_op. simpl. destruct (c10_is_killb _); [reflexivity|].
  destruct (c10_lookup (cw_dir w) name); [|reflexivity].
  destruct (call _) as [a f']. destruct (c10_is_killa _); reflexivity.
Qed.
Lemma c10_ab_fopen en name w : c10_ab_of (c10_fopen en name w) = cw_aborted w.
Proof.
  unfold c10_fopen. simpl. destruct (c10_is_killb _); [reflexivity|].
  destruct (en_fault en (S (cw_n w))); simpl; try reflexivity.
Qed.
Lemma c10_ab_rename en a b w : c10_ab_of (c10_rename en a b w) = cw_aborted w.
Proof.
  unfold c10_rename. simpl. destruct (c10_is_killb _); [reflexivity|]. destruct (c10_path_fails _); [reflexivity|].
  destruct (c10_lookup (cw_dir w) a); [|reflexivity]. destruct (c10_is_killa _); reflexivity.
Qed.
Lemma c10_ab_unlink en a w : c10_ab_of (c10_unlink en a w) = cw_aborted w.
Proof.
  unfold c10_unlink. simpl. destruct (c10_is_killb _); [reflexivity|]. destruct (c10_path_fails _); [reflexivity|].
  destruct (c10_is_killa _); reflexivity.
Qed.

Lemma c10_ab_pl_write en name : forall fuel d w, c10_ab_of (c10_pl_write fuel en name d w) = cw_aborted w.
Proof.
  induction fuel as [|fu IH]; intros d w; destruct d as [|b tl]; simpl; try reflexivity.
  apply c10_ab_bind; [apply c10_ab_stream_op|]. intros r w1 H1. destruct (Nat.eqb r 0); simpl; [exact H1|].
  rewrite IH. exact H1.
Qed.
Lemma c10_ab_pl_write_chunks en name : forall chunks w, c10_ab_of (c10_pl_write_chunks en name chunks w) = cw_aborted w.
Proof.
  induction chunks as [|d tl IH]; intros w; simpl; [reflexivity|].
  apply c10_ab_bind; [apply c10_ab_pl_write|]. intros _ w1 H1. rewrite IH. exact H1.
Qed.
Lemma c10_ab_pl_finish en name w : c10_ab_of (c10_pl_finish en name w) = cw_aborted w.
Proof.
  unfold c10_pl_finish. apply c10_ab_bind; [apply c10_ab_stream_op|]. intros ok w1 H1.
  destruct (ck_finish (en_ck en) && (negb ok || c10_ferror w1 name)); exact H1.
Qed.
Definition c10_popper_safe (ck : c10_checks) : bool := ck_popper ck || negb (ck_finish ck).
Lemma c10_ab_pop_finish_n en name : c10_popper_safe (en_ck en) = true ->
  forall n w, c10_ab_of (c10_pop_finish_n n en name w) = cw_aborted w.
Proof.
  intros Hs. induction n as [|k IH]; intros w; simpl; [reflexivity|].
  apply c10_ab_bind.
  - unfold c10_pop_finish. apply c10_ab_bind; [apply c10_ab_stream_op|]. intros ok w1 H1.
    unfold c10_popper_safe in Hs. destruct (ck_finish (en_ck en)); simpl in *; [|exact H1].
    rewrite orb_false_r in Hs. rewrite Hs. destruct (negb ok || c10_ferror w1 name); exact H1.
  - intros _ w1 H1. rewrite IH. exact H1.
Qed.
Lemma c10_ab_with_pops en name r : c10_popper_safe (en_ck en) = true -> c10_ab_of (c10_with_pops en name r) = c10_ab_of r.
Proof.
  intros Hs. destruct r as [[] w|e w|w]; simpl; [apply c10_ab_pop_finish_n; exact Hs| |reflexivity].
  pose proof (c10_ab_pop_finish_n en name Hs (en_md5_pops en) w) as H. destruct (c10_pop_finish_n _ en name w); exact H.
Qed.
Lemma c10_ab_fclose en name w : c10_ab_of (c10_fclose en name w) = cw_aborted w.
Proof. apply c10_ab_stream_op. Qed.
Lemma c10_ab_dtor_close {A} en name (r : c10_res A) : c10_ab_of (c10_dtor_close en name r) = c10_ab_of r.
Proof.
  destruct r as [a w|e w|w]; simpl; [| |reflexivity]; destruct (c10_is_open w name); try reflexivity;
    pose proof (c10_ab_fclose en name w) as H; destruct (c10_fclose en name w); exact H.
Qed.
Lemma c10_ab_writer_file en name chunks w : c10_popper_safe (en_ck en) = true -> c10_ab_of (c10_writer_file en name chunks w) = cw_aborted w.
Proof.
  intros Hs. unfold c10_writer_file. apply c10_ab_bind; [apply c10_ab_fopen|]. intros ok w1 H1.
  destruct ok; simpl; [|exact H1]. rewrite c10_ab_dtor_close.
  apply c10_ab_bind; [rewrite c10_ab_with_pops by exact Hs; rewrite c10_ab_pl_write_chunks; exact H1|]. intros _ w2 H2.
  apply c10_ab_bind; [rewrite c10_ab_pl_finish; exact H2|]. intros _ w3 H3.
  apply c10_ab_bind; [rewrite c10_ab_fclose; exact H3|]. intros okc w4 H4.
  destruct (ck_wclose (en_ck en) && negb okc); exact H4.
Qed.
Lemma c10_ab_split en : c10_popper_safe (en_ck en) = true -> forall outs w, c10_ab_of (c10_split en outs w) = cw_aborted w.
Proof.
  intros Hs. induction outs as [|[name chunks] tl IH]; intros w; simpl; [reflexivity|].
  apply c10_ab_bind; [apply c10_ab_writer_file; exact Hs|]. intros _ w1 H1. rewrite IH. exact H1.
Qed.
Lemma c10_ab_json_items en main : forall items w, c10_ab_of (c10_json_items en main items w) = cw_aborted w.
Proof.
  induction items as [|it tl IH]; intros w; simpl; [reflexivity|]. destruct it.
  - apply c10_ab_bind; [apply c10_ab_pl_write|]. intros _ w1 H1. rewrite IH. exact H1.
  - apply c10_ab_bind; [apply c10_ab_fopen|]. intros ok w1 H1. destruct ok; simpl; [rewrite IH|]; exact H1.
  - apply c10_ab_bind; [apply c10_ab_pl_write|]. intros _ w1 H1. rewrite IH. exact H1.
  - apply c10_ab_bind; [apply c10_ab_pl_finish|]. intros _ w1 H1.
    apply c10_ab_bind; [rewrite c10_ab_fclose; exact H1|]. intros okc w2 H2.
    destruct (ck_jsclose (en_ck en) && negb okc); simpl; [|rewrite IH]; exact H2.
Qed.
Lemma c10_ab_json_file en main items w : c10_ab_of (c10_json_file en main items w) = cw_aborted w.
Proof.
  unfold c10_json_file. apply c10_ab_bind; [apply c10_ab_fopen|]. intros ok w1 H1.
  destruct ok; simpl; [|exact H1]. rewrite c10_ab_dtor_close.
  apply c10_ab_bind; [rewrite c10_ab_json_items; exact H1|]. intros _ w2 H2.
  destruct (ck_jclose (en_ck en)); [|exact H2].
  apply c10_ab_bind; [rewrite c10_ab_pl_finish; exact H2|]. intros _ w3 H3.
  apply c10_ab_bind; [rewrite c10_ab_fclose; exact H3|]. intros okc w4 H4. destruct (negb okc); exact H4.
Qed.
Lemma c10_ab_os_flush en w : c10_ab_of (c10_os_flush en w) = cw_aborted w.
Proof.
  unfold c10_os_flush. destruct (cw_cout_bad w); [reflexivity|].
  apply c10_ab_bind; [apply c10_ab_stream_op|]. intros ok w1 H1. destruct ok; exact H1.
Qed.
Lemma c10_ab_os_tie_n en : forall n w, c10_ab_of (c10_os_tie_n n en w) = cw_aborted w.
Proof.
  induction n as [|k IH]; intros w; simpl; [reflexivity|].
  apply c10_ab_bind; [apply c10_ab_os_flush|]. intros _ w1 H1. rewrite IH. exact H1.
Qed.
Lemma c10_ab_os_write en d w : c10_ab_of (c10_os_write en d w) = cw_aborted w.
Proof.
  unfold c10_os_write. destruct d; [reflexivity|]. destruct (cw_cout_bad w); [reflexivity|].
  apply c10_ab_bind; [apply c10_ab_stream_op|]. intros r w1 H1. simpl. destruct (r <? _); exact H1.
Qed.
Lemma c10_ab_os_items en : forall items w, c10_ab_of (c10_os_items en items w) = cw_aborted w.
Proof.
  induction items as [|it tl IH]; intros w; simpl; [reflexivity|]. destruct it.
  - apply c10_ab_bind; [apply c10_ab_os_write|]. intros _ w1 H1. rewrite IH. exact H1.
  - apply c10_ab_bind; [apply c10_ab_os_flush|]. intros _ w1 H1. rewrite IH. exact H1.
Qed.
Lemma c10_ab_os_finish en w : c10_ab_of (c10_os_finish en w) = cw_aborted w.
Proof.
  unfold c10_os_finish. apply c10_ab_bind; [apply c10_ab_os_flush|]. intros _ w1 H1.
  destruct (ck_ostream (en_ck en) && cw_cout_bad w1); exact H1.
Qed.
Lemma c10_ab_os_finish_n en : forall n w, c10_ab_of (c10_os_finish_n n en w) = cw_aborted w.
Proof.
  induction n as [|k IH]; intros w; simpl; [reflexivity|].
  apply c10_ab_bind; [apply c10_ab_os_finish|]. intros _ w1 H1. rewrite IH. exact H1.
Qed.
Lemma c10_ab_exit_rounds en : forall n wbad w, c10_ab_of (c10_exit_rounds n en wbad w) = cw_aborted w.
Proof.
  induction n as [|k IH]; intros wbad w; simpl; [reflexivity|].
  apply c10_ab_bind; [apply c10_ab_os_flush|]. intros _ w1 H1. destruct wbad; [rewrite IH; exact H1|].
  apply c10_ab_bind; [unfold c10_fflush; rewrite c10_ab_stream_op; exact H1|]. intros ok w2 H2. rewrite IH. exact H2.
Qed.


Lemma c10_ab_replace en warn inp backup temp chunks w : c10_popper_safe (en_ck en) = true ->
  c10_ab_of (c10_replace en warn inp backup temp chunks w) = cw_aborted w.
Proof.
  intros Hs. unfold c10_replace.
  apply c10_ab_bind; [apply c10_ab_writer_file; exact Hs|]. intros _ w1 H1.
  apply c10_ab_bind; [rewrite c10_ab_rename; exact H1|]. intros ok1 w2 H2. destruct ok1; simpl; [|exact H2].
  apply c10_ab_bind; [rewrite c10_ab_rename; exact H2|]. intros ok2 w3 H3. destruct ok2; simpl; [|exact H3].
  destruct warn; simpl; [exact H3|].
  apply c10_ab_bind; [rewrite c10_ab_unlink; exact H3|]. intros ok3 w4 H4. destruct ok3; exact H4.
Qed.

Lemma c10_ab_job en warn sc w : c10_popper_safe (en_ck en) = true -> c10_ab_of (c10_job en warn sc w) = cw_aborted w.
Proof.
  intros Hs. destruct sc as [out chunks|outs|main items|items nfin ntie sw|inp backup temp chunks]; simpl.
  - pose proof (c10_ab_writer_file en out chunks w Hs) as H. destruct (c10_writer_file en out chunks w) as [[]| |]; exact H.
  - pose proof (c10_ab_split en Hs outs w) as H. destruct (c10_split en outs w) as [[]| |]; exact H.
  - pose proof (c10_ab_json_file en main items w) as H. destruct (c10_json_file en main items w) as [[]| |]; exact H.
  - assert (H : c10_ab_of (c10_bind (c10_os_items en items w) (fun _ w1 => c10_os_finish_n nfin en w1)) = cw_aborted w).
    { apply c10_ab_bind; [apply c10_ab_os_items|]. intros _ w1 H1. rewrite c10_ab_os_finish_n. exact H1. }
    destruct (c10_bind (c10_os_items en items w) (fun _ w1 => c10_os_finish_n nfin en w1)) as [[]| |]; simpl in *;
      try destruct sw; exact H.
  - pose proof (c10_ab_replace en warn inp backup temp chunks w Hs) as H.
    destruct (c10_replace en warn inp backup temp chunks w) as [[]| |]; exact H.
Qed.

Lemma c10_ab_process_exit en sc code w : cw_aborted (rs_world (c10_process_exit en sc code w)) = cw_aborted w.
Proof.
  unfold c10_process_exit. destruct (c10_uses_stdout sc); [|reflexivity].
  assert (H : c10_ab_of (c10_bind (c10_os_tie_n 2 en w) (fun _ w0 => c10_exit_rounds (en_exit_rounds en) en false w0)) = cw_aborted w).
  { apply c10_ab_bind; [apply c10_ab_os_tie_n|]. intros _ w1 H1. rewrite c10_ab_exit_rounds. exact H1. }
  destruct (c10_bind (c10_os_tie_n 2 en w) _) as [a w1|e w1|w1]; exact H.
Qed.

Lemma c10_ab_fail_exit en sc e w : cw_aborted (rs_world (c10_fail_exit en sc e w)) = cw_aborted w.
Proof.
  unfold c10_fail_exit. pose proof (c10_ab_os_tie_n en (c10_catch_ties sc) (c10_say w (c10_exn_diag e))) as H.
  destruct (c10_os_tie_n (c10_catch_ties sc) en _) as [[] w4|e4 w4|w4]; simpl in H |- *; try rewrite c10_ab_process_exit; exact H.
Qed.

(* With the Popper destructor made safe (D2b), and also on the pinned tree where finish() never throws, no run ends in
   std::terminate: for every scenario, fault oracle, buffer size, data.  (So in the theorems above "rs_exit = None"
   means killed from outside, nothing else.) *)
Lemma no_terminate_lemma : forall en warn wx0 sc orig,
  c10_popper_safe (en_ck en) = true ->
  cw_aborted (rs_world (c10_run en warn wx0 sc orig)) = false /\
  c10_exit_status (c10_run en warn wx0 sc orig) = rs_exit (c10_run en warn wx0 sc orig).
Proof.
  intros en warn wx0 sc orig Hs.
  assert (H : cw_aborted (rs_world (c10_run en warn wx0 sc orig)) = false).
  { unfold c10_run.
    assert (H0 : cw_aborted (c10_initial en sc orig) = false) by (destruct sc; reflexivity).
    pose proof (c10_ab_job en warn sc (c10_initial en sc orig) Hs) as Hj. rewrite H0 in Hj.
    destruct (c10_job en warn sc (c10_initial en sc orig)) as [extra w1|e w1|w1]; simpl in Hj |- *.
    - set (w1' := if warn || extra then c10_say w1 DgWarn else w1).
      assert (H1 : cw_aborted w1' = false) by (subst w1'; destruct (warn || extra); exact Hj).
      pose proof (c10_ab_os_tie_n en (c10_closing_ties sc) w1') as Ht. rewrite H1 in Ht.
      destruct (c10_os_tie_n (c10_closing_ties sc) en w1') as [[] w2|e2 w2|w2]; simpl in Ht |- *.
      + assert (Hm : c10_ab_of (c10_main_stdout_check en sc w2) = false).
        { unfold c10_main_stdout_check. destruct (ck_stdout (en_ck en) && c10_uses_stdout sc); [|exact Ht].
          apply c10_ab_bind; [unfold c10_fflush; rewrite c10_ab_stream_op; exact Ht|]. intros ok w3 H3. destruct (negb ok || _ || _); exact H3. }
        destruct (c10_main_stdout_check en sc w2) as [[] w3|e3 w3|w3]; simpl in Hm |- *.
        * rewrite c10_ab_process_exit. exact Hm.
        * rewrite c10_ab_fail_exit. exact Hm.
        * exact Hm.
      + rewrite c10_ab_fail_exit. exact Ht.
      + exact Ht.
    - rewrite c10_ab_fail_exit. exact Hj.
    - exact Hj. }
  split; [exact H|]. unfold c10_exit_status. rewrite H. reflexivity.
Qed.

(* /repo at c4309d60 (D2 repaired, Popper destructor not): --deterministic-id, a 3-byte output, the device full from the
   first write on: the first finish() that notices is the one inside the destructor: std::terminate, status 134 - not 2. *)
Lemma popper_terminate_refuted_lemma :
  exists en sc, en_ck en = c10_repaired_d2 /\ c10_writer_scen sc = true /\
    c10_exit_status (c10_run en false false sc []) = Some 134 /\
    c10_has_err (cw_diag (rs_world (c10_run en false false sc []))) = false.
Proof.
  exists (mk_env 4096 (fun n => if Nat.eqb n 2 then FaFull else FaNone) None 2 c10_repaired_d2 1 None), (ScWrite 1 [[37; 80; 68]%N]).
  repeat split; vm_compute; reflexivity.
Qed.

(* A transient fault (one write(2) failing with EINTR/EIO/ENOSPC, the following ones succeeding) on the pinned sinks:
   a block of the output is missing, the later blocks are there, exit status 0.  (For the repaired sinks the
   exit_ok_implies_complete theorems above already cover it: en_glitch is part of en.) *)
Lemma transient_fault_refuted_lemma :
  exists en chunks, en_ck en = c10_unrepaired /\ en_glitch en = Some 0 /\
    rs_exit (c10_run en false false (ScWrite 1 chunks) []) = Some 0 /\
    c10_file_of (c10_run en false false (ScWrite 1 chunks) []) 1 = Some (repeat 9%N 70) /\
    concat chunks = repeat 7%N 100 ++ repeat 9%N 100.
Proof.
  exists (mk_env 130 c10_no_fault None 2 c10_unrepaired 0 (Some 0)), [repeat 7%N 100; repeat 9%N 100].
  repeat split; vm_compute; reflexivity.
Qed.
