(* SHA-256, SHA-384, SHA-512 as FIPS 180-4 defines them, one generic compression function over
   a parameter record (word size, rotation amounts, constants). Words are N kept below 2^w by
   masking. Tied to the code by the correspondence with Pl_SHA2 of libqpdf.a under every provider. *)
From QV Require Import Base.Bytes.
Local Open Scope N_scope.

Record sha_params := {
  sp_w : N;                  (* word size in bits *)
  sp_mask : N;               (* 2^w - 1 *)
  sp_wbytes : nat;           (* w / 8 *)
  sp_lenbytes : nat;         (* bytes of the length field: 8 or 16 *)
  sp_S0 : N * N * N;         (* big sigma 0: three rotations *)
  sp_S1 : N * N * N;
  sp_s0 : N * N * N;         (* small sigma 0: two rotations and one shift *)
  sp_s1 : N * N * N;
  sp_K : list N;
  sp_extra : nat             (* number of schedule words beyond the first 16 *)
}.

Definition sha_add (p : sha_params) (x y : N) : N := N.land (x + y) (sp_mask p).
Definition sha_rotr (p : sha_params) (x n : N) : N :=
  N.lor (N.shiftr x n) (N.land (N.shiftl x (sp_w p - n)) (sp_mask p)).
Definition sha_bigsig (p : sha_params) (r : N * N * N) (x : N) : N :=
  let '(r1, r2, r3) := r in N.lxor (sha_rotr p x r1) (N.lxor (sha_rotr p x r2) (sha_rotr p x r3)).
Definition sha_smallsig (p : sha_params) (r : N * N * N) (x : N) : N :=
  let '(r1, r2, s3) := r in N.lxor (sha_rotr p x r1) (N.lxor (sha_rotr p x r2) (N.shiftr x s3)).
Definition sha_ch (p : sha_params) (e f g : N) : N :=
  N.lxor (N.land e f) (N.land (N.lxor e (sp_mask p)) g).
Definition sha_maj (a b c : N) : N := N.lxor (N.land a b) (N.lxor (N.land a c) (N.land b c)).

(* big-endian word of the given byte list *)
Definition be_word (bs : list N) : N := fold_left (fun acc b => N.lor (N.shiftl acc 8) b) bs 0.
Fixpoint be_bytes (n : nat) (w : N) (acc : list N) : list N :=
  match n with
  | O => acc
  | S n' => be_bytes n' (N.shiftr w 8) (N.land w 255 :: acc)
  end.

Fixpoint sha_words (p : sha_params) (fuel : nat) (l : list N) : list N :=
  match fuel with
  | O => []
  | S f => match l with
           | [] => []
           | _ => be_word (firstn (sp_wbytes p) l) :: sha_words p f (skipn (sp_wbytes p) l)
           end
  end.

(* message schedule: ws holds W[t-1], W[t-2], ... (most recent first) *)
Fixpoint sha_schedule (p : sha_params) (n : nat) (ws : list N) : list N :=
  match n with
  | O => ws
  | S n' =>
      let w := sha_add p (sha_add p (sha_smallsig p (sp_s1 p) (nth 1 ws 0)) (nth 6 ws 0))
                         (sha_add p (sha_smallsig p (sp_s0 p) (nth 14 ws 0)) (nth 15 ws 0)) in
      sha_schedule p n' (w :: ws)
  end.

Definition sha_state := list N.   (* eight words a..h *)

Definition sha_round (p : sha_params) (st : sha_state) (kw : N * N) : sha_state :=
  match st with
  | [a; b; c; d; e; f; g; h] =>
      let t1 := sha_add p (sha_add p (sha_add p h (sha_bigsig p (sp_S1 p) e))
                                     (sha_add p (sha_ch p e f g) (fst kw))) (snd kw) in
      let t2 := sha_add p (sha_bigsig p (sp_S0 p) a) (sha_maj a b c) in
      [sha_add p t1 t2; a; b; c; sha_add p d t1; e; f; g]
  | _ => st
  end.

Fixpoint zip_add (p : sha_params) (a b : list N) : list N :=
  match a, b with
  | x :: a', y :: b' => sha_add p x y :: zip_add p a' b'
  | _, _ => []
  end.

Definition sha_block (p : sha_params) (st : sha_state) (blk : list N) : sha_state :=
  let w16 := sha_words p 16 blk in
  let ws := rev' (sha_schedule p (sp_extra p) (rev' w16)) in
  zip_add p st (fold_left (sha_round p) (combine (sp_K p) ws) st).

Definition sha_pad (p : sha_params) (msg : list N) : list N :=
  let len := N.of_nat (length msg) in
  let bs := N.of_nat (16 * sp_wbytes p) in
  let lb := N.of_nat (sp_lenbytes p) in
  (* zeros so that len + 1 + z + lenbytes is a multiple of the block size *)
  let z := (2 * bs - 1 - lb - len mod bs) mod bs in
  msg ++ 128 :: repeat 0 (N.to_nat z) ++ be_bytes (sp_lenbytes p) (8 * len) [].

Fixpoint sha_blocks (p : sha_params) (fuel : nat) (l : list N) (st : sha_state) : sha_state :=
  match fuel with
  | O => st
  | S f => match l with
           | [] => st
           | _ => sha_blocks p f (skipn (16 * sp_wbytes p) l) (sha_block p st (firstn (16 * sp_wbytes p) l))
           end
  end.

Definition sha_digest (p : sha_params) (h0 : sha_state) (outlen : nat) (msg : list N) : list N :=
  let pd := sha_pad p msg in
  let st := sha_blocks p (S (length pd / (16 * sp_wbytes p))) pd h0 in
  firstn outlen (flat_map (fun w => be_bytes (sp_wbytes p) w []) st).

Definition K256 : list N :=
[
  1116352408; 1899447441; 3049323471; 3921009573;
  961987163; 1508970993; 2453635748; 2870763221;
  3624381080; 310598401; 607225278; 1426881987;
  1925078388; 2162078206; 2614888103; 3248222580;
  3835390401; 4022224774; 264347078; 604807628;
  770255983; 1249150122; 1555081692; 1996064986;
  2554220882; 2821834349; 2952996808; 3210313671;
  3336571891; 3584528711; 113926993; 338241895;
  666307205; 773529912; 1294757372; 1396182291;
  1695183700; 1986661051; 2177026350; 2456956037;
  2730485921; 2820302411; 3259730800; 3345764771;
  3516065817; 3600352804; 4094571909; 275423344;
  430227734; 506948616; 659060556; 883997877;
  958139571; 1322822218; 1537002063; 1747873779;
  1955562222; 2024104815; 2227730452; 2361852424;
  2428436474; 2756734187; 3204031479; 3329325298].
Definition H256 : list N :=
[
  1779033703; 3144134277; 1013904242; 2773480762;
  1359893119; 2600822924; 528734635; 1541459225].
Definition K512 : list N :=
[
  4794697086780616226; 8158064640168781261;
  13096744586834688815; 16840607885511220156;
  4131703408338449720; 6480981068601479193;
  10538285296894168987; 12329834152419229976;
  15566598209576043074; 1334009975649890238;
  2608012711638119052; 6128411473006802146;
  8268148722764581231; 9286055187155687089;
  11230858885718282805; 13951009754708518548;
  16472876342353939154; 17275323862435702243;
  1135362057144423861; 2597628984639134821;
  3308224258029322869; 5365058923640841347;
  6679025012923562964; 8573033837759648693;
  10970295158949994411; 12119686244451234320;
  12683024718118986047; 13788192230050041572;
  14330467153632333762; 15395433587784984357;
  489312712824947311; 1452737877330783856;
  2861767655752347644; 3322285676063803686;
  5560940570517711597; 5996557281743188959;
  7280758554555802590; 8532644243296465576;
  9350256976987008742; 10552545826968843579;
  11727347734174303076; 12113106623233404929;
  14000437183269869457; 14369950271660146224;
  15101387698204529176; 15463397548674623760;
  17586052441742319658; 1182934255886127544;
  1847814050463011016; 2177327727835720531;
  2830643537854262169; 3796741975233480872;
  4115178125766777443; 5681478168544905931;
  6601373596472566643; 7507060721942968483;
  8399075790359081724; 8693463985226723168;
  9568029438360202098; 10144078919501101548;
  10430055236837252648; 11840083180663258601;
  13761210420658862357; 14299343276471374635;
  14566680578165727644; 15097957966210449927;
  16922976911328602910; 17689382322260857208;
  500013540394364858; 748580250866718886;
  1242879168328830382; 1977374033974150939;
  2944078676154940804; 3659926193048069267;
  4368137639120453308; 4836135668995329356;
  5532061633213252278; 6448918945643986474;
  6902733635092675308; 7801388544844847127].
Definition H512 : list N :=
[
  7640891576956012808; 13503953896175478587;
  4354685564936845355; 11912009170470909681;
  5840696475078001361; 11170449401992604703;
  2270897969802886507; 6620516959819538809].
Definition H384 : list N :=
[
  14680500436340154072; 7105036623409894663;
  10473403895298186519; 1526699215303891257;
  7436329637833083697; 10282925794625328401;
  15784041429090275239; 5167115440072839076].

Definition sha256_params : sha_params :=
  {| sp_w := 32; sp_mask := 4294967295; sp_wbytes := 4; sp_lenbytes := 8;
     sp_S0 := (2, 13, 22); sp_S1 := (6, 11, 25); sp_s0 := (7, 18, 3); sp_s1 := (17, 19, 10);
     sp_K := K256; sp_extra := 48 |}.
Definition sha512_params : sha_params :=
  {| sp_w := 64; sp_mask := 18446744073709551615; sp_wbytes := 8; sp_lenbytes := 16;
     sp_S0 := (28, 34, 39); sp_S1 := (14, 18, 41); sp_s0 := (1, 8, 7); sp_s1 := (19, 61, 6);
     sp_K := K512; sp_extra := 64 |}.

Definition sha256 (msg : list N) : list N := sha_digest sha256_params H256 32 msg.
Definition sha384 (msg : list N) : list N := sha_digest sha512_params H384 48 msg.
Definition sha512 (msg : list N) : list N := sha_digest sha512_params H512 64 msg.

(* FIPS 180-4 / NIST example vectors: "abc" and the empty message; a two-block message *)
Example sha256_abc : sha256 [97;98;99] = [186;120;22;191;143;1;207;234;65;65;64;222;93;174;34;35;176;3;97;163;150;23;122;156;180;16;255;97;242;0;21;173].
Proof. vm_compute. reflexivity. Qed.
Example sha256_empty : sha256 [] = [227;176;196;66;152;252;28;20;154;251;244;200;153;111;185;36;39;174;65;228;100;155;147;76;164;149;153;27;120;82;184;85].
Proof. vm_compute. reflexivity. Qed.
Example sha256_two_blocks : sha256 [97;98;99;100;98;99;100;101;99;100;101;102;100;101;102;103;101;102;103;104;102;103;104;105;103;104;105;106;104;105;106;107;105;106;107;108;106;107;108;109;107;108;109;110;108;109;110;111;109;110;111;112;110;111;112;113] = [36;141;106;97;210;6;56;184;229;192;38;147;12;62;96;57;163;60;228;89;100;255;33;103;246;236;237;212;25;219;6;193].
Proof. vm_compute. reflexivity. Qed.
Example sha384_abc : sha384 [97;98;99] = [203;0;117;63;69;163;94;139;181;160;61;105;154;198;80;7;39;44;50;171;14;222;209;99;26;139;96;90;67;255;91;237;128;134;7;43;161;231;204;35;88;186;236;161;52;200;37;167].
Proof. vm_compute. reflexivity. Qed.
Example sha512_abc : sha512 [97;98;99] = [221;175;53;161;147;97;122;186;204;65;115;73;174;32;65;49;18;230;250;78;137;169;126;162;10;158;238;230;75;85;211;154;33;146;153;42;39;79;193;168;54;186;60;35;163;254;235;189;69;77;68;35;100;60;232;14;42;154;201;79;165;76;164;159].
Proof. vm_compute. reflexivity. Qed.
Example sha512_two_blocks : sha512 [97;98;99;100;101;102;103;104;98;99;100;101;102;103;104;105;99;100;101;102;103;104;105;106;100;101;102;103;104;105;106;107;101;102;103;104;105;106;107;108;102;103;104;105;106;107;108;109;103;104;105;106;107;108;109;110;104;105;106;107;108;109;110;111;105;106;107;108;109;110;111;112;106;107;108;109;110;111;112;113;107;108;109;110;111;112;113;114;108;109;110;111;112;113;114;115;109;110;111;112;113;114;115;116;110;111;112;113;114;115;116;117] = [142;149;155;117;218;227;19;218;140;244;247;40;20;252;20;63;143;119;121;198;235;159;127;161;114;153;174;173;182;136;144;24;80;29;40;158;73;0;247;228;51;27;153;222;196;181;67;58;199;211;41;238;182;221;38;84;94;150;229;91;135;75;233;9].
Proof. vm_compute. reflexivity. Qed.
Example sha384_two_blocks : sha384 [97;98;99;100;101;102;103;104;98;99;100;101;102;103;104;105;99;100;101;102;103;104;105;106;100;101;102;103;104;105;106;107;101;102;103;104;105;106;107;108;102;103;104;105;106;107;108;109;103;104;105;106;107;108;109;110;104;105;106;107;108;109;110;111;105;106;107;108;109;110;111;112;106;107;108;109;110;111;112;113;107;108;109;110;111;112;113;114;108;109;110;111;112;113;114;115;109;110;111;112;113;114;115;116;110;111;112;113;114;115;116;117] = [9;51;12;51;247;17;71;232;61;25;47;199;130;205;27;71;83;17;27;23;59;59;5;210;47;160;128;134;227;176;247;18;252;199;199;26;85;126;45;185;102;195;233;250;145;116;96;57].
Proof. vm_compute. reflexivity. Qed.
