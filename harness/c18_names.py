"""C18 extension: the key order of NAME trees.

part_namecmp : NNTreeImpl::compareKeys (called directly, and observed through NNTreeImpl::find on one-entry trees) on ALL
               ordered pairs of generated sets of stored strings, against
                 - the extracted model nk_compare_names / nk_utf8_value (Struct/NNKeys.v)          [correspondence]
                 - an independent specification: the text of a PDF text string per ISO 32000-2 7.9.2.2 (PDFDocEncoding
                   Annex D, UTF-16BE with BOM, UTF-8 with BOM), texts ordered by their code points; only for strings that
                   are well-formed per ISO                                                           [property]
                 - the laws of a total preorder on the implementation's own answers (every string)  [property]
part_nameraw : histories on name trees whose STORED keys come in every spelling (PDFDoc, UTF-16BE/LE, UTF-8 with BOM,
               odd lengths, unpaired surrogates), real helper API vs the model run on the stored strings with the modelled
               compareKeys, vs the sorted map over texts.
The generators are aimed at the case splits of String::utf8_value / utf16_to_utf8 / pdf_doc_to_utf8 / std::string <.
"""
import os
import common

# ------------------------------------------------------------------ independent specification (ISO 32000-2 Annex D.2)
PDFDOC = {
    0x18: 0x02D8, 0x19: 0x02C7, 0x1A: 0x02C6, 0x1B: 0x02D9, 0x1C: 0x02DD, 0x1D: 0x02DB, 0x1E: 0x02DA, 0x1F: 0x02DC,
    0x80: 0x2022, 0x81: 0x2020, 0x82: 0x2021, 0x83: 0x2026, 0x84: 0x2014, 0x85: 0x2013, 0x86: 0x0192, 0x87: 0x2044,
    0x88: 0x2039, 0x89: 0x203A, 0x8A: 0x2212, 0x8B: 0x2030, 0x8C: 0x201E, 0x8D: 0x201C, 0x8E: 0x201D, 0x8F: 0x2018,
    0x90: 0x2019, 0x91: 0x201A, 0x92: 0x2122, 0x93: 0xFB01, 0x94: 0xFB02, 0x95: 0x0141, 0x96: 0x0152, 0x97: 0x0160,
    0x98: 0x0178, 0x99: 0x017D, 0x9A: 0x0131, 0x9B: 0x0142, 0x9C: 0x0153, 0x9D: 0x0161, 0x9E: 0x017E, 0xA0: 0x20AC,
}
PDFDOC_UNDEFINED = {0x7F, 0x9F, 0xAD}


def iso_text(raw):
    """code points of a PDF text string, or None when ISO 32000 gives it no meaning (then only model = code is checked)"""
    if raw[:2] == b"\xfe\xff":
        body = raw[2:]
        if len(body) % 2:
            return None
        try:
            return [ord(c) for c in body.decode("utf-16-be", "strict")]
        except UnicodeDecodeError:
            return None
    if raw[:2] == b"\xff\xfe":
        return None                      # little-endian UTF-16 is not a PDF text string
    if raw[:3] == b"\xef\xbb\xbf":
        try:
            return [ord(c) for c in raw[3:].decode("utf-8", "strict")]
        except UnicodeDecodeError:
            return None
    if any(b in PDFDOC_UNDEFINED for b in raw):
        return None
    return [PDFDOC.get(b, b) for b in raw]


def utf8_of(cps):
    return "".join(chr(c) for c in cps).encode("utf-8", "surrogatepass")


def sign(a, b):
    return "<" if a < b else (">" if a > b else "=")


def pdfdoc_encodable(text):
    rev = {v: k for k, v in PDFDOC.items()}
    out = bytearray()
    for ch in text:
        o = ord(ch)
        if o in rev:
            out.append(rev[o])
        elif o < 0x18 or 0x20 <= o < 0x7f or (0xa1 <= o <= 0xff and o != 0xad):
            out.append(o)
        else:
            return None
    return bytes(out)


# ------------------------------------------------------------------ generators
TEXTS = ["", "a", "aa", "ab", "b", "A", "a\x00", "a\x00b", "\x00", "\x01", "\t", " ", "~", "\u00a1", "\u00e9", "\u00ff", "\u0100",
         "\u02d8", "\u02dc", "\u2022", "\u20ac", "\u0141", "\ufb01", "\u07ff", "\u0800", "\ud7ff", "\ue000", "\ufffd", "\uffff",
         "\U00010000", "\U0001f600", "\U0010ffff", "a\u00e9", "a\u2022", "\u00e9a", "\u4e2d\u6587", "file.txt", "file.txt.1"]


def spellings(rng, text):
    """stored strings that ISO reads as `text`"""
    out = [b"\xfe\xff" + text.encode("utf-16-be"), b"\xef\xbb\xbf" + text.encode("utf-8")]
    p = pdfdoc_encodable(text)
    if p is not None and p[:2] not in (b"\xfe\xff", b"\xff\xfe") and p[:3] != b"\xef\xbb\xbf":
        out.append(p)
    return out


def gen_raw(rng):
    """one stored string, aimed at a case split of the conversion"""
    r = rng.random()
    if r < 0.30:
        return rng.choice(spellings(rng, rng.choice(TEXTS)))
    if r < 0.45:   # PDFDoc bytes of every class: specials 0x18-0x1f, 0x7f-0xa0, 0xad, plain, NUL
        n = rng.randint(0, 3)
        cls = [list(range(0x18, 0x20)), list(range(0x7f, 0xa2)), [0xad, 0xac, 0xae], [0, 1, 0x17, 0x20], [0x41, 0x61, 0x62, 0x7e],
               [0xa1, 0xe9, 0xfe, 0xff]]
        b = bytes(rng.choice(rng.choice(cls)) for _ in range(n))
        return b
    if r < 0.62:   # UTF-16 with either BOM: surrogates paired / unpaired / reversed, odd length, BMP edges
        units = []
        for _ in range(rng.randint(0, 3)):
            units.append(rng.choice([0x0000, 0x0041, 0x0061, 0x007f, 0x0080, 0x00e9, 0x07ff, 0x0800, 0x2022, 0xd7ff, 0xd800, 0xdbff, 0xdc00,
                                     0xdfff, 0xe000, 0xfeff, 0xfffd, 0xffff]))
        le = rng.random() < 0.3
        body = b"".join((u.to_bytes(2, "little" if le else "big")) for u in units)
        if rng.random() < 0.25:
            body += bytes([rng.choice([0x00, 0x61, 0xd8, 0xff])])
        return (b"\xff\xfe" if le else b"\xfe\xff") + body
    if r < 0.74:   # UTF-8 with BOM: valid, truncated, overlong, raw high bytes
        body = rng.choice([t.encode("utf-8") for t in TEXTS] + [b"\xc3", b"\xe2\x80", b"\xc0\x80", b"\xff", b"\xed\xa0\x80", b"\x80a"])
        return b"\xef\xbb\xbf" + body
    if r < 0.82:   # near-BOMs: prefixes of the three marks, marks in the middle
        return rng.choice([b"\xfe", b"\xff", b"\xef", b"\xef\xbb", b"\xfe\xfe", b"\xff\xff", b"a\xfe\xff", b"\xfe\xff", b"\xff\xfe",
                           b"\xef\xbb\xbf", b"\xfe\xff\xfe\xff", b"\xef\xbb\xbf\xef\xbb\xbf", b"\xfe\xff\xef\xbb\xbf"])
    # prefixes / extensions of one another in several spellings
    base = rng.choice(["a", "ab", "\u00e9", "\u2022", "a\x00"])
    ext = base + rng.choice(["", "\x00", "a", "\u00e9", "\U00010000"])
    return rng.choice(spellings(rng, ext))


def hx(b):
    return "h" + b.hex()


def check_preorder(rows):
    """reflexive, total/antisymmetric-on-answers, transitive; returns None or a description"""
    n = len(rows)
    for i in range(n):
        if rows[i][i] != "=":
            return "not reflexive at %d" % i
        for j in range(n):
            a, b = rows[i][j], rows[j][i]
            if (a, b) not in (("<", ">"), (">", "<"), ("=", "=")):
                return "cmp(%d,%d)=%s but cmp(%d,%d)=%s" % (i, j, a, j, i, b)
    le = [[rows[i][j] in "<=" for j in range(n)] for i in range(n)]
    for i in range(n):
        for j in range(n):
            if le[i][j]:
                for k in range(n):
                    if le[j][k] and not le[i][k]:
                        return "not transitive: %d <= %d <= %d" % (i, j, k)
                    if le[j][k] and rows[i][k] == "=" and not (rows[i][j] == "=" and rows[j][k] == "="):
                        return "not transitive (strictness): %d,%d,%d" % (i, j, k)
    return None


def part_namecmp(chk, drv, runner):
    rng = chk.rng
    quick = chk.tier == "quick"
    nsets = 160 if quick else 2500
    sets = []
    # fixed first set: one witness of every identification / boundary named in the design
    sets.append([b"", b"a", b"\xfe\xff\x00a", b"\xef\xbb\xbfa", b"\xff\xfea\x00", b"\xfe\xff\x00a\x00", b"\x7f", b"\x9f", b"\xad",
                 b"\xfe\xff\xff\xfd", b"\xfe\xff\xd8\x00", b"\xfe\xff", b"\xef\xbb\xbf", b"\x80", b"\xe9", b"\xfe\xff\x20\x22",
                 b"a\x00", b"\xfe\xff\x00a\x00\x00", b"\x18", b"\xa0", b"\xfe\xff\xd8\x00\xdc\x00", b"\xef\xbb\xbf\xf0\x90\x80\x80",
                 b"\xfe\xff\xdc\x01", b"\x01"])
    while len(sets) < nsets:
        n = rng.randint(8, 22)
        s = [gen_raw(rng) for _ in range(n)]
        # make sure the set holds the same text in two spellings and a proper prefix pair
        t = rng.choice(TEXTS)
        sp = spellings(rng, t)
        s += rng.sample(sp, min(2, len(sp)))
        s.append(rng.choice(spellings(rng, t + rng.choice(["\x00", "a", "\u00e9"]))))
        sets.append(s)
    lines = ["nncmp " + ",".join(hx(k) for k in s) for s in sets]
    impl = common.run_lines(drv, lines, shards=4)
    model = common.run_lines(runner, lines, shards=4)
    tie = []
    nontriv = set()
    npairs = wf_pairs = eq_distinct = bytewise_differs = 0
    classes = {}
    bytewise_example = None
    per_sig = {}

    def report(rep, signature):
        # every failing pair is counted; the first three of every kind are reported with their input
        per_sig[signature] = per_sig.get(signature, 0) + 1
        if per_sig[signature] <= 3:
            chk.violation(rep, signature=signature)
    for s, line, o, m in zip(sets, lines, impl, model):
        desc = {"driver_line": line}
        try:
            u, c, f = o.split("|")
            assert u.startswith("U:") and c.startswith("C:") and f.startswith("F:")
            us = [bytes.fromhex(x[1:]) for x in u[2:].split(",")]
            crows = c[2:].split("/")
            frows = f[2:].split("/")
            assert len(us) == len(crows) == len(frows) == len(s)
        except Exception:
            report({"kind": "property-fails-on-implementation", "part": "namecmp", "case": desc, "why": "driver failed: " + o[:300]},
                   "C18:names:driver-failed")
            continue
        if o.rsplit("|", 1)[0] != m:
            tie.append((desc, o.rsplit("|", 1)[0], m))
        texts = [iso_text(k) for k in s]
        n = len(s)
        npairs += n * n
        # (1) text of every well-formed string
        for i in range(n):
            kind = ("utf16be" if s[i][:2] == b"\xfe\xff" else "utf16le" if s[i][:2] == b"\xff\xfe" else
                    "utf8bom" if s[i][:3] == b"\xef\xbb\xbf" else "pdfdoc") + ("" if texts[i] is not None else "-illformed")
            classes[kind] = classes.get(kind, 0) + 1
            if texts[i] is not None and utf8_of(texts[i]) != us[i]:
                report({"kind": "property-fails-on-implementation", "part": "namecmp", "case": {"driver_line": "nncmp " + hx(s[i])},
                        "why": "getUTF8Value of a well-formed PDF text string is not the UTF-8 form of its text (ISO 32000-2 7.9.2.2)",
                        "implementation": us[i].hex(), "expected": utf8_of(texts[i]).hex()}, "C18:names:utf8-value")
        # (2) the implementation's answers form a total preorder, and the public route agrees with compareKeys
        bad = check_preorder(crows)
        if bad:
            report({"kind": "property-fails-on-implementation", "part": "namecmp", "case": desc,
                    "why": "compareKeys is not a total preorder on this key set: " + bad, "implementation": c[:800]},
                   "C18:names:not-a-total-preorder")
        if crows != frows:
            report({"kind": "property-fails-on-implementation", "part": "namecmp", "case": desc,
                    "why": "find() on one-entry trees does not follow compareKeys", "compareKeys": c[:600], "find": f[:600]},
                   "C18:names:find-vs-compare")
        # (3) well-formed pairs: order of the texts
        for i in range(n):
            for j in range(n):
                if crows[i][j] == "=" and s[i] != s[j]:
                    eq_distinct += 1
                if texts[i] is None or texts[j] is None:
                    continue
                wf_pairs += 1
                want = sign(texts[i], texts[j])
                if crows[i][j] != want:
                    report({"kind": "property-fails-on-implementation", "part": "namecmp",
                            "case": {"driver_line": "nncmp %s,%s" % (hx(s[i]), hx(s[j]))},
                            "why": "keys are not ordered as their texts: compareKeys says %s, the texts compare %s" % (crows[i][j], want)},
                           "C18:names:text-order")
                if want != "=" and sign(s[i], s[j]) != want:
                    bytewise_differs += 1
                    if bytewise_example is None and s[i][:1] not in (b"\xfe", b"\xef") and s[j][:1] not in (b"\xfe", b"\xef"):
                        bytewise_example = (s[i], s[j])
        nontriv.add(tuple(sorted(set(us))))
    if tie and not [v for v in chk.violations if not v[1]]:
        chk.violation({"kind": "correspondence-broken", "correspondence": "corr:C18:names-compare", "differing_cases": len(tie),
                       "first_case": tie[0][0], "implementation": tie[0][1][:1200], "model": tie[0][2][:1200],
                       "note": "nk_compare_names / nk_utf8_value (Struct/NNKeys.v) no longer describe compareKeys / getUTF8Value"}, no_input=True)
    chk.count("namecmp", len(sets), nontriv, samples=[{"driver_line": lines[0]}, {"driver_line": lines[len(lines) // 2]}])
    pc = chk.cov["parts"]["namecmp"]
    pc["ordered_pairs"] = npairs
    pc["pairs_with_iso_text"] = wf_pairs
    pc["distinct_strings_comparing_equal"] = eq_distinct
    pc["pairs_where_text_order_differs_from_bytewise_order_of_the_stored_strings"] = bytewise_differs
    pc["string_classes"] = classes
    pc["model_differs"] = len(tie)
    pc["failing_pairs_or_sets_by_kind"] = per_sig
    # the order of the texts is not the byte-wise order of the stored strings: a tree sorted byte-wise is searched wrongly
    probe_bytewise(chk, drv, bytewise_example)


def probe_bytewise(chk, drv, example):
    line = "nn nameraw 3 L[h80=1,he9=2] f:he280a2;f:hc3a9"
    o = common.run_lines(drv, [line])[0]
    res = [s.partition("@")[0] for s in o.split(";")]
    chk.cov["parts"]["namecmp"]["bytewise_sorted_tree_probe"] = {"driver_line": line, "implementation": o[:300]}
    if res == ["end", "end"]:
        chk.violation({"kind": "property-fails-on-implementation", "part": "namecmp", "case": {"driver_line": line},
                       "why": "a name tree whose stored keys are sorted byte-wise, (\\200) before (\\351), is not searched correctly: "
                              "neither key is found", "implementation": o[:300]},
                      signature="C18:names:order-is-not-bytewise")


def raw_pool(chk, runner, size):
    """stored strings aimed at the case splits, with their texts: from the ISO decoder where ISO gives one, from the
    extracted model (nku8) otherwise; only strings whose text is valid UTF-8 (calls take UTF-8 keys)"""
    rng = chk.rng
    raws = set()
    while len(raws) < size:
        r = gen_raw(rng)
        if r[:3] == b"\xef\xbb\xbf":
            try:
                r[3:].decode("utf-8", "strict")
            except UnicodeDecodeError:
                continue
        raws.add(r)
    raws = sorted(raws)
    ill = [r for r in raws if iso_text(r) is None]
    ill_u8 = common.run_lines(runner, ["nku8 " + hx(r) for r in ill], shards=2)
    u8 = {r: bytes.fromhex(x[1:]) for r, x in zip(ill, ill_u8)}
    for r in raws:
        if r not in u8:
            u8[r] = utf8_of(iso_text(r))
    by_text = {}
    for r in raws:
        try:
            t = u8[r].decode("utf-8", "strict")
        except UnicodeDecodeError:
            continue
        by_text.setdefault(t, []).append(r)
    return raws, u8, by_text, sorted(by_text), ill


# ------------------------------------------------------------------ histories on stored strings
def part_nameraw(chk, drv, runner, c18):
    """c18 = the harness module (generators, judge and process are shared with the other history parts)"""
    rng = chk.rng
    quick = chk.tier == "quick"
    ncases = 220 if quick else 4000

    class RawNameKeys(c18.NameKeys):
        kind = "nameraw"

    raws, u8, by_text, texts, ill = raw_pool(chk, runner, 500 if quick else 3000)
    cases = []
    for j in range(ncases):
        t = rng.choice([3, 3, 4, 5])
        kc = RawNameKeys(rng, rng.choice([12, 40, 150]))
        kc.fresh = (lambda kc=kc: rng.choice(texts) if rng.random() < 0.7 else c18.NameKeys.fresh(kc))
        r = rng.random()
        if r < 0.15:
            shape = None
        elif r < 0.4:
            shape = rng.randint(1, 2 * t + 3)
        else:
            shape = c18.gen_shape(rng, t, rng.randint(1, 2), t)
        n = c18.shape_count(shape) if shape is not None else 0
        keys = sorted(rng.sample(texts, min(n, len(texts))), key=lambda k: k.encode("utf-8"))
        if len(keys) < n:
            shape, n = len(keys), len(keys)
        items = [(k, 10 + i) for i, k in enumerate(keys)]
        stored = {k: rng.choice(by_text[k]) for k in keys}
        if shape is None or n == 0:
            init_d = init_s = "L[]"
            shape = 0
        else:
            init_d = c18.shape_text(shape, list(items), lambda k: hx(stored[k]))
            init_s = c18.shape_text(shape, list(items), kc.op_text)
        length = rng.choice([20, 40, 80]) if quick else rng.choice([40, 120, 250])
        prof = rng.choice([["grow"], ["mixed"], ["grow", "shrink"], ["iter"], ["grow", "mixed", "shrink"]])
        ops = c18.gen_ops(kc, items, length, prof, allow_quirks=(j % 25 == 0))
        cases.append({"kind": "nameraw", "t": t, "init_drv": init_d, "init_model": init_d, "init_spec": init_s, "ops": ops,
                      "api_built": c18.shape_size_ok(shape, t), "every": 1})
    c18.process(chk, "nameraw", cases, drv, runner)
    pc = chk.cov["parts"]["nameraw"]
    # which SPELLING of a key the tree holds after every call (a replaced value keeps the stored string, a removed and
    # re-inserted key gets the spelling newUnicodeString chooses): dumps with the stored bytes, implementation = model
    spell = ["nn namespell %d %s %s" % (c["t"], c["init_drv"], ";".join(c["ops"]) or "-") for c in cases]
    si = [c18.ERR_RE.sub("err", o) for o in common.run_lines(drv, spell, shards=4)]
    sm = common.run_lines(runner, spell, shards=4)
    sdiff = [(l, a, b) for l, a, b in zip(spell, si, sm) if a != b]
    if sdiff and not [v for v in chk.violations if not v[1]]:
        l, a, b = sdiff[0]
        ia, ib = a.split(";"), b.split(";")
        st = next((i for i, (x, y) in enumerate(zip(ia, ib)) if x != y), min(len(ia), len(ib)))
        chk.violation({"kind": "correspondence-broken", "correspondence": "corr:C18:names-spelling", "differing_cases": len(sdiff),
                       "first_case": {"driver_line": l[:3000]}, "first_differing_step": st,
                       "implementation": ia[st][:1200] if st < len(ia) else None, "model": ib[st][:1200] if st < len(ib) else None}, no_input=True)
    pc["spelling_dumps_compared"] = len(spell)
    pc["spelling_model_differs"] = len(sdiff)
    pc["stored_string_pool"] = len(raws)
    pc["stored_strings_without_iso_text"] = len(ill)
    pc["texts_with_several_spellings"] = sum(1 for t in texts if len(by_text[t]) > 1)


# ------------------------------------------------------------------ validate / repair of name trees
def part_namerepair(chk, drv, runner, c18):
    """validate(true) on name trees whose stored keys come in every spelling.  A tree whose TEXTS are strictly ascending
    is valid and left alone; any other (swapped, shuffled, the same text twice - in one or in two spellings -, sorted
    byte-wise by the stored strings where that differs from the order of the texts: finding C18-F5) is reported and
    rebuilt: the result must be valid, hold the sorted map over texts of the entries in document order (a later
    duplicate wins), and be the tree the modelled insert builds with threshold 32."""
    rng = chk.rng
    quick = chk.tier == "quick"
    raws, u8, by_text, texts, ill = raw_pool(chk, runner, 300 if quick else 2000)
    multi = [t for t in texts if len(by_text[t]) > 1]
    cases = []
    for j in range(120 if quick else 2500):
        t = rng.choice([3, 4, 5])
        shape = c18.gen_shape(rng, t, rng.randint(0, 2), t)
        n = c18.shape_count(shape)
        if n > len(texts):
            continue
        mode = rng.choice(["sorted", "swap", "dup-same-spelling", "dup-other-spelling", "shuffle", "bytewise"])
        ks = sorted(rng.sample(texts, n), key=lambda k: k.encode("utf-8"))
        stored = [rng.choice(by_text[k]) for k in ks]
        if mode == "swap" and n >= 2:
            a = rng.randrange(n - 1)
            stored[a], stored[a + 1] = stored[a + 1], stored[a]
        elif mode == "dup-same-spelling" and n >= 2:
            a = rng.randrange(n - 1)
            stored[a + 1] = stored[a]
        elif mode == "dup-other-spelling" and n >= 2 and multi:
            a = rng.randrange(n - 1)
            k = rng.choice(multi)
            sp = rng.sample(by_text[k], 2)
            stored[a], stored[a + 1] = sp[0], sp[1]
        elif mode == "shuffle":
            rng.shuffle(stored)
        elif mode == "bytewise":
            stored.sort()
        items = [(r, 10 + i) for i, r in enumerate(stored)]
        text, _ = c18.dump_text(shape, list(items), hx)
        view, _ = c18.dump_text(shape, list(items), lambda r: hx(u8[r]))
        cases.append((text, view, items, mode))
    impl = common.run_lines(drv, ["nnrepair name %s" % c[0] for c in cases], shards=4)
    exp_maps = []
    for text, view, items, mode in cases:
        m = {}
        for r, v in items:
            m[u8[r]] = v
        exp_maps.append(sorted(m.items()))
    mlines = ["nn name 32 L[] %s 1000000" % (";".join("i:%s=%d" % (hx(k), v) for k, v in em) or "-") for em in exp_maps]
    model = common.run_lines(runner, mlines, shards=4)
    wf = common.run_lines(runner, ["nnwf name 32 %s" % o for o in impl], shards=4)
    tie = []
    nontriv = set()
    kinds = {}
    for (text, view, items, mode), o, mo, w, em in zip(cases, impl, model, wf, exp_maps):
        keys = [u8[r] for r, _ in items]
        ascending = all(a < b for a, b in zip(keys, keys[1:]))
        kinds[mode + ("" if ascending else "/invalid")] = kinds.get(mode + ("" if ascending else "/invalid"), 0) + 1
        res, _, dump = o.partition("@")
        desc = {"driver_line": "nnrepair name " + text, "damage": mode}
        if ascending:
            if res != "V1" or dump != view:
                chk.violation({"kind": "property-fails-on-implementation", "part": "namerepair", "case": desc,
                               "why": "validate() of a name tree whose texts are strictly ascending must return true and leave it alone",
                               "implementation": o[:800]}, signature="C18:namerepair:valid-tree-touched")
            continue
        nontriv.add(text)
        want = "[" + ",".join("%s=%d" % (hx(k), v) for k, v in em) + "]"
        code, _, iabs = w.partition(":")
        if not res.startswith("V0") or code != "0" or iabs != want:
            chk.violation({"kind": "property-fails-on-implementation", "part": "namerepair", "case": desc,
                           "why": "after validate(repair) the name tree must be valid and hold the sorted map over texts of its entries "
                                  "(validity code %s)" % code, "implementation": o[:800], "expected_content": want[:400]},
                          signature="C18:namerepair:result")
            continue
        mdump = mo.rsplit("@", 1)[-1] if em else "_[]"
        if dump != mdump:
            tie.append((desc, dump, mdump))
    if tie and not [v for v in chk.violations if not v[1]]:
        chk.violation({"kind": "correspondence-broken", "correspondence": "corr:C18:names-repair", "differing_cases": len(tie),
                       "first_case": tie[0][0], "implementation": tie[0][1][:800], "model": tie[0][2][:800]}, no_input=True)
    chk.count("namerepair", len(cases), nontriv, samples=[{"driver_line": "nnrepair name " + cases[0][0]}])
    chk.cov["parts"]["namerepair"]["damage_kinds"] = kinds
    chk.cov["parts"]["namerepair"]["model_differs"] = len(tie)
