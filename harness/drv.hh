// Common part of the C++ correspondence drivers: same line protocol as ocaml/runner.ml.
#pragma once
#include <functional>
#include <map>
#include <sstream>
#include <string>
#include <vector>

using Handler = std::function<std::string(std::vector<std::string> const&)>;
std::map<std::string, Handler>& handlers();
struct Reg { Reg(char const* name, Handler h) { handlers()[name] = h; } };

std::string unhex(std::string const& h);
std::string hex(std::string const& s);
std::vector<long long> ints_of(std::string const& s);
