# C04, guard-logic part: hostile PDF structures built from RANDOM GRAPHS (cycles, shared subtrees, chains just
# below / at / above each limit) for page trees, number trees, outlines, AcroForm fields and /Prev chains (incl.
# hybrid /XRefStm), run through the real qpdf and the in-process driver, and compared with the extracted model
# (coq/Sys/Guards.v) on the same graph: outcome category, number of pages / entries / helpers / warnings.
# Plus the bound: CPU time and peak RSS of every qpdf run stay within a budget linear in the input size.
import itertools, os, re, resource, subprocess, time
import common, pdfgen
from pdfgen import D, Ref, Str, Name, Stream

CPU_BUDGET = (1.0, 0.00005)          # seconds: a + b * bytes   (user+sys of the child; loose)
RSS_BUDGET = (150000, 0.4)           # kB: a + b * bytes
WALL_TIMEOUT = 40                    # hard stop for one run (a broken guard must not take the machine down)
VMEM_KB = 4000000


# ------------------------------------------------------------------ graph -> text for the model

def ids(l):
    return ",".join(str(x) for x in l) if l else "-"


# ------------------------------------------------------------------ page trees

def gen_pages(rng, quick):
    cases = []

    def add(tag, nodes, root, recon=False):
        cases.append({"kind": "pages", "tag": tag, "nodes": nodes, "root": root, "recon": recon})
    for _ in range(50 if quick else 700):
        n = rng.randrange(2, 11)
        nodes = {}
        karr_pool = [n + 20, n + 21]
        for i in range(1, n + 1):
            interior = rng.random() < 0.5 or i == 1
            kids = []
            if interior:
                for _ in range(rng.choice([0, 1, 2, 2, 3, 4])):
                    r = rng.random()
                    kids.append(0 if r < 0.06 else n + 9 if r < 0.1 else rng.randrange(1, n + 1))
            karr = rng.choice(karr_pool) if interior and rng.random() < 0.12 else 0
            parent = rng.randrange(1, n + 1) if rng.random() < 0.25 else 0
            nodes[i] = (interior, karr, parent, kids)
        root = 1 if rng.random() < 0.7 else rng.randrange(1, n + 1)
        add("random", nodes, root, rng.random() < 0.3)
    # acyclic trees with shared leaves (no loop: pages are counted)
    for _ in range(12 if quick else 100):
        n = rng.randrange(3, 12)
        nodes = {}
        for i in range(1, n + 1):
            interior = i <= n // 2
            kids = [rng.randrange(i + 1, n + 1) for _ in range(rng.randrange(0, 4))] if interior else []
            nodes[i] = (interior, 0, 0, kids)
        add("dag-leaves", nodes, 1, rng.random() < 0.4)
    # chains just below / at / above the level limit (100), with and without a reconstructed xref
    for depth in (99, 100, 101, 102):
        nodes = {i: (True, 0, 0, [i + 1]) for i in range(1, depth + 1)}
        nodes[depth + 1] = (False, 0, 0, [])
        add("chain-%d" % depth, nodes, 1, depth % 2 == 0)
    # shared subtrees whose unguarded expansion is exponential: every level lists the next one twice
    for depth in (12, 30):
        nodes = {i: (True, 0, 0, [i + 1, i + 1]) for i in range(1, depth + 1)}
        nodes[depth + 1] = (False, 0, 0, [])
        add("doubled-%d" % depth, nodes, 1)
    # wide tree: the budget is linear in the input size
    w = 300 if quick else 3000
    nodes = {1: (True, 0, 0, list(range(2, w + 2)))}
    for i in range(2, w + 2):
        nodes[i] = (False, 0, 0, [])
    add("wide-%d" % w, nodes, 1)
    # /Parent climb loops
    add("climb-loop", {1: (False, 0, 2, []), 2: (False, 0, 1, [])}, 1)
    add("climb-loop-kids", {1: (True, 0, 2, [3]), 2: (True, 0, 1, [1]), 3: (False, 0, 0, [])}, 1)
    return cases


def pages_model_line(c):
    ns = ";".join("%d:%d:%d:%d:%s" % (i, nd[0], nd[1], nd[2], ids(nd[3])) for i, nd in sorted(c["nodes"].items()))
    return "c4pages %d %d %s" % (1 if c["recon"] else 0, c["root"], ns)


def base_doc():
    d = pdfgen.Doc()
    d.add(None)
    d.trailer = {b"Root": Ref(1)}
    return d


def damage_startxref(data):
    """make qpdf reconstruct the xref table (m->reconstructed_xref = true)"""
    return data.replace(b"startxref\n", b"startxref\n9", 1)


def pages_pdf(c, base=10):
    d = base_doc()
    for i, (interior, karr, parent, kids) in c["nodes"].items():
        if interior:
            kl = [Ref(base + k) if k else 7 for k in kids]
            dd = D(Type=Name("Pages"), Count=1000000)   # > any real count: flattenPagesTree then corrects it quietly
            if karr:
                d.objects[base + karr] = kl        # two nodes naming the same array object: the last list wins, as in a file
                dd[b"Kids"] = Ref(base + karr)
            else:
                dd[b"Kids"] = kl
        else:
            dd = D(Type=Name("Page"), MediaBox=[0, 0, 10, 10], Resources={})
        if parent:
            dd[b"Parent"] = Ref(base + parent)
        d.objects[base + i] = dd
    d.objects[1] = D(Type=Name("Catalog"), Pages=Ref(base + c["root"]))
    data = pdfgen.write_classic(d)[0]
    return damage_startxref(data) if c["recon"] else data


def pages_fix_shared_karr(c):
    """a /Kids array object shared by several nodes has ONE contents in a file: give every sharer the same list"""
    last = {}
    for i, (interior, karr, parent, kids) in sorted(c["nodes"].items()):
        if interior and karr:
            last[karr] = kids
    for i, (interior, karr, parent, kids) in list(c["nodes"].items()):
        if interior and karr:
            c["nodes"][i] = (interior, karr, parent, list(last[karr]))


def pages_expect(mout):
    w = mout.split()
    if w[0] == "ok":
        return "ok pages=" + w[1].split("=")[1]
    return w[0]


def pages_observe(run):
    rc, so, se = run(["--show-pages"])
    if rc in (0, 3):
        return "ok pages=%d" % len(re.findall(rb"^page \d+:", so, re.M))
    if b"Loop detected in /Pages structure" in se:
        return "loop"
    if b"too deeply nested" in se:
        return "deep"
    if b"root of pages tree has no /Kids array" in se:
        return "nokids"
    if b"unable to find any pages while recovering damaged file" in se:
        return "ok pages=0"           # the traversal returned no page; it is the recovery code that then gives up
    return "other rc=%s %s" % (rc, se[-200:].decode("latin-1"))


# ------------------------------------------------------------------ /Prev chains
# A case is a list of cross-reference sections.  Every section has `lead` white-space bytes directly in front of it (after a
# non-white-space junk byte) and, for a table, `gap` white-space bytes after the keyword.  A target (startxref, /Prev,
# /XRefStm) is None, "eof" / "hdr" / "neg" (no section there), or (section index, back): the byte `back` bytes in front of
# the section's first byte - back = 0 is the exact offset, 1..lead a white-space byte that read_xref skips, lead + 1 the junk.
# read_xref records the offset it was ASKED to read in its `visited` set, so the aliases of one section are different
# members; the model (c4_xlocate / c4_xwalk) says what that means for every such graph.

WS = b"\n \r\t\n\n \r"


def xsec(kind, prev=None, stm=None, bad=False, lead=3, gap=1):
    return {"kind": kind, "bad": bad, "stm": stm, "prev": prev, "lead": lead, "gap": gap}


def gen_xref(rng, quick):
    cases = []

    def add(tag, secs, start):
        cases.append({"kind": "xref", "tag": tag, "secs": secs, "start": start})

    def rtarget(m, secs):
        i = rng.randrange(m)
        r = rng.random()
        back = 0 if r < 0.55 else rng.randrange(0, secs[i]["lead"] + 2)
        return (i, back)
    for _ in range(45 if quick else 600):
        n = rng.randrange(1, 7)
        secs = [xsec("T" if rng.random() < 0.6 else "S", bad=rng.random() < 0.07, lead=rng.choice([0, 1, 1, 2, 3, 3, 8]), gap=rng.choice([1, 1, 2, 3]))
                for i in range(n)]
        for i in range(n):
            r = rng.random()
            secs[i]["prev"] = None if r < 0.25 else ("eof" if r < 0.3 else "hdr" if r < 0.33 else "neg" if r < 0.36 else rtarget(n, secs))
            if secs[i]["kind"] == "T" and rng.random() < 0.3:
                secs[i]["stm"] = "eof" if rng.random() < 0.1 else rtarget(n, secs)
        add("random", secs, rtarget(n, secs))
    # aimed: a loop that is closed only through the white space in front of a section already read.  Self-loops: /Prev names
    # the section's own first byte or the byte 1, 2, 3 in front of it (4 = the junk byte); entered exactly or through an alias
    for kind, gap in (("T", 1), ("T", 2), ("T", 3), ("S", 1)):
        for back in (0, 1, 2, 3, 4):
            for sback in ((0, 1) if quick else (0, 1, 2, 3)):
                add("ws-self-%s%d-prev-%d-start-%d" % (kind, gap, back, sback), [xsec(kind, prev=(0, back), gap=gap)], (0, sback))
    # two sections that name each other 0..3 bytes early, every pair of kinds
    pairs = [(k1, k2) for k1 in range(4) for k2 in range(4)]
    for ka in "TS":
        for kb in "TS":
            for k1, k2 in (rng.sample(pairs, 4) + [(1, 0), (0, 1)] if quick else pairs):
                add("ws-pair-%s%s-%d-%d" % (ka, kb, k1, k2), [xsec(ka, prev=(1, k1), gap=2), xsec(kb, prev=(0, k2), gap=2)], (0, rng.choice([0, 0, 1])))
    # a long run of white space: entered at its first byte, at its last byte and one byte in front of it (the junk byte)
    for kind in "TS":
        for back in (7, 8, 9):
            add("ws-deep-%s-%d" % (kind, back), [xsec(kind, lead=8, gap=3)], (0, back))
    # three sections in a cycle, each named through a different alias; entered through a fourth
    for kinds in ("SSS", "TST", "STT"):
        add("ws-cycle3-" + kinds, [xsec(kinds[0], prev=(1, 1), gap=2), xsec(kinds[1], prev=(2, 2), gap=2), xsec(kinds[2], prev=(0, 1), gap=2)],
            (0, rng.choice([0, 2])))
    # hybrid: the /XRefStm names white space in front of the stream; the stream's own /Prev (ignored) loops
    add("ws-hybrid-stm", [xsec("T", stm=(1, 2), prev=(1, 1)), xsec("S", prev=(0, 1))], (0, 1))
    # long chain, and a long chain closed into a loop
    k = 40 if quick else 400
    for loop in (False, True):
        secs = [xsec("T" if i % 3 else "S", prev=((i + 1, i % 2) if i + 1 < k else ((0, 1) if loop else None)), lead=1 + i % 3) for i in range(k)]
        add("chain-%d%s" % (k, "-loop" if loop else ""), secs, (0, 0))
    # hybrid loop: table -> /XRefStm stream whose /Prev points back (ignored), and a stream in the main chain that does loop
    add("hybrid-stm-prev-ignored", [xsec("T", stm=(1, 0)), xsec("S", prev=(0, 0))], (0, 0))
    add("hybrid-loop", [xsec("T", stm=(1, 0), prev=(1, 0)), xsec("S", prev=(0, 0))], (0, 0))
    return cases


PADW = 10


def xref_pdf(c):
    """returns (bytes, first byte of every section, {section: offset of its copy of object 50}, the "eof" target)"""
    secs = c["secs"]
    out = bytearray(b"%PDF-1.5\n%\xbf\xf7\xa2\xfe\n")
    objs = {}

    def put(num, body):
        objs[num] = len(out)
        out.extend(b"%d 0 obj\n" % num + body + b"\nendobj\n")
    put(1, b"<< /Type /Catalog /Pages 2 0 R >>")
    put(2, b"<< /Type /Pages /Count 1 /Kids [3 0 R] >>")
    put(3, b"<< /Type /Page /Parent 2 0 R /MediaBox [0 0 10 10] /Resources << >> >>")
    copy50 = {}
    MB = 60                      # marker object of section i = MB + i, its xref stream object = MB + len(secs) + i
    SB = MB + len(secs)
    for i in range(len(secs)):
        put(MB + i, b"%d" % (1000 + i))
        copy50[i] = len(out)
        out.extend(b"50 0 obj\n%d\nendobj\n" % (2000 + i))
    size = SB + len(secs) + 5
    # layout pass: every section has a fixed length (numbers are zero padded), so offsets are known before the targets
    sec_off = {}

    def target(v, filesize):
        if v is None:
            return None
        if v == "eof":
            return filesize + 1000
        if v == "hdr":
            return 5
        if v == "neg":
            return -7
        return sec_off[v[0]] - v[1]

    def render(i, filesize):
        s = secs[i]
        prev = target(s["prev"], filesize)
        stm = target(s["stm"], filesize)
        entries = [(0, None), (1, objs[1]), (2, objs[2]), (3, objs[3]), (50, copy50[i]), (MB + i, objs[MB + i])]
        head = b"%J" + (WS * (1 + s["lead"] // len(WS)))[:s["lead"]]
        if s["kind"] == "T":
            b = bytearray(head + b"xref" + (b"\n \n" * s["gap"])[:s["gap"] - 1] + b"\n")
            for num, off in entries:
                b += b"%d 1\n" % num
                if off is None:
                    b += b"0000000000 65535 f \n"
                elif s["bad"] and num == 50:
                    b += b"xxxxxxxxxx 00000 n \n"
                else:
                    b += b"%010d 00000 n \n" % off
            b += b"trailer\n<< /Size %d /Root 1 0 R" % size
            if stm is not None:
                b += b" /XRefStm %0*d" % (PADW, stm) if stm >= 0 else b" /XRefStm %*d" % (PADW, stm)
            if prev is not None:
                b += b" /Prev %0*d" % (PADW, prev) if prev >= 0 else b" /Prev %*d" % (PADW, prev)
            b += b" >>\n"
            return bytes(b), len(head)
        data = b"".join((b"\0" + b"\0" * 4 + b"\xff\xff") if off is None else (b"\1" + off.to_bytes(4, "big") + b"\0\0") for num, off in entries)
        idx = " ".join("%d 1" % num for num, off in entries)
        dic = b"<< /Type /XRef /Size %d /Root 1 0 R /W [%s] /Index [%s] /Length %d" % (
            size, b"0 0 0" if s["bad"] else b"1 4 2", idx.encode(), len(data))
        if prev is not None:
            dic += b" /Prev %0*d" % (PADW, prev) if prev >= 0 else b" /Prev %*d" % (PADW, prev)
        dic += b" >>"
        b = head + b"%d 0 obj\n" % (SB + i) + dic + b"\nstream\n" + data + b"\nendstream\nendobj\n"
        return b, len(head)
    # first pass with dummy targets to learn the lengths
    for i in range(len(secs)):
        sec_off[i] = 0
    pos = len(out)
    offs = {}
    for i in range(len(secs)):
        b, lead = render(i, 0)
        offs[i] = pos + lead
        pos += len(b)
    sec_off = offs
    filesize = pos + 40
    for i in range(len(secs)):
        b, lead = render(i, filesize)
        assert len(out) + lead == sec_off[i], (len(out), lead, sec_off[i])
        out.extend(b)
    start = target(c["start"], filesize)
    out.extend(b"startxref\n%d\n%%%%EOF\n" % start)
    return bytes(out), sec_off, copy50, filesize + 1000


def xref_target(v, sec_off, eof_target):
    if v is None:
        return 0
    if v == "eof":
        return eof_target
    if v == "hdr":
        return 5
    if v == "neg":
        return -7
    return sec_off[v[0]] - v[1]


def xref_model_line(c, sec_off, eof_target):
    parts = []
    for i, s in enumerate(c["secs"]):
        parts.append("%d:%s:%d:%d:%d:%d:%d" % (sec_off[i], s["kind"], 1 if s["bad"] else 0, xref_target(s["stm"], sec_off, eof_target),
                                               xref_target(s["prev"], sec_off, eof_target), s["lead"], s["gap"]))
    return "c4xref %d %s" % (xref_target(c["start"], sec_off, eof_target), ";".join(parts))


def xref_candidates(c, sec_off, eof_target):
    """offsets that a startxref / /Prev of this file can name: the driver's record of read_xref's reads is cut down to these"""
    cand = {5, -7, eof_target}
    for i, s in enumerate(c["secs"]):
        cand.update(range(sec_off[i] - s["lead"] - 1, sec_off[i] + 1))
    return cand


def xref_expect(c, mout, sec_off, copy50):
    """(what --show-xref shows, what the driver's walk shows)"""
    w = mout.split()
    kv = dict(x.split("=") for x in w[2:])
    walk = "%s v=%s ws=%s" % (w[0], kv["v"], kv["ws"])
    if w[0] != "ok":
        return "%s ws=%s" % (w[0], kv["ws"]), walk
    reads = [int(x) for x in w[1].split(",")] if w[1] != "-" else []
    by_off = {sec_off[i]: i for i in range(len(c["secs"]))}
    order = [by_off[o] for o in reads]
    first = order[0]
    return "ok 50@%d markers=%s ws=%s" % (copy50[first], ids(sorted(set(60 + i for i in order))), kv["ws"]), walk


def xref_observe(run, nsecs):
    rc, so, se = run(["--show-xref", "--suppress-recovery"])
    ws = " ws=%d" % se.count(b"extraneous whitespace seen before xref")
    if rc in (0, 3):
        m = re.search(rb"^50/0: uncompressed; offset = (\d+)", so, re.M)
        allobj = sorted(set(int(x) for x in re.findall(rb"^(\d+)/0: uncompressed", so, re.M)))
        marks = [x for x in allobj if 60 <= x < 60 + nsecs]
        obs = "ok 50@%s markers=%s" % (m.group(1).decode() if m else "?", ids(marks)) + ws
    elif b"loop detected following xref tables" in se:
        obs = "loop" + ws
    elif b"xref not found" in se or b"error reading xref" in se or b"can't find startxref" in se:
        obs = "notfound" + ws
    else:
        obs = "damaged" + ws
    # the same file with recovery: only the documented outcome and the budgets are looked at (run() records the statistics)
    if rc not in (-999, -998):
        run(["--check"])
    return obs


def xref_walk_observed(dout, cand):
    """driver line `<outcome> v=<offsets> ws=<n> warns=<n>` cut down to the candidate offsets"""
    w = dout.split()
    if len(w) < 3 or not w[1].startswith("v="):
        return dout[:200]
    v = [int(x) for x in w[1][2:].split(",")] if w[1] != "v=-" else []
    v = [x for x in v if x in cand]
    return "%s v=%s %s" % (w[0], ids(v), w[2])


# ------------------------------------------------------------------ outlines

def gen_outlines(rng, quick):
    cases = []

    def add(tag, nodes, first):
        cases.append({"kind": "outl", "tag": tag, "nodes": nodes, "first": first})
    for _ in range(50 if quick else 700):
        n = rng.randrange(1, 10)

        def pick():
            r = rng.random()
            return 0 if r < 0.4 else n + 7 if r < 0.45 else rng.randrange(1, n + 1)
        nodes = {i: (pick(), pick()) for i in range(1, n + 1)}
        add("random", nodes, rng.choice([0, 1, 1, 1, rng.randrange(1, n + 1)]))
    for depth in (49, 50, 51, 52, 60):
        nodes = {i: (i + 1 if i < depth else 0, 0) for i in range(1, depth + 1)}
        add("nest-%d" % depth, nodes, 1)
    # shared subtrees: every level has two siblings that both point to the next level
    for depth in (10, 24):
        nodes = {}
        for l in range(depth):
            a, b = 2 * l + 1, 2 * l + 2
            nxt = 2 * l + 3 if l + 1 < depth else 0
            nodes[a] = (nxt, b)
            nodes[b] = (nxt, 0)
        add("doubled-%d" % depth, nodes, 1)
    # k parents that all list the same m children: helpers for seen nodes are created again per parent (quadratic)
    k, m = (12, 12) if quick else (60, 60)
    nodes = {}
    for i in range(1, k + 1):
        nodes[i] = (k + 1, i + 1 if i < k else 0)
    for j in range(k + 1, k + m + 1):
        nodes[j] = (0, j + 1 if j < k + m else 0)
    add("shared-children-%dx%d" % (k, m), nodes, 1)
    w = 300 if quick else 3000
    add("wide-%d" % w, {i: (0, i + 1 if i < w else 0) for i in range(1, w + 1)}, 1)
    add("next-loop", {1: (0, 2), 2: (0, 3), 3: (0, 2)}, 1)
    return cases


def outl_model_line(c):
    return "c4outl %d %s" % (c["first"], ";".join("%d:%d:%d" % (i, f, nx) for i, (f, nx) in sorted(c["nodes"].items())))


def outl_pdf(c, base=10):
    d = pdfgen.page_doc(1)
    top = max(d.objects) + 1
    base = top + 1
    od = D(Type=Name("Outlines"))
    if c["first"]:
        od[b"First"] = Ref(base + c["first"])
    d.objects[top] = od
    for i, (f, nx) in c["nodes"].items():
        dd = D(Title=Str(b"o%d" % i))
        if f:
            dd[b"First"] = Ref(base + f)
        if nx:
            dd[b"Next"] = Ref(base + nx)
        d.objects[base + i] = dd
    d.objects[1][b"Outlines"] = Ref(top)
    return pdfgen.write_classic(d)[0]


def outl_expect(mout):
    kv = dict(x.split("=") for x in mout.split())
    return "made=%s warn=%s" % (kv["made"], kv["warn"])


def outl_observe(run):
    rc, so, se = run(["--json", "--json-key=outlines"])
    if rc not in (0, 3):
        return "other rc=%s %s" % (rc, se[-200:].decode("latin-1"))
    return "made=%d warn=%d" % (so.count(b'"destpageposfrom1"'), se.count(b"Loop detected loop in /Outlines tree"))


# ------------------------------------------------------------------ AcroForm

def gen_acro(rng, quick):
    cases = []

    def add(tag, nodes, fields):
        cases.append({"kind": "acro", "tag": tag, "nodes": nodes, "fields": fields})
    for _ in range(60 if quick else 800):
        n = rng.randrange(1, 10)
        nodes = {}
        for i in range(1, n + 1):
            haskids = rng.random() < 0.5
            kids = None
            if haskids:
                kids = []
                for _ in range(rng.choice([0, 1, 2, 2, 3])):
                    r = rng.random()
                    kids.append(n + 7 if r < 0.05 else rng.randrange(1, n + 1))
            r = rng.random()
            parent = 0 if r < 0.4 else rng.randrange(1, n + 1)
            nodes[i] = (rng.random() < 0.6, rng.random() < 0.2, rng.random() < 0.5, parent, kids)
        # make most kids name their parent (otherwise nearly everything ends in the /Parent repair paths)
        for i, nd in nodes.items():
            if nd[4]:
                for k in nd[4]:
                    if k in nodes and rng.random() < 0.7:
                        t = nodes[k]
                        nodes[k] = (t[0], t[1], t[2], i, t[4])
        fields = [rng.choice([0, n + 7] + list(range(1, n + 1)) * 4) for _ in range(rng.choice([1, 1, 2, 3]))]
        add("random", nodes, fields)
    for depth in (99, 100, 101, 102, 103):
        nodes = {i: (True, False, False, i - 1, [i + 1]) for i in range(1, depth + 1)}
        nodes[depth + 1] = (True, True, True, depth, None)
        add("nest-%d" % depth, nodes, [1])
    for depth in (12, 28):
        nodes = {i: (True, False, False, i - 1, [i + 1, i + 1]) for i in range(1, depth + 1)}
        nodes[depth + 1] = (True, True, True, depth, None)
        add("doubled-%d" % depth, nodes, [1])
    # /Parent loop outside the /Kids structure: FT inheritance and the qualified name must not spin
    nodes = {1: (True, False, True, 2, None), 2: (True, False, False, 3, None), 3: (False, False, False, 2, None)}
    add("parent-loop", nodes, [1])
    nodes = {i: (False, i == 30, False, i + 1 if i < 30 else 0, None) for i in range(1, 31)}
    nodes[1] = (False, False, True, 2, None)
    add("ft-inherited-29-up", nodes, [1])
    w = 200 if quick else 2000
    nodes = {1: (True, False, False, 0, list(range(2, w + 2)))}
    for i in range(2, w + 2):
        nodes[i] = (True, True, True, 1, None)
    add("wide-%d" % w, nodes, [1])
    return cases


def acro_model_line(c):
    ns = ";".join("%d:%d:%d:%d:%d:%s" % (i, nd[0], nd[1], nd[2], nd[3], "~" if nd[4] is None else ids(nd[4]))
                  for i, nd in sorted(c["nodes"].items()))
    return "c4acro %s %s" % (ids(c["fields"]), ns)


def acro_widgets(c):
    return sorted(i for i, nd in c["nodes"].items() if nd[2] and nd[4] is None)


def acro_pdf(c):
    d = pdfgen.page_doc(1)
    af = max(d.objects) + 1
    base = af + 1
    page = 5
    assert d.objects[page][b"Type"] == Name("Page")
    for i, (T, FT, wid, parent, kids) in c["nodes"].items():
        dd = {}
        if T:
            dd[b"T"] = Str(b"f%d" % i)
        if FT:
            dd[b"FT"] = Name("Tx")
        if wid:
            dd[b"Subtype"] = Name("Widget")
            dd[b"Rect"] = [0, 0, 1, 1]
        if parent:
            dd[b"Parent"] = Ref(base + parent)
        if kids is not None:
            dd[b"Kids"] = [Ref(base + k) for k in kids]
        d.objects[base + i] = dd
    d.objects[af] = D(Fields=[Ref(base + k) if k else {} for k in c["fields"]])
    d.objects[1][b"AcroForm"] = Ref(af)
    d.objects[page][b"Annots"] = [Ref(base + w) for w in acro_widgets(c)]
    return pdfgen.write_classic(d)[0]


def acro_expect(c, mout):
    kv = dict(x.split("=") for x in mout.split())
    ann = set(int(x) for x in kv["ann"].split(",")) if kv["ann"] != "-" else set()
    unreach = len([w for w in acro_widgets(c) if w not in ann])
    return "loop=%s two=%s parent=%s kind=%s unreachable=%d" % (kv["loop"], kv["two"], kv["parent"], kv["kind"], unreach)


def acro_observe(run):
    rc, so, se = run(["--json", "--json-key=acroform"])
    if rc not in (0, 3):
        return "other rc=%s %s" % (rc, se[-200:].decode("latin-1"))
    kind = (se.count(b"encountered a direct object as a field or annotation") + se.count(b"encountered a non-dictionary as a field or annotation")
            + se.count(b"neither field nor annotation"))
    return "loop=%d two=%d parent=%d kind=%d unreachable=%d" % (
        se.count(b"loop detected while traversing /AcroForm"), se.count(b"found field with two parents"),
        se.count(b"encountered invalid /Parent entry"), kind, se.count(b"not reachable from /AcroForm"))


# ------------------------------------------------------------------ number trees (driver) and name trees (CLI budget)

def gen_nn(rng, quick):
    cases = []

    def add(tag, nodes, root, probe=7):
        cases.append({"kind": "nn", "tag": tag, "nodes": nodes, "root": root, "probe": probe})
    for _ in range(80 if quick else 1200):
        n = rng.randrange(1, 9)
        nodes = {}
        for i in range(1, n + 1):
            leaf = rng.random() < 0.45
            items = rng.choice([2, 2, 4, 6, 0, 1]) if leaf else rng.choice([0, 0, 0, 1])
            hasitems = items > 0 or rng.random() < 0.3
            kids = []
            if not leaf or rng.random() < 0.15:
                for _ in range(rng.choice([1, 2, 2, 3])):
                    r = rng.random()
                    kids.append(n + 5 if r < 0.04 else rng.randrange(1, n + 1))
            lo = rng.choice([0, 0, 3, 500])
            nodes[i] = (items, hasitems, kids, lo, rng.choice([lo, lo + 100, 10 ** 7, 10 ** 7]))
        # most probes are above every key, so that findInternal's pre-check (probe >= first key) lets the descent start
        add("random", nodes, 1, rng.choice([0, 7, 250, 550, 10 ** 6, 10 ** 6, 10 ** 6]))
    # a chain whose every level lists the next level twice: 2^depth leaf visits from depth+1 objects
    for depth in (4, 8, 11):
        nodes = {i: (0, False, [i + 1, i + 1], 0, 1000) for i in range(1, depth + 1)}
        nodes[depth + 1] = (2, True, [], 7, 7)
        add("doubled-%d" % depth, nodes, 1)
    # find: the first-kid path ends in a leaf, the path chosen for the probe key loops
    add("find-loop", {1: (0, False, [2, 3], 0, 1000), 2: (2, True, [], 0, 0), 3: (0, False, [3], 5, 10 ** 7)}, 1, 10 ** 6)
    add("find-loop-2", {1: (0, False, [2, 3], 0, 1000), 2: (2, True, [], 0, 0), 3: (0, False, [4], 5, 10 ** 7), 4: (0, False, [3], 5, 10 ** 7)}, 1, 10 ** 6)
    add("find-badnode", {1: (0, False, [2, 3], 0, 1000), 2: (2, True, [], 0, 0), 3: (0, False, [], 5, 10 ** 7)}, 1, 10 ** 6)
    add("find-minus1", {1: (0, False, [2, 3], 0, 1000), 2: (2, True, [], 0, 0), 3: (0, False, [2], 5, 10 ** 7)}, 1, 10 ** 6)
    add("self-loop", {1: (0, False, [1], 0, 1000)}, 1)
    # opening a tree (validate, repair): a shared leaf, leaves out of order, and the re-entry budget of the repaired
    # repair() at its boundary (1000 re-entries are tolerated, the 1001st gives up)
    add("shared-leaf", {1: (0, False, [2, 2, 3], 0, 1000), 2: (4, True, [], 0, 0), 3: (2, True, [], 0, 0)}, 1)
    add("unsorted-leaves", {1: (0, False, [3, 2], 0, 1000), 2: (4, True, [], 0, 0), 3: (2, True, [], 0, 0)}, 1)
    for refs in (1001, 1002):
        add("reentry-%d" % (refs - 1), {1: (0, False, [2] * refs + [3], 0, 1000), 2: (2, True, [], 0, 0), 3: (2, True, [], 0, 0)}, 1)
    k = 60 if quick else 600
    nodes = {i: (0, False, [i + 1], 0, 100000) for i in range(1, k + 1)}
    nodes[k + 1] = (2, True, [], 7, 7)
    add("deep-%d" % k, nodes, 1)
    return cases


def nn_key(leaf, j):
    return leaf * 100 + j


def nn_limits_ok(c):
    return all(k in c["nodes"] for nd in c["nodes"].values() for k in nd[2])


def nn_pick(c, node):
    """what NNTreeImpl::binarySearch(key, kids, nkids, true, true) returns for the probe key: computed here from
    the /Limits the generator wrote (this is model INPUT: the guard of the descent is the subject, not the search)"""
    kids = c["nodes"][node][2]
    n = len(kids)
    if n == 0:
        return -1
    max_idx = 1
    while max_idx < n:
        max_idx *= 2
    step = max_idx // 2
    checks = max_idx.bit_length()
    idx = step
    found = -1
    for _ in range(checks):
        status = -1
        if idx < n:
            lo, hi = c["nodes"][kids[idx]][3], c["nodes"][kids[idx]][4]
            status = -1 if c["probe"] < lo else 1 if c["probe"] > hi else 0
            if status == 0:
                return idx
            if status > 0:
                found = idx
        step = max(step // 2, 1)
        idx += status * step
    return found


def nn_model_lines(c, cap):
    full = nn_limits_ok(c)
    parts = []
    for i, (items, hasitems, kids, lo, hi) in sorted(c["nodes"].items()):
        klo = nn_key(i, 0)
        khi = nn_key(i, max(items // 2 - 1, 0))
        parts.append("%d:%d:%d:%d:%d:%d:%s" % (i, items, 1 if hasitems else 0, nn_pick(c, i) if full else -1, klo, khi, ids(kids)))
    g = ";".join(parts)
    return ["c4nniter %d %d %s" % (cap, c["root"], g), "c4nnfind %d %s" % (c["root"], g), "c4nnopen %d %d %s" % (cap, c["root"], g)]


def nn_open_expect(iter_out, open_out):
    """what opening the tree as the library does (validate(true)) and then iterating it shows"""
    if "FUEL" in open_out or "?" in open_out[:1]:
        return None
    kv = dict(x.split("=") for x in open_out.split())
    ki = dict(x.split("=") for x in iter_out.split())
    if kv["valid"] == "1":
        if ki["done"] != "1":
            return None
        return "valid=1 repaired=0 gaveup=0 warns=%s entries=%s" % (kv["vwarns"], ki["entries"])
    return "valid=0 repaired=1 gaveup=%s warns=%d entries=%s" % (kv["gaveup"], int(kv["vwarns"]) + 1 + int(kv["rwarns"]), kv["distinct"])


def nn_pdf(c, names=False):
    d = pdfgen.page_doc(1)
    base = max(d.objects) + 1
    ik = b"Names" if names else b"Nums"
    for i, (items, hasitems, kids, lo, hi) in c["nodes"].items():
        dd = {}
        if hasitems:
            arr = []
            for j in range(items // 2):
                arr += [Str(b"k%08d" % nn_key(i, j)) if names else nn_key(i, j), D(F=Str(b"x")) if names else nn_key(i, j)]
            if items % 2:
                arr.append(Str(b"z") if names else 1)
            dd[ik] = arr
        if kids:
            dd[b"Kids"] = [Ref(base + k) for k in kids]
        # the root gets /Limits too: it can be a kid of another node in a hostile graph, and the search reads kids' /Limits
        dd[b"Limits"] = [Str(b"k%08d" % lo), Str(b"k%08d" % hi)] if names else [lo, hi]
        d.objects[base + i] = dd
    if names:
        d.objects[1][b"Names"] = D(EmbeddedFiles=Ref(base + c["root"]))
    else:
        d.objects[1][b"PageLabels"] = Ref(base + c["root"])
    return pdfgen.write_classic(d)[0], base + c["root"]


def nn_expect(c, iter_out, find_out):
    kv = dict(x.split("=") for x in iter_out.split())
    it = "entries=%s warns=%s" % (kv["entries"], kv["warns"]) if kv["done"] == "1" else "capped"
    w = find_out.split()
    if not nn_limits_ok(c):
        f = "skip"
    elif not w[0].startswith("leaf:"):
        f = "ok"                       # begin() is not valid: findInternal returns end()
    elif c["probe"] < nn_key(int(w[0][5:]), 0):
        f = "ok"                       # findInternal compares the probe with the first key before it descends: end()
    else:
        f = {"loop": "loop", "badnode": "badnode", "minus1": "minus1"}.get(w[1], "ok")
    return it, f, w


# ------------------------------------------------------------------ parser limits and conversions (driver)

def gen_parse(rng, quick):
    lines, models, tags = [], [], []

    def hx(b):
        return b.hex() if b else "-"
    # nesting: random bracket strings (arrays) under a small limit, and chains around the default limit (499)
    for _ in range(150 if quick else 3000):
        mx = rng.choice([0, 1, 2, 3, 5, 8])
        toks, depth = [], 1
        for _ in range(rng.randrange(0, 30)):
            r = rng.random()
            if r < 0.45:
                toks.append("o"); depth += 1
            elif r < 0.8 and depth > 1:
                toks.append("c"); depth -= 1
            else:
                toks.append("x")
        toks += ["c"] * depth             # always closed: what the parser does at end of input is not the nesting guard
        text = b"[" + b" ".join({"o": b"[", "c": b"]", "x": b"true"}[t] for t in toks)
        lines.append("c4parse %d - - %s" % (mx, hx(text)))
        models.append("c4nest %d %s" % (mx, "".join(toks) or "-"))
        tags.append("nest")
    for depth in (498, 499, 500, 501, 502, 700):
        for op, cl in ((b"[", b"]"), (b"<< /K ", b" >>")):
            text = op * depth + b"true" + cl * depth
            lines.append("c4parse - - - %s" % hx(text))
            models.append("c4nest 499 %s" % ("o" * (depth - 1) + "x" + "c" * depth))
            tags.append("nest-default")
    # bad-token budget: arrays of good scalars (true) and bad tokens (}), dictionaries of pairs and misplaced bad tokens
    for _ in range(250 if quick else 5000):
        mx = rng.choice([0, 1, 2, 3, 5, 15, 15, 15, 40])
        limd = rng.choice([5000, 5000, 6, 12])
        evs, toks = [], []
        olist = dic = 0
        if rng.random() < 0.6:
            pbad = rng.choice([0.1, 0.3, 0.6, 1.0])
            for _ in range(rng.randrange(1, 40)):
                if rng.random() < pbad:
                    evs.append("1:0:%d:%d:1" % (olist, dic)); toks.append(b"}")
                else:
                    evs.append("0:1:%d:%d:1" % (olist, dic)); toks.append(b"true")
                olist += 1
            text = b"[ " + b" ".join(toks) + b" ]"
            evs.append("0:0:%d:%d:1" % (olist, dic))         # the closing bracket is a token too
        else:
            key = 0
            for _ in range(rng.randrange(1, 30)):
                r = rng.random()
                if r < 0.35:
                    evs.append("1:0:%d:%d:0" % (olist, dic)); toks.append(b"}"); olist += 1
                elif r < 0.8:
                    key += 1
                    evs.append("0:0:%d:%d:0" % (olist, dic)); evs.append("0:1:%d:%d:0" % (olist, dic)); toks.append(b"/K%d true" % key); dic += 1
                else:
                    key += 1
                    evs.append("0:0:%d:%d:0" % (olist, dic)); evs.append("1:0:%d:%d:0" % (olist, dic)); toks.append(b"/K%d }" % key); dic += 1
            text = b"<< " + b" ".join(toks) + b" >>"
            evs.append("0:0:%d:%d:0" % (olist, dic))
        lines.append("c4parse - %d %d %s" % (mx, limd, hx(text)))
        models.append("c4bad %d 4294967295 0 %d %s" % (limd, mx, ";".join(evs)))
        tags.append("bad")
    return lines, models, tags


def parse_expect(tag, mout, text_kind):
    w = mout.split()
    if tag.startswith("nest"):
        return {"done": text_kind + " -", "limit": "null nesting", "eof": "null -"}[w[0]]
    return {"goon": text_kind + " -", "budget": "null budget", "giveup": "null giveup", "container": "null container"}[w[0]]


TYPES = {"c": (1, 8), "uc": (0, 8), "s": (1, 16), "us": (0, 16), "i": (1, 32), "u": (0, 32), "l": (1, 64), "ul": (0, 64),
         "ll": (1, 64), "ull": (0, 64), "sz": (0, 64), "off": (1, 64)}


def zbits(v):
    return "0" if v == 0 else ("-b" if v < 0 else "b") + bin(abs(v))[2:]


def unzbits(s):
    if s == "0":
        return 0
    return -int(s[2:], 2) if s[0] == "-" else int(s[1:], 2)


def gen_conv(rng, quick):
    lines, models = [], []
    names = sorted(TYPES)
    pairs = [(f, t) for f in names for t in names]
    for f, t in pairs:
        fs, fb = TYPES[f]
        ts, tb = TYPES[t]
        fmin, fmax = (-(1 << (fb - 1)), (1 << (fb - 1)) - 1) if fs else (0, (1 << fb) - 1)
        tmin, tmax = (-(1 << (tb - 1)), (1 << (tb - 1)) - 1) if ts else (0, (1 << tb) - 1)
        vals = {fmin, fmax, 0, 1, -1, tmin, tmax, tmin - 1, tmax + 1, tmin + 1, tmax - 1, (1 << tb) - 1, 1 << tb, -(1 << tb)}
        for _ in range(2 if quick else 12):
            vals.add(rng.randrange(fmin, fmax + 1))
            vals.add(rng.choice([tmin, tmax]) + rng.randrange(-3, 4))
        for v in sorted(x for x in vals if fmin <= x <= fmax):
            lines.append("c4conv %s %s %d" % (f, t, v))
            models.append("c4conv %d %d %d %d %s" % (fs, fb, ts, tb, zbits(v)))
            lines.append("c4fits %s %s %d" % (f, t, v))
            models.append("c4fits %d %d %d %d %s" % (fs, fb, ts, tb, zbits(v)))
    return lines, models


def gen_png(rng, quick):
    """Pl_PNGFilter's constructor: parameter sets on both sides of every check it makes (none of the accepted ones allocates
    more than a few MB; the sets with bpr = 2^32 - 1, the former witnesses of D-C04-png-row-wrap, must be refused)"""
    cases = []
    for dec in "de":
        for limit, cols, spp, bps in [(0, 1431655765, 3, 8), (0, 1431655766, 3, 8), (0, 4294967295, 1, 8), (0, 4294967295, 1, 16), (0, 4294967295, 2, 4),
                                      (0, 0, 268435455, 16), (0, 1, 268435456, 16), (0, 1, 4294967295, 16), (0, 0, 1, 8), (0, 1, 0, 8),
                                      (0, 1, 1, 0), (0, 1, 1, 3), (0, 1, 1, 32), (0, 7, 1, 1), (0, 8, 1, 1), (0, 9, 1, 1), (0, 65536, 4, 16),
                                      (1000, 500, 1, 8), (1000, 501, 1, 8), (1000, 4000, 1, 1), (1000, 4001, 1, 1), (1, 1, 1, 8), (2, 1, 1, 8), (3, 1, 1, 8),
                                      (1000000, 500000, 1, 8), (1000000, 500001, 1, 8), (1000000, 1431655765, 3, 8), (4294967295, 1431655765, 3, 8)]:
            cases.append((dec, limit, cols, spp, bps))
        for _ in range(20 if quick else 400):
            limit = rng.choice([0, 0, 10, 1000, 65536])
            bps = rng.choice([1, 2, 4, 8, 16, 16, 7, 0])
            spp = rng.choice([0, 1, 1, 3, 4, 255])
            want = rng.choice([0, 1, 2, limit // 2, limit // 2 + 1, 40000, 1 << 32, (1 << 32) - 1, (1 << 32) + 5])
            cols = min((want * 8) // max(bps * spp, 1) + rng.choice([0, 0, 1]), (1 << 32) - 1)
            bpr = (cols * bps * spp + 7) // 8
            if 3000000 < bpr < (1 << 32) - 1 and not (limit and bpr > limit // 2):
                continue                                       # would really allocate that much
            cases.append((dec, limit, cols, spp, bps))
    lines = ["c4png %s %d %d %d %d" % c for c in cases]
    models = ["c4png %d %s %s %s %s" % (1 if c[0] == "d" else 0, zbits(c[1]), zbits(c[2]), zbits(c[3]), zbits(c[4])) for c in cases]
    return cases, lines, models


def conv_canon_model(out):
    w = out.split()
    return " ".join(str(unzbits(x)) if (x[0] in "b-" or x == "0") and i > 0 and w[i - 1] == "ok" else x for i, x in enumerate(w))


# ------------------------------------------------------------------ running qpdf with caps

OUT_LIMIT_KB = 20000                 # stdout + stderr + output files of one run (ulimit -f): an endless stream of warnings is cut here
_seq = itertools.count()


def cpu_cap(size):
    """hard CPU limit of one run (ulimit -t): a few times the budget, so that a hang costs seconds, not WALL_TIMEOUT"""
    return int(3 * (CPU_BUDGET[0] + CPU_BUDGET[1] * size)) + 1


def run_qpdf_capped(exe, args, path, asan=False):
    """returns (rc, stdout, stderr, cpu seconds, max RSS kB, wall).  rc -999: killed at the wall-clock or CPU limit (hang),
    rc -998: killed at the output limit (still writing messages after OUT_LIMIT_KB)."""
    size = os.path.getsize(path) if os.path.exists(path) else 0
    base = "%s.run%d" % (path, next(_seq))
    fo, fe, ft = base + ".out", base + ".err", base + ".time"
    cmd = "ulimit -s 65536; ulimit -f %d; %s%sexec /usr/bin/time -o %s -f 'C4TIME %%U %%S %%M' timeout -s KILL %d %s %s %s > %s 2> %s" % (
        OUT_LIMIT_KB, "" if asan else "ulimit -v %d; " % VMEM_KB, "ulimit -t %d; " % (cpu_cap(size) * (5 if asan else 1)), ft, WALL_TIMEOUT, exe,
        " ".join(args), path, fo, fe)
    env = dict(os.environ)
    env.pop("QPDF_CRYPTO_PROVIDER", None)
    if asan:
        env.update({"ASAN_OPTIONS": "detect_leaks=1:abort_on_error=0:exitcode=99:allocator_may_return_null=1",
                    "UBSAN_OPTIONS": "print_stacktrace=1:halt_on_error=1:exitcode=98"})
    t = time.time()
    p = subprocess.run(["bash", "-c", cmd], stdout=subprocess.DEVNULL, stderr=subprocess.DEVNULL, env=env)
    wall = time.time() - t

    def slurp(f):
        try:
            with open(f, "rb") as h:
                d = h.read()
            os.unlink(f)
            return d
        except OSError:
            return b""
    so, se, tm = slurp(fo), slurp(fe), slurp(ft)
    cpu, rss = 0.0, 0
    m = re.search(rb"C4TIME ([\d.]+) ([\d.]+) (\d+)\s*$", tm)
    if m:
        cpu, rss = float(m.group(1)) + float(m.group(2)), int(m.group(3))
    rc = p.returncode
    if rc == 137 or wall >= WALL_TIMEOUT or rc == 152 or rc == -24:
        rc = -999
    elif rc == 153 or rc == -25:
        rc = -998
    return rc, so, se, cpu, rss, wall


SAN_RE = re.compile(rb"ERROR: (AddressSanitizer|LeakSanitizer|UndefinedBehaviorSanitizer)|runtime error:|SUMMARY: \w*Sanitizer", re.M)
INTERNAL_RE = re.compile(rb"INTERNAL ERROR|logic_error|std::logic_error|terminate called|Assertion .* failed|internal error", re.I)


def exit_class_ok(rc, se):
    """exception translation at the CLI boundary: 0 = clean, 3 = warnings, 2 = an error message `qpdf: ...`"""
    if rc == 0:
        return b"WARNING" not in se
    if rc == 3:
        return b"operation succeeded with warnings" in se
    if rc == 2:
        return re.search(rb"^qpdf: ", se, re.M) is not None
    return False


def run_part(chk, quick):
    rng = chk.rng
    wd = os.path.join(common.BUILD, "work", "C04", "guards")
    os.makedirs(wd, exist_ok=True)
    model = common.build_extract()
    drv = common.build_drv()
    exe = common.QPDF
    asan_exe = os.path.join(common.REPO_BUILD + "-asan", "qpdf", "qpdf")
    cases = gen_pages(rng, quick) + gen_xref(rng, quick) + gen_outlines(rng, quick) + gen_acro(rng, quick)
    for c in cases:
        if c["kind"] == "pages":
            pages_fix_shared_karr(c)
    # ---- model side
    mlines = []
    files = []
    for n, c in enumerate(cases):
        p = os.path.join(wd, "%s-%d.pdf" % (c["kind"], n))
        if c["kind"] == "pages":
            data = pages_pdf(c); ml = pages_model_line(c)
        elif c["kind"] == "xref":
            data, sec_off, copy50, fs = xref_pdf(c)
            c["_x"] = (sec_off, copy50)
            c["_cand"] = xref_candidates(c, sec_off, fs)
            c["_hex"] = data.hex()
            ml = xref_model_line(c, sec_off, fs)
        elif c["kind"] == "outl":
            data = outl_pdf(c); ml = outl_model_line(c)
        else:
            data = acro_pdf(c); ml = acro_model_line(c)
        with open(p, "wb") as f:
            f.write(data)
        files.append((p, len(data)))
        mlines.append(ml)
    mouts = common.run_lines(model, mlines, shards=4)
    # ---- implementation side (real CLI, process per case, caps)
    observers = {"pages": pages_observe, "xref": xref_observe, "outl": outl_observe, "acro": acro_observe}
    over = []

    def runcase(i):
        c = cases[i]
        p, size = files[i]
        stats = []

        def run(args):
            r = run_qpdf_capped(exe, args, p)
            stats.append((args, r))
            return r[0], r[1], r[2]
        obs = xref_observe(run, len(c["secs"])) if c["kind"] == "xref" else observers[c["kind"]](run)
        return obs, stats
    res = common.par_map(runcase, range(len(cases)), workers=4)
    diffs, fails = [], []
    cats = {}
    nontriv = set()
    recon_max = 0
    for i, (c, mo, (obs, stats)) in enumerate(zip(cases, mouts, res)):
        if mo.startswith("?") or "FUEL" in mo:
            fails.append((c, files[i][0], "model: " + mo, None)); continue
        if c["kind"] == "pages":
            exp = pages_expect(mo)
        elif c["kind"] == "xref":
            exp, c["_walk"] = xref_expect(c, mo, *c["_x"])
        elif c["kind"] == "outl":
            exp = outl_expect(mo)
        else:
            exp = acro_expect(c, mo)
        key = c["kind"] + ":" + re.sub(r"\d+", "#", exp)
        cats[key] = cats.get(key, 0) + 1
        if exp.split()[0] != "ok" or "warn=0" not in exp:
            nontriv.add((c["kind"], mlines[i]))
        for args, (rc, so, se, cpu, rss, wall) in stats:
            size = files[i][1]
            recon_max = max(recon_max, se.count(b"Attempting to reconstruct cross-reference table"))
            why = None
            if rc == -999:
                why = "hang: killed at the CPU limit (%d s for %d bytes; budget %.2f s) or after %d s wall; cpu %.1f s, wall %.1f s" % (
                    cpu_cap(size), size, CPU_BUDGET[0] + CPU_BUDGET[1] * size, WALL_TIMEOUT, cpu, wall)
            elif rc == -998:
                why = "hang: still writing messages after %d kB of output (an endless stream of warnings); last: %s" % (
                    OUT_LIMIT_KB, se[-300:].decode("latin-1").strip().split("\n")[-1][:160])
            elif rc < 0 or rc >= 128 or rc in (98, 99):
                why = "signal/abort rc=%d" % rc
            elif INTERNAL_RE.search(se):
                why = "internal/logic error text"
            elif not exit_class_ok(rc, se):
                why = "exit status %d does not match the messages (exception translation at the CLI boundary)" % rc
            elif cpu > CPU_BUDGET[0] + CPU_BUDGET[1] * size:
                why = "budget"
            elif rss > RSS_BUDGET[0] + RSS_BUDGET[1] * size:
                why = "budget"
            elif se.count(b"Attempting to reconstruct cross-reference table") > 2:
                why = "more than two xref reconstructions for one document"
            if why == "budget":
                over.append((c, files[i], args))
            elif why:
                fails.append((c, files[i][0], why, (args, rc, se[-600:].decode("latin-1"))))
        if obs != exp:
            diffs.append((c, files[i][0], obs, exp, mlines[i]))
    # ---- read_xref in process: the offsets it is asked to read, in order, the outcome and the white-space warnings against the
    #      model's `visited` (an input source that records them; it ends a walk that exceeds 4 x sections + 8 reads)
    xi = [i for i, c in enumerate(cases) if c["kind"] == "xref" and "_walk" in c]
    xl = ["c4xwalk %s %d" % (cases[i]["_hex"], 4 * len(cases[i]["secs"]) + 8) for i in xi]
    xo = run_driver_lines(drv, xl, fails, "c4xwalk")
    xcats = {}
    for i, o in zip(xi, xo):
        c = cases[i]
        if o.startswith(("?", "!")):
            fails.append((c, files[i][0], "driver (c4xwalk): " + o[:300], None)); continue
        got = xref_walk_observed(o, c["_cand"])
        xcats[got.split()[0]] = xcats.get(got.split()[0], 0) + 1
        if got.split()[0] == "runaway":
            fails.append((c, files[i][0], "hang: Objects::read_xref follows /Prev for ever: more than %d cross-reference sections read in a file that has %d "
                          "(offsets asked for: %s ...); the model reports `%s`" % (4 * len(c["secs"]) + 8, len(c["secs"]), got.split()[1][2:80], c["_walk"]),
                          (["--check"], None, "")))
        elif got != c["_walk"]:
            diffs.append((c, files[i][0], got, c["_walk"], mlines[i]))
    chk.count("guards-xref-walk", len(xl), set(xl))
    chk.cov["parts"]["guards-xref-walk"]["outcome_categories"] = xcats
    # a run that was stopped by the WALL clock while its CPU time stayed inside the budget (a stall of the machine, not of qpdf)
    # is run again alone; a hang by CPU or output limit is not
    wall_only = [f for f in fails if f[3] and f[3][1] == -999 and "hang: killed" in f[2] and float(re.search(r"cpu ([\d.]+) s", f[2]).group(1)) < 1.0]
    if 0 < len(wall_only) <= 8:
        for f in wall_only:
            rc, so, se, cpu, rss, wall = run_qpdf_capped(exe, f[3][0], f[1])
            if rc not in (-999, -998):
                fails.remove(f)
    # budget overruns are re-run alone before they count
    for c, (p, size), args in over:
        rc, so, se, cpu, rss, wall = run_qpdf_capped(exe, args, p)
        if cpu > CPU_BUDGET[0] + CPU_BUDGET[1] * size or rss > RSS_BUDGET[0] + RSS_BUDGET[1] * size or rc in (-999, -998):
            fails.append((c, p, "time/memory out of proportion to the input: cpu %.2f s, rss %d kB for %d bytes (budget %.2f s, %d kB)" % (
                cpu, rss, size, CPU_BUDGET[0] + CPU_BUDGET[1] * size, RSS_BUDGET[0] + RSS_BUDGET[1] * size), (args, rc, se[-300:].decode("latin-1"))))
    chk.count("guards-cli", sum(len(s) for _, s in res), nontriv,
              samples=[{"kind": c["kind"], "tag": c["tag"], "model": mlines[i][:160], "expected": None} for i, c in list(enumerate(cases))[:2]])
    chk.cov["parts"]["guards-cli"]["outcome_categories"] = cats
    chk.cov["parts"]["guards-cli"]["max_reconstructions_seen"] = recon_max

    # ---- a sample of the same files under ASan+UBSan (stack overflow / memory errors of a missing guard)
    sample = [i for i, c in enumerate(cases) if c["tag"] != "random" and not (quick and c["tag"].startswith("ws-") and i % 4)] + list(range(0, len(cases), 9 if quick else 3))
    argsof = {"pages": ["--show-pages"], "xref": ["--show-xref"], "outl": ["--json", "--json-key=outlines"], "acro": ["--json", "--json-key=acroform"]}
    failed_files = set(f[1] for f in fails)
    sample = [i for i in sample if files[i][0] not in failed_files]         # a file that already hangs / fails is not run again
    if os.path.exists(asan_exe):
        def runasan(i):
            return run_qpdf_capped(asan_exe, argsof[cases[i]["kind"]], files[i][0], asan=True)
        ares = common.par_map(runasan, sample, workers=4)
        stalled = [k for k, r in enumerate(ares) if r[0] == -999]
        if 0 < len(stalled) <= 8:
            # a run killed at a time limit is run again alone before it counts (a stall of the machine hits a few runs at once;
            # a real hang comes back)
            for k in stalled:
                ares[k] = runasan(sample[k])
        for i, (rc, so, se, cpu, rss, wall) in zip(sample, ares):
            if rc == -999 or rc < 0 or rc >= 128 or rc in (98, 99) or SAN_RE.search(se) or INTERNAL_RE.search(se):
                fails.append((cases[i], files[i][0], "ASan+UBSan run did not end in a documented way (rc=%s)" % rc, (argsof[cases[i]["kind"]], rc, se[-1200:].decode("latin-1"))))
        chk.count("guards-cli-asan", len(sample), ())

    # ---- name trees through the CLI: budget only (the tree is repaired before it is listed).  doubled-21 is the revert
    #      confirmation of the fix of D-C04-nntree-dag: without it --list-attachments needs seconds for a 3 kB file
    nn_cases = gen_nn(rng, quick)
    cli_nn = [c for c in nn_cases if c["tag"] != "random"][:8]
    dag = {i: (0, False, [i + 1, i + 1], 0, 99999999) for i in range(1, 22)}
    dag[22] = (2, True, [], 7, 7)
    cli_nn.append({"kind": "nn", "tag": "doubled-21", "nodes": dag, "root": 1, "probe": 7})
    for n, c in enumerate(cli_nn):
        data, _ = nn_pdf(c, names=True)
        p = os.path.join(wd, "nncli-%d.pdf" % n)
        open(p, "wb").write(data)
        c["_p"] = (p, len(data))

    def runnn(c):
        return run_qpdf_capped(exe, ["--list-attachments"], c["_p"][0])
    for c, (rc, so, se, cpu, rss, wall) in zip(cli_nn, common.par_map(runnn, cli_nn, workers=4)):
        p, size = c["_p"]
        if rc == -999 or rc < 0 or rc >= 128 or INTERNAL_RE.search(se) or not exit_class_ok(rc, se):
            fails.append((c, p, "name tree through --list-attachments: rc=%s" % rc, (["--list-attachments"], rc, se[-400:].decode("latin-1"))))
        elif cpu > CPU_BUDGET[0] + CPU_BUDGET[1] * size:
            rc, so, se, cpu, rss, wall = run_qpdf_capped(exe, ["--list-attachments"], p)
            if cpu > CPU_BUDGET[0] + CPU_BUDGET[1] * size or rc == -999:
                fails.append((c, p, "time out of proportion to the input: cpu %.2f s for %d bytes (budget %.2f s): every level of the name tree lists "
                              "the next level twice, NNTreeIterator expands the shared nodes completely" % (cpu, size, CPU_BUDGET[0] + CPU_BUDGET[1] * size),
                              (["--list-attachments"], rc, se[-300:].decode("latin-1"))))
    chk.count("guards-nametree-cli", len(cli_nn), ())

    # ---- number trees through the driver: plain iteration counts, find outcome, and opening the tree the way the
    #      library does (validate(true): validate, repair on failure) followed by an iteration of the result
    cap = 100000
    dl, dlo, ml2 = [], [], []
    for c in nn_cases:
        data, rootobj = nn_pdf(c)
        dl.append("c4nn %s %d %d %d" % (data.hex(), rootobj, cap, c["probe"]))
        dlo.append("c4nnopen %s %d %d" % (data.hex(), rootobj, cap))
        ml2 += nn_model_lines(c, 400000)
    douts = run_driver_lines(drv, dl, fails, "c4nn")
    doouts = run_driver_lines(drv, dlo, fails, "c4nnopen")
    mo3 = common.run_lines(model, ml2, shards=4)
    mo2 = [x for k in range(len(nn_cases)) for x in (mo3[3 * k], mo3[3 * k + 1])]
    open_cats = {}
    for k, c in enumerate(nn_cases):
        exp = nn_open_expect(mo3[3 * k], mo3[3 * k + 2])
        o = doouts[k]
        if o.startswith(("?", "!")):
            fails.append((c, None, "driver (c4nnopen): " + o[:300], None)); continue
        kv = dict(x.split("=", 1) for x in o.split() if "=" in x)
        if exp is None or kv["done"] != "1":
            open_cats["capped"] = open_cats.get("capped", 0) + 1
            continue
        got = "valid=%s repaired=%s gaveup=%s warns=%s entries=%s" % (kv["valid"], kv["repaired"], kv["gaveup"], kv["warns"], kv["entries"])
        key = " ".join(exp.split()[:3])
        open_cats[key] = open_cats.get(key, 0) + 1
        if got != exp:
            diffs.append((c, None, got, exp, ml2[3 * k + 2]))
    chk.count("guards-numbertree-open", len(nn_cases), set(ml2[3 * k + 2] for k in range(len(nn_cases))))
    chk.cov["parts"]["guards-numbertree-open"]["outcome_categories"] = open_cats

    # ---- the plain iteration of the public helpers is NOT guarded (D-C04-nntree-dag-api): one timed case in a process of its own
    data, rootobj = nn_pdf(cli_nn[-1])
    api_line = "c4nn %s %d %d %d" % (data.hex(), rootobj, 10 ** 8, 7)
    for attempt in (0, 1):
        r0 = resource.getrusage(resource.RUSAGE_CHILDREN)
        o = _drv(drv, [api_line], WALL_TIMEOUT)
        r1 = resource.getrusage(resource.RUSAGE_CHILDREN)
        cpu = (r1.ru_utime + r1.ru_stime) - (r0.ru_utime + r0.ru_stime)
        if o is not None and cpu <= CPU_BUDGET[0] + CPU_BUDGET[1] * len(data):
            break
    else:
        fp = os.path.join(wd, "nnapi-doubled-21.txt")
        open(fp, "w").write(api_line + "\n")
        fails.append(({"kind": "nnapi", "tag": "doubled-21"}, fp,
                      "time out of proportion to the input: %s for a %d byte file (budget %.2f s): for (auto i: QPDFNumberTreeObjectHelper) on a tree whose "
                      "levels list the next level twice; the iterator only remembers the nodes of its current path (driver line in `input`)" % (
                          "killed after %d s" % WALL_TIMEOUT if o is None else "cpu %.2f s" % cpu, len(data), CPU_BUDGET[0] + CPU_BUDGET[1] * len(data)), None))
    chk.count("guards-numbertree-api-time", 1, ())

    nn_cats = {}
    for k, c in enumerate(nn_cases):
        it, f, w = nn_expect(c, mo2[2 * k], mo2[2 * k + 1])
        o = douts[k]
        if o.startswith(("?", "!")):
            fails.append((c, None, "driver: " + o[:300], None)); continue
        kv = dict(x.split("=", 1) for x in o.split() if "=" in x)
        oit = "entries=%s warns=%s" % (kv["entries"], kv["warns"]) if kv["done"] == "1" else "capped"
        of = kv["find"] if f != "skip" else "skip"
        if of.startswith("err:"):
            of = "ok" if f == "ok" and not w[0].startswith("leaf:") else of
        nn_cats[it.split()[0][:9] + "/" + f] = nn_cats.get(it.split()[0][:9] + "/" + f, 0) + 1
        if (it, f) != (oit, of):
            diffs.append((c, None, "%s find=%s" % (oit, of), "%s find=%s" % (it, f), ml2[3 * k]))
    chk.count("guards-numbertree-driver", len(nn_cases), set(ml2[3 * k] for k in range(len(nn_cases))))
    chk.cov["parts"]["guards-numbertree-driver"]["outcome_categories"] = nn_cats

    # ---- parser limits and conversions through the driver
    pl, pm, ptags = gen_parse(rng, quick)
    pout = run_driver_lines(drv, pl, fails, "c4parse")
    pmo = common.run_lines(model, pm, shards=4)
    pc = {}
    for l, m, tag, o, mo in zip(pl, pm, ptags, pout, pmo):
        text = bytes.fromhex(l.split()[4]) if l.split()[4] != "-" else b""
        exp = parse_expect(tag, mo, "array" if text.startswith(b"[") else "dict")
        got = " ".join(o.split()[:2])
        pc[tag + ":" + exp] = pc.get(tag + ":" + exp, 0) + 1
        if got != exp:
            diffs.append(({"kind": "parse", "tag": tag}, None, o, exp, m + "   |   " + l[:200]))
    chk.count("guards-parser-limits", len(pl), set(pm))
    chk.cov["parts"]["guards-parser-limits"]["outcome_categories"] = pc
    cl, cm = gen_conv(rng, quick)
    cout = run_driver_lines(drv, cl, fails, "c4conv")
    cmo = common.run_lines(model, cm, shards=4)
    nrange = 0
    for l, m, o, mo in zip(cl, cm, cout, cmo):
        exp = conv_canon_model(mo)
        nrange += "range" in exp
        if o != exp:
            # a value outside the target range that comes back as a value is the property failing, not only the tie
            w = l.split()
            ts, tb = TYPES[w[2]]
            tmin, tmax = (-(1 << (tb - 1)), (1 << (tb - 1)) - 1) if ts else (0, (1 << tb) - 1)
            if "ok" in o and not (tmin <= int(w[3]) <= tmax):
                fails.append(({"kind": "conv", "tag": l}, None, "checked conversion returned a value for an out-of-range input: %s -> %s" % (l, o), None))
            else:
                diffs.append(({"kind": "conv", "tag": "conv"}, None, o, exp, l))
    chk.count("guards-conversions", len(cl), set(cl))
    chk.cov["parts"]["guards-conversions"]["out_of_range_cases"] = nrange
    # ---- Pl_PNGFilter's constructor: accepted / refused = model (png_ctor_row_buffer_nonempty says what acceptance implies)
    pcases, plines, pmodels = gen_png(rng, quick)
    pouts = run_driver_lines(drv, plines, fails, "c4png")
    pmo = common.run_lines(model, pmodels)
    pcat = {}
    for c, l, o, mo in zip(pcases, plines, pouts, pmo):
        if o.startswith(("?", "!")):
            continue
        pcat[mo.split()[0]] = pcat.get(mo.split()[0], 0) + 1
        if o.split(":")[0] != mo.split()[0]:
            diffs.append(({"kind": "png", "tag": "ctor"}, None, o, mo, l))
    chk.count("guards-png-constructor", len(plines), set(plines))
    chk.cov["parts"]["guards-png-constructor"]["outcome_categories"] = pcat
    # ---- one-shot reconstruction: the counter machine against the bound, for random event sequences
    rl = []
    for _ in range(200):
        rl.append("c4recon " + ";".join("%d:%d" % (rng.random() < 0.5 if k else rng.random() < 0.7, rng.random() < 0.5) for k in range(rng.randrange(1, 9))))
    for l, o in zip(rl, common.run_lines(model, rl)):
        kv = dict(x.split("=") for x in o.split())
        first_late = l.split()[1].split(";")[0] == "0:1"
        late = sum(1 for e in l.split()[1].split(";") if e == "0:1")
        if int(kv["scans"]) > 1 + late:
            fails.append(({"kind": "recon", "tag": l}, None, "model: more scans than 1 + late-startxref successes", None))
    return diffs, fails


def run_driver_lines(drv, lines, fails, what):
    """driver lines in small shards with a wall-clock cap; a shard that dies is re-run line by line"""
    outs = []
    step = 400
    for a in range(0, len(lines), step):
        chunk = lines[a:a + step]
        o = _drv(drv, chunk, 120)
        if o is None or any(x.startswith("?crashed") for x in o):
            o = []
            for l in chunk:
                r = _drv(drv, [l], 20)
                if r is None or r[0].startswith("?crashed"):
                    fp = os.path.join(common.BUILD, "work", "C04", "guards", "driver-fail-%d.txt" % len(fails))
                    with open(fp, "w") as f:
                        f.write(l + "\n")          # the complete driver line (the PDF is its hex argument)
                    fails.append(({"kind": what, "tag": "driver"}, fp, "driver hang/crash (%s) on the line stored in `input`: %s" % (
                        "killed after 20 s" if r is None else r[0][:80], l[:120]), None))
                    o.append("?crashed")
                else:
                    o.append(r[0])
        outs += o
    return outs


def _drv(drv, lines, timeout):
    try:
        p = subprocess.run(["bash", "-c", "ulimit -v %d; exec %s" % (VMEM_KB, drv)], input=("\n".join(lines) + "\n").encode(),
                           stdout=subprocess.PIPE, stderr=subprocess.PIPE, timeout=timeout)
    except subprocess.TimeoutExpired:
        return None
    ls = p.stdout.decode("latin-1").split("\n")
    if ls and ls[-1] == "":
        ls.pop()
    if len(ls) != len(lines):
        ls += ["?crashed rc=%s" % p.returncode] * (len(lines) - len(ls))
    return ls


def report(chk, diffs, fails):
    shown = {}
    # different reasons first (a hang by CPU limit, by output limit, in process ...), so that the four reports per kind differ
    firsts, rest, seen_why = [], [], set()
    for f in fails:
        k = (f[0].get("kind"), re.sub(r"[\d.]+", "#", f[2])[:40])
        (rest if k in seen_why else firsts).append(f)
        seen_why.add(k)
    for c, p, why, detail in firsts + rest:
        shown[c.get("kind")] = shown.get(c.get("kind"), 0) + 1
        if shown[c.get("kind")] > 4:                  # at most four reports per kind of case
            continue
        cat = ("time" if why.startswith(("time", "time/memory")) else "hang" if why.startswith("hang") else "signal" if why.startswith("signal")
               else "internal" if why.startswith("internal") else "exit" if why.startswith("exit") else "other")
        sig = "c04:guards:%s:%s:%s" % (c.get("kind"), c.get("tag"), cat)
        rep = {"kind": "property-fails-on-implementation", "part": "guards", "why": why, "case_kind": c.get("kind"), "tag": c.get("tag"), "input": p}
        if p and os.path.exists(p):
            rep["input_hex_prefix"] = open(p, "rb").read()[:300].hex()
            if os.path.getsize(p) <= 8000:
                rep["input_hex"] = open(p, "rb").read().hex()          # small inputs travel with the replay (the work directory is wiped by the next run)
        rep["failing_cases_of_this_kind"] = sum(1 for f in fails if f[0].get("kind") == c.get("kind"))     # at most four of them are reported
        if detail:
            rep["argv"] = ["qpdf"] + list(detail[0]); rep["exit"] = detail[1]; rep["stderr_tail"] = detail[2]
        chk.violation(rep, signature=sig)
    if diffs:
        # model and implementation differ.  The property (documented outcome, bounded work) held on every one of these runs -
        # anything else is in `fails` - so only the tie is broken: one report
        c, p, obs, exp, ml = diffs[0]
        chk.violation({"kind": "correspondence-broken", "correspondence": "corr:C04:guards", "differing_cases": len(diffs),
                       "first_case": {"kind": c.get("kind"), "tag": c.get("tag"), "input": p, "model_line": ml[:1500]},
                       "implementation": obs, "model": exp,
                       "by_kind": {k: sum(1 for d in diffs if d[0].get("kind") == k) for k in set(d[0].get("kind") for d in diffs)},
                       "note": "guard logic of qpdf no longer behaves as coq/Sys/Guards.v says; the theorems of Sys/C04GuardProofs.v no longer speak about this code"},
                      no_input=True)
