# C16, CLI part: generated documents through qpdf --normalize-content / --qdf / --coalesce-contents /
# --externalize-inline-images --ii-min-bytes=N / --remove-unreferenced-resources; outputs read by the extracted strict
# reader, page content compared through the extracted content reading c16_sem.
import os, re, zlib
import common, pdfgen, filecheck
from common import hexs
from pdfgen import D, N, Name, Ref, Str, Real, Stream
import c16

KEYMAP = {b"BPC": b"BitsPerComponent", b"CS": b"ColorSpace", b"D": b"Decode", b"DP": b"DecodeParms", b"F": b"Filter", b"H": b"Height",
          b"IM": b"ImageMask", b"I": b"Interpolate", b"W": b"Width"}
CSMAP = {b"G": b"DeviceGray", b"RGB": b"DeviceRGB", b"CMYK": b"DeviceCMYK", b"I": b"Indexed"}
FMAP = {b"AHx": b"ASCIIHexDecode", b"A85": b"ASCII85Decode", b"LZW": b"LZWDecode", b"Fl": b"FlateDecode", b"RL": b"RunLengthDecode",
        b"CCF": b"CCITTFaxDecode", b"DCT": b"DCTDecode"}

# (key, value text) sets for images of the CLI documents; colour spaces only by names every reader knows
CLI_II = [
    [("W", "2"), ("H", "2"), ("BPC", "8"), ("CS", "/G")],
    [("Width", "2"), ("Height", "2"), ("BitsPerComponent", "8"), ("ColorSpace", "/DeviceGray")],
    [("W", "1"), ("H", "1"), ("BPC", "8"), ("CS", "/RGB"), ("I", "true")],
    [("W", "1"), ("H", "1"), ("BPC", "8"), ("CS", "/CMYK"), ("D", "[1 0 1 0 1 0 1 0]")],
    [("W", "8"), ("H", "1"), ("IM", "true"), ("D", "[1.0 0]")],
    [("W", "4"), ("H", "1"), ("BPC", "8"), ("ColorSpace", "/DeviceRGB"), ("F", "/AHx")],
    [("W", "4"), ("H", "1"), ("BPC", "8"), ("CS", "/G"), ("F", "[/A85 /Fl]"), ("DP", "[null << /Predictor 1 >>]")],
    [("W", "4"), ("H", "1"), ("BPC", "8"), ("CS", "/G"), ("Filter", "[/ASCIIHexDecode]"), ("Interpolate", "false")],
    [("W", "2"), ("H", "1"), ("BPC", "8"), ("CS", "[/I /RGB 1 <000000ffffff>]")],           # known finding C16-3
    [("W", "2"), ("H", "1"), ("BPC", "8"), ("CS", "[/Indexed /DeviceRGB 1 <000000ffffff>]")],
]


def cli_image(rng, keys=None, n=None):
    import base64
    keys = keys if keys is not None else rng.choice(CLI_II)
    filt = [v for k, v in keys if k in ("F", "Filter")]
    while True:
        data = c16.gen_image_data(rng) if n is None else bytes(rng.randrange(256) for _ in range(n))
        if filt and "A85" in filt[0]:
            data = base64.a85encode(zlib.compress(data)) + b"~>"
        elif filt:
            data = data.hex().encode() + b">"
        ws2 = rng.choice(c16.WS)
        if c16.data_in_quantifier(data, ws2):      # EI<VT> inside the data is a look-alike like any other (C16-F1 repaired)
            break
    sep = lambda: rng.choice([b" ", b"\n", b"\r", b"\r\n", b"  "])
    return (b"BI" + sep() + b"".join(b"/" + k.encode() + b" " + v.encode() + sep() for k, v in keys) + b"ID" + rng.choice(c16.WS) + data + ws2 + b"EI")


def cli_content(rng, nstat, images, pre=()):
    parts = [b"BT /F1 12 Tf ET", b"/Fm1 Do"] + [b"/" + n + b" Do" for n in pre]
    for _ in range(nstat):
        if images and rng.random() < 0.3:
            parts.append(b"q " + cli_image(rng) + b" Q")
        else:
            parts.append(c16.gen_statement(rng))
    rng.shuffle(parts)
    out = bytearray()
    cuts = []
    for p in parts:
        out += p + c16.gen_sep(rng)
        cuts.append(len(out))
    return bytes(out), cuts[:-1]


FORM_DATA = (b"q (f\rm) Tj <46 4d> Tj /N#41 gs\r BI /W 1 /H 1 /BPC 8 /CS /G ID \x81\x82 EI Q /IIm1 Do\r"
             b"q BI /W 3 /H 3 /BPC 8 /CS /G ID 123456789 EI Q\r\n")
FORM_PRE = {b"IIm1": b"PRE-FORM-IIm1"}
# names that already exist in the /XObject resources of the pages of document k (k modulo the length)
PRE_SETS = [[], [b"IIm1", b"IIm2"], [b"IIm1"], [b"IIm2", b"IIm4"], [b"IIm1", b"IIm2", b"IIm3"], []]


def pre_data(name):
    return b"PRE-PAGE-" + name


def pre_image(d, data):
    return d.add(Stream(D(Type=N("XObject"), Subtype=N("Image"), Width=len(data), Height=1, BitsPerComponent=8, ColorSpace=N("DeviceGray")), data))
FAKE_DATA = b"(a\rb) Tj <41> Tj /A#42 gs\r\n % not a content stream\r"


class Pg(list):
    """the content streams of a page IN ARRAY ORDER, WITH REPETITIONS (what every oracle below works on), plus how /Contents is
    written: keys[i] names the stream OBJECT of entry i - equal keys are one object, within the page and across the pages
    of the document; form 'array' (direct array), 'indirect' (the array is an indirect object, shared by the pages that give
    the same arrkey) or 'single' (one entry: the stream itself).  items (structurally invalid pages only): the array as
    written, ('s', key) for a stream entry, anything else a pdfgen value / ('ref', key) naming a non-stream object."""

    def __init__(self, streams, keys, form="array", arrkey=None, items=None):
        list.__init__(self, streams)
        self.keys, self.form, self.arrkey, self.items = list(keys), form, arrkey, items
        self.invalid = items is not None


def pg_from(pool, keys, form="array", arrkey=None):
    return Pg([pool[k] for k in keys], keys, form, arrkey)


def is_invalid_doc(pages):
    return any(getattr(ps, "invalid", False) for ps in pages)


def build_doc(rng, pages, pre=()):
    """pages: list of lists of content streams (a fresh object per entry) or Pg; pre: names of image XObjects that already exist
    in every page's resources"""
    d = pdfgen.Doc()
    cat = d.add(None)
    pgs = d.add(None)
    font = d.add(D(Type=N("Font"), Subtype=N("Type1"), BaseFont=N("Helvetica")))
    font2 = d.add(D(Type=N("Font"), Subtype=N("Type1"), BaseFont=N("Courier")))
    form = d.add(Stream(D(Type=N("XObject"), Subtype=N("Form"), BBox=[0, 0, 10, 10],
                          Resources={b"ProcSet": [N("PDF")], b"XObject": {k: pre_image(d, v) for k, v in FORM_PRE.items()}}), FORM_DATA))
    pre_refs = {n: pre_image(d, pre_data(n)) for n in pre}
    form2 = d.add(Stream(D(Type=N("XObject"), Subtype=N("Form"), BBox=[0, 0, 10, 10], Resources=D(ProcSet=[N("PDF")])), b"q (unused\r) Tj Q\r"))
    fake = d.add(Stream(D(Note=Str(b"not content")), FAKE_DATA))
    refs = []
    shared = {}         # stream key / array key / non-stream key -> reference

    def sref(key, data):
        if key not in shared:
            shared[key] = d.add(Stream({}, data))
        return shared[key]
    for streams in pages:
        if isinstance(streams, Pg):
            if streams.items is not None:
                by_key = dict(zip(streams.keys, streams))
                arr = []
                for it in streams.items:
                    if isinstance(it, tuple) and it[0] == "s":
                        arr.append(sref(it[1], by_key[it[1]]))
                    elif isinstance(it, tuple) and it[0] == "ref":
                        if it[1] not in shared:
                            shared[it[1]] = d.add(it[2])
                        arr.append(shared[it[1]])
                    elif isinstance(it, tuple) and it[0] == "missing":
                        arr.append(Ref(9000 + it[1]))
                    else:
                        arr.append(it)
                contents = arr[0] if streams.form == "single" else arr
            else:
                arr = [sref(k, s_) for k, s_ in zip(streams.keys, streams)]
                contents = arr[0] if streams.form == "single" else arr
            if streams.form == "indirect":
                ak = ("arr", "shared", streams.arrkey) if streams.arrkey is not None else ("arr", "page", len(refs))
                if ak not in shared:
                    shared[ak] = d.add(contents)
                contents = shared[ak]
        else:
            srefs = [d.add(Stream({}, s)) for s in streams]
            contents = srefs[0] if len(srefs) == 1 and rng.random() < 0.7 else srefs
        pg = D(Type=N("Page"), Parent=pgs, MediaBox=[0, 0, 200, 200], Contents=contents,
               Resources={b"Font": D(F1=font, F2=font2), b"XObject": {**{b"Fm1": form, b"Fm2": form2}, **pre_refs}})
        refs.append(d.add(pg))
    d.objects[pgs.n] = D(Type=N("Pages"), Count=len(refs), Kids=refs)
    d.objects[cat.n] = D(Type=N("Catalog"), Pages=pgs, Fake=fake)
    d.trailer = {b"Root": cat}
    return pdfgen.write_classic(d)[0]


def stream_bytes(s):
    """decoded data of a strict-reader stream (only /FlateDecode or no filter occur in these outputs)"""
    f = s.d.get(b"Filter")
    if f is None:
        return s.data
    if f == Name(b"FlateDecode") or f == [Name(b"FlateDecode")]:
        if not s.data:
            return b""        # zero bytes labelled /FlateDecode: not a zlib stream; reported by empty_flate_streams (finding C16-F7)
        return zlib.decompress(s.data)
    raise ValueError("unexpected filter %r" % (f,))


def deref(sd, v):
    seen = 0
    while isinstance(v, Ref) and seen < 20:
        v = sd.objs.get((v.n, v.g))
        seen += 1
    return v


def walk(sd, ref, out, depth=0):
    node = deref(sd, ref)
    if not isinstance(node, dict) or depth > 20:
        return
    if node.get(b"Type") == Name(b"Pages"):
        for k in deref(sd, node.get(b"Kids", [])):
            walk(sd, k, out, depth + 1)
    else:
        out.append(node)


def read_output(sd):
    """[(list of content stream bytes, resources dict)] per page, form data, fake data"""
    root = deref(sd, sd.trailer[b"Root"])
    pages = []
    walk(sd, root[b"Pages"], pages)
    res = []
    form = None
    for pg in pages:
        c = deref(sd, pg.get(b"Contents"))
        if isinstance(c, Stream):
            streams = [stream_bytes(c)]
        elif isinstance(c, list):
            streams = [stream_bytes(deref(sd, x)) for x in c]
        else:
            streams = []
        r = deref(sd, pg.get(b"Resources")) or {}
        res.append((streams, r))
        xo = deref(sd, r.get(b"XObject")) or {}
        if form is None and b"Fm1" in xo:
            form = deref(sd, xo[b"Fm1"])
    fake = deref(sd, root.get(b"Fake"))
    return res, form, fake


# ---- comparison of an externalised image dictionary with the inline image's tokens
def tok_tree(toks):
    """sem token strings of an inline image dictionary body -> {key: value tree}"""
    pos = [0]

    def val():
        t = toks[pos[0]]
        pos[0] += 1
        if t == "[":
            a = []
            while toks[pos[0]] != "]":
                a.append(val())
            pos[0] += 1
            return ("arr", tuple(a))
        if t == "<<":
            dd = {}
            while toks[pos[0]] != ">>":
                k = toks[pos[0]]
                pos[0] += 1
                dd[k] = val()
            pos[0] += 1
            return ("dict", tuple(sorted(dd.items())))
        return t
    dd = {}
    while pos[0] < len(toks):
        k = toks[pos[0]]
        pos[0] += 1
        dd[k] = val()
    return dd


def num_canon(m, k):
    while k > 0 and m % 10 == 0:
        m //= 10
        k -= 1
    return "num:%d/%d" % (m, k)


def model_tree(v, sd):
    v = deref(sd, v) if isinstance(v, Ref) else v
    if v is None:
        return "null"
    if v is True or v is False:
        return "b:%d" % (1 if v else 0)
    if isinstance(v, int):
        return "num:%d/0" % v
    if isinstance(v, Real):
        s = v.s
        neg = s.startswith("-")
        s = s.lstrip("+-")
        ip, _, fp = s.partition(".")
        m = int((ip + fp) or "0")
        return num_canon(-m if neg else m, len(fp))
    if isinstance(v, Name):
        return "n:" + hexs(v.b)
    if isinstance(v, Str):
        return "s:" + hexs(v.b)
    if isinstance(v, list):
        return ("arr", tuple(model_tree(x, sd) for x in v))
    if isinstance(v, dict):
        return ("dict", tuple(sorted(("n:" + hexs(k), model_tree(x, sd)) for k, x in v.items())))
    return repr(v)


def nm(b):
    return "n:" + hexs(b)


def expected_xobject(dict_toks):
    """what an equivalent image XObject dictionary must contain (ISO 32000-1 8.9.7, Tables 93 and 94)"""
    t = tok_tree(dict_toks)
    exp = {nm(b"Type"): nm(b"XObject"), nm(b"Subtype"): nm(b"Image")}

    def csname(x):
        if isinstance(x, str) and x.startswith("n:"):
            b = bytes.fromhex(x[2:]) if x[2:] != "-" else b""
            return nm(CSMAP.get(b, b))
        return x

    def fname(x):
        if isinstance(x, str) and x.startswith("n:"):
            b = bytes.fromhex(x[2:]) if x[2:] != "-" else b""
            return nm(FMAP.get(b, b))
        return x
    for k, v in t.items():
        kb = bytes.fromhex(k[2:])
        kb = KEYMAP.get(kb, kb)
        if v == "null":
            continue
        if kb == b"ColorSpace":
            if isinstance(v, tuple) and v[0] == "arr" and v[1]:
                a = list(v[1])
                a[0] = csname(a[0])
                if a[0] == nm(b"Indexed") and len(a) > 1:
                    a[1] = csname(a[1])
                v = ("arr", tuple(a))
            else:
                v = csname(v)
        elif kb == b"Filter":
            v = ("arr", tuple(fname(x) for x in v[1])) if isinstance(v, tuple) else fname(v)
        exp[nm(kb)] = v
    return exp


def split_images(sem):
    """sem string -> list of segments: ('tok', s) | ('img', dict_toks, data_hex)"""
    toks = sem.split(" ") if sem not in ("-", "invalid") else []
    out = []
    i = 0
    while i < len(toks):
        if toks[i] == "op:4249":     # BI
            j = i + 1
            while j < len(toks) and toks[j] != "op:4944":
                j += 1
            if j + 1 < len(toks) and toks[j + 1].startswith("img:"):
                out.append(("img", toks[i + 1:j], toks[j + 1][4:]))
                i = j + 2
                continue
        out.append(("tok", toks[i]))
        i += 1
    return out


CONFIGS = [
    ("normalize", ["--normalize-content=y"]),
    ("normalize-nocompress", ["--normalize-content=y", "--compress-streams=n"]),
    ("qdf", ["--qdf"]),
    ("qdf-objstm", ["--qdf", "--object-streams=generate"]),
    ("coalesce", ["--coalesce-contents"]),
    ("coalesce-normalize", ["--coalesce-contents", "--normalize-content=y"]),
    ("coalesce-qdf", ["--qdf", "--coalesce-contents"]),
    ("remove-unreferenced", ["--remove-unreferenced-resources=yes"]),
    ("remove-unreferenced-qdf", ["--remove-unreferenced-resources=yes", "--qdf"]),
    ("plain", []),
    ("plain-uncompressed", ["--stream-data=uncompress"]),
]


def pre_of(doc_index):
    return PRE_SETS[doc_index % len(PRE_SETS)]


def gen_docs(chk):
    rng = chk.rng
    ndocs = 5 if chk.tier == "quick" else 120
    docs = []
    # the recorded findings first, so that every run re-observes them (or sees them gone)
    docs.append([[b"q BI /W 1 /H 1 /BPC 8 /CS /G ID ab EI\x0b(\r) cd EI Q 1 2 3 4 5 6 7 8 9 10 11 12\n"],
                 [b"q BI /W 2 /H 1 /BPC 8 /CS [/I /RGB 1 <000000ffffff>] ID \x00\x01 EI Q\n"],
                 [b"q BI /W 1 /H 1 /BPC 8 /ColorSpace /DeviceGray ID \x80\x81 EI Q\n"],
                 [b"q BI /W 1 /H 1 /BPC 8 /CS /G ID\x00\x80\x81 EI Q\n"],
                 [b"q BI /W 1 /H 1 /BPC 8 /CS /G ID \x80 EI Q 10 0 d0 /Fm1 Do q BI /W 1 /H 1 /BPC 8 /CS /G ID \x81 EI Q\n"],
                 [b"q (plain\r) Tj Q\n"]])
    for di in range(ndocs):
        pages = []
        for pi in range(6):
            kind = pi % 6
            c, cuts = cli_content(rng, rng.randint(2, 6), images=(kind in (1, 3, 5)), pre=pre_of(di + 1))
            if kind in (0, 1):
                pages.append([c])
            elif kind in (2, 3):
                # split at token boundaries: after the separator that follows a statement / an image
                k = sorted(rng.sample(cuts, min(len(cuts), rng.randint(1, 3))))
                pages.append([c[a:b] for a, b in zip([0] + k, k + [len(c)])])
            elif kind == 4:
                p = rng.randrange(1, len(c))
                pages.append([c[:p], c[p:]])                 # anywhere, possibly inside a token
            else:
                pages.append([c, b"", c16.gen_statement(rng) + b"\n"])
        docs.append(pages)
    # last image of a stream followed by few tokens with EI look-alikes in strings / names / comments
    la = c16.gen_lookalike_streams(rng, dense=False)
    pick = la if chk.tier != "quick" else rng.sample(la, 14)
    for i in range(0, len(pick), 7):
        docs.append([[b"BT /F1 12 Tf ET /Fm1 Do " + c] for c in pick[i:i + 7]])
    docs += gen_list_docs(chk)
    # damaged content: must be reported
    docs.append([[b"q (abc"], [b"q Q", b"<4x> Tj"], [b"BI /W 1 /H 1 /BPC 8 /CS /G ID \x80\x81"], [b") q"], [b"/A#00 gs (a\rb) Tj"], [b"q Q\n"]])
    return docs


def gen_list_docs(chk):
    """what /Contents may look like (ISO 32000-1 Table 30): arrays that list a stream object more than once (adjacent, non-adjacent,
    an image stream twice), the same stream on several pages (alone and inside arrays), one-element and empty arrays, indirect
    arrays (private and shared by two pages); a second document of random arrays drawn with replacement from one pool; a third
    one whose arrays contain what is not a stream"""
    rng = chk.rng
    docs = []
    img = b"q 100 0 0 100 0 300 cm\n" + cli_image(rng, keys=CLI_II[0], n=rng.randint(3, 9)) + b" Q" + rng.choice([b"\n", b"", b"\r"])
    pool = {"cm": b"1 0 0 1 120 0 cm" + rng.choice([b"\n", b"", b" ", b"\r"]), "a": cli_content(rng, 2, images=False)[0],
            "b": c16.gen_statement(rng) + rng.choice([b"", b"\n", b" % c"]), "img": img, "e": b""}
    docs.append([pg_from(pool, ["a", "cm", "b", "cm", "img", "cm", "a"]),            # one fragment between drawing steps
                 pg_from(pool, ["cm", "a", "a", "img"]),                             # the same drawing step twice in a row
                 pg_from(pool, ["img", "img"]),                                      # an inline image drawn twice
                 pg_from(pool, ["cm"]),                                              # array with one element
                 pg_from(pool, []),                                                  # empty array
                 pg_from(pool, ["a", "cm", "a"], form="indirect", arrkey="x"),       # indirect array ...
                 pg_from(pool, ["a", "cm", "a"], form="indirect", arrkey="x"),       # ... shared by two pages
                 pg_from(pool, ["a"], form="single"),                                # the same stream as a page's only content
                 pg_from(pool, ["b", "e", "b", "e", "img"], form="indirect")])
    ndoc = 1 if chk.tier == "quick" else 30
    for _ in range(ndoc):
        pool = {i: (cli_content(rng, rng.randint(1, 3), images=rng.random() < 0.5)[0] if i else b"1 0 0 1 12 0 cm" + rng.choice([b"\n", b""])) for i in range(4)}
        pages = []
        for pi in range(6):
            keys = []
            for _k in range(rng.choice([2, 3, 3, 4, 5, 6])):
                keys.append(rng.choice(keys) if keys and rng.random() < 0.45 else rng.randrange(4))
            pages.append(pg_from(pool, keys, form=rng.choice(["array", "array", "indirect"]), arrkey=(0 if rng.random() < 0.3 else None)))
        # pages that share the array object must list the same streams
        first = {}
        for i, pg in enumerate(pages):
            if pg.form == "indirect" and pg.arrkey is not None:
                if pg.arrkey in first:
                    pages[i] = pg_from(pool, first[pg.arrkey].keys, form="indirect", arrkey=pg.arrkey)
                else:
                    first[pg.arrkey] = pg
        docs.append(pages)
    # what is not a stream inside the array / instead of it: null, a number, a nested array, references to such objects and to nothing
    pool = {"a": b"0 0 1 rg 0 300 100 100 re f\n", "cm": b"1 0 0 1 120 0 cm\n", "img": img}
    bad = [None, 7, [], ("ref", "int", 7), ("ref", "arr", []), ("ref", "null", None), ("missing", 1), {b"A": 1}]

    def inv(items, form="array"):
        keys = [it[1] for it in items if isinstance(it, tuple) and it[0] == "s"]
        return Pg([pool[k] for k in keys], keys, form, None, items)
    S = lambda k: ("s", k)
    pages = [inv([S("a"), b_, S("cm"), S("a"), S("img")]) for b_ in bad[:7]]
    pages += [inv([bad[1], S("a"), S("a")], form="indirect"), inv([S("img"), S("cm"), bad[2]]), inv([{b"A": 1}], form="single"), inv([7], form="single")]
    docs.append(pages)
    return docs


def empty_flate_streams(sd):
    """object numbers of streams whose dictionary says /FlateDecode while the data have zero bytes (RFC 1950: the shortest zlib
    stream has 8 bytes; a strict decoder rejects the empty string)"""
    out = []
    for (n, g), o in sorted(sd.objs.items()):
        if isinstance(o, Stream) and not o.data and o.d.get(b"Filter") in (Name(b"FlateDecode"), [Name(b"FlateDecode")]):
            out.append(n)
    return out


def page_stream_items(sd, pg):
    """the streams a page's /Contents designates, in order, skipping what is not a stream"""
    c = deref(sd, pg.get(b"Contents"))
    items = c if isinstance(c, list) else [c]
    out = []
    for x in items:
        x = deref(sd, x)
        if isinstance(x, Stream):
            out.append(stream_bytes(x))
    return out


def judge_invalid_structure(chk, runner, job, result, sr, pages, fail):
    """a document whose /Contents values are not 'a stream or an array of streams': qpdf may refuse (exit 2), may warn (exit 3), or
    must leave the pages alone (exit 0, silent): same elements, every token of every stream that is there, in order"""
    rc, se, out = result
    if rc in (2, 3) and se.strip():
        return "refused" if rc == 2 else "warned"
    if rc != 0 or se.strip() or sr is None or not sr.get("ok"):
        fail("invalid /Contents structure: exit status %d / output unreadable" % rc)
        return "bad"
    sd = filecheck.StrictDoc(sr, out)
    root = deref(sd, sd.trailer[b"Root"])
    opages = []
    walk(sd, root[b"Pages"], opages)
    lines = []
    for pi, (ps, opg) in enumerate(zip(pages, opages)):
        lines.append("c16sem " + hexs(c16_coalesce_py(list(ps))))
        lines.append("c16sem " + hexs(c16_coalesce_py(page_stream_items(sd, opg))))
        # untouched = the value still has its shape: the elements that are not streams are still there
        want_shape = ["s" if isinstance(it, tuple) and it[0] == "s" else "x" for it in ps.items]
        c = deref(sd, opg.get(b"Contents"))
        got_shape = ["s" if isinstance(deref(sd, x), Stream) else "x" for x in (c if isinstance(c, list) else [c])]
        if got_shape != want_shape:
            fail("invalid /Contents structure: exit 0 without a diagnostic, but /Contents was rebuilt (elements %s -> %s; s = stream, x = not a stream)"
                 % ("".join(want_shape), "".join(got_shape)), page=pi, sig="C16:cli:invalid-structure")
            return "bad"
    res = common.run_lines(runner, lines)
    for pi in range(min(len(pages), len(opages))):
        if res[2 * pi] != res[2 * pi + 1]:
            fail("invalid /Contents structure: exit 0 without a diagnostic, but the tokens of the page's streams changed", page=pi,
                 expected_tokens=res[2 * pi][:500], got_tokens=res[2 * pi + 1][:500], sig="C16:cli:invalid-structure")
            return "bad"
    return "kept"


def part_cli(chk, runner):
    rng = chk.rng
    wd = common.workdir("C16")
    docs = gen_docs(chk)
    jobs = []
    for di, pages in enumerate(docs):
        path = os.path.join(wd, "in%d.pdf" % di)
        open(path, "wb").write(build_doc(rng, pages, pre_of(di)))
        damaged_doc = (di == len(docs) - 1) or is_invalid_doc(pages)
        for name, cfg in CONFIGS:
            jobs.append((di, name, cfg, path))
        maxlen = 0
        for ps in pages:
            for s in ps:
                for m in re.finditer(rb"ID[\x00\t\n\x0c\r ](.*?)EI", s, re.S):
                    maxlen = max(maxlen, len(m.group(1)))
        mins = list(range(0, maxlen + 2)) if (chk.tier != "quick" or di == 0) else sorted(set([0, 1, 2, 3, 5, 8, maxlen, maxlen + 1, rng.randint(0, maxlen + 1)]))
        if is_invalid_doc(pages):
            for mn in (0, 1024):
                jobs.append((di, "externalize-%d" % mn, ["--externalize-inline-images", "--ii-min-bytes=%d" % mn, "--decode-level=none", "--compress-streams=n"], path))
        if not damaged_doc:
            for mn in mins:
                jobs.append((di, "externalize-%d" % mn, ["--externalize-inline-images", "--ii-min-bytes=%d" % mn, "--decode-level=none", "--compress-streams=n"] + (["--qdf"] if mn % 3 == 0 else []), path))
            jobs.append((di, "externalize-default", ["--externalize-inline-images", "--decode-level=none", "--compress-streams=n"], path))

    def run_job(j):
        di, name, cfg, path = j
        out = os.path.join(wd, "out%d-%s.pdf" % (di, name))
        rc, so, se = common.run_qpdf(["--static-id"] + cfg + [path, out], timeout=60)
        return rc, se, out
    results = common.par_map(run_job, jobs, workers=4)
    # two- and three-step histories with decreasing --ii-min-bytes: the images moved out by an earlier step are in the
    # resources as /IIm1 ... when the next step names its images
    hists = []
    for di, pages in enumerate(docs[:-1]):
        if is_invalid_doc(pages):
            continue
        lens = sorted({len(m.group(1)) for ps in pages for s in ps for m in re.finditer(rb"ID[\x00\t\n\x0c\r ](.*?)EI", s, re.S)} | {2, 9})
        mid = lens[len(lens) // 2]
        hists.append((di, "h2", [mid, 0]))
        hists.append((di, "h3", [lens[-1], mid, min(3, mid)]))
        if chk.tier != "quick":
            hists.append((di, "hall", sorted(set(lens + [0]), reverse=True)))

    def run_hist(h):
        di, hname, mins_ = h
        cur = os.path.join(wd, "in%d.pdf" % di)
        res = []
        for k, mn in enumerate(mins_):
            out = os.path.join(wd, "out%d-%s-step%d.pdf" % (di, hname, k))
            cfg = ["--externalize-inline-images", "--ii-min-bytes=%d" % mn, "--decode-level=none", "--compress-streams=n"] + (["--qdf"] if (k + di) % 2 else [])
            rc, so, se = common.run_qpdf(["--static-id"] + cfg + [cur, out], timeout=60)
            res.append(((di, "externalize-%s-step%d" % (hname, k), cfg, cur), (rc, se, out)))
            if rc not in (0, 3) or not os.path.exists(out):
                break
            cur = out
        return res
    for lst in common.par_map(run_hist, hists, workers=4):
        for j, r in lst:
            jobs.append(j)
            results.append(r)
    readable = [i for i, (rc, se, out) in enumerate(results) if rc in (0, 3) and os.path.exists(out)]
    srs = filecheck.strict_read([results[i][2] for i in readable])
    sr_of = dict(zip(readable, srs))

    # specification and model values for every input stream and every page
    all_streams = sorted({s for pages in docs for ps in pages for s in ps} | {FORM_DATA})
    sem_of = dict(zip(all_streams, common.run_lines(runner, ["c16sem " + hexs(s) for s in all_streams], shards=4)))
    norm_of = dict(zip(all_streams, common.run_lines(runner, ["c16norm " + hexs(s) for s in all_streams], shards=4)))
    page_keys = sorted({tuple(ps) for pages in docs for ps in pages})
    coal_of = dict(zip(page_keys, common.run_lines(runner, ["c16filter " + ",".join(hexs(s) for s in ps) for ps in page_keys], shards=4)))
    pipe_of = dict(zip(page_keys, common.run_lines(runner, ["c16pipe " + ",".join(hexs(s) for s in ps) for ps in page_keys], shards=4)))

    out_sem_lines = []      # filled below, resolved in one batch
    checks = []             # deferred comparisons needing sem of output bytes
    nontriv = set()
    kinds = {}
    tie_fail = []
    invalid_verdicts = {}
    list_pages = {"repeated": 0, "shared_object": 0, "indirect_array": 0, "one_element_array": 0, "empty_array": 0}
    for pages in docs:
        seen = set()
        for ps in pages:
            if isinstance(ps, Pg) and not ps.invalid:
                list_pages["repeated"] += len(set(ps.keys)) != len(ps.keys)
                list_pages["shared_object"] += bool(seen & set(ps.keys))
                list_pages["indirect_array"] += ps.form == "indirect"
                list_pages["one_element_array"] += (len(ps) == 1 and ps.form != "single")
                list_pages["empty_array"] += len(ps) == 0
                seen |= set(ps.keys)

    for ji, (job, (rc, se, out)) in enumerate(zip(jobs, results)):
        di, name, cfg, path = job
        pages = docs[di]
        kinds[name.split("-")[0]] = kinds.get(name.split("-")[0], 0) + 1
        desc = {"argv": ["qpdf", "--static-id"] + cfg + [os.path.basename(path), os.path.basename(out)], "doc": di,
                "pages": [[repr(s) for s in ps] for ps in pages]}
        if any(isinstance(ps, Pg) for ps in pages):
            # which entries are the same stream object, and how /Contents is written
            desc["contents_entries"] = [("%s %r" % (ps.form, ps.items if ps.invalid else ps.keys)) if isinstance(ps, Pg) else None for ps in pages]
        stderr = se.decode("latin-1")

        def fail(why, sig="C16:cli:changed", **kw):
            chk.violation(dict({"kind": "property-fails-on-implementation", "part": "cli-" + name, "why": why, "exit": rc, "stderr": stderr[-600:],
                                "input_pdf_hex": open(path, "rb").read().hex()}, **desc, **kw),
                          signature=sig)
        if is_invalid_doc(pages):
            verdict = judge_invalid_structure(chk, runner, job, (rc, se, out), sr_of.get(ji), pages, fail)
            invalid_verdicts[verdict] = invalid_verdicts.get(verdict, 0) + 1
            nontriv.add((di, name))
            continue
        if ji not in sr_of:
            fail("qpdf failed (exit %d) on a readable input" % rc)
            continue
        r = sr_of[ji]
        if not r.get("ok"):
            fail("output is not strictly readable: %s" % filecheck.ERR.get(r.get("code"), r.get("code")), sig="C16:cli:strict")
            continue
        try:
            sd = filecheck.StrictDoc(r, out)
            opages, oform, ofake = read_output(sd)
        except Exception as e:
            fail("output page tree / streams cannot be read: %r" % (e,))
            continue
        ef = empty_flate_streams(sd)
        if ef:
            fail("qpdf wrote a stream with /Filter /FlateDecode and /Length 0: zero bytes are not a zlib stream, a strict reader cannot decode the "
                 "page content (object %s)" % ", ".join(map(str, ef)), sig="C16:cli:empty-flate")
        normalizing = ("--normalize-content=y" in cfg) or ("--qdf" in cfg)
        coalescing = "--coalesce-contents" in cfg
        extern = "--externalize-inline-images" in cfg
        min_bytes = 1024
        for a in cfg:
            if a.startswith("--ii-min-bytes="):
                min_bytes = int(a.split("=")[1])
        # -- streams that are not page content are never normalised
        if not isinstance(ofake, Stream) or stream_bytes(ofake) != FAKE_DATA:
            fail("a stream that is not page content was altered", got=repr(stream_bytes(ofake)) if isinstance(ofake, Stream) else None)
        if not extern:
            if not isinstance(oform, Stream) or stream_bytes(oform) != FORM_DATA:
                fail("a form XObject's content was altered by a run that does not externalise images")
        if len(opages) != len(pages):
            fail("page count changed")
            continue
        expect_warn = False
        for pi, (ps, (os_, ores)) in enumerate(zip(pages, opages)):
            sems = [sem_of[s] for s in ps]
            pdesc = {"page": pi, "input_streams": [repr(s) for s in ps], "output_streams": [repr(s)[:600] for s in os_]}
            if extern:
                pdesc["fragments"] = any(x == "invalid" for x in sems)
                pdesc["_pre"] = {n: pre_data(n) for n in pre_of(di)}
                pdesc["_names"] = ([b"F1", b"F2", b"Fm1", b"Fm2"] + list(pre_of(di))) if "-step" not in name or name.endswith("-step0") else None
                checks.append(("extern", ji, pi, ps, os_, ores, sd, min_bytes, pdesc))
                if pi == 0 and isinstance(oform, Stream):
                    # the form XObject has its own resources (with an /IIm1 of its own) and its own tracker
                    fdesc = {"page": "form XObject /Fm1", "input_streams": [repr(FORM_DATA)], "output_streams": [repr(stream_bytes(oform))[:600]],
                             "fragments": False, "_pre": dict(FORM_PRE),
                             "_names": list(FORM_PRE) if "-step" not in name or name.endswith("-step0") else None}
                    checks.append(("extern", ji, "form", [FORM_DATA], [stream_bytes(oform)], deref(sd, oform.d.get(b"Resources")) or {}, sd, min_bytes, fdesc))
                continue
            if coalescing and len(ps) == 0 and isinstance(ps, Pg):
                # an empty array is replaced by one empty stream (or kept): nothing is drawn either way
                if any(x.strip(b"\x00\t\n\x0c\r ") for x in os_):
                    fail("--coalesce-contents turned an empty /Contents array into content", **pdesc)
                continue
            if coalescing and len(ps) > 1:
                if len(os_) != 1:
                    fail("--coalesce-contents left %d content streams" % len(os_), **pdesc)
                    continue
                want = "-"
                for s in sems:
                    want = c16.sem_concat(want, s)
                mf = coal_of[tuple(ps)].split(" ")
                if normalizing:
                    if mf[1] == "1":
                        expect_warn = True
                    tie_ok = (hexs(os_[0]) == mf[0])
                else:
                    tie_ok = (hexs(os_[0]) == pipe_of[tuple(ps)])
                if want != "invalid":
                    checks.append(("sem", ji, pi, [os_[0]], [want], pdesc, tie_ok))
                elif not tie_ok:
                    tie_fail.append((desc, pdesc))
                continue
            if len(os_) != len(ps):
                fail("number of content streams changed without --coalesce-contents", **pdesc)
                continue
            if not normalizing:
                if list(os_) != list(ps):
                    fail("content stream bytes changed by a run that does not rewrite content", **pdesc)
                continue
            tie_ok = True
            for s, o in zip(ps, os_):
                mn = norm_of[s].split(" ")
                if mn[1] == "1":
                    expect_warn = True
                if hexs(o) != mn[0]:
                    tie_ok = False
            valid = [s != "invalid" for s in sems]
            if all(valid):
                checks.append(("sem", ji, pi, list(os_), sems, pdesc, tie_ok))
            else:
                # damaged stream: untouched, or the run warns
                for s, o, v in zip(ps, os_, valid):
                    if not v and o != s and rc != 3:
                        fail("damaged content altered without a warning", sig="C16:unwarned:" + c16.damage_kind(s), **pdesc)
                checks.append(("sem", ji, pi, [o for o, v in zip(os_, valid) if v], [x for x, v in zip(sems, valid) if v], pdesc, tie_ok))
        all_valid = all(sem_of[s] != "invalid" for ps in pages for s in ps)
        if extern:
            # valid content: every diagnostic line is a violation (two classes are recorded findings)
            alls = b"".join(s for ps in pages for s in ps)
            for ln in stderr.splitlines():
                if not ln.startswith("WARNING:"):
                    continue
                if normalizing and not all_valid and re.search(r"content normalization encountered bad tokens|normalized content ended with a bad token|Resulting stream data may be corrupted", ln):
                    continue      # a page of this document is split inside a token: its fragments are reported, as they must be
                if re.search(r"unable to resolve colorspace /Device(Gray|RGB|CMYK)$", ln) and re.search(rb"/(CS|ColorSpace) /Device(Gray|RGB|CMYK)", alls):
                    sig = "C16:cli:externalize-full-cs-warned"
                elif "trailing data found parsing object from string" in ln and b"ID\x00" in alls:
                    sig = "C16:cli:externalize-nul-after-id"
                else:
                    sig = "C16:cli:warned-valid"
                fail("valid content: diagnostic during externalisation: " + ln[:300], sig=sig)
            if (rc != 0) != ("WARNING:" in stderr):
                fail("exit status %d does not match the diagnostics" % rc, sig="C16:cli:warned-valid")
        elif all_valid and (rc != 0 or stderr.strip()):
            fail("valid content: exit status %d / diagnostics" % rc, sig="C16:cli:warned-valid")
        elif normalizing and expect_warn != (rc == 3) and not extern:
            if not expect_warn and rc == 3:
                fail("warning on a document whose content the model reads without bad tokens", sig="C16:cli:warned-valid")
            else:
                tie_fail.append((desc, {"why": "model predicts a bad-token warning, qpdf exit %d" % rc}))
        nontriv.add((di, name))

    # resolve deferred semantic comparisons in one batch
    lines = []
    for c in checks:
        if c[0] == "sem":
            for o in c[3]:
                lines.append("c16sem " + hexs(o))
        else:
            lines.append("c16sem " + hexs(c16_coalesce_py(c[4])))
            lines.append("c16sem " + hexs(c16_coalesce_py(c[3])))
    sem_res = iter(common.run_lines(runner, lines, shards=4))
    name_ties = []
    for c in checks:
        if c[0] == "sem":
            _, ji, pi, outs, wants, pdesc, tie_ok = c
            got = [next(sem_res) for _ in outs]
            di, name, cfg, path = jobs[ji]
            desc = {"argv": ["qpdf", "--static-id"] + cfg + [os.path.basename(path), os.path.basename(results[ji][2])], "doc": di}
            if got != wants:
                sig = "C16:cli:" + ("ei-vt" if any(b"EI\x0b" in s for s in docs[di][pi]) else "changed")
                chk.violation(dict({"kind": "property-fails-on-implementation", "part": "cli-" + name, "why": "page content does not read as before",
                                    "expected_tokens": [w[:500] for w in wants], "got_tokens": [g[:500] for g in got], "exit": results[ji][0]}, **desc, **pdesc), signature=sig)
            elif not tie_ok:
                tie_fail.append((desc, pdesc))
        else:
            _, ji, pi, ps, os_, ores, sd, min_bytes, pdesc = c
            got = [next(sem_res)]
            whole = next(sem_res)
            di, name, cfg, path = jobs[ji]
            desc = {"argv": ["qpdf", "--static-id"] + cfg + [os.path.basename(path), os.path.basename(results[ji][2])], "doc": di, "_path": path}
            new_names = check_extern(chk, name, desc, pdesc, ps, os_, ores, sd, min_bytes, got, whole, results[ji])
            if new_names is not None and pdesc.get("_names") is not None:
                name_ties.append((desc, pdesc, pdesc["_names"], new_names))
    # the names given to the new image XObjects against the extracted model of getUniqueResourceName
    nres = common.run_lines(runner, ["c16names %s 1 %d" % (",".join(hexs(b"/" + n) for n in ex), len(nn)) for _, _, ex, nn in name_ties], shards=4)
    for (desc, pdesc, ex, nn), o in zip(name_ties, nres):
        want = [bytes.fromhex(x)[1:] for x in o.split(",")] if o not in ("-", "logic") else []
        if want != nn:
            tie_fail.append(({k: v for k, v in desc.items() if k != "_path"},
                             {"page": pdesc.get("page"), "why": "resource names of the new images differ from the model", "model": [repr(x) for x in want], "qpdf": [repr(x) for x in nn]}))
    if tie_fail:
        chk.violation({"kind": "correspondence-broken", "correspondence": "corr:C16:cli", "differing_cases": len(tie_fail), "first_case": tie_fail[0][0],
                       "detail": tie_fail[0][1], "note": "the bytes qpdf wrote differ from the extracted model's but read the same through the specification"}, no_input=True)
    chk.count("cli", len(jobs), nontriv, samples=[{"argv": ["qpdf"] + jobs[i][2]} for i in (0, len(jobs) // 2)])
    chk.cov["parts"]["cli"]["distribution"] = kinds
    chk.cov["parts"]["cli"]["documents"] = len(docs)
    chk.cov["parts"]["cli"]["name_allocations_compared"] = len(name_ties)
    chk.cov["parts"]["cli"]["histories"] = len(hists)
    chk.cov["parts"]["cli"]["contents_list_pages"] = list_pages
    chk.cov["parts"]["cli"]["invalid_structure_jobs"] = invalid_verdicts


def c16_coalesce_py(ps):
    """pipeContentStreams, for the expected value of the externalisation clause only (the Coq model is the reference)"""
    out = b""
    need = False
    for s in ps:
        chunk = (b"\n" if need else b"") + s
        out += chunk
        need = (chunk == b"" or chunk[-1:] != b"\n")
    return out


def check_extern(chk, name, desc, pdesc, ps, os_, ores, sd, min_bytes, got, whole, result):
    rc, se, out = result
    stderr = se.decode("latin-1")

    def d0_after_image():
        toks = whole.split(" ")
        for i, t in enumerate(toks):
            if t.startswith("img:") and any(x in ("op:6430", "op:6431") for x in toks[i + 1:i + 11]):
                return True
        return False

    def fail(why, sig="C16:cli:externalize", **kw):
        if sig != "C16:cli:externalize":
            pass                           # already classified
        elif any(b"EI\x0b" in x for x in ps):
            sig = "C16:cli:ei-vt"          # the image was ended at EI<VT> (finding C16-F1, repaired)
        elif whole != "invalid" and d0_after_image():
            sig = "C16:cli:findei-d0"      # the true EI was rejected because d0/d1 follows (finding C16-F6)
        d2 = {k: v for k, v in desc.items() if k != "_path"}
        chk.violation(dict({"kind": "property-fails-on-implementation", "part": "cli-" + name, "why": why, "exit": rc, "stderr": stderr[-600:],
                            "input_pdf_hex": open(desc["_path"], "rb").read().hex()}, **d2, **{k: v for k, v in pdesc.items() if not k.startswith("_")}, **kw),
                      signature=sig)
    if whole == "invalid" or any(g == "invalid" for g in got):
        # a page split inside a token that keeps its streams is normalised stream by stream (--qdf): compared by the
        # normalisation jobs, not at page level
        if whole != "invalid" and not (pdesc.get("fragments") and len(os_) == len(ps) > 1):
            fail("externalisation produced content that cannot be read")
        return None
    segs = split_images(whole)
    big = [s for s in segs if s[0] == "img" and len(bytes.fromhex(s[2]) if s[2] != "-" else b"") >= min_bytes]
    xo0 = deref(sd, ores.get(b"XObject")) or {}
    for pname, pdata in sorted(pdesc.get("_pre", {}).items()):
        im0 = deref(sd, xo0.get(pname))
        try:
            same = isinstance(im0, Stream) and stream_bytes(im0) == pdata
        except Exception:
            same = False
        if not same:
            fail("the image XObject /%s that already existed in the resources (and that the content draws with '/%s Do') was replaced"
                 % (pname.decode(), pname.decode()), sig="C16:cli:externalize-name-clash",
                 got=repr(im0.data)[:120] if isinstance(im0, Stream) else repr(im0)[:120], want=repr(pdata))
            return None
    new_names = []
    gtoks = []
    for g in got:
        gtoks += g.split(" ") if g != "-" else []
    if not big:
        # nothing to convert: the page keeps its streams (a page split inside a token is compared stream by stream by the
        # normalisation jobs, not here)
        if got[0] != whole and not pdesc.get("fragments"):
            fail("page content reads differently although no inline image reaches --ii-min-bytes", expected=whole[:500], got=got[0][:500])
            return None
        return []
    xo = deref(sd, ores.get(b"XObject")) or {}
    gi = 0
    for s in segs:
        if s[0] == "tok" or s not in big:
            want = [s[1]] if s[0] == "tok" else (["op:4249"] + s[1] + ["op:4944", "img:" + s[2]])
            if gtoks[gi:gi + len(want)] != want:
                fail("tokens around externalised images changed", expected=want[:8], got=gtoks[gi:gi + len(want)][:8])
                return None
            gi += len(want)
            continue
        pair = gtoks[gi:gi + 2]
        gi += 2
        if len(pair) != 2 or not pair[0].startswith("n:") or pair[1] != "op:446f":
            nul = any(b"ID\x00" in x for x in ps) and "trailing data found parsing object from string" in stderr
            fail("an inline image of %d bytes was not replaced by '/Name Do'" % (len(s[2]) // 2), got=pair,
                 sig="C16:cli:externalize-nul-after-id" if nul else "C16:cli:externalize")
            return None
        nmb = bytes.fromhex(pair[0][2:])
        if nmb in new_names or nmb in pdesc.get("_pre", {}):
            fail("two drawing positions use the same image XObject name /%s" % nmb.decode("latin-1"), sig="C16:cli:externalize-name-clash")
            return None
        new_names.append(nmb)
        img = deref(sd, xo.get(nmb))
        if not isinstance(img, Stream):
            fail("image XObject /%s missing from the page's resources" % nmb.decode("latin-1"))
            return None
        exp = expected_xobject(s[1])
        have = {k: v for k, v in dict(model_tree(img.d, sd)[1]).items() if k != nm(b"Length")}
        try:
            if nm(b"Filter") in exp:
                idata = img.data                      # --decode-level=none: filtered data are copied
            else:
                idata = stream_bytes(img)             # the writer may Flate-compress an unfiltered image
                if have.get(nm(b"Filter")) in (nm(b"FlateDecode"), ("arr", (nm(b"FlateDecode"),))):
                    have.pop(nm(b"Filter"))
        except Exception as e:
            fail("image XObject data unreadable: %r" % (e,))
            return None
        if idata != (bytes.fromhex(s[2]) if s[2] != "-" else b""):
            fail("image XObject data differ from the inline image's data", got=repr(idata)[:200], want=s[2])
            return None
        if have != exp:
            diff = sorted(k for k in set(exp) | set(have) if exp.get(k) != have.get(k))
            cs_abbrev = (diff == [nm(b"ColorSpace")] and isinstance(have.get(nm(b"ColorSpace")), tuple)
                         and have[nm(b"ColorSpace")][1][:1] == (nm(b"I"),))
            fail("image XObject dictionary is not equivalent to the inline image's dictionary",
                 sig="C16:cli:externalize-indexed-abbrev" if cs_abbrev else "C16:cli:externalize-dict",
                 differing_keys=[bytes.fromhex(k[2:]).decode("latin-1") for k in diff],
                 expected={bytes.fromhex(k[2:]).decode("latin-1"): str(exp.get(k)) for k in diff},
                 got={bytes.fromhex(k[2:]).decode("latin-1"): str(have.get(k)) for k in diff})
    if gi != len(gtoks):
        fail("extra tokens after externalisation", got=gtoks[gi:gi + 8])
        return None
    return new_names


def replay_cli(chk, rep):
    """re-run the recorded qpdf job on the recorded input file and show the page content it writes"""
    wd = common.workdir("C16-replay")
    argv = rep.get("argv", [])
    if "input_pdf_hex" not in rep or len(argv) < 3:
        print("re-run:", " ".join(argv), "(inputs are regenerated by ./check C16 with the same VERIF_SEED)")
        return 0
    inp = os.path.join(wd, "in.pdf")
    out = os.path.join(wd, "out.pdf")
    open(inp, "wb").write(bytes.fromhex(rep["input_pdf_hex"]))
    rc, so, se = common.run_qpdf(argv[1:-2] + [inp, out])
    print("qpdf", " ".join(argv[1:-2]), "-> exit", rc)
    print(se.decode("latin-1")[-800:])
    if rc in (0, 3) and os.path.exists(out):
        r = filecheck.strict_read([out])[0]
        if r.get("ok"):
            sd = filecheck.StrictDoc(r, out)
            pages, _, _ = read_output(sd)
            for i, (streams, _res) in enumerate(pages):
                print("page", i, [repr(x)[:300] for x in streams])
    return 1 if rc not in (0, 3) else 0
