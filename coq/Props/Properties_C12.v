(* C12 - property theorems. Only statements closed by `exact`, with Print Assumptions. *)
From QV Require Import Base.Bytes Struct.NumRange Struct.RangeSpec Struct.PageOps.
