// Self-test of harness/translate_leaf.py: one small function per construct of the translated C++ subset.
// They are translated into coq/Gen/Leaf.v (lf_st_*) next to the leaves of qpdf, and harness/leafcheck.py compares the
// compiled functions with the generated Gallina on boundary and random arguments (part "leaf-translation" of C02):
// this is what checks the translator's reading of the subset (coq/Base/LeafSem.v) beyond the constructs the qpdf leaves use.
// Not linked into anything.  Keep every function free of undefined behaviour on the domain given in translate_leaf.py.
extern "C" {

const unsigned short st_tab[8] = {0x1234, 65535, 0, 7, 0x8000, 255, 256, 40000};
const int st_bias = -3;

// for, continue, break, compound assignment, unsigned wrap-around
unsigned int st_for_sum(unsigned int n)
{
    unsigned int s = 4000000000u;
    for (unsigned int i = 0; i < n; ++i) {
        if (i % 3 == 1) {
            continue;
        }
        if (i > 40) {
            break;
        }
        s += i * i * 16777259u;
    }
    return s;
}

// switch: several labels, fall-through, return inside, default, no default reached
int st_switch(int x, int y)
{
    int r = 0;
    switch (x & 7) {
    case 0:
        r = y;
        break;
    case 1:
    case 2:
        r = y / 2 + 1;
        [[fallthrough]];
    case 3:
        r *= 2;
        break;
    case 4:
        return -(y / 4);
    default:
        r = ~y;
    }
    return r ^ x;
}

// do-while, division of negative numbers (truncation toward zero)
long long st_dowhile(long long a)
{
    long long k = 0;
    do {
        a /= 3;
        ++k;
    } while (a != 0);
    return k * 100 + a % 7;
}

// arithmetic in a type narrower than int: promotion and conversion back
unsigned char st_u8(unsigned char a, unsigned char b)
{
    unsigned char c = a;
    c += b;
    c <<= 1;
    c ^= 0x5a;
    c = static_cast<unsigned char>(c - 200);
    c--;
    return c;
}

short st_short(short a, short b)
{
    short r = static_cast<short>(a * b);
    r >>= 2;
    r |= 1;
    r--;
    r = static_cast<short>(r + st_bias);
    return r;
}

// / and % with mixed signs
int st_divmod(int a, int b)
{
    if (b == 0) {
        return 0;
    }
    return (a / b) * 1000 + a % b;
}

// 64-bit unsigned arithmetic and shifts
unsigned long long st_u64(unsigned long long a, unsigned int s)
{
    unsigned long long r = a << (s & 63);
    r -= 1;
    r = r * 6364136223846793005ULL + 1442695040888963407ULL;
    return r >> (s & 31);
}

// bool parameters and locals, && || ! == on bools, if / else if
bool st_bool(int a, bool f)
{
    bool g = !f;
    if (a > 5 && g) {
        g = a != 7;
    } else if (a < -3 || f) {
        g = f == (a == -4);
    }
    return g;
}

// a loop inside a loop, postfix increment, while
int st_nested(int n)
{
    int c = 0;
    for (int i = 0; i < n; i++) {
        int j = i;
        while (j > 0) {
            if ((j & 1) == 0) {
                j >>= 1;
            } else {
                j = j - 1;
                c++;
            }
        }
    }
    return c;
}

// char arithmetic: promotion of a signed char, conversion back, unary minus, arithmetic shift of negatives
signed char st_char(char c, int k)
{
    char d = static_cast<char>(c + k);
    return d < 0 ? static_cast<signed char>(-d) : static_cast<signed char>((d >> 1) - 70);
}

int st_ternary(int a, int b, int c)
{
    return a > b ? (b > c ? a - c : (a > c ? 1 : 2)) : (a == b ? c % 7 : -(b - a) >> 3);
}

// table look-up, call of another leaf, conversions between signed and unsigned
unsigned int st_table(unsigned int i)
{
    unsigned int v = st_tab[i & 7] ^ (static_cast<unsigned int>(st_tab[(i >> 3) & 7]) << 16);
    int w = static_cast<int>(v);
    return static_cast<unsigned int>(w >> 4) + st_for_sum(i & 15);
}

// two loops in sequence, the second one leaving through return
int st_two_loops(int n)
{
    int a = 0;
    int i = 0;
    while (i < n) {
        a += i;
        i += 2;
    }
    for (int k = 0; k < 10; ++k) {
        if (a % 11 == k) {
            return a + k;
        }
        a -= 1;
    }
    return -1;
}

}
