(* C13 - proofs about the foreign-object copier model (pg_reserve / pg_rename / pg_copied in
   Struct/PgModel.v): what the reservation walk may change (pg_cR), the memo property of the
   object map, the frame property for the destination, the source document, and the local
   homomorphism property of the replacement phase. *)
From QV Require Import Base.Bytes Struct.PgModel Struct.PgSpec Struct.C13ProofsA.
Local Open Scope N_scope.

(* ------------------------------------------------------------------ what a reservation walk can do *)
(* c' is reachable from c by the walk:
   - the object map only grows (memo);
   - a source document whose page cache is filled is not touched;
   - objects that exist in the destination keep their value (only new objects are allocated);
   - to_copy only grows, and every new entry is mapped to a local object that was absent or null in c. *)
Definition pg_cR (c c' : pg_cst) : Prop :=
  (forall og l, pg_omap_find (pgc_omap c) og = Some l -> pg_omap_find (pgc_omap c') og = Some l) /\
  (pd_all (pgc_src c) <> [] -> pgc_src c' = pgc_src c) /\
  (forall j, pg_lookup (pgc_dst c) j <> None -> pg_lookup (pgc_dst c') j = pg_lookup (pgc_dst c) j) /\
  (exists more, pgc_tocopy c' = more ++ pgc_tocopy c /\
     forall og, In og more -> exists l, pg_omap_find (pgc_omap c') og = Some l /\ pg_is_null (pgc_dst c) (PvRef l) = true).

Lemma pg_cR_refl : forall c, pg_cR c c.
Proof.
  intros c. repeat split; auto. exists []. split; [reflexivity|]. intros og [].
Qed.

Lemma pg_is_null_ref_lookup : forall s s' l, pg_lookup s' l = pg_lookup s l -> pg_is_null s' (PvRef l) = pg_is_null s (PvRef l).
Proof. intros s s' l H. unfold pg_is_null. rewrite H. reflexivity. Qed.

Lemma pg_cR_trans : forall c1 c2 c3, pg_cR c1 c2 -> pg_cR c2 c3 -> pg_cR c1 c3.
Proof.
  intros c1 c2 c3 (M1 & S1 & D1 & more1 & T1 & N1) (M2 & S2 & D2 & more2 & T2 & N2).
  split; [|split; [|split]].
  - intros og l H. apply M2, M1, H.
  - intros H. rewrite S2; [apply S1, H | rewrite S1 by exact H; exact H].
  - intros j Hj. rewrite D2; [apply D1, Hj | rewrite D1 by exact Hj; exact Hj].
  - exists (more2 ++ more1). split; [rewrite T2, T1, app_assoc; reflexivity|].
    intros og Hin. apply in_app_iff in Hin. destruct Hin as [Hin|Hin].
    + destruct (N2 og Hin) as (l & Hl & Hn). exists l. split; [exact Hl|].
      destruct (pg_lookup (pgc_dst c1) l) eqn:E.
      * rewrite <- Hn. symmetry. apply pg_is_null_ref_lookup. apply D1. congruence.
      * unfold pg_is_null. rewrite E. reflexivity.
    + destruct (N1 og Hin) as (l & Hl & Hn). exists l. split; [apply M2, Hl | exact Hn].
Qed.

(* states that differ only in visiting / err are related *)
Lemma pg_cR_core : forall c c', pgc_src c' = pgc_src c -> pgc_dst c' = pgc_dst c -> pgc_omap c' = pgc_omap c -> pgc_tocopy c' = pgc_tocopy c -> pg_cR c c'.
Proof.
  intros c c' Hs Hd Ho Ht. repeat split.
  - intros og l H. rewrite Ho. exact H.
  - intros _. exact Hs.
  - intros j _. rewrite Hd. reflexivity.
  - exists []. split; [rewrite Ht; reflexivity|]. intros og [].
Qed.

Lemma pg_all_filled : forall p, pd_all p <> [] -> pg_all p = (p, None).
Proof. intros p H. unfold pg_all. destruct (pd_all p); [congruence|reflexivity]. Qed.

Lemma pg_cR_type_is : forall c h t, pg_cR c (fst (pg_src_type_is c h t)).
Proof.
  intros c h t. unfold pg_src_type_is. destruct h; try apply pg_cR_refl.
  destruct (pg_all (pgc_src c)) as [src e] eqn:E.
  assert (pd_all (pgc_src c) <> [] -> src = pgc_src c) as Hs.
  { intros H. rewrite pg_all_filled in E by exact H. inversion E. reflexivity. }
  destruct e; cbn [fst]; (split; [intros og l H; exact H | split; [exact Hs | split; [intros j _; reflexivity | exists []; split; [reflexivity|intros og []]]]]).
Qed.

Lemma pg_omap_find_cons : forall m og l x, pg_omap_find ((og, l) :: m) x = if x =? og then Some l else pg_omap_find m x.
Proof. reflexivity. Qed.

Lemma pg_cR_head : forall h top c, pg_cR c (fst (pg_reserve_head h top c)).
Proof.
  intros h top c. unfold pg_reserve_head. destruct h as [| | |og| |]; try apply pg_cR_refl.
  destruct (pg_memN og (pgc_visiting c)); [apply pg_cR_refl|].
  cbn [pgc_omap pgc_src pgc_dst pgc_visiting pgc_tocopy pgc_err].
  destruct (pg_omap_find (pgc_omap c) og) as [l|] eqn:Eo.
  - (* already mapped *)
    set (c1 := mkPgCst (pgc_src c) (pgc_dst c) (pgc_omap c) (og :: pgc_visiting c) (pgc_tocopy c) (pgc_err c)).
    assert (R1 : pg_cR c c1) by (apply pg_cR_core; reflexivity).
    destruct top.
    + pose proof (pg_cR_type_is c1 (PvRef og) pgk_Page) as R2.
      destruct (pg_src_type_is c1 (PvRef og) pgk_Page) as [c2 isp] eqn:E2. cbn [fst] in R2.
      pose proof (pg_cR_trans _ _ _ R1 R2) as R12.
      cbn [andb]. destruct (isp && pg_is_null (pgc_dst c2) (PvRef l)) eqn:Ec; cbn [fst].
      * apply andb_true_iff in Ec. destruct Ec as [_ Hn].
        destruct R12 as (M & S & D & more & T & NN).
        split; [exact M|split; [exact S|split; [exact D|]]].
        exists (og :: more). cbn [pgc_tocopy]. split; [rewrite T; reflexivity|].
        intros x [<-|Hx]; [|apply NN, Hx].
        exists l. cbn [pgc_omap]. split; [apply M, Eo|].
        destruct (pg_lookup (pgc_dst c) l) eqn:El.
        -- rewrite <- Hn. symmetry. apply pg_is_null_ref_lookup, D. congruence.
        -- unfold pg_is_null. rewrite El. reflexivity.
      * eapply pg_cR_trans; [exact R12|]. apply pg_cR_core; reflexivity.
    + cbn [andb fst]. eapply pg_cR_trans; [exact R1|]. apply pg_cR_core; reflexivity.
  - (* new reservation *)
    set (cell := if pg_is_stream (pd_store (pgc_src c)) (PvRef og) then PcStream [] [] 0 else PcObj PvNull).
    assert ((if pg_is_stream (pd_store (pgc_src c)) (PvRef og) then pg_alloc (pgc_dst c) (PcStream [] [] 0) else pg_alloc (pgc_dst c) (PcObj PvNull))
            = pg_alloc (pgc_dst c) cell) as -> by (unfold cell; destruct (pg_is_stream _ _); reflexivity).
    set (ni := pg_next_id (pgc_dst c)).
    change (pg_alloc (pgc_dst c) cell) with ((ni, cell) :: pgc_dst c, ni). cbv iota beta.
    set (c1 := mkPgCst (pgc_src c) ((ni, cell) :: pgc_dst c) ((og, ni) :: pgc_omap c) (og :: pgc_visiting c) (pgc_tocopy c) (pgc_err c)).
    assert (Hfresh : pg_lookup (pgc_dst c) ni = None) by apply pg_next_id_fresh.
    assert (R1 : pg_cR c c1).
    { repeat split.
      - intros x l H. cbn [c1 pgc_omap]. rewrite pg_omap_find_cons. destruct (x =? og) eqn:E; [|exact H].
        apply N.eqb_eq in E. subst x. congruence.
      - intros j Hj. cbn [c1 pgc_dst pg_lookup]. destruct (j =? ni) eqn:E; [|reflexivity].
        apply N.eqb_eq in E. subst j. congruence.
      - exists []. split; [reflexivity|]. intros x []. }
    assert (Hadd : forall c2, pg_cR c1 c2 ->
       pg_cR c (mkPgCst (pgc_src c2) (pgc_dst c2) (pgc_omap c2) (pgc_visiting c2) (og :: pgc_tocopy c2) (pgc_err c2))).
    { intros c2 R2. destruct (pg_cR_trans _ _ _ R1 R2) as (M & S & D & more & T & NN).
      split; [exact M|split; [exact S|split; [exact D|]]].
      exists (og :: more). cbn [pgc_tocopy]. split; [rewrite T; reflexivity|].
      intros x [<-|Hx]; [|apply NN, Hx]. exists ni. cbn [pgc_omap]. split.
      - destruct R2 as (M2 & _). apply M2. cbn [c1 pgc_omap]. rewrite pg_omap_find_cons, N.eqb_refl. reflexivity.
      - unfold pg_is_null. rewrite Hfresh. reflexivity. }
    destruct top.
    + cbn [negb andb fst]. apply (Hadd c1), pg_cR_refl.
    + pose proof (pg_cR_type_is c1 (PvRef og) pgk_Page) as R2.
      destruct (pg_src_type_is c1 (PvRef og) pgk_Page) as [c2 isp] eqn:E2. cbn [fst] in R2.
      cbn [negb andb]. destruct isp; cbn [fst].
      * eapply pg_cR_trans; [exact R1|]. eapply pg_cR_trans; [exact R2|]. apply pg_cR_core; reflexivity.
      * apply Hadd, R2.
Qed.

Lemma pg_cR_fold : forall {A} (f : pg_cst -> A -> pg_cst) (l : list A) c,
  (forall c x, pg_cR c (f c x)) -> pg_cR c (fold_left f l c).
Proof.
  intros A f l. induction l as [|x t IH]; intros c H; simpl; [apply pg_cR_refl|].
  eapply pg_cR_trans; [apply H | apply IH, H].
Qed.

Lemma pg_cR_kids : forall rec h c, (forall x c, pg_cR c (rec x c)) -> pg_cR c (pg_reserve_kids rec h c).
Proof.
  intros rec h c Hrec. unfold pg_reserve_kids.
  assert (Hd : forall d c0, pg_cR c0 (fold_left (fun c1 (kv : pg_key * pg_val) => if pg_is_null (pd_store (pgc_src c1)) (snd kv) then c1 else rec (snd kv) c1) d c0)).
  { intros d c0. apply pg_cR_fold. intros c1 kv. destruct (pg_is_null _ _); [apply pg_cR_refl | apply Hrec]. }
  assert (Ha : forall l c0, pg_cR c0 (fold_left (fun c1 x => rec x c1) l c0)).
  { intros l c0. apply pg_cR_fold. intros c1 x. apply Hrec. }
  destruct h as [| | |og|l|d]; try apply pg_cR_refl; [|apply Ha|apply Hd].
  destruct (pg_lookup (pd_store (pgc_src c)) og) as [[v|d x k]|]; try apply pg_cR_refl; [|apply Hd].
  destruct v; try apply pg_cR_refl; [apply Ha|apply Hd].
Qed.

Lemma pg_cR_reserve : forall fuel h top c, pg_cR c (pg_reserve fuel h top c).
Proof.
  induction fuel as [|f IH]; intros h top c; cbn [pg_reserve].
  - apply pg_cR_core; reflexivity.
  - destruct (pgc_err c); [apply pg_cR_refl|].
    pose proof (pg_cR_type_is c h pgk_Pages) as R1.
    destruct (pg_src_type_is c h pgk_Pages) as [c1 isp]. cbn [fst] in R1.
    destruct (pgc_err c1); [exact R1|]. destruct isp; [exact R1|].
    destruct (pg_is_selfref (pd_store (pgc_src c1)) h); [eapply pg_cR_trans; [exact R1|apply pg_cR_core; reflexivity]|].
    pose proof (pg_cR_head h top c1) as R2.
    destruct (pg_reserve_head h top c1) as [c2 go]. cbn [fst] in R2.
    pose proof (pg_cR_trans _ _ _ R1 R2) as R12.
    destruct (pgc_err c2); [exact R12|]. destruct go; cbn [negb]; [|exact R12].
    pose proof (pg_cR_kids (fun x c0 => pg_reserve f x false c0) h c2 (fun x c0 => IH x false c0)) as R3.
    pose proof (pg_cR_trans _ _ _ R12 R3) as R123.
    destruct (pgc_err (pg_reserve_kids (fun x c0 => pg_reserve f x false c0) h c2)); [exact R123|].
    eapply pg_cR_trans; [exact R123|]. unfold pg_reserve_done. destruct h; try apply pg_cR_refl. apply pg_cR_core; reflexivity.
Qed.

(* ------------------------------------------------------------------ Copier::copied *)
Local Opaque pg_reserve.
Definition pg_c0 (src dst : pg_doc) : pg_cst := mkPgCst src (pd_store dst) (pd_omap dst) [] [] None.
Definition pg_cres (src dst : pg_doc) (fid : N) : pg_cst := pg_reserve 200 (PvRef fid) true (pg_c0 src dst).

Lemma pg_copied_src : forall src dst fid, fst (fst (fst (pg_copied src dst fid))) = pgc_src (pg_cres src dst fid).
Proof.
  intros. unfold pg_copied. fold (pg_c0 src dst). fold (pg_cres src dst fid).
  destruct (pgc_err (pg_cres src dst fid)); [reflexivity|].
  destruct (fold_left _ _ _) as [[ds reg] e]. destruct e; [reflexivity|].
  destruct (pg_omap_find _ _); reflexivity.
Qed.

Lemma pg_copied_omap : forall src dst fid, pd_omap (snd (fst (fst (pg_copied src dst fid)))) = pgc_omap (pg_cres src dst fid).
Proof.
  intros. unfold pg_copied. fold (pg_c0 src dst). fold (pg_cres src dst fid).
  destruct (pgc_err (pg_cres src dst fid)); [reflexivity|].
  destruct (fold_left _ _ _) as [[ds reg] e]. destruct e; [reflexivity|].
  destruct (pg_omap_find _ _); reflexivity.
Qed.

(* "leave the source document unchanged": once the source's page cache is filled (getAllPages has been called on it, or
   any page operation) copying from it does not touch it at all.  (With an empty cache the copier's isPagesObject /
   isPageObject calls fill the cache of the SOURCE, repairs included: that is the only way it is ever changed.) *)
Lemma copy_source_unchanged_lemma : forall src dst fid, pd_all src <> [] ->
  fst (fst (fst (pg_copied src dst fid))) = src.
Proof.
  intros src dst fid H. rewrite pg_copied_src.
  destruct (pg_cR_reserve 200 (PvRef fid) true (pg_c0 src dst)) as (_ & S & _). apply S. exact H.
Qed.

(* the object map is a function that only grows; what a successful copy returns is recorded in it; copying the same
   object again returns the same local object *)
Lemma copy_memo_lemma : forall src dst fid,
  let '(src', dst', e, r) := pg_copied src dst fid in
  (forall og l, pg_omap_find (pd_omap dst) og = Some l -> pg_omap_find (pd_omap dst') og = Some l) /\
  (forall l, e = None -> r = PvRef l -> pg_omap_find (pd_omap dst') fid = Some l) /\
  (forall l, e = None -> r = PvRef l ->
     let '(_, _, e2, r2) := pg_copied src' dst' fid in e2 = None -> r2 = PvRef l).
Proof.
  intros src dst fid.
  pose proof (pg_copied_omap src dst fid) as Ho.
  destruct (pg_cR_reserve 200 (PvRef fid) true (pg_c0 src dst)) as (M & _).
  destruct (pg_copied src dst fid) as [[[src' dst'] e] r] eqn:E. cbn [fst snd] in Ho.
  assert (Hrec : forall l, e = None -> r = PvRef l -> pg_omap_find (pd_omap dst') fid = Some l).
  { intros l -> ->. rewrite Ho. unfold pg_copied in E. fold (pg_c0 src dst) in E. fold (pg_cres src dst fid) in E.
    destruct (pgc_err (pg_cres src dst fid)); [inversion E|].
    destruct (fold_left _ _ _) as [[ds reg] e0]. destruct e0; [inversion E|].
    destruct (pg_omap_find (pgc_omap (pg_cres src dst fid)) fid); inversion E. reflexivity. }
  split; [|split; [exact Hrec|]].
  - intros og l H. rewrite Ho. apply M. exact H.
  - intros l He Hr. specialize (Hrec l He Hr).
    pose proof (pg_copied_omap src' dst' fid) as Ho2.
    destruct (pg_cR_reserve 200 (PvRef fid) true (pg_c0 src' dst')) as (M2 & _).
    destruct (pg_copied src' dst' fid) as [[[src2 dst2] e2] r2] eqn:E2. cbn [fst snd] in Ho2.
    intros ->. unfold pg_copied in E2. fold (pg_c0 src' dst') in E2. fold (pg_cres src' dst' fid) in E2.
    destruct (pgc_err (pg_cres src' dst' fid)); [inversion E2|].
    destruct (fold_left _ _ _) as [[ds reg] e0]. destruct e0; [inversion E2|].
    assert (pg_omap_find (pgc_omap (pg_cres src' dst' fid)) fid = Some l) as Hf by (apply M2; exact Hrec).
    rewrite Hf in E2. inversion E2. reflexivity.
Qed.

(* "nothing else touched": every object of the destination that is not null keeps its value - also when the copy
   fails half way *)
Lemma copy_frame_lemma : forall src dst fid j cell,
  pg_lookup (pd_store dst) j = Some cell -> pg_is_null (pd_store dst) (PvRef j) = false ->
  pg_lookup (pd_store (snd (fst (fst (pg_copied src dst fid))))) j = Some cell.
Proof.
  intros src dst fid j cell Hj Hnn.
  destruct (pg_cR_reserve 200 (PvRef fid) true (pg_c0 src dst)) as (_ & _ & D & more & T & NN).
  fold (pg_cres src dst fid) in *. cbn [pg_c0 pgc_dst pgc_tocopy] in *. rewrite app_nil_r in T.
  assert (Hc : pg_lookup (pgc_dst (pg_cres src dst fid)) j = Some cell) by (rewrite D; [exact Hj | congruence]).
  unfold pg_copied. fold (pg_c0 src dst). fold (pg_cres src dst fid).
  destruct (pgc_err (pg_cres src dst fid)); [exact Hc|].
  set (c := pg_cres src dst fid) in *.
  (* the replacement loop writes only to the local objects of to_copy, which were absent or null *)
  assert (Hfold : forall l0 ds reg e,
            (forall og, In og l0 -> In og more) -> pg_lookup ds j = Some cell ->
            pg_lookup (fst (fst (fold_left (pg_replace_step (pgc_src c) (pgc_omap c)) l0 (ds, reg, e)))) j = Some cell).
  { induction l0 as [|og t IH]; intros ds reg e Hin Hds; [exact Hds|].
    cbn [fold_left]. unfold pg_replace_step at 2. destruct e; [apply IH; [intros x Hx; apply Hin; right; exact Hx | exact Hds]|].
    destruct (NN og (Hin og (or_introl eq_refl))) as (l & Hl & Hnull). rewrite Hl.
    assert (l <> j) as Hlj by (intros ->; congruence).
    destruct (pg_lookup (pd_store (pgc_src c)) og) as [[v|d data k]|].
    - destruct (pg_is_null ds (PvRef l)); (apply IH; [intros x Hx; apply Hin; right; exact Hx|]); [|exact Hds].
      rewrite pg_lookup_supd. destruct (j =? l) eqn:E; [apply N.eqb_eq in E; congruence | exact Hds].
    - apply IH; [intros x Hx; apply Hin; right; exact Hx|].
      rewrite pg_lookup_supd. destruct (j =? l) eqn:E; [apply N.eqb_eq in E; congruence | exact Hds].
    - apply IH; [intros x Hx; apply Hin; right; exact Hx | exact Hds]. }
  specialize (Hfold (rev' (pgc_tocopy c)) (pgc_dst c) (pd_reg dst) None).
  assert (forall og, In og (rev' (pgc_tocopy c)) -> In og more) as Hin.
  { intros og H. rewrite rev'_rev in H. apply in_rev in H. rewrite T in H. exact H. }
  specialize (Hfold Hin Hc).
  destruct (fold_left _ (rev' (pgc_tocopy c)) (pgc_dst c, pd_reg dst, None)) as [[ds reg] e]. cbn [fst] in Hfold.
  destruct e; [exact Hfold|]. destruct (pg_omap_find (pgc_omap c) fid); exact Hfold.
Qed.

(* ------------------------------------------------------------------ injectivity of the object map, to_copy without duplicates *)
(* well-formedness of the copier state: mapped local objects exist, the map is injective, everything on to_copy is
   mapped, to_copy has no duplicates *)
Definition pg_cW (c : pg_cst) : Prop :=
  (forall og l, pg_omap_find (pgc_omap c) og = Some l -> pg_lookup (pgc_dst c) l <> None) /\
  (forall og og' l, pg_omap_find (pgc_omap c) og = Some l -> pg_omap_find (pgc_omap c) og' = Some l -> og = og') /\
  (forall og, In og (pgc_tocopy c) -> pg_omap_find (pgc_omap c) og <> None) /\
  NoDup (pgc_tocopy c).

Lemma pg_cW_eq : forall c c', pgc_dst c' = pgc_dst c -> pgc_omap c' = pgc_omap c -> pgc_tocopy c' = pgc_tocopy c -> pg_cW c -> pg_cW c'.
Proof. intros c c' Hd Ho Ht (A & B & C & D). unfold pg_cW. rewrite Hd, Ho, Ht. repeat split; assumption. Qed.

Lemma pg_type_is_fields : forall c h t,
  pgc_dst (fst (pg_src_type_is c h t)) = pgc_dst c /\ pgc_omap (fst (pg_src_type_is c h t)) = pgc_omap c /\
  pgc_tocopy (fst (pg_src_type_is c h t)) = pgc_tocopy c /\ pgc_visiting (fst (pg_src_type_is c h t)) = pgc_visiting c.
Proof.
  intros c h t. unfold pg_src_type_is. destruct h; try (repeat split; reflexivity).
  destruct (pg_all (pgc_src c)) as [src e]. destruct e; repeat split; reflexivity.
Qed.

Lemma pg_cW_type_is : forall c h t, pg_cW c -> pg_cW (fst (pg_src_type_is c h t)).
Proof. intros c h t H. destruct (pg_type_is_fields c h t) as (A & B & C & _). eapply pg_cW_eq; eauto. Qed.

Lemma pg_cW_head : forall h top c, pg_cW c -> (top = true -> pgc_tocopy c = []) -> pg_cW (fst (pg_reserve_head h top c)).
Proof.
  intros h top c W Htop. unfold pg_reserve_head. destruct h as [| | |og| |]; try exact W.
  destruct (pg_memN og (pgc_visiting c)); [exact W|].
  cbn [pgc_omap pgc_src pgc_dst pgc_visiting pgc_tocopy pgc_err].
  destruct (pg_omap_find (pgc_omap c) og) as [l|] eqn:Eo.
  - set (c1 := mkPgCst (pgc_src c) (pgc_dst c) (pgc_omap c) (og :: pgc_visiting c) (pgc_tocopy c) (pgc_err c)).
    assert (W1 : pg_cW c1) by (eapply pg_cW_eq; [| | |exact W]; reflexivity).
    destruct top.
    + pose proof (pg_cW_type_is c1 (PvRef og) pgk_Page W1) as W2.
      destruct (pg_type_is_fields c1 (PvRef og) pgk_Page) as (F1 & F2 & F3 & _).
      destruct (pg_src_type_is c1 (PvRef og) pgk_Page) as [c2 isp]. cbn [fst] in *.
      cbn [andb]. destruct (isp && pg_is_null (pgc_dst c2) (PvRef l)); cbn [fst].
      * destruct W2 as (A & B & C & D). unfold pg_cW. cbn [pgc_dst pgc_omap pgc_tocopy].
        split; [exact A|split; [exact B|split]].
        -- intros x [<-|Hx]; [rewrite F2; cbn [c1 pgc_omap]; congruence | apply C, Hx].
        -- rewrite F3. cbn [c1 pgc_tocopy]. rewrite (Htop eq_refl). constructor; [intros []|constructor].
      * eapply pg_cW_eq; [| | |exact W2]; reflexivity.
    + cbn [andb fst]. eapply pg_cW_eq; [| | |exact W1]; reflexivity.
  - set (cell := if pg_is_stream (pd_store (pgc_src c)) (PvRef og) then PcStream [] [] 0 else PcObj PvNull).
    assert ((if pg_is_stream (pd_store (pgc_src c)) (PvRef og) then pg_alloc (pgc_dst c) (PcStream [] [] 0) else pg_alloc (pgc_dst c) (PcObj PvNull))
            = pg_alloc (pgc_dst c) cell) as -> by (unfold cell; destruct (pg_is_stream _ _); reflexivity).
    set (ni := pg_next_id (pgc_dst c)).
    change (pg_alloc (pgc_dst c) cell) with ((ni, cell) :: pgc_dst c, ni). cbv iota beta.
    assert (Hfresh : pg_lookup (pgc_dst c) ni = None) by apply pg_next_id_fresh.
    destruct W as (A & B & C & D).
    assert (Hnot : ~ In og (pgc_tocopy c)) by (intros H; apply C in H; congruence).
    (* the state after the reservation, with or without og on to_copy *)
    assert (Wgen : forall vis tc e src, (tc = pgc_tocopy c \/ tc = og :: pgc_tocopy c) ->
              pg_cW (mkPgCst src ((ni, cell) :: pgc_dst c) ((og, ni) :: pgc_omap c) vis tc e)).
    { intros vis tc e src Htc. unfold pg_cW. cbn [pgc_dst pgc_omap pgc_tocopy].
      split; [|split; [|split]].
      - intros x l H. rewrite pg_omap_find_cons in H. cbn [pg_lookup]. destruct (x =? og) eqn:E.
        + inversion H; subst. rewrite N.eqb_refl. discriminate.
        + destruct (l =? ni); [discriminate|]. eapply A, H.
      - intros x y l Hx Hy. rewrite pg_omap_find_cons in Hx, Hy.
        destruct (x =? og) eqn:Ex; destruct (y =? og) eqn:Ey.
        + apply N.eqb_eq in Ex, Ey. congruence.
        + inversion Hx; subst. apply A in Hy. congruence.
        + inversion Hy; subst. apply A in Hx. congruence.
        + eapply B; eassumption.
      - intros x Hx. rewrite pg_omap_find_cons. destruct (x =? og) eqn:E; [discriminate|].
        destruct Htc as [->| ->]; [apply C, Hx|]. destruct Hx as [<-|Hx]; [rewrite N.eqb_refl in E; discriminate | apply C, Hx].
      - destruct Htc as [->| ->]; [exact D|constructor; assumption]. }
    destruct top.
    + cbn [negb andb fst]. apply Wgen. right. reflexivity.
    + set (c1 := mkPgCst (pgc_src c) ((ni, cell) :: pgc_dst c) ((og, ni) :: pgc_omap c) (og :: pgc_visiting c) (pgc_tocopy c) (pgc_err c)).
      assert (W1 : pg_cW c1) by (apply Wgen; left; reflexivity).
      pose proof (pg_cW_type_is c1 (PvRef og) pgk_Page W1) as W2.
      destruct (pg_type_is_fields c1 (PvRef og) pgk_Page) as (F1 & F2 & F3 & _).
      destruct (pg_src_type_is c1 (PvRef og) pgk_Page) as [c2 isp]. cbn [fst] in *.
      cbn [negb andb]. destruct isp; cbn [fst].
      * eapply pg_cW_eq; [| | |exact W2]; reflexivity.
      * destruct c2 as [s2 d2 o2 v2 t2 e2]. cbn [pgc_dst pgc_omap pgc_tocopy pgc_src pgc_visiting pgc_err] in *. subst d2 o2 t2.
        apply Wgen. right. reflexivity.
Qed.

Lemma pg_cW_fold : forall {A} (f : pg_cst -> A -> pg_cst) (l : list A) c,
  (forall c x, pg_cW c -> pg_cW (f c x)) -> pg_cW c -> pg_cW (fold_left f l c).
Proof.
  intros A f l. induction l as [|x t IH]; intros c H W; simpl; [exact W|]. apply IH; [exact H|apply H, W].
Qed.

Lemma pg_cW_kids : forall rec h c, (forall x c, pg_cW c -> pg_cW (rec x c)) -> pg_cW c -> pg_cW (pg_reserve_kids rec h c).
Proof.
  intros rec h c Hrec W. unfold pg_reserve_kids.
  assert (Hd : forall d c0, pg_cW c0 -> pg_cW (fold_left (fun c1 (kv : pg_key * pg_val) => if pg_is_null (pd_store (pgc_src c1)) (snd kv) then c1 else rec (snd kv) c1) d c0)).
  { intros d c0. apply pg_cW_fold. intros c1 kv W1. destruct (pg_is_null _ _); [exact W1 | apply Hrec, W1]. }
  assert (Ha : forall l c0, pg_cW c0 -> pg_cW (fold_left (fun c1 x => rec x c1) l c0)).
  { intros l c0. apply pg_cW_fold. intros c1 x W1. apply Hrec, W1. }
  destruct h as [| | |og|l|d]; try exact W; [|apply Ha, W|apply Hd, W].
  destruct (pg_lookup (pd_store (pgc_src c)) og) as [[v|d x k]|]; try exact W; [|apply Hd, W].
  destruct v; try exact W; [apply Ha, W|apply Hd, W].
Qed.

Local Transparent pg_reserve.
Lemma pg_cW_reserve : forall fuel h top c, pg_cW c -> (top = true -> pgc_tocopy c = []) -> pg_cW (pg_reserve fuel h top c).
Proof.
  induction fuel as [|f IH]; intros h top c W Htop; cbn [pg_reserve].
  - eapply pg_cW_eq; [| | |exact W]; reflexivity.
  - destruct (pgc_err c); [exact W|].
    pose proof (pg_cW_type_is c h pgk_Pages W) as W1.
    destruct (pg_type_is_fields c h pgk_Pages) as (_ & _ & F3 & _).
    destruct (pg_src_type_is c h pgk_Pages) as [c1 isp]. cbn [fst] in *.
    destruct (pgc_err c1); [exact W1|]. destruct isp; [exact W1|].
    destruct (pg_is_selfref (pd_store (pgc_src c1)) h); [eapply pg_cW_eq; [| | |exact W1]; reflexivity|].
    assert (Htop1 : top = true -> pgc_tocopy c1 = []) by (intros H; rewrite F3; apply Htop, H).
    pose proof (pg_cW_head h top c1 W1 Htop1) as W2.
    destruct (pg_reserve_head h top c1) as [c2 go]. cbn [fst] in W2.
    destruct (pgc_err c2); [exact W2|]. destruct go; cbn [negb]; [|exact W2].
    assert (Hrec : forall x c0, pg_cW c0 -> pg_cW (pg_reserve f x false c0)).
    { intros x c0 W0. apply IH; [exact W0|discriminate]. }
    pose proof (pg_cW_kids (fun x c0 => pg_reserve f x false c0) h c2 Hrec W2) as W3.
    destruct (pgc_err (pg_reserve_kids (fun x c0 => pg_reserve f x false c0) h c2)); [exact W3|].
    unfold pg_reserve_done. destruct h; exact W3.
Qed.
Local Opaque pg_reserve.

(* ------------------------------------------------------------------ the replacement phase *)
Lemma pg_replace_step_err : forall src omap l ds reg x,
  fold_left (pg_replace_step src omap) l (ds, reg, Some x) = (ds, reg, Some x).
Proof. induction l as [|og t IH]; intros; [reflexivity|]. cbn [fold_left pg_replace_step]. apply IH. Qed.

(* the replacement loop: every object on the list ends up as the renamed source value, everything that is not the
   image of a listed object is left alone *)
Lemma pg_replace_fold : forall src omap L ds reg ds' reg',
  NoDup L -> (forall og, In og L -> pg_omap_find omap og <> None) ->
  (forall og og' l, pg_omap_find omap og = Some l -> pg_omap_find omap og' = Some l -> og = og') ->
  fold_left (pg_replace_step src omap) L (ds, reg, None) = (ds', reg', None) ->
  (forall og l v, In og L -> pg_omap_find omap og = Some l -> pg_lookup (pd_store src) og = Some (PcObj v) ->
     pg_lookup ds' l = Some (PcObj (pg_rename (pd_store src) omap v))) /\
  (forall j, (forall og, In og L -> pg_omap_find omap og <> Some j) -> pg_lookup ds' j = pg_lookup ds j).
Proof.
  intros src omap L. induction L as [|og t IH]; intros ds reg ds' reg' Hnd Hmap Hinj Hfold.
  - cbn in Hfold. inversion Hfold; subst. split; [intros og l v []|reflexivity].
  - inversion Hnd as [|? ? Hnot Hnd']; subst.
    cbn [fold_left] in Hfold. unfold pg_replace_step at 2 in Hfold.
    destruct (pg_omap_find omap og) as [l|] eqn:El; [|rewrite pg_replace_step_err in Hfold; inversion Hfold].
    assert (Hother : forall og', In og' t -> pg_omap_find omap og' <> Some l).
    { intros og' Hin E. assert (og = og') by (eapply Hinj; eassumption). subst. contradiction. }
    destruct (pg_lookup (pd_store src) og) as [[v|d data k]|] eqn:Es.
    + destruct (pg_is_null ds (PvRef l)); [|rewrite pg_replace_step_err in Hfold; inversion Hfold].
      destruct (IH _ _ _ _ Hnd' (fun x Hx => Hmap x (or_intror Hx)) Hinj Hfold) as [H1 H2]. split.
      * intros og' l' v' [<-|Hin] Hl' Hv'.
        -- rewrite El in Hl'. inversion Hl'; subst l'. rewrite Es in Hv'. inversion Hv'; subst v'.
           rewrite H2 by exact Hother. rewrite pg_lookup_supd, N.eqb_refl. reflexivity.
        -- eapply H1; eassumption.
      * intros j Hj. rewrite H2 by (intros x Hx; apply Hj; right; exact Hx).
        rewrite pg_lookup_supd. destruct (j =? l) eqn:E; [|reflexivity].
        apply N.eqb_eq in E. subst j. exfalso. apply (Hj og (or_introl eq_refl)). exact El.
    + destruct (IH _ _ _ _ Hnd' (fun x Hx => Hmap x (or_intror Hx)) Hinj Hfold) as [H1 H2]. split.
      * intros og' l' v' [<-|Hin] Hl' Hv'; [rewrite Es in Hv'; discriminate | eapply H1; eassumption].
      * intros j Hj. rewrite H2 by (intros x Hx; apply Hj; right; exact Hx).
        rewrite pg_lookup_supd. destruct (j =? l) eqn:E; [|reflexivity].
        apply N.eqb_eq in E. subst j. exfalso. apply (Hj og (or_introl eq_refl)). exact El.
    + rewrite pg_replace_step_err in Hfold. inversion Hfold.
Qed.

(* the copier state a document starts a copy with is well formed when every mapped local object exists and the map is
   injective (true for the empty map, and kept by every copy: pg_cW_reserve) *)
Definition pg_omap_wf (dst : pg_doc) : Prop :=
  (forall og l, pg_omap_find (pd_omap dst) og = Some l -> pg_lookup (pd_store dst) l <> None) /\
  (forall og og' l, pg_omap_find (pd_omap dst) og = Some l -> pg_omap_find (pd_omap dst) og' = Some l -> og = og').

(* FULL STATEMENT (DESIGN C13 copy_iso): the objects reachable from the copy are isomorphic, as a graph, to the objects
   reachable from the source object when the walk stops at /Pages nodes and at pages other than the copied one, sharing
   and cycles included.
   PROVED HERE (partial): the local form of that isomorphism.  The object map is an injective function (so two
   references are equal after the copy iff they were equal before: sharing and cycles are kept), and every object the
   reservation walk put on to_copy is, after a successful copy, exactly the source value with every reference replaced
   by its image under that map (pg_rename: references to objects that were not reserved - /Pages nodes - become null,
   null-valued dictionary keys are dropped).
   MISSING: that to_copy is exactly the set of objects reachable from the source object without crossing a page
   boundary (closure of the reservation walk under the fuel bound).  That part is checked on every explored copy by the
   isomorphism oracle of harness/c13.py. *)
Lemma copy_iso_partial_lemma : forall src dst fid,
  pg_omap_wf dst ->
  let c := pg_cres src dst fid in
  let '(src', dst', e, r) := pg_copied src dst fid in
  e = None ->
  (forall og og' l, pg_omap_find (pd_omap dst') og = Some l -> pg_omap_find (pd_omap dst') og' = Some l -> og = og') /\
  (forall og l v, In og (pgc_tocopy c) -> pg_omap_find (pd_omap dst') og = Some l ->
     pg_lookup (pd_store src') og = Some (PcObj v) ->
     pg_lookup (pd_store dst') l = Some (PcObj (pg_rename (pd_store src') (pd_omap dst') v))).
Proof.
  intros src dst fid [Wex Winj] c.
  assert (W : pg_cW c).
  { apply pg_cW_reserve; [|reflexivity]. unfold pg_cW, pg_c0. cbn [pgc_dst pgc_omap pgc_tocopy].
    split; [exact Wex|split; [exact Winj|split; [intros og []|constructor]]]. }
  destruct W as (A & B & C & D).
  unfold pg_copied. fold (pg_c0 src dst). fold (pg_cres src dst fid). fold c.
  destruct (pgc_err c); [intros H; discriminate|].
  destruct (fold_left (pg_replace_step (pgc_src c) (pgc_omap c)) (rev' (pgc_tocopy c)) (pgc_dst c, pd_reg dst, None)) as [[ds reg] e] eqn:Ef.
  destruct e as [x|].
  - intros H. discriminate.
  - assert (Hres : forall l0 : nat, (forall og og' l, pg_omap_find (pgc_omap c) og = Some l -> pg_omap_find (pgc_omap c) og' = Some l -> og = og') /\
       (forall og l v, In og (pgc_tocopy c) -> pg_omap_find (pgc_omap c) og = Some l -> pg_lookup (pd_store (pgc_src c)) og = Some (PcObj v) ->
          pg_lookup ds l = Some (PcObj (pg_rename (pd_store (pgc_src c)) (pgc_omap c) v)))).
    { intros _. split; [exact B|].
      destruct (pg_replace_fold (pgc_src c) (pgc_omap c) (rev' (pgc_tocopy c)) (pgc_dst c) (pd_reg dst) ds reg) as [H1 _].
      - rewrite rev'_rev. apply NoDup_rev, D.
      - intros og H. rewrite rev'_rev in H. apply in_rev in H. apply C, H.
      - exact B.
      - exact Ef.
      - intros og l v Hin. apply H1. rewrite rev'_rev. apply in_rev. rewrite rev_involutive. exact Hin. }
    destruct (pg_omap_find (pgc_omap c) fid); intros _; exact (Hres O).
Qed.

Lemma pg_replace_fold_some : forall src omap L st j,
  pg_lookup (fst (fst st)) j <> None -> pg_lookup (fst (fst (fold_left (pg_replace_step src omap) L st))) j <> None.
Proof.
  intros src omap L. induction L as [|og t IH]; intros [[ds reg] e] j H; [exact H|].
  cbn [fold_left]. apply IH. unfold pg_replace_step. cbn [fst] in *.
  destruct e; [exact H|]. destruct (pg_omap_find omap og) as [l|]; [|exact H].
  destruct (pg_lookup (pd_store src) og) as [[v|d data k]|]; cbn [fst]; try exact H.
  - destruct (pg_is_null ds (PvRef l)); cbn [fst]; [|exact H]. rewrite pg_lookup_supd. destruct (j =? l); [discriminate|exact H].
  - rewrite pg_lookup_supd. destruct (j =? l); [discriminate|exact H].
Qed.

(* the hypothesis of copy_iso_partial is an invariant of copying (it holds for the empty map of a fresh document) *)
Lemma copy_omap_wf_lemma : forall src dst fid,
  pg_omap_wf dst -> pg_omap_wf (snd (fst (fst (pg_copied src dst fid)))).
Proof.
  intros src dst fid [Wex Winj].
  assert (W : pg_cW (pg_cres src dst fid)).
  { apply pg_cW_reserve; [|reflexivity]. unfold pg_cW, pg_c0. cbn [pgc_dst pgc_omap pgc_tocopy].
    split; [exact Wex|split; [exact Winj|split; [intros og []|constructor]]]. }
  destruct W as (A & B & _ & _).
  unfold pg_copied. fold (pg_c0 src dst). fold (pg_cres src dst fid). set (c := pg_cres src dst fid) in *.
  destruct (pgc_err c); [split; cbn; assumption|].
  pose proof (pg_replace_fold_some (pgc_src c) (pgc_omap c) (rev' (pgc_tocopy c)) (pgc_dst c, pd_reg dst, None)) as Hs.
  destruct (fold_left (pg_replace_step (pgc_src c) (pgc_omap c)) (rev' (pgc_tocopy c)) (pgc_dst c, pd_reg dst, None)) as [[ds reg] e].
  cbn [fst] in Hs.
  assert (pg_omap_wf (pd_with_reg (pd_with_omap (pd_with_store dst ds) (pgc_omap c)) reg)) as Hw.
  { split; cbn; [|exact B]. intros og l H. apply Hs, (A og l H). }
  destruct e; [exact Hw|]. destruct (pg_omap_find (pgc_omap c) fid); exact Hw.
Qed.

Lemma pg_omap_wf_init : forall s r, pg_omap_wf (pg_init_doc s r).
Proof. intros. split; cbn; intros; discriminate. Qed.
