(* C08 - proofs about the recovery model (File/Recover.v) against the specification side (File/RecoverSpec.v). *)
From QV Require Import Base.Bytes File.StrictSyntax File.Recover File.RecoverSpec.
From Coq Require Import Sorting.Sorted.
Local Open Scope N_scope.

(* ================================================================== the table: last definition wins *)

Lemma og_eqb_refl k : rc_og_eqb k k = true.
Proof. unfold rc_og_eqb. rewrite !Z.eqb_refl. reflexivity. Qed.

Lemma og_eqb_eq a b : rc_og_eqb a b = true <-> a = b.
Proof.
  unfold rc_og_eqb. destruct a as [a1 a2], b as [b1 b2]; simpl. rewrite andb_true_iff, !Z.eqb_eq.
  split; [intros [-> ->]; reflexivity | intros H; injection H; auto].
Qed.

Lemma og_eqb_sym a b : rc_og_eqb a b = rc_og_eqb b a.
Proof. unfold rc_og_eqb. rewrite (Z.eqb_sym (fst a)), (Z.eqb_sym (snd a)). reflexivity. Qed.

Lemma og_ltb_irrefl_eq a b : rc_og_eqb a b = true -> rc_og_ltb a b = false.
Proof.
  intros H. apply og_eqb_eq in H. subst b. unfold rc_og_ltb.
  rewrite !Z.ltb_irrefl, Z.eqb_refl. reflexivity.
Qed.

Lemma og_ltb_trans a b c : rc_og_ltb a b = true -> rc_og_ltb b c = true -> rc_og_ltb a c = true.
Proof.
  unfold rc_og_ltb. destruct a as [a1 a2], b as [b1 b2], c as [c1 c2]; simpl.
  rewrite !orb_true_iff, !andb_true_iff, !Z.ltb_lt, !Z.eqb_eq. intros H1 H2. lia.
Qed.

Definition og_sorted (t : rc_table) : Prop :=
  StronglySorted (fun a b => rc_og_ltb (fst a) (fst b) = true) t.

Lemma lookup_none_lt k t :
  og_sorted t -> (forall e, In e t -> rc_og_ltb k (fst e) = true) -> rc_lookup k t = None.
Proof.
  induction t as [|[k' v] t IH]; intros Hs Hlt; simpl; [reflexivity|].
  assert (H : rc_og_ltb k k' = true) by (apply (Hlt (k', v)); left; reflexivity).
  destruct (rc_og_eqb k k') eqn:E.
  - apply og_ltb_irrefl_eq in E. congruence.
  - apply IH. + inversion Hs; assumption. + intros e He. apply Hlt. right. exact He.
Qed.

Lemma emplace_sorted k v t : og_sorted t -> og_sorted (rc_emplace k v t).
Proof.
  induction t as [|[k' v'] t IH]; intros Hs; simpl.
  - constructor; constructor.
  - destruct (rc_og_eqb k k') eqn:E; [exact Hs|].
    destruct (rc_og_ltb k k') eqn:L.
    + constructor; [exact Hs|]. constructor; [exact L|].
      inversion Hs as [|? ? Hs' Hall]; subst. rewrite Forall_forall in *. intros e He.
      apply og_ltb_trans with k'; [exact L | apply Hall; exact He].
    + inversion Hs as [|? ? Hs' Hall]; subst. constructor; [apply IH; exact Hs'|].
      rewrite Forall_forall in *. intros e He.
      assert (Hin : forall t0, In e (rc_emplace k v t0) -> e = (k, v) \/ In e t0).
      { induction t0 as [|[k0 v0] t0 IH0]; simpl; intros H0.
        - destruct H0 as [<-|[]]; left; reflexivity.
        - destruct (rc_og_eqb k k0); [right; exact H0|].
          destruct (rc_og_ltb k k0); [destruct H0 as [<-|H0]; [left; reflexivity | right; exact H0]|].
          destruct H0 as [<-|H0]; [right; left; reflexivity|].
          destruct (IH0 H0) as [->|H1]; [left; reflexivity | right; right; exact H1]. }
      destruct (Hin _ He) as [->|He']; [|apply Hall; exact He'].
      simpl. (* k' < k because not (k < k') and k <> k' *)
      unfold rc_og_ltb, rc_og_eqb in *. destruct k as [a1 a2], k' as [b1 b2]; simpl in *.
      rewrite orb_false_iff, andb_false_iff in L. rewrite andb_false_iff in E.
      rewrite orb_true_iff, andb_true_iff, !Z.ltb_lt, Z.eqb_eq.
      rewrite !Z.ltb_ge in L. rewrite !Z.eqb_neq in E, L. lia.
Qed.

Lemma lookup_emplace_same k v t :
  og_sorted t ->
  rc_lookup k (rc_emplace k v t) = match rc_lookup k t with Some v' => Some v' | None => Some v end.
Proof.
  induction t as [|[k' v'] t IH]; intros Hs; cbn [rc_lookup rc_emplace].
  - rewrite og_eqb_refl. reflexivity.
  - destruct (rc_og_eqb k k') eqn:E.
    + cbn [rc_lookup]. rewrite E. reflexivity.
    + destruct (rc_og_ltb k k') eqn:L.
      * cbn [rc_lookup]. rewrite og_eqb_refl.
        rewrite lookup_none_lt; [reflexivity | inversion Hs; assumption |].
        inversion Hs as [|? ? Hs' Hall]; subst. rewrite Forall_forall in Hall. intros e He.
        apply og_ltb_trans with k'; [exact L | apply Hall; exact He].
      * cbn [rc_lookup]. rewrite ?E. apply IH. inversion Hs; assumption.
Qed.

Lemma lookup_emplace_other k k' v t :
  rc_og_eqb k k' = false -> rc_lookup k (rc_emplace k' v t) = rc_lookup k t.
Proof.
  intros Hne. induction t as [|[k0 v0] t IH]; cbn [rc_lookup rc_emplace].
  - rewrite Hne. reflexivity.
  - destruct (rc_og_eqb k' k0) eqn:E; [reflexivity|].
    destruct (rc_og_ltb k' k0); cbn [rc_lookup].
    + rewrite Hne. reflexivity.
    + destruct (rc_og_eqb k k0); [reflexivity | exact IH].
Qed.

(* the first definition of k in a list of found headers *)
Fixpoint first_def (k : rc_og) (l : list (Z * Z * N)) : option N :=
  match l with
  | [] => None
  | (o, g, a) :: r => if rc_og_eqb k (o, g) then Some a else first_def k r
  end.

Lemma insert_sorted maxid o g a t : og_sorted t -> og_sorted (rc_insert maxid [] o g a t).
Proof.
  intros Hs. unfold rc_insert. destruct (_ && _ && _ && _)%bool; [|exact Hs].
  simpl. apply emplace_sorted. exact Hs.
Qed.

Lemma insert_all_lookup maxid k : rs_valid_id maxid k = true ->
  forall l t, og_sorted t ->
  rc_lookup k (rc_insert_all maxid [] l t) =
  match rc_lookup k t with Some v => Some v | None => first_def k l end.
Proof.
  intros Hv. induction l as [|[[o g] a] l IH]; intros t Hs; simpl.
  - destruct (rc_lookup k t); reflexivity.
  - rewrite IH by (apply insert_sorted; exact Hs).
    unfold rc_insert. destruct (rc_og_eqb k (o, g)) eqn:E.
    + apply og_eqb_eq in E. subst k. unfold rs_valid_id in Hv. simpl in Hv. rewrite Hv. simpl.
      rewrite lookup_emplace_same by exact Hs. destruct (rc_lookup (o, g) t); reflexivity.
    + destruct (_ && _ && _ && _)%bool; [|reflexivity]. simpl.
      rewrite lookup_emplace_other by exact E. reflexivity.
Qed.

Lemma insert_all_lookup_invalid maxid k : rs_valid_id maxid k = false ->
  forall l t, rc_lookup k t = None -> rc_lookup k (rc_insert_all maxid [] l t) = None.
Proof.
  intros Hv. induction l as [|[[o g] a] l IH]; intros t Ht; simpl; [exact Ht|].
  apply IH. unfold rc_insert. destruct (_ && _ && _ && _)%bool eqn:V; [|exact Ht]. simpl.
  destruct (rc_og_eqb k (o, g)) eqn:E.
  - apply og_eqb_eq in E. subst k. unfold rs_valid_id in Hv. simpl in Hv. congruence.
  - rewrite lookup_emplace_other by exact E. exact Ht.
Qed.

Lemma last_def_snoc k l x cur :
  rs_last_def k (l ++ [x]) cur =
  (let '(o, g, a) := x in if ((o =? fst k) && (g =? snd k))%Z then Some a else rs_last_def k l cur).
Proof.
  revert cur. induction l as [|[[o' g'] a'] l IH]; intros cur; simpl.
  - destruct x as [[o g] a]. reflexivity.
  - apply IH.
Qed.

Lemma first_def_rev k l : first_def k (rev l) = rs_last_def k l None.
Proof.
  induction l as [|[[o g] a] l IH] using rev_ind; [reflexivity|].
  rewrite rev_app_distr. simpl. rewrite last_def_snoc. rewrite IH.
  unfold rc_og_eqb. simpl. rewrite (Z.eqb_sym (fst k)), (Z.eqb_sym (snd k)). reflexivity.
Qed.

(* scan_last_wins: whatever list of headers the scan found, the reconstructed table maps every representable id
   to the offset of its LAST definition in file order (and holds nothing else) *)
Lemma scan_last_wins_lemma : forall (maxid : Z) (found : list (Z * Z * N)) (k : Z * Z),
  rc_lookup k (rc_insert_all maxid [] (rev' found) []) =
  if rs_valid_id maxid k then rs_last_def k found None else None.
Proof.
  intros maxid found k. rewrite rev'_rev. destruct (rs_valid_id maxid k) eqn:V.
  - rewrite insert_all_lookup by (exact V || constructor). simpl. apply first_def_rev.
  - apply insert_all_lookup_invalid; [exact V | reflexivity].
Qed.

(* ================================================================== locality of the tokenizer and of the line skip *)

Definition tk_step (ml : N) (m : rc_tk) (c : N) : rc_tk :=
  let m1 := rc_handle' m c in
  let m2 := if k_in m1 then k_push m1 c else m1 in
  if negb (ml =? 0) && (ml <=? k_len m2) && negb (rc_st_ready (k_st m2)) then k_done m2 TtBad else m2.

Lemma rc_next_cons ml m c s cn :
  rc_next ml m (c :: s) cn =
  if rc_st_ready (k_st m) then (m, cn, false) else rc_next ml (tk_step ml m c) s (cn + 1).
Proof. reflexivity. Qed.

Lemma rc_next_nil ml m cn :
  rc_next ml m [] cn = if rc_st_ready (k_st m) then (m, cn, false) else (rc_present_eof m, cn, true).
Proof. reflexivity. Qed.

Lemma rc_next_ready ml m s cn : rc_st_ready (k_st m) = true -> rc_next ml m s cn = (m, cn, false).
Proof. intros H. destruct s; [rewrite rc_next_nil | rewrite rc_next_cons]; rewrite H; reflexivity. Qed.

Lemma rc_next_app ml : forall s m cn m' c' r,
  rc_next ml m s cn = (m', c', false) -> rc_next ml m (s ++ r) cn = (m', c', false).
Proof.
  induction s as [|c s IH]; intros m cn m' c' r H.
  - rewrite rc_next_nil in H. destruct (rc_st_ready (k_st m)) eqn:R; [|discriminate].
    injection H as <- <-. simpl. apply rc_next_ready. exact R.
  - simpl. rewrite rc_next_cons in *. destruct (rc_st_ready (k_st m)); [exact H|]. apply IH. exact H.
Qed.

Lemma rc_next_bound ml : forall s m cn m' c' e,
  rc_next ml m s cn = (m', c', e) -> cn <= c' /\ c' <= cn + N.of_nat (length s).
Proof.
  induction s as [|c s IH]; intros m cn m' c' e H.
  - rewrite rc_next_nil in H. destruct (rc_st_ready (k_st m)); injection H as <- <- <-; simpl; lia.
  - rewrite rc_next_cons in H. destruct (rc_st_ready (k_st m)).
    + injection H as <- <- <-. simpl length. lia.
    + apply IH in H. simpl length. lia.
Qed.

Lemma read_token_end_le ml s : rc_t_end (rc_read_token ml s) <= N.of_nat (length s).
Proof.
  unfold rc_read_token. destruct (rc_next ml rc_tk0 s 0) as [[m cn] e] eqn:H.
  apply rc_next_bound in H. simpl. destruct (negb (k_in m) && negb (k_before m)); lia.
Qed.

Lemma read_token_app ml s r :
  rc_t_eof (rc_read_token ml s) = false -> rc_read_token ml (s ++ r) = rc_read_token ml s.
Proof.
  unfold rc_read_token. destruct (rc_next ml rc_tk0 s 0) as [[m cn] e] eqn:H. simpl. intros ->.
  rewrite (rc_next_app _ _ _ _ _ _ r H). reflexivity.
Qed.

Lemma rc_drop_app n s r : n <= N.of_nat (length s) -> rc_drop n (s ++ r) = rc_drop n s ++ r.
Proof.
  intros H. unfold rc_drop. rewrite skipn_app.
  replace (N.to_nat n - length s)%nat with 0%nat by lia. reflexivity.
Qed.

Lemma rc_drop_length n s : n <= N.of_nat (length s) -> N.of_nat (length (rc_drop n s)) = N.of_nat (length s) - n.
Proof. intros H. unfold rc_drop. rewrite skipn_length. lia. Qed.

Lemma to_eol_found : forall s n c s1 k r,
  rc_to_eol s n = (c :: s1, k) -> rc_to_eol (s ++ r) n = ((c :: s1) ++ r, k).
Proof.
  induction s as [|x s IH]; intros n c s1 k r H; simpl in *; [discriminate|].
  destruct (rc_is_eol x); [injection H as <- <- <-; reflexivity | apply IH; exact H].
Qed.

Lemma to_eol_len : forall s n s1 k,
  rc_to_eol s n = (s1, k) -> k + N.of_nat (length s1) = n + N.of_nat (length s).
Proof.
  induction s as [|x s IH]; intros n s1 k H; simpl in *.
  - injection H as <- <-. reflexivity.
  - destruct (rc_is_eol x); [injection H as <- <-; simpl length; lia | apply IH in H; lia].
Qed.

Lemma eols_inside : forall s n c s1 k r,
  rc_eols s n = (c :: s1, k) -> rc_eols (s ++ r) n = ((c :: s1) ++ r, k).
Proof.
  induction s as [|x s IH]; intros n c s1 k r H; simpl in *; [discriminate|].
  destruct (rc_is_eol x); [apply IH; exact H | injection H as <- <- <-; reflexivity].
Qed.

Lemma eols_end : forall s n k c r,
  rc_eols s n = ([], k) -> rc_is_eol c = false ->
  rc_eols (s ++ c :: r) n = (c :: r, k) /\ k = n + N.of_nat (length s).
Proof.
  induction s as [|x s IH]; intros n k c r H Hc; simpl in *.
  - injection H as <-. rewrite Hc. split; [reflexivity | lia].
  - destruct (rc_is_eol x); [|discriminate]. destruct (IH _ _ _ r H Hc) as [E1 E2]. split; [exact E1 | lia].
Qed.

Lemma skip_eol_inside s rest k r :
  rc_skip_eol s = (rest, k, WInside) -> rc_skip_eol (s ++ r) = (rest ++ r, k, WInside).
Proof.
  unfold rc_skip_eol. destruct (rc_to_eol s 0) as [[|c s1] n] eqn:T; [discriminate|].
  rewrite (to_eol_found _ _ _ _ _ r T). simpl app.
  destruct (rc_eols s1 (n + 1)) as [[|c2 s2] k2] eqn:E; [discriminate|].
  intros H. injection H as <- <-. rewrite (eols_inside _ _ _ _ _ r E). reflexivity.
Qed.

Lemma skip_eol_end s rest k c r :
  rc_skip_eol s = (rest, k, WEolEnd) -> rc_is_eol c = false ->
  rc_skip_eol (s ++ c :: r) = (c :: r, k, WInside) /\ k = N.of_nat (length s).
Proof.
  unfold rc_skip_eol. destruct (rc_to_eol s 0) as [[|c1 s1] n] eqn:T; [discriminate|].
  rewrite (to_eol_found _ _ _ _ _ (c :: r) T). simpl app.
  destruct (rc_eols s1 (n + 1)) as [[|c2 s2] k2] eqn:E; [|discriminate].
  intros H Hc. injection H as <- <-. destruct (eols_end _ _ _ _ r E Hc) as [E1 E2]. rewrite E1.
  split; [reflexivity|]. apply to_eol_len in T. simpl length in T. lia.
Qed.

(* ================================================================== locality of one iteration of the scan *)

Definition step_ev (s : list N) : option rc_event * bool :=
  let t1 := rc_read_token 10 s in
  let s1 := rc_drop (rc_t_end t1) s in
  if rc_is_int t1 then
    let t2 := rc_read_token 10 s1 in
    if rc_is_int t2 then
      let t3 := rc_read_token 10 (rc_drop (rc_t_end t2) s1) in
      (if rc_is_word t3 rc_kw_obj
       then Some (EvObj (rc_atoi (rc_t_raw t1)) (rc_atoi (rc_t_raw t2)) (rc_t_end t1 - N.of_nat (length (rc_t_raw t1))))
       else None, rc_t_eof t1 || rc_t_eof t2 || rc_t_eof t3)
    else (None, rc_t_eof t1 || rc_t_eof t2)
  else if rc_is_word t1 rc_kw_trailer then (Some (EvTrailer (rc_t_end t1)), rc_t_eof t1)
  else if rc_is_word t1 rc_kw_startxref then (Some (EvStartxref (rc_t_end t1)), rc_t_eof t1)
  else (None, rc_t_eof t1).

Lemma scan_step_eq s :
  rc_scan_step s =
  (let '(ev, touched) := step_ev s in
   let '(_, k, w) := rc_skip_eol (rc_drop (rc_t_end (rc_read_token 10 s)) s) in
   (ev, rc_t_end (rc_read_token 10 s) + k, w, touched)).
Proof. reflexivity. Qed.

Lemma step_ev_t1 s ev : step_ev s = (ev, false) -> rc_t_eof (rc_read_token 10 s) = false.
Proof.
  unfold step_ev. destruct (rc_is_int (rc_read_token 10 s)).
  - destruct (rc_is_int _); intros H; injection H as _ H; rewrite ?orb_false_iff in H; tauto.
  - destruct (rc_is_word _ rc_kw_trailer); [intros H; injection H as _ H; exact H|].
    destruct (rc_is_word _ rc_kw_startxref); intros H; injection H as _ H; exact H.
Qed.

Lemma step_ev_app s r ev : step_ev s = (ev, false) -> step_ev (s ++ r) = (ev, false).
Proof.
  intros H. pose proof (step_ev_t1 _ _ H) as H1.
  unfold step_ev in *.
  rewrite (read_token_app _ _ r H1).
  rewrite (rc_drop_app _ s r (read_token_end_le 10 s)).
  destruct (rc_is_int (rc_read_token 10 s)); [|exact H].
  remember (rc_drop (rc_t_end (rc_read_token 10 s)) s) as s1.
  assert (H2 : rc_t_eof (rc_read_token 10 s1) = false).
  { destruct (rc_is_int (rc_read_token 10 s1)); injection H as _ H; rewrite ?orb_false_iff in H; tauto. }
  rewrite (read_token_app _ _ r H2).
  destruct (rc_is_int (rc_read_token 10 s1)); [|exact H].
  rewrite (rc_drop_app _ s1 r (read_token_end_le 10 s1)).
  assert (H3 : rc_t_eof (rc_read_token 10 (rc_drop (rc_t_end (rc_read_token 10 s1)) s1)) = false).
  { injection H as _ H. rewrite ?orb_false_iff in H. tauto. }
  rewrite (read_token_app _ _ r H3). exact H.
Qed.

Lemma scan_step_inside s r ev k :
  rc_scan_step s = (ev, k, WInside, false) -> rc_scan_step (s ++ r) = (ev, k, WInside, false).
Proof.
  rewrite !scan_step_eq. destruct (step_ev s) as [ev0 tch] eqn:SE.
  destruct (rc_skip_eol _) as [[rest k0] w] eqn:SK. intros H. injection H as <- <- -> ->.
  rewrite (step_ev_app _ r _ SE). pose proof (step_ev_t1 _ _ SE) as H1.
  rewrite (read_token_app _ _ r H1). rewrite (rc_drop_app _ _ r (read_token_end_le _ _)).
  rewrite (skip_eol_inside _ _ _ r SK). reflexivity.
Qed.

Lemma scan_step_end s c r ev k :
  rc_scan_step s = (ev, k, WEolEnd, false) -> rc_is_eol c = false ->
  rc_scan_step (s ++ c :: r) = (ev, k, WInside, false) /\ k = N.of_nat (length s).
Proof.
  rewrite !scan_step_eq. destruct (step_ev s) as [ev0 tch] eqn:SE.
  destruct (rc_skip_eol _) as [[rest k0] w] eqn:SK. intros H Hc. injection H as <- <- -> ->.
  rewrite (step_ev_app _ (c :: r) _ SE). pose proof (step_ev_t1 _ _ SE) as H1.
  rewrite (read_token_app _ _ (c :: r) H1). rewrite (rc_drop_app _ _ (c :: r) (read_token_end_le _ _)).
  destruct (skip_eol_end _ _ _ _ r SK Hc) as [E1 E2]. rewrite E1. split; [reflexivity|].
  rewrite E2. rewrite rc_drop_length by apply read_token_end_le.
  pose proof (read_token_end_le 10 s). lia.
Qed.

(* ================================================================== the walk: accumulator, shift, skipping *)

Notation len l := (N.of_nat (length l)).

Lemma shift_shift a b e : rc_shift a (rc_shift b e) = rc_shift (a + b) e.
Proof. destruct e; simpl; f_equal; lia. Qed.

Lemma walk_cons x s skip base acc :
  rc_scan_walk (x :: s) skip base acc =
  if 0 <? skip then rc_scan_walk s (skip - 1) (base + 1) acc
  else match rc_scan_step (x :: s) with
       | (ev, k, _, _) => rc_scan_walk s (k - 1) (base + 1)
                            (match ev with Some e => rc_shift base e :: acc | None => acc end)
       end.
Proof. reflexivity. Qed.
Lemma walk_nil skip base acc : rc_scan_walk [] skip base acc = rev' acc.
Proof. reflexivity. Qed.
Global Arguments rc_scan_walk : simpl never.

Lemma walk_acc : forall s skip base acc,
  rc_scan_walk s skip base acc = rev acc ++ rc_scan_walk s skip base [].
Proof.
  induction s as [|x s IH]; intros skip base acc; rewrite ?walk_cons, ?walk_nil.
  - rewrite !rev'_rev. simpl. rewrite app_nil_r. reflexivity.
  - destruct (0 <? skip); [apply IH|].
    destruct (rc_scan_step (x :: s)) as [[[ev k] w] tch].
    destruct ev as [e|]; [|apply IH].
    rewrite IH. rewrite (IH _ _ [rc_shift base e]). simpl. rewrite <- app_assoc. reflexivity.
Qed.

Lemma walk_shift d : forall s skip b acc,
  rc_scan_walk s skip (d + b) (map (rc_shift d) acc) = map (rc_shift d) (rc_scan_walk s skip b acc).
Proof.
  induction s as [|x s IH]; intros skip b acc; rewrite ?walk_cons, ?walk_nil.
  - rewrite !rev'_rev. rewrite map_rev. reflexivity.
  - replace (d + b + 1) with (d + (b + 1)) by lia.
    destruct (0 <? skip); [apply IH|].
    destruct (rc_scan_step (x :: s)) as [[[ev k] w] tch].
    destruct ev as [e|]; [|apply IH].
    rewrite <- IH. simpl. rewrite shift_shift. reflexivity.
Qed.

Lemma walk_skip : forall a b skip base acc,
  len a <= skip ->
  rc_scan_walk (a ++ b) skip base acc = rc_scan_walk b (skip - len a) (base + len a) acc.
Proof.
  induction a as [|x a IH]; intros b skip base acc H.
  - simpl. rewrite N.sub_0_r, N.add_0_r. reflexivity.
  - simpl app. rewrite walk_cons. simpl length in *.
    replace (0 <? skip) with true by (symmetry; apply N.ltb_lt; lia).
    rewrite IH by lia. f_equal; lia.
Qed.

(* ================================================================== a quiet segment in the middle of a file *)

Lemma len_cons {A} (x : A) (l : list A) : len (x :: l) = len l + 1.
Proof. simpl length. lia. Qed.

Lemma seg_walk_app c r : rc_is_eol c = false ->
  forall s skip d evs b,
  rs_seg_walk s skip d = Some evs ->
  rc_scan_walk (s ++ c :: r) skip (b + d) [] =
  map (rc_shift b) evs ++ rc_scan_walk (c :: r) 0 (b + d + len s) [].
Proof.
  intros Hc. remember (c :: r) as cr eqn:Hcr.
  induction s as [|x s IH]; intros skip d evs b H.
  - simpl in H. destruct (skip =? 0) eqn:E; [|discriminate]. injection H as <-.
    apply N.eqb_eq in E. subst skip. simpl. rewrite N.add_0_r. reflexivity.
  - cbn [rs_seg_walk] in H. rewrite len_cons. simpl app. rewrite walk_cons.
    replace (b + d + (len s + 1)) with (b + (d + 1) + len s) by lia.
    replace (b + d + 1) with (b + (d + 1)) by lia.
    destruct (0 <? skip); [apply IH; exact H|].
    destruct (rc_scan_step (x :: s)) as [[[ev k] w] tch] eqn:ST.
    destruct tch; [discriminate|]. simpl orb in H.
    destruct (k =? 0) eqn:K0; [discriminate|]. simpl orb in H.
    assert (ST' : rc_scan_step ((x :: s) ++ cr) = (ev, k, WInside, false)).
    { destruct w; [apply scan_step_inside; exact ST | subst cr; apply (scan_step_end _ _ r _ _ ST Hc) | discriminate]. }
    simpl app in ST'. rewrite ST'.
    assert (Hw : match w with WNoEol => true | _ => false end = false) by (destruct w; [reflexivity|reflexivity|discriminate]).
    rewrite Hw in H.
    destruct (rs_seg_walk s (k - 1) (d + 1)) as [l|] eqn:SW; [|discriminate]. injection H as <-.
    rewrite walk_acc. rewrite (IH _ _ _ b SW). rewrite map_app.
    destruct ev as [e|]; simpl; [rewrite shift_shift|]; reflexivity.
Qed.

(* ================================================================== the header line *)

Definition pushes (m : rc_tk) (ds : list N) : rc_tk := fold_left k_push ds m.

Lemma pushes_fields : forall ds m,
  k_st (pushes m ds) = k_st m /\ k_in (pushes m ds) = k_in m /\ k_before (pushes m ds) = k_before m /\
  k_len (pushes m ds) = k_len m + len ds /\ k_raw (pushes m ds) = rev ds ++ k_raw m.
Proof.
  induction ds as [|d ds IH]; intros m; simpl.
  - repeat split. lia.
  - destruct (IH (k_push m d)) as (H1 & H2 & H3 & H4 & H5). simpl in *.
    repeat split; try assumption. + rewrite H4. lia. + rewrite H5. rewrite <- app_assoc. reflexivity.
Qed.

Lemma digit_facts d : rc_is_digit d = true -> 48 <= d /\ d <= 57.
Proof. unfold rc_is_digit. rewrite andb_true_iff, !N.leb_le. tauto. Qed.

Ltac kill_eqb :=
  repeat match goal with
         | |- context [?a =? ?b] =>
             replace (a =? b) with false by (symmetry; apply N.eqb_neq; lia)
         end.

Lemma handle_number_digit m d :
  k_st m = KNumber -> rc_is_digit d = true -> rc_handle' m d = m.
Proof. intros Hs Hd. unfold rc_handle', rc_handle. rewrite Hs, Hd. reflexivity. Qed.

Lemma handle_number_delim m d :
  k_st m = KNumber -> rc_is_digit d = false -> (d =? 46) = false -> rc_is_delim d = true ->
  rc_handle' m d = k_done_unread m TtInteger.
Proof. intros Hs Hd H46 Hdl. unfold rc_handle', rc_handle. rewrite Hs, Hd, H46, Hdl. reflexivity. Qed.

Lemma number_run : forall ds m cn d rest,
  k_st m = KNumber -> k_in m = true ->
  forallb rc_is_digit ds = true -> k_len m + len ds < 10 ->
  rc_is_digit d = false -> (d =? 46) = false -> rc_is_delim d = true ->
  rc_next 10 m (ds ++ d :: rest) cn = (k_done_unread (pushes m ds) TtInteger, cn + len ds + 1, false).
Proof.
  induction ds as [|x ds IH]; intros m cn d rest Hs Hin Hds Hlen Hd H46 Hdl.
  - simpl app. rewrite rc_next_cons. rewrite Hs. simpl rc_st_ready. cbv iota.
    unfold tk_step. rewrite (handle_number_delim _ _ Hs Hd H46 Hdl). simpl.
    rewrite andb_false_r.
    rewrite rc_next_ready by reflexivity. f_equal. f_equal. lia.
  - simpl in Hds. apply andb_true_iff in Hds. destruct Hds as [Hx Hds]. simpl length in Hlen.
    simpl app. rewrite rc_next_cons. rewrite Hs. simpl rc_st_ready. cbv iota.
    unfold tk_step. rewrite (handle_number_digit _ _ Hs Hx). rewrite Hin.
    replace (negb (10 =? 0) && (10 <=? k_len (k_push m x)) && negb (rc_st_ready (k_st (k_push m x)))) with false.
    2:{ simpl k_len. replace (10 <=? k_len m + 1) with false by (symmetry; apply N.leb_gt; lia). reflexivity. }
    rewrite IH; try assumption.
    + simpl length. f_equal. f_equal. lia.
    + simpl. lia.
Qed.

Lemma in_top_keeps_in m c : k_in (rc_in_top m c) = k_in m.
Proof.
  unfold rc_in_top.
  repeat match goal with |- context [if ?b then _ else _] => destruct b end; reflexivity.
Qed.

Definition tk0_like (m : rc_tk) : Prop := m = k_to rc_tk0 (k_st m).

Lemma idle_step m c :
  tk0_like m -> rs_idle m = true -> rs_idle (rc_handle' m c) = true -> tk0_like (rc_handle' m c).
Proof.
  intros Hm Hi Hi'. unfold tk0_like in *. rewrite Hm in *. clear Hm.
  unfold rs_idle in Hi. destruct (k_st m) eqn:S; simpl in Hi; try discriminate.
  - (* KBefore *) change (k_to rc_tk0 KBefore) with rc_tk0 in *.
    unfold rc_handle', rc_handle in *. simpl k_st in *. cbv iota in *.
    destruct (rc_tok_space c); [reflexivity|]. destruct (c =? 37); [reflexivity|].
    exfalso. unfold rs_idle in Hi'. rewrite in_top_keeps_in in Hi'. simpl in Hi'. discriminate.
  - (* KComment *) unfold rc_handle', rc_handle in *. simpl k_st in *. cbv iota in *.
    destruct (rc_is_eol c); reflexivity.
Qed.

Lemma idle_run_like : forall pre m m',
  tk0_like m -> rs_idle m = true -> rs_idle_run m pre = Some m' -> tk0_like m' /\ rs_idle m' = true.
Proof.
  induction pre as [|c pre IH]; intros m m' Hm Hi H; simpl in H.
  - injection H as <-. split; assumption.
  - destruct (rs_idle (rc_handle' m c)) eqn:E; [|discriminate].
    apply (IH _ _ (idle_step _ _ Hm Hi E) E H).
Qed.

Lemma idle_next : forall pre m m' cn s,
  rs_idle m = true -> rs_idle_run m pre = Some m' ->
  rc_next 10 m (pre ++ s) cn = rc_next 10 m' s (cn + len pre).
Proof.
  induction pre as [|c pre IH]; intros m m' cn s Hi H; simpl in H.
  - injection H as <-. simpl. rewrite N.add_0_r. reflexivity.
  - destruct (rs_idle (rc_handle' m c)) eqn:E; [|discriminate].
    simpl app. rewrite rc_next_cons.
    assert (R : rc_st_ready (k_st m) = false).
    { unfold rs_idle in Hi. destruct (k_st m); try reflexivity; rewrite ?andb_false_r in Hi; discriminate. }
    rewrite R. unfold tk_step.
    pose proof E as E'. unfold rs_idle in E'. rewrite !andb_true_iff in E'. destruct E' as [[[E1 E2] E3] E4].
    apply negb_true_iff in E1. rewrite E1. apply N.eqb_eq in E3. rewrite E3.
    simpl. rewrite (IH _ _ _ _ E H). simpl length. f_equal. lia.
Qed.

Lemma blank_next pre s cn : rs_blank pre = true ->
  rc_next 10 rc_tk0 (pre ++ s) cn = rc_next 10 rc_tk0 s (cn + len pre).
Proof.
  unfold rs_blank. destruct (rs_idle_run rc_tk0 pre) as [m'|] eqn:R; [|discriminate].
  intros Hb. rewrite (idle_next _ _ _ _ _ (eq_refl : rs_idle rc_tk0 = true) R).
  destruct (idle_run_like _ _ _ (eq_refl : tk0_like rc_tk0) eq_refl R) as [L _].
  unfold tk0_like in L. destruct (k_st m') eqn:S; try discriminate. rewrite L. reflexivity.
Qed.

Lemma first_digit d : rc_is_digit d = true ->
  rc_handle' rc_tk0 d = mkTk KNumber TtBad [] 0 true false 0 0 false.
Proof.
  intros Hd. pose proof (digit_facts _ Hd) as [H1 H2].
  unfold rc_handle', rc_handle. simpl k_st. cbv iota.
  unfold rc_tok_space, rc_is_space. kill_eqb. simpl. unfold rc_in_top. kill_eqb. rewrite Hd. reflexivity.
Qed.

(* an integer token of 1..9 digits after a blank prefix, ended by the delimiter d *)
Lemma read_int_token pre ds d rest :
  rs_blank pre = true -> rs_digits_ok ds = true ->
  rc_is_digit d = false -> (d =? 46) = false -> rc_is_delim d = true ->
  rc_read_token 10 (pre ++ ds ++ d :: rest) = rc_mkTok TtInteger ds (len pre + len ds) false.
Proof.
  intros Hb Hds Hd H46 Hdl. unfold rs_digits_ok in Hds. rewrite !andb_true_iff in Hds.
  destruct Hds as [[Hall Hpos] Hlt]. apply N.ltb_lt in Hpos, Hlt.
  destruct ds as [|x ds]; [simpl in Hpos; lia|].
  simpl in Hall. apply andb_true_iff in Hall. destruct Hall as [Hx Hall].
  unfold rc_read_token. rewrite (blank_next _ _ _ Hb). simpl app. rewrite rc_next_cons. simpl rc_st_ready. cbv iota.
  unfold tk_step. rewrite (first_digit _ Hx). simpl.
  rewrite number_run; try assumption; try reflexivity.
  2:{ simpl k_len. simpl length in Hlt. lia. }
  destruct (pushes_fields ds (k_push (mkTk KNumber TtBad [] 0 true false 0 0 false) x)) as (_ & _ & P3 & _ & P5).
  cbn [k_done_unread k_ty k_raw k_in k_before]. rewrite P3, P5. simpl.
  rewrite rev'_rev. rewrite rev_app_distr. simpl. rewrite rev_involutive.
  f_equal. lia.
Qed.

Lemma rc_drop_exact a b : rc_drop (len a) (a ++ b) = b.
Proof.
  unfold rc_drop. rewrite Nat2N.id. rewrite skipn_app. rewrite skipn_all. rewrite Nat.sub_diag. reflexivity.
Qed.

Lemma to_eol_prefix : forall a n b,
  forallb (fun c => negb (rc_is_eol c)) a = true -> rc_to_eol (a ++ 10 :: b) n = (10 :: b, n + len a).
Proof.
  induction a as [|x a IH]; intros n b H; simpl in *.
  - rewrite N.add_0_r. reflexivity.
  - apply andb_true_iff in H. destruct H as [Hx H]. apply negb_true_iff in Hx. rewrite Hx.
    rewrite IH by exact H. f_equal. lia.
Qed.

Lemma digits_not_eol ds : forallb rc_is_digit ds = true -> forallb (fun c => negb (rc_is_eol c)) ds = true.
Proof.
  induction ds as [|x ds IH]; simpl; [reflexivity|]. rewrite !andb_true_iff. intros [Hx H].
  split; [|apply IH; exact H]. pose proof (digit_facts _ Hx) as [H1 H2]. unfold rc_is_eol. kill_eqb. reflexivity.
Qed.

Lemma atoi_digits ds : rs_digits_ok ds = true -> rc_atoi ds = Z.of_N (dec_value ds).
Proof.
  unfold rs_digits_ok. rewrite !andb_true_iff. intros [[Hall _] _].
  destruct ds as [|x ds]; [reflexivity|]. simpl in Hall. apply andb_true_iff in Hall. destruct Hall as [Hx _].
  pose proof (digit_facts _ Hx) as [H1 H2]. unfold rc_atoi.
  destruct x as [|p]; [lia|].
  (* x is neither 45 nor 43 *)
  assert (N.pos p <> 45 /\ N.pos p <> 43) as [A B] by lia.
  repeat (destruct p as [p|p|]; try reflexivity; try (exfalso; lia)).
Qed.

Definition header_bytes (num gen : list N) : list N := num ++ 32 :: gen ++ [32; 111; 98; 106; 10].

Lemma header_step pre num gen c r :
  rs_blank pre = true -> rs_digits_ok num = true -> rs_digits_ok gen = true -> rc_is_eol c = false ->
  rc_scan_step (pre ++ header_bytes num gen ++ c :: r) =
  (Some (EvObj (Z.of_N (dec_value num)) (Z.of_N (dec_value gen)) (len pre)),
   len pre + len (header_bytes num gen), WInside, false).
Proof.
  intros Hb Hn Hg Hc. unfold header_bytes.
  set (tail3 := 32 :: 111 :: 98 :: 106 :: 10 :: c :: r).
  assert (NF : pre ++ (num ++ 32 :: gen ++ [32; 111; 98; 106; 10]) ++ c :: r = pre ++ num ++ 32 :: gen ++ tail3).
  { unfold tail3. repeat (rewrite <- app_assoc; simpl app). reflexivity. }
  rewrite NF.
  assert (T1 : rc_read_token 10 (pre ++ num ++ 32 :: gen ++ tail3) = rc_mkTok TtInteger num (len pre + len num) false).
  { apply read_int_token; try assumption; reflexivity. }
  assert (S1 : rc_drop (len pre + len num) (pre ++ num ++ 32 :: gen ++ tail3) = 32 :: gen ++ tail3).
  { rewrite (app_assoc pre num). replace (len pre + len num) with (len (pre ++ num)).
    2:{ rewrite app_length. lia. } apply rc_drop_exact. }
  assert (T2 : rc_read_token 10 (32 :: gen ++ tail3) = rc_mkTok TtInteger gen (1 + len gen) false).
  { change (32 :: gen ++ tail3) with ([32] ++ gen ++ 32 :: (111 :: 98 :: 106 :: 10 :: c :: r)).
    rewrite read_int_token; try assumption; reflexivity. }
  assert (S2 : rc_drop (1 + len gen) (32 :: gen ++ tail3) = tail3).
  { change (32 :: gen ++ tail3) with (([32] ++ gen) ++ tail3). replace (1 + len gen) with (len ([32] ++ gen)).
    2:{ rewrite app_length. simpl length. lia. } apply rc_drop_exact. }
  assert (T3 : rc_read_token 10 tail3 = rc_mkTok TtWord [111; 98; 106] 4 false) by reflexivity.
  assert (SK : rc_skip_eol (32 :: gen ++ tail3) = (c :: r, 1 + len gen + 5, WInside)).
  { unfold rc_skip_eol. replace (32 :: gen ++ tail3) with (((32 :: gen) ++ [32; 111; 98; 106]) ++ 10 :: c :: r)
      by (unfold tail3; rewrite <- app_assoc; reflexivity).
    rewrite to_eol_prefix.
    2:{ rewrite forallb_app. simpl. rewrite andb_true_r. apply digits_not_eol.
        unfold rs_digits_ok in Hg. rewrite !andb_true_iff in Hg. tauto. }
    simpl rc_eols. rewrite Hc. rewrite app_length. simpl length. f_equal. f_equal. lia. }
  rewrite scan_step_eq. unfold step_ev. rewrite T1. cbn [rc_t_end rc_t_raw rc_t_eof rc_t_ty rc_is_int].
  rewrite S1. rewrite T2. cbn [rc_t_end rc_t_raw rc_t_eof rc_t_ty rc_is_int].
  rewrite S2. rewrite T3. cbn [rc_t_end rc_t_raw rc_t_eof rc_t_ty rc_is_word].
  change (rc_beq [111; 98; 106] rc_kw_obj) with true. cbv iota. rewrite SK. cbn [orb].
  rewrite (atoi_digits _ Hn), (atoi_digits _ Hg).
  f_equal. f_equal. f_equal.
  - f_equal. f_equal. lia.
  - rewrite !app_length. simpl length. rewrite app_length. simpl length. lia.
Qed.

(* ================================================================== whole objects, whole files *)

Fixpoint ev_objs (evs : list rc_event) : list (Z * Z * N) :=
  match evs with
  | [] => []
  | EvObj o g a :: r => (o, g, a) :: ev_objs r
  | _ :: r => ev_objs r
  end.

Lemma ev_objs_app a b : ev_objs (a ++ b) = ev_objs a ++ ev_objs b.
Proof. induction a as [|[] a IH]; simpl; rewrite ?IH; reflexivity. Qed.

Lemma ev_objs_quiet b evs : rs_no_objs evs = true -> ev_objs (map (rc_shift b) evs) = [].
Proof.
  induction evs as [|[] evs IH]; simpl; intros H; try discriminate; try (apply IH; exact H). reflexivity.
Qed.

Lemma walk_first_step h rest base ev k w tch :
  h <> [] -> rc_scan_step (h ++ rest) = (ev, k, w, tch) -> k = len h ->
  rc_scan_walk (h ++ rest) 0 base [] = rs_evl ev base ++ rc_scan_walk rest 0 (base + len h) [].
Proof.
  intros Hne ST Hk. destruct h as [|x a]; [contradiction|].
  rewrite len_cons in *.
  change ((x :: a) ++ rest) with (x :: a ++ rest) in *.
  rewrite walk_cons. change (0 <? 0) with false. cbv iota. rewrite ST. rewrite walk_acc.
  rewrite walk_skip by lia.
  subst k. replace (len a + 1 - 1 - len a) with 0 by lia.
  replace (base + 1 + len a) with (base + (len a + 1)) by lia.
  destruct ev; reflexivity.
Qed.

Lemma header_eq o : rs_header o = header_bytes (o_num o) (o_gen o).
Proof. reflexivity. Qed.

Lemma header_nonempty pre o : pre ++ rs_header o <> [].
Proof. unfold rs_header. destruct pre; [destruct (o_num o)|]; discriminate. Qed.

Lemma walk_object pre o c r base :
  rs_blank pre = true -> rs_wf_obj o = true -> rc_is_eol c = false ->
  exists evs, rs_no_objs evs = true /\
  rc_scan_walk (pre ++ rs_obj_bytes o ++ c :: r) 0 base [] =
  EvObj (fst (rs_id o)) (snd (rs_id o)) (base + len pre)
    :: map (rc_shift (base + len pre + len (rs_header o))) evs
    ++ rc_scan_walk (c :: r) 0 (base + len pre + len (rs_obj_bytes o)) [].
Proof.
  intros Hb Hwf Hc. unfold rs_wf_obj in Hwf. rewrite !andb_true_iff in Hwf. destruct Hwf as [[Hn Hg] Hq].
  unfold rs_quiet in Hq. apply andb_true_iff in Hq. destruct Hq as [Hst Hq].
  destruct (o_body o) as [|c0 b0] eqn:Hbody; [discriminate|]. simpl in Hst. apply negb_true_iff in Hst.
  destruct (rs_seg_walk (c0 :: b0) 0 0) as [evs|] eqn:SW; [|discriminate].
  exists evs. split; [exact Hq|].
  unfold rs_obj_bytes. rewrite Hbody.
  replace (pre ++ (rs_header o ++ c0 :: b0) ++ c :: r) with ((pre ++ rs_header o) ++ c0 :: (b0 ++ c :: r)).
  2:{ rewrite <- !app_assoc. simpl app. reflexivity. }
  pose proof (header_step pre (o_num o) (o_gen o) c0 (b0 ++ c :: r) Hb Hn Hg Hst) as HS.
  rewrite <- header_eq in HS. rewrite app_assoc in HS.
  rewrite (walk_first_step _ _ base _ _ _ _ (header_nonempty pre o) HS).
  2:{ rewrite app_length. lia. }
  unfold rs_evl. cbn [rc_shift app]. f_equal.
  replace (base + len (pre ++ rs_header o)) with (base + len pre + len (rs_header o) + 0) by (rewrite app_length; lia).
  change (c0 :: b0 ++ c :: r) with ((c0 :: b0) ++ c :: r).
  rewrite (seg_walk_app c r Hc _ _ _ _ (base + len pre + len (rs_header o)) SW).
  f_equal. f_equal. rewrite !app_length. lia.
Qed.

Lemma write_objs_starts o objs rest : rs_wf_obj o = true ->
  exists d t, rs_write_objs (o :: objs) ++ rest = d :: t /\ rc_is_eol d = false.
Proof.
  intros Hwf. unfold rs_wf_obj in Hwf. rewrite !andb_true_iff in Hwf. destruct Hwf as [[Hn _] _].
  unfold rs_digits_ok in Hn. rewrite !andb_true_iff in Hn. destruct Hn as [[Hall Hpos] _].
  simpl rs_write_objs. unfold rs_obj_bytes, rs_header.
  destruct (o_num o) as [|d ds]; [simpl in Hpos; apply N.ltb_lt in Hpos; lia|].
  simpl in Hall. apply andb_true_iff in Hall. destruct Hall as [Hd _].
  eexists d, _. split; [simpl; reflexivity|].
  pose proof (digit_facts _ Hd) as [H1 H2]. unfold rc_is_eol. kill_eqb. reflexivity.
Qed.

Lemma walk_objs : forall objs pre o c r base,
  rs_blank pre = true -> Forall (fun o => rs_wf_obj o = true) (o :: objs) -> rc_is_eol c = false ->
  ev_objs (rc_scan_walk (pre ++ rs_write_objs (o :: objs) ++ c :: r) 0 base []) =
  rs_offsets (base + len pre) (o :: objs)
  ++ ev_objs (rc_scan_walk (c :: r) 0 (base + len pre + len (rs_write_objs (o :: objs))) []).
Proof.
  induction objs as [|o' objs IH]; intros pre o c r base Hb Hall Hc.
  - inversion Hall as [|? ? Hwf _]; subst. simpl rs_write_objs. rewrite app_nil_r.
    destruct (walk_object pre o c r base Hb Hwf Hc) as (evs & Hq & E). rewrite E.
    simpl. rewrite ev_objs_app, (ev_objs_quiet _ _ Hq). simpl. reflexivity.
  - inversion Hall as [|? ? Hwf Hall']; subst.
    inversion Hall' as [|? ? Hwf' _]; subst.
    change (rs_write_objs (o :: o' :: objs)) with (rs_obj_bytes o ++ rs_write_objs (o' :: objs)).
    rewrite <- app_assoc.
    destruct (write_objs_starts o' objs (c :: r) Hwf') as (d & t & Ed & Hd).
    rewrite Ed.
    destruct (walk_object pre o d t base Hb Hwf Hd) as (evs & Hq & E). rewrite E.
    simpl ev_objs. rewrite ev_objs_app, (ev_objs_quiet _ _ Hq). simpl app.
    rewrite <- Ed. change (rs_write_objs (o' :: objs) ++ c :: r) with ([] ++ rs_write_objs (o' :: objs) ++ c :: r).
    rewrite (IH [] o' c r _ eq_refl Hall' Hc).
    simpl length. rewrite !N.add_0_r. cbn [rs_offsets].
    replace (base + len pre + len (rs_obj_bytes o ++ rs_obj_bytes o' ++ rs_write_objs objs))
      with (base + len pre + len (rs_obj_bytes o) + len (rs_obj_bytes o' ++ rs_write_objs objs))
      by (rewrite (app_length (rs_obj_bytes o)); lia).
    reflexivity.
Qed.

(* scan_finds_all: over a written file whose bodies and tail satisfy no_lookalike, the line scan reports exactly
   the header of every object, each at its own offset, in file order - for any number of objects and any ids *)
Lemma scan_finds_all_lemma : forall (pre : list N) (objs : list rs_obj) (tail : list N),
  rs_blank pre = true -> objs <> [] ->
  Forall (fun o => rs_wf_obj o = true) objs -> rs_tail_quiet tail = true ->
  ev_objs (rc_scan_events (rs_write pre objs tail)) = rs_offsets (N.of_nat (length pre)) objs.
Proof.
  intros pre objs tail Hb Hne Hall Ht. destruct objs as [|o objs]; [contradiction|].
  unfold rs_tail_quiet in Ht. apply andb_true_iff in Ht. destruct Ht as [Hs Hq].
  destruct tail as [|c r]; [discriminate|]. simpl in Hs. apply negb_true_iff in Hs.
  unfold rc_scan_events, rs_write. rewrite (walk_objs objs pre o c r 0 Hb Hall Hs).
  rewrite N.add_0_l.
  replace (rc_scan_walk (c :: r) 0 (len pre + len (rs_write_objs (o :: objs))) [])
    with (map (rc_shift (len pre + len (rs_write_objs (o :: objs)))) (rc_scan_walk (c :: r) 0 0 [])).
  2:{ rewrite <- walk_shift. simpl map. rewrite N.add_0_r. reflexivity. }
  unfold rc_scan_events in Hq. rewrite (ev_objs_quiet _ _ Hq). rewrite app_nil_r. reflexivity.
Qed.

(* ------------------------------------------------------------------ from the scan to the reconstructed table *)

Lemma found_filter maxid evs :
  rc_found maxid evs = filter (fun e => (fst (fst e) <=? maxid)%Z) (ev_objs evs).
Proof.
  induction evs as [|[o g a| |] evs IH]; simpl; try exact IH; [reflexivity|].
  destruct (o <=? maxid)%Z; rewrite IH; reflexivity.
Qed.

Lemma last_def_filter maxid k : (fst k <=? maxid)%Z = true ->
  forall l cur, rs_last_def k (filter (fun e => (fst (fst e) <=? maxid)%Z) l) cur = rs_last_def k l cur.
Proof.
  intros Hk. induction l as [|[[o g] a] l IH]; intros cur; simpl; [reflexivity|].
  destruct (o <=? maxid)%Z eqn:E; simpl.
  - apply IH.
  - rewrite IH. destruct ((o =? fst k)%Z) eqn:Eo; [|reflexivity].
    apply Z.eqb_eq in Eo. subst o. congruence.
Qed.

Lemma last_def_in k : forall l cur off,
  rs_last_def k l cur = Some off -> cur = Some off \/ In (fst k, snd k, off) l.
Proof.
  induction l as [|[[o g] a] l IH]; intros cur off H; simpl in H; [left; exact H|].
  apply IH in H. destruct H as [H|H]; [|right; right; exact H].
  destruct ((o =? fst k) && (g =? snd k))%Z eqn:E; [|left; exact H].
  apply andb_true_iff in E. destruct E as [E1 E2]. apply Z.eqb_eq in E1, E2. subst. injection H as <-.
  right. left. reflexivity.
Qed.

Lemma last_def_some k : forall l cur a,
  In (fst k, snd k, a) l -> exists a', rs_last_def k l cur = Some a'.
Proof.
  induction l as [|[[o g] a0] l IH]; intros cur a H; simpl in *; [contradiction|].
  destruct H as [H|H].
  - injection H as -> -> ->. rewrite !Z.eqb_refl. simpl.
    clear IH. revert a. induction l as [|[[o g] a1] l IHl]; intros a; simpl; [eexists; reflexivity|].
    destruct ((o =? fst k) && (g =? snd k))%Z; apply IHl.
  - apply (IH _ _ H).
Qed.

(* the table after reconstruction of a written file *)
Lemma recon_table_spec_lemma : forall (pre : list N) (objs : list rs_obj) (tail : list N) (maxid : Z) (k : Z * Z),
  rs_blank pre = true -> objs <> [] ->
  Forall (fun o => rs_wf_obj o = true) objs -> rs_tail_quiet tail = true ->
  rc_lookup k (rc_recon_table maxid [] (rc_scan_events (rs_write pre objs tail))) =
  if rs_valid_id maxid k then rs_last_def k (rs_offsets (N.of_nat (length pre)) objs) None else None.
Proof.
  intros pre objs tail maxid k Hb Hne Hall Ht. unfold rc_recon_table.
  rewrite scan_last_wins_lemma. destruct (rs_valid_id maxid k) eqn:V; [|reflexivity].
  rewrite found_filter. rewrite (scan_finds_all_lemma _ _ _ Hb Hne Hall Ht).
  apply last_def_filter. unfold rs_valid_id in V. rewrite !andb_true_iff in V. tauto.
Qed.

(* recovered_is_original_or_null (modelled part): every entry of the reconstructed table points at the header of
   an object of the file that carries this very number and generation - so what is read there is the original
   object; an id that is not in the table resolves to null *)
Lemma recovered_is_original_or_null_lemma :
  forall (pre : list N) (objs : list rs_obj) (tail : list N) (maxid : Z) (k : Z * Z) (off : N),
  rs_blank pre = true -> objs <> [] ->
  Forall (fun o => rs_wf_obj o = true) objs -> rs_tail_quiet tail = true ->
  rc_lookup k (rc_recon_table maxid [] (rc_scan_events (rs_write pre objs tail))) = Some off ->
  In (fst k, snd k, off) (rs_offsets (N.of_nat (length pre)) objs).
Proof.
  intros pre objs tail maxid k off Hb Hne Hall Ht H.
  rewrite (recon_table_spec_lemma _ _ _ _ _ Hb Hne Hall Ht) in H.
  destruct (rs_valid_id maxid k); [|discriminate].
  apply last_def_in in H. destruct H as [H|H]; [discriminate | exact H].
Qed.

Lemma offsets_in : forall objs base o, In o objs -> exists a, In (fst (rs_id o), snd (rs_id o), a) (rs_offsets base objs).
Proof.
  induction objs as [|o' objs IH]; intros base o H; simpl in *; [contradiction|].
  destruct H as [->|H]; [eexists; left; reflexivity|].
  destruct (IH (base + N.of_nat (length (rs_obj_bytes o'))) o H) as [a Ha]. exists a. right. exact Ha.
Qed.

(* recover_complete (modelled part): every object of the file whose id an xref table can hold is in the
   reconstructed table, at the offset of its last definition *)
Lemma recover_complete_lemma :
  forall (pre : list N) (objs : list rs_obj) (tail : list N) (maxid : Z) (o : rs_obj),
  rs_blank pre = true -> Forall (fun o => rs_wf_obj o = true) objs -> rs_tail_quiet tail = true ->
  In o objs -> rs_valid_id maxid (rs_id o) = true ->
  exists off, rc_lookup (rs_id o) (rc_recon_table maxid [] (rc_scan_events (rs_write pre objs tail))) = Some off
              /\ rs_last_def (rs_id o) (rs_offsets (N.of_nat (length pre)) objs) None = Some off.
Proof.
  intros pre objs tail maxid o Hb Hall Ht Hin Hv.
  assert (Hne : objs <> []) by (destruct objs; [contradiction | discriminate]).
  rewrite (recon_table_spec_lemma _ _ _ _ _ Hb Hne Hall Ht). rewrite Hv.
  destruct (offsets_in objs (N.of_nat (length pre)) o Hin) as [a Ha].
  destruct (last_def_some (rs_id o) _ None a Ha) as [a' Ha']. exists a'. split; exact Ha'.
Qed.

(* ================================================================== exit status *)

(* Full-strength statement of the property's second sentence on the model:
     damage_never_exit0 (full strength) : forall pre objs tail dmg recover,
       rs_blank pre = true -> Forall (fun o => rs_wf_obj o = true) objs -> rs_tail_quiet tail = true ->
       bookkeeping_damage dmg -> semantically_effective dmg (rs_write pre objs tail) ->
       rc_exit_code (rc_view recover (apply dmg (rs_write pre objs tail))) <> 0.
   It is FALSE on the faithful model and on qpdf itself (damage_never_exit0_refuted below: an xref entry whose type
   byte n is turned into f). What holds for every file and every mode is the partial form: whatever the reader
   detects - an exception, a warning, a reconstruction - never ends in status 0. *)
Lemma damage_never_exit0_partial_lemma : forall r : rc_result,
  (r_fatal r = true \/ r_warn r = true) -> rc_exit_code r <> 0.
Proof.
  intros r [H|H]; unfold rc_exit_code; rewrite H; try discriminate.
  destruct (r_fatal r); discriminate.
Qed.

(* a reconstruction is always reported: in the whole view model, r_recon implies a warning *)
Lemma after_parse_recon recover file l pc recon_of st :
  rs_warned recon_of = true -> (rs_recon st = true -> rs_warned st = true) ->
  rs_recon (rc_after_parse recover file l pc recon_of st) = true ->
  rs_warned (rc_after_parse recover file l pc recon_of st) = true.
Proof.
  intros Hr Hst. unfold rc_after_parse.
  assert (RD : forall st0 og, (rs_recon st0 = true -> rs_warned st0 = true) ->
               let '(s1, _) := rc_resolve_dict recover file l pc recon_of st0 og in rs_recon s1 = true -> rs_warned s1 = true).
  { intros st0 og H0. unfold rc_resolve_dict.
    destruct (rc_pc_hit pc og); [exact H0|].
    destruct (rc_lookup og (rs_table st0)) as [off|]; [|exact H0].
    destruct (off =? 0); [intros _; reflexivity|].
    destruct (rc_header_ok file l og off); [exact H0|].
    destruct (recover && negb (rs_recon st0)); [|intros _; reflexivity].
    destruct (rc_lookup og (rs_table recon_of)); intros _; exact Hr. }
  destruct (rs_root st) as [root|]; [|simpl; exact Hst].
  pose proof (RD st root Hst) as R1.
  destruct (rc_resolve_dict recover file l pc recon_of st root) as [st1 rd].
  destruct rd as [d|]; [|simpl; exact R1].
  assert (R2 : forall st2 (b : bool) (rt : option rc_og), (rs_recon st2 = true -> rs_warned st2 = true) ->
          rs_recon (if negb b then mkRS (rs_table st2) (rs_recon st2) (rs_warned st2) true rt
                    else if negb (rs_recon st2) && rc_mismatch file l (rs_table st2)
                         then (if recover then mkRS (rs_table recon_of) true true (rs_fatal recon_of) rt
                               else mkRS (rs_table st2) false true false rt)
                         else mkRS (rs_table st2) (rs_recon st2) (rs_warned st2 || rc_has_zero (rs_table st2)) false rt) = true ->
          rs_warned (if negb b then mkRS (rs_table st2) (rs_recon st2) (rs_warned st2) true rt
                    else if negb (rs_recon st2) && rc_mismatch file l (rs_table st2)
                         then (if recover then mkRS (rs_table recon_of) true true (rs_fatal recon_of) rt
                               else mkRS (rs_table st2) false true false rt)
                         else mkRS (rs_table st2) (rs_recon st2) (rs_warned st2 || rc_has_zero (rs_table st2)) false rt) = true).
  { intros st2 b rt H2. destruct (negb b); [simpl; exact H2|].
    destruct (negb (rs_recon st2) && rc_mismatch file l (rs_table st2)).
    - destruct recover; simpl; intros; reflexivity.
    - simpl. intros H. rewrite (H2 H). reflexivity. }
  destruct (dict_get d rc_n_Pages) as [[ |b0|z0|sp0|s0|nm0|l0|d0|n g]|]; try (cbv iota beta zeta; apply (R2 st1 _ _ R1)).
  pose proof (RD st1 (Z.of_N n, Z.of_N g) R1) as R3.
  destruct (rc_resolve_dict recover file l pc recon_of st1 (Z.of_N n, Z.of_N g)) as [s2 pd].
  cbv iota beta zeta. apply (R2 s2 _ _ R3).
Qed.

Lemma view_recon_warn maxid file l sx deleted trailer u :
  r_warn (rc_view_recon maxid file l sx deleted trailer u) = true.
Proof. unfold rc_view_recon. destruct (r_fatal _); reflexivity. Qed.

Lemma recon_is_reported_lemma : forall (recover : bool) (file : list N),
  r_recon (rc_view recover file) = true -> rc_exit_code (rc_view recover file) <> 0.
Proof.
  intros recover file H. apply damage_never_exit0_partial_lemma. right. revert H.
  unfold rc_view.
  destruct (xr_ok _).
  - cbn [r_recon r_warn]. apply after_parse_recon; [reflexivity | cbn [rs_recon]; discriminate].
  - destruct recover; [|cbn [r_recon]; discriminate].
    intros _.
    match goal with |- r_warn (match ?l with Some _ => _ | None => _ end) = true => destruct l end.
    + match goal with |- r_warn (if ?b then _ else _) = true => destruct b end;
        [reflexivity | apply view_recon_warn].
    + apply view_recon_warn.
Qed.

(* ================================================================== witnesses (machine-checked findings) *)

Definition c08_pre : list N := [37; 80; 68; 70; 45; 49; 46; 52; 10].
Definition c08_endobj : list N := [10; 101; 110; 100; 111; 98; 106; 10].
Definition c08_objs : list rs_obj :=
  [ mkObj [49] [48] ([60; 60; 32; 47; 84; 121; 112; 101; 32; 47; 67; 97; 116; 97; 108; 111; 103; 32; 47; 80; 97; 103; 101; 115; 32; 50; 32; 48; 32; 82; 32; 47; 88; 32; 52; 32; 48; 32; 82; 32; 62; 62] ++ c08_endobj);
    mkObj [50] [48] ([60; 60; 32; 47; 84; 121; 112; 101; 32; 47; 80; 97; 103; 101; 115; 32; 47; 67; 111; 117; 110; 116; 32; 49; 32; 47; 75; 105; 100; 115; 32; 91; 32; 51; 32; 48; 32; 82; 32; 93; 32; 62; 62] ++ c08_endobj);
    mkObj [51] [48] ([60; 60; 32; 47; 84; 121; 112; 101; 32; 47; 80; 97; 103; 101; 32; 47; 80; 97; 114; 101; 110; 116; 32; 50; 32; 48; 32; 82; 32; 62; 62] ++ c08_endobj);
    mkObj [52] [48] ([60; 60; 32; 47; 77; 97; 114; 107; 101; 114; 32; 49; 32; 62; 62] ++ c08_endobj) ].
Definition c08_tail : list N :=
  [120; 114; 101; 102; 10; 48; 32; 53; 10; 48; 48; 48; 48; 48; 48; 48; 48; 48; 48; 32; 54; 53; 53; 51; 53; 32; 102; 32; 10; 48; 48; 48; 48; 48; 48; 48; 48; 48; 57; 32; 48; 48; 48; 48; 48; 32; 110; 32; 10; 48; 48; 48; 48; 48; 48; 48; 48; 54; 55; 32; 48; 48; 48; 48; 48; 32; 110; 32; 10; 48; 48; 48; 48; 48; 48; 48; 49; 50; 54; 32; 48; 48; 48; 48; 48; 32; 110; 32; 10; 48; 48; 48; 48; 48; 48; 48; 49; 55; 51; 32; 48; 48; 48; 48; 48; 32; 110; 32; 10; 116; 114; 97; 105; 108; 101; 114; 10; 60; 60; 32; 47; 82; 111; 111; 116; 32; 49; 32; 48; 32; 82; 32; 47; 83; 105; 122; 101; 32; 53; 32; 62; 62; 10; 115; 116; 97; 114; 116; 120; 114; 101; 102; 10; 50; 48; 52; 10; 37; 37; 69; 79; 70; 10].
Definition c08_twin : list N := rs_write c08_pre c08_objs c08_tail.
(* replace the bytes from position pos on by the given bytes *)
Definition c08_patch (pos : nat) (bs : list N) (f : list N) : list N :=
  firstn pos f ++ bs ++ skipn (pos + length bs) f.

(* damage_never_exit0 refuted: in the xref entry of object 4 (`0000000173 00000 n`) the type byte, offset 310, becomes
   `f`. With and without recovery the model - and qpdf 's binary, see known finding C08-F1 - end with status 0,
   and object 4 0 is gone from the table, while the twin has it at 173. *)
Lemma damage_never_exit0_refuted_lemma :
  rs_blank c08_pre = true /\ forallb rs_wf_obj c08_objs = true /\ rs_tail_quiet c08_tail = true /\
  nth 310 c08_twin 0 = 110 /\
  rc_lookup (4, 0)%Z (r_table (rc_view true c08_twin)) = Some 173 /\ rc_exit_code (rc_view true c08_twin) = 0 /\
  rc_lookup (4, 0)%Z (r_table (rc_view true (c08_patch 310 [102] c08_twin))) = None /\
  rc_exit_code (rc_view true (c08_patch 310 [102] c08_twin)) = 0 /\
  rc_exit_code (rc_view false (c08_patch 310 [102] c08_twin)) = 0.
Proof. vm_compute. repeat split. Qed.

(* recover_complete at the level of the whole view (parse + resolution, not only reconstruct_xref) refuted: the
   offset field of the same entry damaged to 0000000000 (known finding C08-F4): no reconstruction happens, the
   entry stays at offset 0 (the object resolves to null), status 3 *)
Lemma recover_complete_view_refuted_lemma :
  r_recon (rc_view true (c08_patch 300 [48; 48; 48] c08_twin)) = false /\
  rc_lookup (4, 0)%Z (r_table (rc_view true (c08_patch 300 [48; 48; 48] c08_twin))) = Some 0 /\
  rc_exit_code (rc_view true (c08_patch 300 [48; 48; 48] c08_twin)) = 3.
Proof. vm_compute. repeat split. Qed.

(* the generation field of the same entry damaged to 65535 (known finding C08-F2, repaired in /repo d14d2a78 as far
   as the exit status goes): the entry is still dropped - object 4 0 is gone - but it is reported: status 3 in
   both modes *)
Lemma unrepresentable_generation_reported_lemma :
  rc_lookup (4, 0)%Z (r_table (rc_view true (c08_patch 304 [54; 53; 53; 51; 53] c08_twin))) = None /\
  r_recon (rc_view true (c08_patch 304 [54; 53; 53; 51; 53] c08_twin)) = false /\
  rc_exit_code (rc_view true (c08_patch 304 [54; 53; 53; 51; 53] c08_twin)) = 3 /\
  rc_exit_code (rc_view false (c08_patch 304 [54; 53; 53; 51; 53] c08_twin)) = 3.
Proof. vm_compute. repeat split. Qed.

(* ... while a damaged startxref, a missing xref section or a wrong offset do trigger the reconstruction, and the
   reconstructed view is the twin's (instances of recon_table_spec on the witness; status 3) *)
Lemma recover_complete_view_instances_lemma :
  let twin_table := r_table (rc_view true c08_twin) in
  (* startxref 204 -> 104 *)
  r_table (rc_view true (c08_patch 357 [49] c08_twin)) = twin_table /\
  rc_exit_code (rc_view true (c08_patch 357 [49] c08_twin)) = 3 /\
  rc_exit_code (rc_view false (c08_patch 357 [49] c08_twin)) = 2 /\
  (* offset of object 4: 173 -> 174 *)
  r_table (rc_view true (c08_patch 302 [52] c08_twin)) = twin_table /\
  rc_exit_code (rc_view true (c08_patch 302 [52] c08_twin)) = 3 /\
  rc_exit_code (rc_view false (c08_patch 302 [52] c08_twin)) = 3 /\
  (* everything after the last endobj cut off except the trailer: xref section removed *)
  r_table (rc_view true (firstn 204 c08_twin ++ skipn 314 c08_twin)) = twin_table /\
  rc_exit_code (rc_view true (firstn 204 c08_twin ++ skipn 314 c08_twin)) = 3.
Proof. vm_compute. repeat split. Qed.
