(* C14, import side: the order of the members of a JSON object does not matter to QPDF::JSONReactor.
   Model: Json/JsonReactor.v. The theorems are about the tree after proposed_fixes/C14-F3 (lenfix = true);
   for the tree as it is the statement is refuted by an evaluated witness (known finding C14-F3). *)
From Coq Require Import Permutation.
From QV Require Import Base.Bytes Gen.PdfDoc Json.JsonSpec Json.JsonEmit Json.JsonReactor Json.C14ProofsA.
Local Open Scope N_scope.

(* ------------------------------------------------------------------ folds over permuted lists *)

Lemma jr_fold_perm {S A C : Type} (cls : A -> C) (step : S -> A -> S) :
  (forall a b s, cls a <> cls b -> step (step s a) b = step (step s b) a) ->
  forall l l', Permutation l l' -> NoDup (map cls l) -> forall s, fold_left step l s = fold_left step l' s.
Proof.
  intros Hc l l' Hp. induction Hp; intros Hnd s; simpl.
  - reflexivity.
  - inversion Hnd; subst. apply IHHp. assumption.
  - inversion Hnd as [|? ? Hy Hnd']; subst. inversion Hnd' as [|? ? Hx Hnd'']; subst.
    rewrite (Hc y x s); [reflexivity|].
    intro E. apply Hy. simpl. left. symmetry. exact E.
  - rewrite IHHp1 by assumption. apply IHHp2.
    eapply Permutation_NoDup; [|exact Hnd]. apply Permutation_map. exact Hp1.
Qed.

Lemma jr_fold_cong {S A : Type} (step : S -> A -> S) (f : A -> A) l :
  (forall a, In a l -> forall s, step s (f a) = step s a) ->
  forall s, fold_left step (map f l) s = fold_left step l s.
Proof.
  induction l as [|a l IH]; intros H s; simpl; [reflexivity|].
  rewrite H by (left; reflexivity). apply IH. intros b Hb. apply H. right. exact Hb.
Qed.

Lemma jr_fold_left_map {S A B : Type} (step : S -> B -> S) (g : A -> B) l s :
  fold_left step (map g l) s = fold_left (fun s a => step s (g a)) l s.
Proof. revert s. induction l as [|a l IH]; intros s; simpl; [reflexivity|apply IH]. Qed.

(* ------------------------------------------------------------------ the sort is a permutation *)

Lemma jr_insert_perm kv l : Permutation (kv :: l) (jr_insert kv l).
Proof.
  induction l as [|h t IH]; simpl; [apply Permutation_refl|].
  destruct (jr_bytes_ltb (fst h) (fst kv)).
  - eapply perm_trans; [apply perm_swap|]. apply perm_skip. exact IH.
  - apply Permutation_refl.
Qed.

Lemma jr_isort_perm l : Permutation l (jr_isort l).
Proof.
  induction l as [|h t IH]; simpl; [apply perm_nil|].
  eapply perm_trans; [apply perm_skip; exact IH|]. apply jr_insert_perm.
Qed.

(* ------------------------------------------------------------------ keys *)

Lemma jr_keq_eq a b : jr_keq a b = true <-> a = b.
Proof. apply list_eqb_N_eq. Qed.

Lemma jr_keq_refl a : jr_keq a a = true.
Proof. apply jr_keq_eq. reflexivity. Qed.

Lemma jr_keq_neq a b : jr_keq a b = false <-> a <> b.
Proof.
  split; intros H.
  - intros E. apply jr_keq_eq in E. congruence.
  - destruct (jr_keq a b) eqn:E; [|reflexivity]. apply jr_keq_eq in E. contradiction.
Qed.

Lemma jr_nodupb_NoDup l : jr_nodupb l = true -> NoDup l.
Proof.
  induction l as [|x t IH]; simpl; intros H; [constructor|].
  apply andb_true_iff in H. destruct H as [H1 H2]. constructor; [|apply IH; exact H2].
  intros Hin. apply negb_true_iff in H1.
  assert (existsb (jr_keq x) t = true); [|congruence].
  apply existsb_exists. exists x. split; [exact Hin|apply jr_keq_refl].
Qed.

(* ------------------------------------------------------------------ the two key orders are strict total orders *)

Lemma jr_bytes_ltb_irrefl a : jr_bytes_ltb a a = false.
Proof. induction a as [|x a IH]; simpl; [reflexivity|]. rewrite N.ltb_irrefl. exact IH. Qed.

Lemma jr_bytes_ltb_trans a : forall b c, jr_bytes_ltb a b = true -> jr_bytes_ltb b c = true -> jr_bytes_ltb a c = true.
Proof.
  induction a as [|x a IH]; intros [|y b] [|z c]; simpl; try discriminate; try reflexivity.
  destruct (x <? y) eqn:Exy; destruct (y <? x) eqn:Eyx; destruct (y <? z) eqn:Eyz; destruct (z <? y) eqn:Ezy;
    destruct (x <? z) eqn:Exz; destruct (z <? x) eqn:Ezx; try discriminate; try reflexivity;
    rewrite ?N.ltb_lt, ?N.ltb_ge in *; try lia.
  apply IH.
Qed.

Lemma jr_bytes_ltb_total a : forall b, a <> b -> jr_bytes_ltb a b = true \/ jr_bytes_ltb b a = true.
Proof.
  induction a as [|x a IH]; intros [|y b] H; simpl; auto; try congruence.
  destruct (x <? y) eqn:Exy; [auto|]. destruct (y <? x) eqn:Eyx; [auto|].
  rewrite N.ltb_ge in *. assert (x = y) by lia. subst y.
  apply IH. congruence.
Qed.

Lemma jr_og_eqb_eq a b : jr_og_eqb a b = true <-> a = b.
Proof.
  destruct a as [a1 a2], b as [b1 b2]. unfold jr_og_eqb. simpl. rewrite andb_true_iff, !N.eqb_eq.
  split; [intros [-> ->]; reflexivity|intros E; injection E; auto].
Qed.

Lemma jr_og_ltb_irrefl a : jr_og_ltb a a = false.
Proof. destruct a. unfold jr_og_ltb. simpl. rewrite !N.ltb_irrefl, andb_false_r. reflexivity. Qed.

Lemma jr_og_ltb_trans a b c : jr_og_ltb a b = true -> jr_og_ltb b c = true -> jr_og_ltb a c = true.
Proof.
  destruct a, b, c. unfold jr_og_ltb. simpl.
  rewrite !orb_true_iff, !andb_true_iff, !N.ltb_lt, !N.eqb_eq. lia.
Qed.

Lemma jr_og_ltb_total a b : a <> b -> jr_og_ltb a b = true \/ jr_og_ltb b a = true.
Proof.
  destruct a as [a1 a2], b as [b1 b2]. unfold jr_og_ltb. simpl. intros H.
  rewrite !orb_true_iff, !andb_true_iff, !N.ltb_lt, !N.eqb_eq.
  assert (a1 <> b1 \/ a2 <> b2) by (destruct (N.eq_dec a1 b1); [right; congruence|left; assumption]). lia.
Qed.

(* ------------------------------------------------------------------ std::map as a list: updates of different keys commute *)

Section MapFacts.
  Context {K V : Type}.
  Variable keq klt : K -> K -> bool.
  Hypothesis keq_eq : forall a b, keq a b = true <-> a = b.
  Hypothesis klt_irrefl : forall a, klt a a = false.
  Hypothesis klt_trans : forall a b c, klt a b = true -> klt b c = true -> klt a c = true.
  Hypothesis klt_total : forall a b, a <> b -> klt a b = true \/ klt b a = true.

  Lemma jr_keq_false a b : keq a b = false <-> a <> b.
  Proof.
    split; intros H.
    - intros E. apply keq_eq in E. congruence.
    - destruct (keq a b) eqn:E; [|reflexivity]. apply keq_eq in E. contradiction.
  Qed.

  Lemma jr_klt_asym a b : klt a b = true -> klt b a = false.
  Proof.
    intros H. destruct (klt b a) eqn:E; [|reflexivity].
    pose proof (klt_trans _ _ _ H E) as T. rewrite klt_irrefl in T. discriminate.
  Qed.

  Ltac ord_norm :=
    repeat match goal with
           | H : keq ?a ?b = true |- _ => apply keq_eq in H; subst
           | H : keq ?a ?b = false |- _ => apply jr_keq_false in H
           end.
  Ltac ord_total :=
    repeat match goal with
           | H1 : klt ?a ?b = false, H3 : ?a <> ?b |- _ =>
             lazymatch goal with
             | _ : klt b a = true |- _ => fail
             | _ => let T := fresh "T" in
                    assert (T : klt b a = true) by (destruct (klt_total _ _ H3) as [X|X]; [congruence|exact X])
             end
           | H1 : klt ?a ?b = false, H3 : ?b <> ?a |- _ =>
             lazymatch goal with
             | _ : klt b a = true |- _ => fail
             | _ => let T := fresh "T" in
                    assert (T : klt b a = true) by (destruct (klt_total _ _ H3) as [X|X]; [exact X|congruence])
             end
           end.
  Ltac ord_trans :=
    repeat match goal with
           | H1 : klt ?a ?b = true, H2 : klt ?b ?c = true |- _ =>
             lazymatch goal with
             | _ : klt a c = true |- _ => fail
             | _ => pose proof (klt_trans _ _ _ H1 H2)
             end
           end.
  Ltac ord_contra :=
    ord_norm; try congruence; ord_total; ord_trans;
    try congruence;
    try match goal with H : klt ?a ?a = true |- _ => rewrite klt_irrefl in H; discriminate end.
  Ltac split_ifs :=
    repeat (simpl;
            match goal with
            | |- context [if keq ?a ?b then _ else _] => let E := fresh "E" in destruct (keq a b) eqn:E
            | |- context [if klt ?a ?b then _ else _] => let L := fresh "L" in destruct (klt a b) eqn:L
            end).

  Definition jr_lt_all (k : K) (m : list (K * V)) : Prop := Forall (fun kv => klt k (fst kv) = true) m.
  Fixpoint jr_sorted (m : list (K * V)) : Prop :=
    match m with
    | [] => True
    | kv :: r => jr_lt_all (fst kv) r /\ jr_sorted r
    end.

  Lemma jr_lt_all_trans k1 k2 m : klt k1 k2 = true -> jr_lt_all k2 m -> jr_lt_all k1 m.
  Proof.
    intros H. unfold jr_lt_all. apply Forall_impl. intros kv Hk. eapply klt_trans; eassumption.
  Qed.

  Lemma jr_map_upd_lt_all k o m : jr_lt_all k m ->
    jr_map_upd keq klt k o m = match o with Some v => (k, v) :: m | None => m end.
  Proof.
    intros H. destruct m as [|[k' v'] r]; simpl; [destruct o; reflexivity|].
    inversion H as [|? ? Hk Hr]; subst. simpl in Hk.
    destruct (keq k k') eqn:E.
    - apply keq_eq in E. subst. rewrite klt_irrefl in Hk. discriminate.
    - rewrite Hk. destruct o; reflexivity.
  Qed.

  Lemma jr_map_upd_keeps_lt_all k0 k o m : jr_lt_all k0 m -> (o = None \/ klt k0 k = true) ->
    jr_lt_all k0 (jr_map_upd keq klt k o m).
  Proof.
    intros Hm Ho. induction m as [|[k' v'] r IH]; simpl.
    - destruct o; [|constructor]. destruct Ho as [Ho|Ho]; [discriminate|]. constructor; [exact Ho|constructor].
    - inversion Hm as [|? ? Hk Hr]; subst. simpl in Hk.
      destruct (keq k k') eqn:E; [|destruct (klt k k') eqn:L].
      + destruct o; [|exact Hr]. constructor; [|exact Hr]. apply keq_eq in E. subst. exact Hk.
      + destruct o; [|exact Hm]. destruct Ho as [Ho|Ho]; [discriminate|]. constructor; [exact Ho|exact Hm].
      + constructor; [exact Hk|]. apply IH. exact Hr.
  Qed.

  Lemma jr_map_upd_sorted k o m : jr_sorted m -> jr_sorted (jr_map_upd keq klt k o m).
  Proof.
    induction m as [|[k' v'] r IH]; simpl; intros Hs.
    - destruct o; simpl; auto. split; [constructor|exact I].
    - destruct Hs as [Hl Hs]. simpl in Hl.
      destruct (keq k k') eqn:E; [|destruct (klt k k') eqn:L].
      + apply keq_eq in E. subst. destruct o; simpl; auto.
      + destruct o; simpl; auto. split; [|split; assumption].
        constructor; [exact L|]. eapply jr_lt_all_trans; eassumption.
      + simpl. split; [|apply IH; exact Hs].
        apply jr_map_upd_keeps_lt_all; [exact Hl|]. destruct o; [right|left; reflexivity].
        apply jr_keq_false in E.
        destruct (klt_total _ _ E) as [X|X]; [congruence|exact X].
  Qed.

  Lemma jr_map_upd_comm (k1 k2 : K) (o1 o2 : option V) : k1 <> k2 -> forall m, jr_sorted m ->
    jr_map_upd keq klt k1 o1 (jr_map_upd keq klt k2 o2 m) = jr_map_upd keq klt k2 o2 (jr_map_upd keq klt k1 o1 m).
  Proof.
    intros Hne m. induction m as [|[k' v'] r IH]; intros Hs.
    - destruct o1, o2; split_ifs; try reflexivity; ord_contra.
    - destruct Hs as [Hl Hs]. simpl in Hl. specialize (IH Hs).
      destruct o1, o2; split_ifs; try reflexivity; try (rewrite IH; reflexivity); ord_contra.
      all: try (symmetry); rewrite jr_map_upd_lt_all; try reflexivity.
      all: eapply jr_lt_all_trans; eassumption.
  Qed.

  Lemma jr_map_get_upd_other (k1 k2 : K) (o : option V) : k1 <> k2 -> forall m,
    jr_map_get keq k1 (jr_map_upd keq klt k2 o m) = jr_map_get keq k1 m.
  Proof.
    intros Hne m. induction m as [|[k' v'] r IH].
    - destruct o; split_ifs; try reflexivity; ord_contra.
    - destruct o; split_ifs; try reflexivity; try exact IH; ord_contra.
  Qed.
End MapFacts.

Definition jr_dsorted (d : list (list N * jobj)) : Prop := jr_sorted jr_bytes_ltb d.
Definition jr_osorted (m : list ((N * N) * jr_pobj)) : Prop := jr_sorted jr_og_ltb m.

Lemma jr_put_comm k1 k2 o1 o2 d : k1 <> k2 -> jr_dsorted d ->
  jr_put k1 o1 (jr_put k2 o2 d) = jr_put k2 o2 (jr_put k1 o1 d).
Proof.
  intros. unfold jr_put. apply jr_map_upd_comm; try assumption; first [apply jr_keq_eq|apply jr_bytes_ltb_irrefl|apply jr_bytes_ltb_trans|apply jr_bytes_ltb_total].
Qed.

Lemma jr_put_sorted k o d : jr_dsorted d -> jr_dsorted (jr_put k o d).
Proof.
  intros. unfold jr_put, jr_dsorted. apply jr_map_upd_sorted; try assumption; first [apply jr_keq_eq|apply jr_bytes_ltb_irrefl|apply jr_bytes_ltb_trans|apply jr_bytes_ltb_total].
Qed.

Lemma jr_set_comm g1 g2 p1 p2 m : g1 <> g2 -> jr_osorted m ->
  jr_set g1 p1 (jr_set g2 p2 m) = jr_set g2 p2 (jr_set g1 p1 m).
Proof.
  intros. unfold jr_set. apply jr_map_upd_comm; try assumption; first [apply jr_og_eqb_eq|apply jr_og_ltb_irrefl|apply jr_og_ltb_trans|apply jr_og_ltb_total].
Qed.

Lemma jr_set_sorted g p m : jr_osorted m -> jr_osorted (jr_set g p m).
Proof.
  intros. unfold jr_set, jr_osorted. apply jr_map_upd_sorted; try assumption; first [apply jr_og_eqb_eq|apply jr_og_ltb_irrefl|apply jr_og_ltb_trans|apply jr_og_ltb_total].
Qed.

Lemma jr_lookup_set_other g1 g2 p m : g1 <> g2 -> jr_lookup g1 (jr_set g2 p m) = jr_lookup g1 m.
Proof.
  intros. unfold jr_lookup, jr_set. rewrite jr_map_get_upd_other; try assumption; try reflexivity. apply jr_og_eqb_eq.
Qed.

(* ------------------------------------------------------------------ folds with an invariant *)

Lemma jr_fold_perm_inv {S A C : Type} (cls : A -> C) (step : S -> A -> S) (Inv : S -> Prop) :
  (forall a s, Inv s -> Inv (step s a)) ->
  (forall a b s, Inv s -> cls a <> cls b -> step (step s a) b = step (step s b) a) ->
  forall l l', Permutation l l' -> NoDup (map cls l) -> forall s, Inv s -> fold_left step l s = fold_left step l' s.
Proof.
  intros Hi Hc l l' Hp. induction Hp; intros Hnd s Hs; simpl.
  - reflexivity.
  - inversion Hnd; subst. apply IHHp; [assumption|]. apply Hi. exact Hs.
  - inversion Hnd as [|? ? Hy Hnd']; subst. inversion Hnd' as [|? ? Hx Hnd'']; subst.
    rewrite (Hc y x s Hs); [reflexivity|].
    intro E. apply Hy. simpl. left. symmetry. exact E.
  - rewrite IHHp1 by assumption. apply IHHp2; [|exact Hs].
    eapply Permutation_NoDup; [|exact Hnd]. apply Permutation_map. exact Hp1.
Qed.

(* one level of the reactor: the members sorted, with their values normalised, fold to the same state *)
Lemma jr_level {S : Type} (strict : bool) (step : S -> list N * jr_json -> S) (Inv : S -> Prop) (m : list (list N * jr_json)) :
  (forall a s, Inv s -> Inv (step s a)) ->
  (forall a b s, Inv s -> jr_class strict (fst a) <> jr_class strict (fst b) -> step (step s a) b = step (step s b) a) ->
  (forall kv, In kv m -> forall s, step s (fst kv, jr_sort (snd kv)) = step s kv) ->
  jr_nodupb (map (fun kv => jr_class strict (fst kv)) m) = true ->
  forall s, Inv s ->
  fold_left step (jr_isort (map (fun kv => (fst kv, jr_sort (snd kv))) m)) s = fold_left step m s.
Proof.
  intros Hi Hc Hk Hnd s Hs.
  set (f := fun kv : list N * jr_json => (fst kv, jr_sort (snd kv))).
  rewrite <- (jr_fold_cong step f m Hk s).
  symmetry.
  apply (jr_fold_perm_inv (fun kv => jr_class strict (fst kv)) step Inv Hi Hc); [apply jr_isort_perm| |exact Hs].
  rewrite map_map. simpl. apply jr_nodupb_NoDup. exact Hnd.
Qed.

(* ------------------------------------------------------------------ induction over JSON trees *)

Section JrInd.
  Variable P : jr_json -> Prop.
  Hypothesis Hnull : P JrNull.
  Hypothesis Hbool : forall b, P (JrBool b).
  Hypothesis Hnum : forall s, P (JrNum s).
  Hypothesis Hstr : forall s, P (JrStr s).
  Hypothesis Harr : forall l, Forall P l -> P (JrArr l).
  Hypothesis Hobj : forall m, Forall (fun kv => P (snd kv)) m -> P (JrObj m).
  Fixpoint jr_json_ind2 (v : jr_json) : P v :=
    match v with
    | JrNull => Hnull
    | JrBool b => Hbool b
    | JrNum s => Hnum s
    | JrStr s => Hstr s
    | JrArr l =>
      Harr l ((fix go (l : list jr_json) : Forall P l :=
                 match l with
                 | [] => Forall_nil P
                 | x :: t => Forall_cons x (jr_json_ind2 x) (go t)
                 end) l)
    | JrObj m =>
      Hobj m ((fix go (m : list (list N * jr_json)) : Forall (fun kv => P (snd kv)) m :=
                 match m with
                 | [] => Forall_nil _
                 | (k, x) :: t => @Forall_cons _ (fun kv => P (snd kv)) (k, x) t (jr_json_ind2 x) (go t)
                 end) m)
    end.
End JrInd.

(* ------------------------------------------------------------------ classes *)

Lemma jr_npfx_some k s : jr_s_npfx k = Some s -> k = 110 :: 58 :: 47 :: s.
Proof.
  unfold jr_s_npfx. intros H.
  repeat match type of H with
         | match ?x with _ => _ end = _ => destruct x; try discriminate
         end.
  injection H as <-. reflexivity.
Qed.

Lemma jr_class_npfx strict k s x : jr_s_npfx k = Some s -> jr_key strict k = Some x -> jr_class strict k = x.
Proof.
  intros Hp Hk. pose proof (jr_npfx_some _ _ Hp) as ->.
  unfold jr_class. rewrite Hk. reflexivity.
Qed.

Lemma jr_key_nopfx strict k : jr_s_npfx k = None -> jr_key strict k = Some k.
Proof. intros H. unfold jr_key. rewrite H. reflexivity. Qed.

Lemma jr_key_npfx_slash strict k s x : jr_s_npfx k = Some s -> jr_key strict k = Some x -> exists n, x = 47 :: n.
Proof.
  intros Hp Hk. unfold jr_key in Hk. rewrite Hp in Hk.
  destruct (jm_name_token strict s []) as [n|]; [|discriminate]. injection Hk as <-. exists n. reflexivity.
Qed.

Lemma jr_class_slash strict n : jr_class strict (47 :: n) = 47 :: n.
Proof. reflexivity. Qed.

Lemma jr_class_key strict ka kb x y :
  jr_key strict ka = Some x -> jr_key strict kb = Some y -> jr_class strict ka <> jr_class strict kb -> x <> y.
Proof.
  intros Ha Hb Hc E. subst y. apply Hc.
  destruct (jr_s_npfx ka) as [sa|] eqn:Pa; destruct (jr_s_npfx kb) as [sb|] eqn:Pb.
  - rewrite (jr_class_npfx _ _ _ _ Pa Ha), (jr_class_npfx _ _ _ _ Pb Hb). reflexivity.
  - rewrite (jr_class_npfx _ _ _ _ Pa Ha).
    destruct (jr_key_npfx_slash _ _ _ _ Pa Ha) as [n ->].
    rewrite (jr_key_nopfx _ _ Pb) in Hb. injection Hb as ->. symmetry. apply jr_class_slash.
  - rewrite (jr_class_npfx _ _ _ _ Pb Hb).
    destruct (jr_key_npfx_slash _ _ _ _ Pb Hb) as [n ->].
    rewrite (jr_key_nopfx _ _ Pa) in Ha. injection Ha as ->. apply jr_class_slash.
  - rewrite (jr_key_nopfx _ _ Pa) in Ha. rewrite (jr_key_nopfx _ _ Pb) in Hb. congruence.
Qed.

(* ------------------------------------------------------------------ st_object: values *)

Definition jr_dict_inv (s : list (list N * jobj) * bool * bool) : Prop := jr_dsorted (fst (fst s)).

Lemma jr_dict_step_inv strict a s : jr_dict_inv s -> jr_dict_inv (jr_dict_step strict s a).
Proof.
  destruct s as [[d e] u], a as [k [[o eo] uo]]. unfold jr_dict_inv, jr_dict_step. simpl.
  destruct (jr_key strict k); simpl; [apply jr_put_sorted|auto].
Qed.

Lemma jr_dict_step_comm strict (a b : list N * jr_res) s : jr_dict_inv s ->
  jr_class strict (fst a) <> jr_class strict (fst b) ->
  jr_dict_step strict (jr_dict_step strict s a) b = jr_dict_step strict (jr_dict_step strict s b) a.
Proof.
  destruct s as [[d e] u], a as [ka [[oa ea] ua]], b as [kb [[ob eb] ub]]. unfold jr_dict_inv. simpl.
  intros Hs Hc.
  destruct (jr_key strict ka) as [x|] eqn:Ka; destruct (jr_key strict kb) as [y|] eqn:Kb; simpl; rewrite ?Ka, ?Kb.
  - rewrite (jr_put_comm y x) by (try assumption; apply not_eq_sym; eapply jr_class_key; eassumption).
    destruct e, ea, eb, u, ua, ub; reflexivity.
  - destruct e, ea, u, ua, ub; reflexivity.
  - destruct e, eb, u, ua, ub; reflexivity.
  - destruct u, ua, ub; reflexivity.
Qed.

Lemma jr_make_arr strict l :
  jr_make strict (JrArr l) =
  (JArr (map (fun x => fst (fst x)) (map (jr_make strict) l)), existsb (fun x => snd (fst x)) (map (jr_make strict) l),
   existsb (fun x => snd x) (map (jr_make strict) l)).
Proof. reflexivity. Qed.

Lemma jr_make_obj strict m :
  jr_make strict (JrObj m) =
  let '(d, e, u) := fold_left (jr_dict_step strict) (map (fun kv => (fst kv, jr_make strict (snd kv))) m) ([], false, false) in
  (JDict d, e, u).
Proof. reflexivity. Qed.

Lemma jr_wfb_obj strict m : jr_wfb strict (JrObj m) = true ->
  jr_nodupb (map (fun kv => jr_class strict (fst kv)) m) = true /\ forall kv, In kv m -> jr_wfb strict (snd kv) = true.
Proof.
  simpl. intros H. apply andb_true_iff in H. destruct H as [H1 H2]. split; [exact H1|].
  rewrite forallb_forall in H2. exact H2.
Qed.

(* the members of a PDF dictionary (and, recursively, of everything inside it) may come in any order *)
Lemma jr_make_member_order_lemma : forall strict v, jr_wfb strict v = true -> jr_make strict (jr_sort v) = jr_make strict v.
Proof.
  intros strict v. induction v using jr_json_ind2; intros Hwf; try reflexivity.
  - (* array *)
    change (jr_sort (JrArr l)) with (JrArr (map jr_sort l)). rewrite !jr_make_arr.
    assert (E : map (jr_make strict) (map jr_sort l) = map (jr_make strict) l).
    { rewrite map_map. apply map_ext_in. intros x Hx. rewrite Forall_forall in H. apply H; [exact Hx|].
      simpl in Hwf. rewrite forallb_forall in Hwf. apply Hwf. exact Hx. }
    rewrite E. reflexivity.
  - (* object *)
    destruct (jr_wfb_obj _ _ Hwf) as [Hnd Hch].
    change (jr_sort (JrObj m)) with (JrObj (jr_isort (map (fun kv => (fst kv, jr_sort (snd kv))) m))).
    rewrite !jr_make_obj. rewrite !jr_fold_left_map.
    rewrite (jr_level strict (fun s a => jr_dict_step strict s (fst a, jr_make strict (snd a))) jr_dict_inv m); [reflexivity| | | | |].
    + intros a s. apply jr_dict_step_inv.
    + intros a b s Hs Hc. apply jr_dict_step_comm; assumption.
    + intros kv Hk s. simpl. rewrite Forall_forall in H. rewrite (H kv Hk (Hch kv Hk)). destruct kv; reflexivity.
    + exact Hnd.
    + exact I.
Qed.

(* ------------------------------------------------------------------ st_stream (after the repair of C14-F3) *)

Ltac jr_keys :=
  repeat match goal with
         | H : jr_keq ?a ?b = true |- _ => apply jr_keq_eq in H; subst
         end.

(* what each member of a "stream" does to a state whose object is a stream *)
Definition jr_dict_eff (strict lenfix : bool) (v : jr_json) (d : list (list N * jobj)) : list (list N * jobj) * bool * bool :=
  match v with
  | JrObj _ =>
    match jr_make strict v with
    | (JDict nd, e, u) => (if lenfix then jr_strip_length nd else nd, e, u)
    | (_, e, u) => (d, true, u)
    end
  | _ => (d, true, false)
  end.
Definition jr_data_eff (mk : list N -> jr_data) (v : jr_json) : jr_data * bool :=
  match v with JrStr t => (mk t, false) | _ => (JrRaw [], true) end.

Lemma jr_stream_step_dict strict lenfix d dat f1 f2 f3 f4 f5 f6 e u v :
  jr_stream_step strict lenfix (mkJrOst (JrStream d dat) (mkJrFlags f1 f2 f3 f4 f5 f6) e u) (jr_s_dict, v) =
  mkJrOst (JrStream (fst (fst (jr_dict_eff strict lenfix v d))) dat) (mkJrFlags f1 f2 true f4 f5 f6)
          (e || snd (fst (jr_dict_eff strict lenfix v d))) (u || snd (jr_dict_eff strict lenfix v d)).
Proof.
  unfold jr_stream_step, jr_dict_eff. cbn [jo_cur jo_flags jo_err jo_unm jf_value jf_stream jf_dict jf_data jf_datafile jf_needs].
  rewrite jr_keq_refl.
  destruct v; cbn [fst snd]; rewrite ?orb_true_r, ?orb_false_r; try reflexivity.
  destruct (jr_make strict (JrObj m)) as [[j e0] u0]. destruct j; cbn [fst snd]; rewrite ?orb_true_r; reflexivity.
Qed.

Lemma jr_stream_step_data strict d dat f1 f2 f3 f4 f5 f6 e u v :
  jr_stream_step strict true (mkJrOst (JrStream d dat) (mkJrFlags f1 f2 f3 f4 f5 f6) e u) (jr_s_data, v) =
  mkJrOst (JrStream d (fst (jr_data_eff JrInline v))) (mkJrFlags f1 f2 f3 true f5 f6) (e || snd (jr_data_eff JrInline v)) u.
Proof.
  unfold jr_stream_step, jr_data_eff. cbn [jo_cur jo_flags jo_err jo_unm jf_value jf_stream jf_dict jf_data jf_datafile jf_needs].
  change (jr_keq jr_s_data jr_s_dict) with false. rewrite jr_keq_refl.
  destruct v; cbn; rewrite ?orb_true_r, ?orb_false_r; reflexivity.
Qed.

Lemma jr_stream_step_datafile strict d dat f1 f2 f3 f4 f5 f6 e u v :
  jr_stream_step strict true (mkJrOst (JrStream d dat) (mkJrFlags f1 f2 f3 f4 f5 f6) e u) (jr_s_datafile, v) =
  mkJrOst (JrStream d (fst (jr_data_eff JrFile v))) (mkJrFlags f1 f2 f3 f4 true f6) (e || snd (jr_data_eff JrFile v)) u.
Proof.
  unfold jr_stream_step, jr_data_eff. cbn [jo_cur jo_flags jo_err jo_unm jf_value jf_stream jf_dict jf_data jf_datafile jf_needs].
  change (jr_keq jr_s_datafile jr_s_dict) with false. change (jr_keq jr_s_datafile jr_s_data) with false. rewrite jr_keq_refl.
  destruct v; cbn; rewrite ?orb_true_r, ?orb_false_r; reflexivity.
Qed.

Lemma jr_stream_step_other strict lenfix s k v :
  jr_keq k jr_s_dict = false -> jr_keq k jr_s_data = false -> jr_keq k jr_s_datafile = false ->
  jr_stream_step strict lenfix s (k, v) = s.
Proof.
  intros H1 H2 H3. unfold jr_stream_step. rewrite H1, H2, H3. destruct (jo_cur s); reflexivity.
Qed.

Lemma jr_stream_step_comm strict (a b : list N * jr_json) s :
  jr_class strict (fst a) <> jr_class strict (fst b) ->
  jr_stream_step strict true (jr_stream_step strict true s a) b = jr_stream_step strict true (jr_stream_step strict true s b) a.
Proof.
  destruct a as [ka va], b as [kb vb], s as [cur [f1 f2 f3 f4 f5 f6] e u]. simpl fst. intros Hc.
  destruct cur as [o|d dat]; [reflexivity|].
  destruct (jr_keq ka jr_s_dict) eqn:A1; [|destruct (jr_keq ka jr_s_data) eqn:A2; [|destruct (jr_keq ka jr_s_datafile) eqn:A3]];
  (destruct (jr_keq kb jr_s_dict) eqn:B1; [|destruct (jr_keq kb jr_s_data) eqn:B2; [|destruct (jr_keq kb jr_s_datafile) eqn:B3]]);
  jr_keys; try (exfalso; apply Hc; reflexivity);
  rewrite ?jr_stream_step_dict, ?jr_stream_step_data, ?jr_stream_step_datafile, ?(jr_stream_step_other strict true _ ka), ?(jr_stream_step_other strict true _ kb) by assumption;
  rewrite ?jr_stream_step_dict, ?jr_stream_step_data, ?jr_stream_step_datafile, ?(jr_stream_step_other strict true _ ka), ?(jr_stream_step_other strict true _ kb) by assumption;
  try reflexivity.
  all: f_equal; rewrite <- !orb_assoc; f_equal; apply orb_comm.
Qed.

Lemma jr_sort_obj m : jr_sort (JrObj m) = JrObj (jr_isort (map (fun kv => (fst kv, jr_sort (snd kv))) m)).
Proof. reflexivity. Qed.

Lemma jr_stream_step_sort strict lenfix s k v : jr_wfb strict v = true ->
  jr_stream_step strict lenfix s (k, jr_sort v) = jr_stream_step strict lenfix s (k, v).
Proof.
  intros Hwf. unfold jr_stream_step. destruct (jo_cur s); [reflexivity|].
  destruct (jr_keq k jr_s_dict); [|destruct (jr_keq k jr_s_data); [|destruct (jr_keq k jr_s_datafile)]];
    destruct v; try reflexivity.
  rewrite jr_sort_obj. rewrite <- jr_sort_obj. rewrite jr_make_member_order_lemma by exact Hwf. reflexivity.
Qed.

(* the members of a "stream" may come in any order: "dict" before or after "data" / "datafile" *)
Lemma jr_stream_member_order_lemma : forall strict m s, jr_wfb strict (JrObj m) = true ->
  fold_left (jr_stream_step strict true) (jr_isort (map (fun kv => (fst kv, jr_sort (snd kv))) m)) s =
  fold_left (jr_stream_step strict true) m s.
Proof.
  intros strict m s Hwf. destruct (jr_wfb_obj _ _ Hwf) as [Hnd Hch].
  apply (jr_level strict (jr_stream_step strict true) (fun _ => True)); auto.
  - intros a b s0 _ Hc. apply jr_stream_step_comm. exact Hc.
  - intros kv Hk s0. destruct kv as [k v]. apply jr_stream_step_sort. apply (Hch _ Hk).
Qed.

(* ------------------------------------------------------------------ st_object_top *)

Lemma jr_objtop_step_other strict lenfix n g s k v :
  jr_keq k jr_s_value = false -> jr_keq k jr_s_stream = false -> jr_objtop_step strict lenfix n g s (k, v) = s.
Proof. intros H1 H2. unfold jr_objtop_step. rewrite H1, H2. reflexivity. Qed.

Lemma jr_objtop_step_comm strict lenfix n g (a b : list N * jr_json) s :
  jr_class strict (fst a) <> jr_class strict (fst b) ->
  jr_objtop_step strict lenfix n g (jr_objtop_step strict lenfix n g s a) b =
  jr_objtop_step strict lenfix n g (jr_objtop_step strict lenfix n g s b) a.
Proof.
  destruct a as [ka va], b as [kb vb]. simpl fst. intros Hc.
  destruct (jr_keq ka jr_s_value) eqn:A1; [|destruct (jr_keq ka jr_s_stream) eqn:A2];
  (destruct (jr_keq kb jr_s_value) eqn:B1; [|destruct (jr_keq kb jr_s_stream) eqn:B2]);
  jr_keys; try (exfalso; apply Hc; reflexivity);
  rewrite ?(jr_objtop_step_other strict lenfix n g _ ka), ?(jr_objtop_step_other strict lenfix n g _ kb) by assumption; reflexivity.
Qed.

Lemma jr_objtop_step_sort strict n g s k v : jr_wfb strict v = true ->
  jr_objtop_step strict true n g s (k, jr_sort v) = jr_objtop_step strict true n g s (k, v).
Proof.
  intros Hwf. unfold jr_objtop_step.
  destruct (jr_keq k jr_s_value).
  - rewrite jr_make_member_order_lemma by exact Hwf. reflexivity.
  - destruct (jr_keq k jr_s_stream); [|reflexivity].
    destruct v; try reflexivity.
    rewrite jr_sort_obj. rewrite jr_stream_member_order_lemma by exact Hwf. reflexivity.
Qed.

Lemma jr_objtop_member_order strict n g m s : jr_wfb strict (JrObj m) = true ->
  fold_left (jr_objtop_step strict true n g) (jr_isort (map (fun kv => (fst kv, jr_sort (snd kv))) m)) s =
  fold_left (jr_objtop_step strict true n g) m s.
Proof.
  intros Hwf. destruct (jr_wfb_obj _ _ Hwf) as [Hnd Hch].
  apply (jr_level strict (jr_objtop_step strict true n g) (fun _ => True)); auto.
  - intros a b s0 _ Hc. apply jr_objtop_step_comm. exact Hc.
  - intros kv Hk s0. destruct kv as [k v]. apply jr_objtop_step_sort. apply (Hch _ Hk).
Qed.

(* ------------------------------------------------------------------ st_trailer *)

Lemma jr_trailer_step_other strict s k v :
  jr_keq k jr_s_value = false -> jr_keq k jr_s_stream = false -> jr_trailer_step strict s (k, v) = s.
Proof. intros H1 H2. unfold jr_trailer_step. destruct s as [[[t sv] e] u]. rewrite H1, H2. reflexivity. Qed.

Lemma jr_trailer_step_comm strict (a b : list N * jr_json) s :
  jr_class strict (fst a) <> jr_class strict (fst b) ->
  jr_trailer_step strict (jr_trailer_step strict s a) b = jr_trailer_step strict (jr_trailer_step strict s b) a.
Proof.
  destruct a as [ka va], b as [kb vb]. simpl fst. intros Hc.
  destruct (jr_keq ka jr_s_value) eqn:A1; [|destruct (jr_keq ka jr_s_stream) eqn:A2];
  (destruct (jr_keq kb jr_s_value) eqn:B1; [|destruct (jr_keq kb jr_s_stream) eqn:B2]);
  jr_keys; try (exfalso; apply Hc; reflexivity);
  rewrite ?(jr_trailer_step_other strict _ ka), ?(jr_trailer_step_other strict _ kb) by assumption; reflexivity.
Qed.

Lemma jr_trailer_step_sort strict s k v : jr_wfb strict v = true ->
  jr_trailer_step strict s (k, jr_sort v) = jr_trailer_step strict s (k, v).
Proof.
  intros Hwf. unfold jr_trailer_step. destruct s as [[[t sv] e] u].
  destruct (jr_keq k jr_s_value); [|reflexivity].
  destruct v; try reflexivity.
  rewrite jr_sort_obj. rewrite <- jr_sort_obj. rewrite jr_make_member_order_lemma by exact Hwf. reflexivity.
Qed.

Lemma jr_trailer_member_order strict m s : jr_wfb strict (JrObj m) = true ->
  fold_left (jr_trailer_step strict) (jr_isort (map (fun kv => (fst kv, jr_sort (snd kv))) m)) s =
  fold_left (jr_trailer_step strict) m s.
Proof.
  intros Hwf. destruct (jr_wfb_obj _ _ Hwf) as [Hnd Hch].
  apply (jr_level strict (jr_trailer_step strict) (fun _ => True)); auto.
  - intros a b s0 _ Hc. apply jr_trailer_step_comm. exact Hc.
  - intros kv Hk s0. destruct kv as [k v]. apply jr_trailer_step_sort. apply (Hch _ Hk).
Qed.

(* ------------------------------------------------------------------ st_objects *)
From Coq Require Import Btauto.

Definition jr_st_inv (s : jr_st) : Prop := jr_osorted (jd_objs (js_doc s)).

Definition jr_trailer_eff (strict : bool) (v : jr_json) (t : jobj) : jobj * bool * bool :=
  match v with
  | JrObj m => let '(t', sv, e, u) := fold_left (jr_trailer_step strict) m (t, false, false, false) in (t', e || negb sv, u)
  | _ => (t, true, false)
  end.

Definition jr_obj_eff (strict lenfix : bool) (og : N * N) (m : list (list N * jr_json)) (cur : jr_pobj) : jr_pobj * bool * bool :=
  let r := fold_left (jr_objtop_step strict lenfix (fst og) (snd og)) m (mkJrOst cur jr_flags0 false false) in
  (jo_cur r, jo_err r || jr_objtop_end_err (jo_flags r), jo_unm r).

Lemma jr_objects_step_trailer strict lenfix objs t ver e u q1 q2 q3 q4 q5 q6 v :
  jr_objects_step strict lenfix (mkJrSt (mkJrDoc objs t ver) e u q1 q2 q3 q4 q5 q6) (jr_s_trailer, v) =
  mkJrSt (mkJrDoc objs (fst (fst (jr_trailer_eff strict v t))) ver) (e || snd (fst (jr_trailer_eff strict v t)))
         (u || snd (jr_trailer_eff strict v t)) q1 q2 q3 q4 q5 true.
Proof.
  unfold jr_objects_step, jr_trailer_eff. rewrite jr_keq_refl. cbn [js_doc jd_objs jd_trailer jd_version js_err js_unm js_saw_qpdf js_saw_meta js_saw_objects js_saw_jsonversion js_saw_pdfversion js_saw_trailer].
  destruct v; cbn [fst snd]; rewrite ?orb_true_r, ?orb_false_r; try reflexivity.
  destruct (fold_left (jr_trailer_step strict) m (t, false, false, false)) as [[[t' sv] e'] u']. cbn [fst snd].
  rewrite orb_assoc. reflexivity.
Qed.

Lemma jr_objects_step_obj strict lenfix objs t ver e u q1 q2 q3 q4 q5 q6 k og m :
  jr_keq k jr_s_trailer = false -> jr_obj_key k = Some og ->
  jr_objects_step strict lenfix (mkJrSt (mkJrDoc objs t ver) e u q1 q2 q3 q4 q5 q6) (k, JrObj m) =
  mkJrSt (mkJrDoc (jr_set og (fst (fst (jr_obj_eff strict lenfix og m (jr_lookup og objs)))) objs) t ver)
         (e || snd (fst (jr_obj_eff strict lenfix og m (jr_lookup og objs))))
         (u || snd (jr_obj_eff strict lenfix og m (jr_lookup og objs))) q1 q2 q3 q4 q5 q6.
Proof.
  intros H1 H2. unfold jr_objects_step, jr_obj_eff. rewrite H1, H2.
  cbn [js_doc jd_objs jd_trailer jd_version js_err js_unm js_saw_qpdf js_saw_meta js_saw_objects js_saw_jsonversion js_saw_pdfversion js_saw_trailer fst snd].
  rewrite orb_assoc. reflexivity.
Qed.

(* every other member: an error is recorded, nothing else happens *)
Definition jr_objects_plain (k : list N) (v : jr_json) : Prop :=
  jr_keq k jr_s_trailer = false /\ (jr_obj_key k = None \/ match v with JrObj _ => False | _ => True end).

Lemma jr_objects_step_plain strict lenfix s k v : jr_objects_plain k v -> jr_objects_step strict lenfix s (k, v) = jr_with_err s.
Proof.
  intros [H1 H2]. unfold jr_objects_step. rewrite H1.
  destruct (jr_obj_key k) as [og|]; [|reflexivity].
  destruct H2 as [H2|H2]; [discriminate|]. destruct v; try reflexivity. contradiction.
Qed.

Lemma jr_objects_cases k v :
  k = jr_s_trailer \/
  (jr_keq k jr_s_trailer = false /\ exists og m, jr_obj_key k = Some og /\ v = JrObj m) \/
  jr_objects_plain k v.
Proof.
  unfold jr_objects_plain.
  destruct (jr_keq k jr_s_trailer) eqn:E; [left; apply jr_keq_eq; exact E|right].
  destruct (jr_obj_key k) as [og|] eqn:O.
  - destruct v; try (right; split; [reflexivity|right; exact I]).
    left. split; [reflexivity|]. exists og, m. split; reflexivity.
  - right. split; [reflexivity|left; reflexivity].
Qed.

Lemma jr_class_obj strict k og : jr_obj_key k = Some og ->
  jr_class strict k = [111; 98; 106; 58] ++ dec_of_N (fst og) ++ [32] ++ dec_of_N (snd og).
Proof. intros H. unfold jr_class. rewrite H. destruct og. reflexivity. Qed.

Lemma jr_objects_step_inv strict lenfix a s : jr_st_inv s -> jr_st_inv (jr_objects_step strict lenfix s a).
Proof.
  destruct a as [k v]. destruct s as [[objs t ver] e u q1 q2 q3 q4 q5 q6]. unfold jr_st_inv. intros Hs.
  destruct (jr_objects_cases k v) as [->|[[H1 [og [m [H2 ->]]]]|H]].
  - rewrite jr_objects_step_trailer. exact Hs.
  - rewrite (jr_objects_step_obj _ _ _ _ _ _ _ _ _ _ _ _ _ _ _ _ H1 H2). cbn. apply jr_set_sorted. exact Hs.
  - rewrite (jr_objects_step_plain _ _ _ _ _ H). exact Hs.
Qed.

Lemma jr_objects_step_comm strict lenfix (a b : list N * jr_json) s : jr_st_inv s ->
  jr_class strict (fst a) <> jr_class strict (fst b) ->
  jr_objects_step strict lenfix (jr_objects_step strict lenfix s a) b = jr_objects_step strict lenfix (jr_objects_step strict lenfix s b) a.
Proof.
  destruct a as [ka va], b as [kb vb]. destruct s as [[objs t ver] e u q1 q2 q3 q4 q5 q6]. unfold jr_st_inv. simpl fst.
  cbn [js_doc jd_objs]. intros Hs Hc.
  destruct (jr_objects_cases ka va) as [->|[[A1 [oga [ma [A2 ->]]]]|A]];
  destruct (jr_objects_cases kb vb) as [->|[[B1 [ogb [mb [B2 ->]]]]|B]].
  - exfalso. apply Hc. reflexivity.
  - rewrite jr_objects_step_trailer. rewrite (jr_objects_step_obj _ _ _ _ _ _ _ _ _ _ _ _ _ _ _ _ B1 B2).
    rewrite (jr_objects_step_obj _ _ _ _ _ _ _ _ _ _ _ _ _ _ _ _ B1 B2). rewrite jr_objects_step_trailer.
    f_equal; btauto.
  - rewrite jr_objects_step_trailer. rewrite !(jr_objects_step_plain _ _ _ _ _ B).
    unfold jr_with_err. cbn [js_doc js_err js_unm js_saw_qpdf js_saw_meta js_saw_objects js_saw_jsonversion js_saw_pdfversion js_saw_trailer].
    rewrite jr_objects_step_trailer. f_equal.
  - rewrite jr_objects_step_trailer. rewrite (jr_objects_step_obj _ _ _ _ _ _ _ _ _ _ _ _ _ _ _ _ A1 A2).
    rewrite (jr_objects_step_obj _ _ _ _ _ _ _ _ _ _ _ _ _ _ _ _ A1 A2). rewrite jr_objects_step_trailer.
    f_equal; btauto.
  - assert (Hne : oga <> ogb).
    { intros E. subst ogb. apply Hc. rewrite (jr_class_obj _ _ _ A2), (jr_class_obj _ _ _ B2). reflexivity. }
    rewrite (jr_objects_step_obj _ _ _ _ _ _ _ _ _ _ _ _ _ _ _ _ A1 A2). rewrite (jr_objects_step_obj _ _ _ _ _ _ _ _ _ _ _ _ _ _ _ _ B1 B2).
    rewrite (jr_objects_step_obj _ _ _ _ _ _ _ _ _ _ _ _ _ _ _ _ B1 B2). rewrite (jr_objects_step_obj _ _ _ _ _ _ _ _ _ _ _ _ _ _ _ _ A1 A2).
    rewrite !(jr_lookup_set_other ogb oga) by (apply not_eq_sym; exact Hne).
    rewrite !(jr_lookup_set_other oga ogb) by exact Hne.
    rewrite (jr_set_comm ogb oga) by (try assumption; apply not_eq_sym; exact Hne).
    f_equal; btauto.
  - rewrite (jr_objects_step_obj _ _ _ _ _ _ _ _ _ _ _ _ _ _ _ _ A1 A2). rewrite !(jr_objects_step_plain _ _ _ _ _ B).
    unfold jr_with_err. cbn [js_doc js_err js_unm js_saw_qpdf js_saw_meta js_saw_objects js_saw_jsonversion js_saw_pdfversion js_saw_trailer].
    rewrite (jr_objects_step_obj _ _ _ _ _ _ _ _ _ _ _ _ _ _ _ _ A1 A2). f_equal.
  - rewrite !(jr_objects_step_plain _ _ _ _ _ A). rewrite jr_objects_step_trailer.
    unfold jr_with_err. cbn [js_doc js_err js_unm js_saw_qpdf js_saw_meta js_saw_objects js_saw_jsonversion js_saw_pdfversion js_saw_trailer].
    rewrite jr_objects_step_trailer. f_equal.
  - rewrite !(jr_objects_step_plain _ _ _ _ _ A). rewrite (jr_objects_step_obj _ _ _ _ _ _ _ _ _ _ _ _ _ _ _ _ B1 B2).
    unfold jr_with_err. cbn [js_doc js_err js_unm js_saw_qpdf js_saw_meta js_saw_objects js_saw_jsonversion js_saw_pdfversion js_saw_trailer].
    rewrite (jr_objects_step_obj _ _ _ _ _ _ _ _ _ _ _ _ _ _ _ _ B1 B2). f_equal.
  - rewrite !(jr_objects_step_plain _ _ _ _ _ A), !(jr_objects_step_plain _ _ _ _ _ B), ?(jr_objects_step_plain _ _ _ _ _ A). reflexivity.
Qed.

Lemma jr_objects_step_sort strict s k v : jr_wfb strict v = true ->
  jr_objects_step strict true s (k, jr_sort v) = jr_objects_step strict true s (k, v).
Proof.
  intros Hwf. unfold jr_objects_step.
  destruct (jr_keq k jr_s_trailer).
  - destruct v; try reflexivity. rewrite jr_sort_obj. rewrite jr_trailer_member_order by exact Hwf. reflexivity.
  - destruct (jr_obj_key k) as [og|]; [|reflexivity].
    destruct v; try reflexivity. rewrite jr_sort_obj. rewrite jr_objtop_member_order by exact Hwf. reflexivity.
Qed.

Lemma jr_objects_member_order strict m s : jr_wfb strict (JrObj m) = true -> jr_st_inv s ->
  fold_left (jr_objects_step strict true) (jr_isort (map (fun kv => (fst kv, jr_sort (snd kv))) m)) s =
  fold_left (jr_objects_step strict true) m s.
Proof.
  intros Hwf Hs. destruct (jr_wfb_obj _ _ Hwf) as [Hnd Hch].
  apply (jr_level strict (jr_objects_step strict true) jr_st_inv); auto.
  - intros a s0. apply jr_objects_step_inv.
  - intros a b s0 H0 Hc. apply jr_objects_step_comm; assumption.
  - intros kv Hk s0. destruct kv as [k v]. apply jr_objects_step_sort. apply (Hch _ Hk).
Qed.

Lemma jr_fold_inv {S A : Type} (step : S -> A -> S) (Inv : S -> Prop) :
  (forall a s, Inv s -> Inv (step s a)) -> forall l s, Inv s -> Inv (fold_left step l s).
Proof. intros H l. induction l as [|a l IH]; intros s Hs; simpl; [exact Hs|]. apply IH. apply H. exact Hs. Qed.

(* ------------------------------------------------------------------ st_qpdf_meta *)

Lemma jr_meta_step_objs complete s a : jd_objs (js_doc (jr_meta_step complete s a)) = jd_objs (js_doc s).
Proof.
  destruct a as [k v]. unfold jr_meta_step.
  destruct (jr_keq k jr_s_pdfversion); [destruct v; try reflexivity; destruct (jr_pdf_version_ok s0); reflexivity|].
  destruct (jr_keq k jr_s_jsonversion); [reflexivity|].
  destruct (jr_keq k jr_s_pushed || jr_keq k jr_s_calledgetallpages); [destruct v; reflexivity|reflexivity].
Qed.

Lemma jr_meta_step_inv complete a s : jr_st_inv s -> jr_st_inv (jr_meta_step complete s a).
Proof. unfold jr_st_inv. rewrite jr_meta_step_objs. auto. Qed.

Lemma jr_meta_step_sort complete s k v : jr_meta_step complete s (k, jr_sort v) = jr_meta_step complete s (k, v).
Proof. unfold jr_meta_step. destruct v; reflexivity. Qed.

Lemma jr_meta_step_other complete s k v :
  jr_keq k jr_s_pdfversion = false -> jr_keq k jr_s_jsonversion = false ->
  jr_keq k jr_s_pushed = false -> jr_keq k jr_s_calledgetallpages = false -> jr_meta_step complete s (k, v) = s.
Proof. intros H1 H2 H3 H4. unfold jr_meta_step. rewrite H1, H2, H3, H4. reflexivity. Qed.

Lemma jr_meta_step_comm strict complete (a b : list N * jr_json) s :
  jr_class strict (fst a) <> jr_class strict (fst b) ->
  jr_meta_step complete (jr_meta_step complete s a) b = jr_meta_step complete (jr_meta_step complete s b) a.
Proof.
  destruct a as [ka va], b as [kb vb]. destruct s as [[objs t ver] e u q1 q2 q3 q4 q5 q6]. simpl fst. intros Hc.
  destruct (jr_keq ka jr_s_pdfversion) eqn:A1; [|destruct (jr_keq ka jr_s_jsonversion) eqn:A2;
    [|destruct (jr_keq ka jr_s_pushed) eqn:A3; [|destruct (jr_keq ka jr_s_calledgetallpages) eqn:A4]]];
  (destruct (jr_keq kb jr_s_pdfversion) eqn:B1; [|destruct (jr_keq kb jr_s_jsonversion) eqn:B2;
    [|destruct (jr_keq kb jr_s_pushed) eqn:B3; [|destruct (jr_keq kb jr_s_calledgetallpages) eqn:B4]]]);
  jr_keys; try (exfalso; apply Hc; reflexivity);
  rewrite ?(jr_meta_step_other complete _ ka), ?(jr_meta_step_other complete _ kb) by assumption; try reflexivity.
  all: unfold jr_meta_step, jr_with_err;
    cbn [js_doc jd_objs jd_trailer jd_version js_err js_unm js_saw_qpdf js_saw_meta js_saw_objects js_saw_jsonversion js_saw_pdfversion js_saw_trailer];
    repeat match goal with
           | |- context [jr_keq ?x ?y] => let c := eval vm_compute in (jr_keq x y) in change (jr_keq x y) with c
           end;
    cbn [orb];
    destruct va, vb; try reflexivity;
    repeat match goal with |- context [jr_pdf_version_ok ?x] => destruct (jr_pdf_version_ok x) end;
    cbn [js_doc jd_objs jd_trailer jd_version js_err js_unm js_saw_qpdf js_saw_meta js_saw_objects js_saw_jsonversion js_saw_pdfversion js_saw_trailer];
    try reflexivity; f_equal; btauto.
Qed.

Lemma jr_meta_member_order strict complete m s : jr_wfb strict (JrObj m) = true ->
  fold_left (jr_meta_step complete) (jr_isort (map (fun kv => (fst kv, jr_sort (snd kv))) m)) s =
  fold_left (jr_meta_step complete) m s.
Proof.
  intros Hwf. destruct (jr_wfb_obj _ _ Hwf) as [Hnd Hch].
  apply (jr_level strict (jr_meta_step complete) (fun _ => True)); auto.
  - intros a b s0 _ Hc. apply (jr_meta_step_comm strict). exact Hc.
  - intros kv Hk s0. destruct kv as [k v]. apply jr_meta_step_sort.
Qed.

(* ------------------------------------------------------------------ st_qpdf and st_top *)

Lemma jr_with_err_inv s : jr_st_inv s -> jr_st_inv (jr_with_err s).
Proof. auto. Qed.

Lemma jr_qpdf_items_sort strict complete l : forallb (jr_wfb strict) l = true -> forall s, jr_st_inv s ->
  jr_qpdf_items strict true complete (map jr_sort l) s = jr_qpdf_items strict true complete l s /\
  jr_st_inv (jr_qpdf_items strict true complete l s).
Proof.
  induction l as [|x t IH]; intros Hwf s Hs; [split; [reflexivity|exact Hs]|].
  simpl in Hwf. apply andb_true_iff in Hwf. destruct Hwf as [Hx Ht].
  cbn [map jr_qpdf_items].
  destruct (negb (js_saw_meta s)); [|destruct (negb (js_saw_objects s))].
  - destruct x; cbn [jr_sort]; try (apply IH; [exact Ht|exact Hs]).
    rewrite (jr_meta_member_order strict) by exact Hx. apply IH; [exact Ht|].
    apply jr_fold_inv; [intros a s0; apply jr_meta_step_inv|exact Hs].
  - destruct x; cbn [jr_sort]; try (apply IH; [exact Ht|exact Hs]).
    rewrite jr_objects_member_order by (try exact Hx; exact Hs). apply IH; [exact Ht|].
    apply jr_fold_inv; [intros a s0; apply jr_objects_step_inv|exact Hs].
  - apply IH; [exact Ht|exact Hs].
Qed.

Lemma jr_top_step_other strict lenfix complete s k v : jr_keq k jr_s_qpdf = false -> jr_top_step strict lenfix complete s (k, v) = s.
Proof. intros H. unfold jr_top_step. rewrite H. reflexivity. Qed.

Lemma jr_top_step_comm strict lenfix complete (a b : list N * jr_json) s :
  jr_class strict (fst a) <> jr_class strict (fst b) ->
  jr_top_step strict lenfix complete (jr_top_step strict lenfix complete s a) b =
  jr_top_step strict lenfix complete (jr_top_step strict lenfix complete s b) a.
Proof.
  destruct a as [ka va], b as [kb vb]. simpl fst. intros Hc.
  destruct (jr_keq ka jr_s_qpdf) eqn:A1; destruct (jr_keq kb jr_s_qpdf) eqn:B1; jr_keys;
    try (exfalso; apply Hc; reflexivity);
    rewrite ?(jr_top_step_other strict lenfix complete _ ka), ?(jr_top_step_other strict lenfix complete _ kb) by assumption; reflexivity.
Qed.

Lemma jr_top_step_inv strict complete a s : jr_wfb strict (snd a) = true -> jr_st_inv s -> jr_st_inv (jr_top_step strict true complete s a).
Proof.
  destruct a as [k v]. simpl snd. intros Hwf Hs. unfold jr_top_step.
  destruct (jr_keq k jr_s_qpdf); [|exact Hs].
  destruct v; try exact Hs. apply jr_qpdf_items_sort; [exact Hwf|exact Hs].
Qed.

Lemma jr_top_step_sort strict complete s k v : jr_wfb strict v = true -> jr_st_inv s ->
  jr_top_step strict true complete s (k, jr_sort v) = jr_top_step strict true complete s (k, v).
Proof.
  intros Hwf Hs. unfold jr_top_step. destruct (jr_keq k jr_s_qpdf); [|reflexivity].
  destruct v; try reflexivity. cbn [jr_sort]. apply jr_qpdf_items_sort; [exact Hwf|exact Hs].
Qed.

Lemma jr_qpdf_items_inv strict lenfix complete l : forall s, jr_st_inv s -> jr_st_inv (jr_qpdf_items strict lenfix complete l s).
Proof.
  induction l as [|x t IH]; intros s Hs; [exact Hs|].
  cbn [jr_qpdf_items]. apply IH.
  destruct (negb (js_saw_meta s)); [|destruct (negb (js_saw_objects s))]; try exact Hs.
  - destruct x; try exact Hs. apply jr_fold_inv; [intros a s0; apply jr_meta_step_inv|exact Hs].
  - destruct x; try exact Hs. apply jr_fold_inv; [intros a s0; apply jr_objects_step_inv|exact Hs].
Qed.

Lemma jr_top_step_inv_all strict lenfix complete a s : jr_st_inv s -> jr_st_inv (jr_top_step strict lenfix complete s a).
Proof.
  destruct a as [k v]. intros Hs. unfold jr_top_step.
  destruct (jr_keq k jr_s_qpdf); [|exact Hs].
  destruct v; try exact Hs. apply jr_qpdf_items_inv. exact Hs.
Qed.

Lemma jr_fold_cong_inv {S A : Type} (step : S -> A -> S) (f : A -> A) (Inv : S -> Prop) l :
  (forall a s, Inv s -> Inv (step s a)) ->
  (forall a, In a l -> forall s, Inv s -> step s (f a) = step s a) ->
  forall s, Inv s -> fold_left step (map f l) s = fold_left step l s.
Proof.
  intros Hi. induction l as [|a l IH]; intros H s Hs; simpl; [reflexivity|].
  rewrite H by (try (left; reflexivity); exact Hs). apply IH; [|apply Hi; exact Hs]. intros b Hb. apply H. right. exact Hb.
Qed.

Lemma jr_level_inv {S : Type} (strict : bool) (step : S -> list N * jr_json -> S) (Inv : S -> Prop) (m : list (list N * jr_json)) :
  (forall a s, Inv s -> Inv (step s a)) ->
  (forall a b s, Inv s -> jr_class strict (fst a) <> jr_class strict (fst b) -> step (step s a) b = step (step s b) a) ->
  (forall kv, In kv m -> forall s, Inv s -> step s (fst kv, jr_sort (snd kv)) = step s kv) ->
  jr_nodupb (map (fun kv => jr_class strict (fst kv)) m) = true ->
  forall s, Inv s ->
  fold_left step (jr_isort (map (fun kv => (fst kv, jr_sort (snd kv))) m)) s = fold_left step m s.
Proof.
  intros Hi Hc Hk Hnd s Hs.
  set (f := fun kv : list N * jr_json => (fst kv, jr_sort (snd kv))).
  rewrite <- (jr_fold_cong_inv step f Inv m Hi Hk s Hs).
  symmetry.
  apply (jr_fold_perm_inv (fun kv => jr_class strict (fst kv)) step Inv Hi Hc); [apply jr_isort_perm| |exact Hs].
  rewrite map_map. simpl. apply jr_nodupb_NoDup. exact Hnd.
Qed.

(* ------------------------------------------------------------------ the whole import *)

Definition jr_doc_sorted (d : jr_doc) : Prop := jr_osorted (jd_objs d).

(* QPDF::importJSON (create or update, after the repair of C14-F3) gives the same document - or fails alike -
   for a JSON text and for the text with the members of every object, at every depth, sorted by key: the order
   of members does not matter, provided no two members of one object fall into the same class (same key after
   n: decoding, same object id, value/stream, data/datafile). *)
Lemma jr_import_member_order_lemma : forall strict complete d0 j,
  jr_doc_sorted d0 -> jr_wfb strict j = true ->
  jr_import strict true complete d0 (jr_sort j) = jr_import strict true complete d0 j.
Proof.
  intros strict complete d0 j Hd Hwf. destruct j; try reflexivity.
  rewrite jr_sort_obj. unfold jr_import.
  destruct (jr_wfb_obj _ _ Hwf) as [Hnd Hch].
  rewrite (jr_level_inv strict (jr_top_step strict true complete) jr_st_inv m); try reflexivity.
  - intros a s. apply jr_top_step_inv_all.
  - intros a b s _ Hc. apply jr_top_step_comm. exact Hc.
  - intros kv Hk s Hs. destruct kv as [k v]. apply jr_top_step_sort; [apply (Hch _ Hk)|exact Hs].
  - exact Hnd.
  - exact Hd.
Qed.

(* two JSON texts whose parsed trees are equal up to the order of members import alike *)
Lemma jr_import_same_up_to_order_lemma : forall strict complete d0 a b,
  jr_doc_sorted d0 -> jr_wfb strict a = true -> jr_wfb strict b = true -> jr_sort a = jr_sort b ->
  jr_import strict true complete d0 a = jr_import strict true complete d0 b.
Proof.
  intros strict complete d0 a b Hd Ha Hb E.
  rewrite <- (jr_import_member_order_lemma strict complete d0 a Hd Ha).
  rewrite <- (jr_import_member_order_lemma strict complete d0 b Hd Hb).
  rewrite E. reflexivity.
Qed.

(* ------------------------------------------------------------------ consequences *)

Lemma jr_import_sorted strict lenfix complete d0 j : jr_doc_sorted d0 ->
  match fst (jr_import strict lenfix complete d0 j) with Some d => jr_doc_sorted d | None => True end.
Proof.
  intros Hd. unfold jr_import. destruct j; try exact I. cbn [fst].
  match goal with |- context [fold_left ?f ?m ?s0] => set (s := fold_left f m s0) end.
  assert (Hs : jr_st_inv s).
  { apply jr_fold_inv; [intros a s1; apply jr_top_step_inv_all|exact Hd]. }
  destruct (js_err s || jr_top_end_err complete s); [exact I|exact Hs].
Qed.

Lemma jr_empty_doc_sorted : jr_doc_sorted jr_empty_doc.
Proof. exact I. Qed.

(* --json-input then --update-from-json: both texts may be written with any member order *)
Lemma jr_create_update_member_order_lemma : forall strict j1 j2,
  jr_wfb strict j1 = true -> jr_wfb strict j2 = true ->
  jr_create_update strict true (jr_sort j1) (jr_sort j2) = jr_create_update strict true j1 j2.
Proof.
  intros strict j1 j2 H1 H2. unfold jr_create_update, jr_create.
  rewrite (jr_import_member_order_lemma strict true jr_empty_doc j1 jr_empty_doc_sorted H1).
  pose proof (jr_import_sorted strict true true jr_empty_doc j1 jr_empty_doc_sorted) as Hs.
  destruct (jr_import strict true true jr_empty_doc j1) as [[d|] u]; [|reflexivity].
  cbn [fst] in Hs. rewrite (jr_import_member_order_lemma strict false d j2 Hs H2). reflexivity.
Qed.

Lemma jr_json_eqb_eq : forall a b, jr_json_eqb a b = true -> a = b.
Proof.
  intros a. induction a using jr_json_ind2; intros b' Hb; destruct b'; simpl in Hb; try discriminate; try reflexivity.
  - apply Bool.eqb_prop in Hb. congruence.
  - apply jr_keq_eq in Hb. congruence.
  - apply jr_keq_eq in Hb. congruence.
  - f_equal. revert l0 Hb. induction H as [|x t Hx Ht IH]; intros [|y t'] Hb; try discriminate; try reflexivity.
    apply andb_true_iff in Hb. destruct Hb as [H1 H2]. f_equal; [apply Hx; exact H1|apply IH; exact H2].
  - f_equal. revert m0 Hb. induction H as [|x t Hx Ht IH]; intros [|y t'] Hb; try discriminate; try reflexivity.
    apply andb_true_iff in Hb. destruct Hb as [H12 H3]. apply andb_true_iff in H12. destruct H12 as [H1 H2].
    destruct x as [kx vx], y as [ky vy]. simpl in *. apply jr_keq_eq in H1. subst ky.
    f_equal; [f_equal; apply Hx; exact H2|apply IH; exact H3].
Qed.

(* the decision the check runs on pairs of parsed texts is sound for the theorem above *)
Lemma jr_import_decided_lemma : forall strict complete d0 a b,
  jr_doc_sorted d0 -> jr_same_up_to_order strict a b = true ->
  jr_import strict true complete d0 a = jr_import strict true complete d0 b.
Proof.
  intros strict complete d0 a b Hd H. unfold jr_same_up_to_order in H.
  apply andb_true_iff in H. destruct H as [H12 H3]. apply andb_true_iff in H12. destruct H12 as [H1 H2].
  apply jr_import_same_up_to_order_lemma; try assumption. apply jr_json_eqb_eq. exact H3.
Qed.

(* the case the reactor's own documentation does not cover: "dict" before "data" / "datafile" *)
Lemma jr_stream_dict_data_order_lemma : forall strict s d t,
  fold_left (jr_stream_step strict true) [(jr_s_dict, d); (jr_s_data, t)] s =
  fold_left (jr_stream_step strict true) [(jr_s_data, t); (jr_s_dict, d)] s /\
  fold_left (jr_stream_step strict true) [(jr_s_dict, d); (jr_s_datafile, t)] s =
  fold_left (jr_stream_step strict true) [(jr_s_datafile, t); (jr_s_dict, d)] s.
Proof.
  intros. cbn [fold_left]. split; apply jr_stream_step_comm; vm_compute; discriminate.
Qed.

(* why: Stream::replaceStreamData called with uninitialised filter / decode_parms handles leaves the dictionary
   alone; called with direct null objects it erases /Filter and /DecodeParms (and then "dict" first loses them) *)
Lemma jr_uninitialised_filter_handles_keep_dict_lemma : forall d, jr_replace_filter_data true None None 0 d = d.
Proof. reflexivity. Qed.

(* ... and direct null objects instead erase both keys: with such a call "dict" before "data" would lose its filters *)
Lemma jr_null_filter_handles_erase_lemma :
  exists d, jr_replace_filter_data true (Some JNull) (Some JNull) 0 d <> d.
Proof.
  exists [(jr_s_filter, JName [47; 70; 108; 97; 116; 101; 68; 101; 99; 111; 100; 101])].
  vm_compute. discriminate.
Qed.

Definition jr_f3_witness : jr_json :=
  JrObj [(jr_s_qpdf, JrArr [JrObj [(jr_s_jsonversion, JrNum [50]); (jr_s_pdfversion, JrStr [49; 46; 51])];
                            JrObj [([111; 98; 106; 58; 49; 32; 48; 32; 82],
                                    JrObj [(jr_s_stream, JrObj [(jr_s_dict, JrObj [(jr_s_length, JrNum [49; 55])]);
                                                                (jr_s_data, JrStr [65; 65; 65; 65])])]);
                                   (jr_s_trailer, JrObj [(jr_s_value, JrObj [])])]])].

Definition jr_f3_view (lenfix : bool) (j : jr_json) : option jr_view :=
  match fst (jr_import false lenfix true jr_empty_doc j) with
  | Some d => match jr_lookup (1, 0) (jd_objs d) with JrStream dict data => Some (jr_stream_view dict data) | _ => None end
  | None => None
  end.

(* C14-F3, the tree as it is (lenfix = false): a /Length in "dict" is dropped when "dict" comes first and kept when
   it follows "data" - the statement of jr_import_member_order is false there. Witness: one stream,
   {"dict": {"/Length": 17}, "data": "AAAA"}; sorted (= qpdf's own order, data first) the stale /Length stays and reading
   the data throws (17 bytes expected, 3 provided). *)
Lemma jr_import_member_order_refuted_lemma :
  jr_wfb false jr_f3_witness = true /\
  jr_f3_view false jr_f3_witness = Some (JrBytes [0; 0; 0]) /\
  jr_f3_view false (jr_sort jr_f3_witness) = Some JrDataError /\
  jr_f3_view true (jr_sort jr_f3_witness) = Some (JrBytes [0; 0; 0]).
Proof. vm_compute. repeat split. Qed.

(* ------------------------------------------------------------------ the spelling of a real *)

Lemma jr_forallb_digit_point a b : forallb is_digit (a ++ 46 :: b) = false.
Proof. rewrite forallb_app. simpl. apply andb_false_r. Qed.

Lemma jr_no_exponent_digits l : all_digits l -> existsb (fun c => (c =? 101) || (c =? 69)) l = false.
Proof.
  induction 1 as [|x t Hx Ht IH]; simpl; [reflexivity|]. rewrite IH.
  apply is_digit_range in Hx.
  destruct (x =? 101) eqn:E1; [apply N.eqb_eq in E1; lia|]. destruct (x =? 69) eqn:E2; [apply N.eqb_eq in E2; lia|]. reflexivity.
Qed.

(* every JSON spelling of a non-integer number without exponent ("-"? digits "." digits) is imported as the real with that
   very spelling; json_number_valid then says that it is exported with the same value: 1.5, 1.50 and 1.500 are
   the same number before and after *)
Lemma jr_real_import_lemma : forall strict sign ip fp, all_digits ip -> all_digits fp ->
  jr_make strict (JrNum (pdf_real_spelling sign ip fp)) = (JReal (pdf_real_spelling sign ip fp), false, false).
Proof.
  intros strict sign ip fp Hi Hf. cbn [jr_make].
  assert (Hll : jr_ll (pdf_real_spelling sign ip fp) = None).
  { unfold jr_ll, pdf_real_spelling.
    destruct sign as [[|]|]; cbn [app].
    - destruct (ip ++ 46 :: fp) eqn:E; [reflexivity|]. rewrite <- E. rewrite jr_forallb_digit_point. reflexivity.
    - reflexivity.
    - destruct ip as [|x ip'].
      + reflexivity.
      + cbn [app]. inversion Hi as [|? ? Hx Hi']; subst. apply is_digit_range in Hx.
        assert (x <> 45) by lia.
        destruct x as [|px]; [lia|].
        change (N.pos px :: ip' ++ 46 :: fp) with ((N.pos px :: ip') ++ 46 :: fp).
        destruct (N.eq_dec (N.pos px) 45) as [E45|N45]; [contradiction|].
        assert (forall (A : Type) (u w : A), match N.pos px :: (ip' ++ 46 :: fp) with 45 :: t => u | _ => w end = w) as Hm.
        { intros A u w. destruct px as [p|p|]; try reflexivity;
            repeat (destruct p as [p|p|]; try reflexivity); exfalso; apply N45; reflexivity. }
        cbn [app]. rewrite !Hm.
        change (N.pos px :: ip' ++ 46 :: fp) with ((N.pos px :: ip') ++ 46 :: fp). rewrite jr_forallb_digit_point. reflexivity. }
  rewrite Hll. f_equal.
  unfold jr_has_exponent, pdf_real_spelling. rewrite !existsb_app. cbn [existsb].
  rewrite (jr_no_exponent_digits ip Hi), (jr_no_exponent_digits fp Hf).
  destruct sign as [[|]|]; reflexivity.
Qed.
