(* C18 unbounded refinement, part E: resetLimits along a zipper, and split (with the recursion
   towards the root and the root push-down). *)
From Coq Require Import Sorting.Sorted.
From QV Require Import Base.Bytes Struct.NNTreeModel Struct.NNTreeSpec Struct.C18Proofs Struct.C18ProofsC
  Struct.C18InvA Struct.C18InvB Struct.C18InvC Struct.C18InvD.
Local Open Scope Z_scope.

(* ------------------------------------------------------------------ resetLimits *)
Lemma reset_loop_S : forall j da path (root : node) w,
  nn_reset_loop Z nn_zcmp (S j) da path root w =
  match zget root (firstn da path) with
  | None => (root, w)
  | Some a =>
      let continue_up (root' : node) (warn' : Z) :=
        match j with O => (root', warn') | S _ => nn_reset_loop Z nn_zcmp j j path root' warn' end in
      match nn_first_last Z a with
      | None => continue_up root (w + 1)
      | Some (f, l) =>
          let same := match nn_lim Z a with
                      | Some (of, ol) => nn_keq Z nn_zcmp f of && nn_keq Z nn_zcmp l ol
                      | None => false
                      end in
          if same then (root, w)
          else
            let root' := match da with
                         | O => root
                         | S _ => zupd root (firstn da path) (nn_set_lim Z (Some (f, l)))
                         end in
            continue_up root' w
      end
  end.
Proof. reflexivity. Qed.

Lemma zkeq_iff : forall a b, nn_keq Z nn_zcmp a b = true <-> a = b.
Proof.
  intros a b. unfold nn_keq, nn_zcmp. destruct (Z.compare_spec a b); split; intros; try lia; try discriminate; reflexivity.
Qed.

Lemma firstn_prefix {A} (path p : list A) (x : A) : firstn (S (length p)) path = p ++ [x] -> firstn (length p) path = p.
Proof.
  intros H. rewrite <- (Nat.min_l (length p) (S (length p))) by lia.
  rewrite <- firstn_firstn, H. apply c18_firstn_mid.
Qed.

Lemma sub_ok_lim_some : forall n, sub_ok n -> nn_lim Z n <> None.
Proof. intros n H. destruct (sub_ok_lc _ H) as [H1 H2]. rewrite H1. exact H2. Qed.

Lemma first_last_fill_some : forall fr a, nn_lim Z a <> None ->
  Forall sub_ok (fr_L fr) -> Forall sub_ok (fr_R fr) -> nn_first_last Z (fill fr a) <> None.
Proof.
  intros fr a Ha HL HR. rewrite first_last_fill. unfold lim_pair.
  assert (H1 : nn_lim Z (fst_kid fr a) <> None).
  { unfold fst_kid. destruct (fr_L fr) as [|x L]; [exact Ha|]. inversion HL; subst. apply sub_ok_lim_some. assumption. }
  assert (H2 : nn_lim Z (lst_kid fr a) <> None).
  { unfold lst_kid. destruct (fr_R fr) as [|x R] eqn:E; [exact Ha|].
    apply sub_ok_lim_some. rewrite Forall_forall in HR. apply HR. apply c18_last_in. discriminate. }
  destruct (nn_lim Z (fst_kid fr a)) as [[? ?]|]; [|congruence].
  destruct (nn_lim Z (lst_kid fr a)) as [[? ?]|]; [|congruence]. discriminate.
Qed.

Lemma set_lim_fill : forall l fr a, nn_set_lim Z l (fill fr a) = fill (Fr l (fr_L fr) (fr_R fr)) a.
Proof. reflexivity. Qed.

Lemma reset_loop_zip : forall fs a path w fl,
  fs <> [] -> firstn (length fs) path = zpath fs ->
  nn_first_last Z a = Some fl -> sibs_ok fs -> chain_ok a fs ->
  exists fs', nn_reset_loop Z nn_zcmp (length fs) (length fs) path (plug a fs) w
              = (plug (nn_set_lim Z (Some fl) a) fs', w) /\
    same_sibs fs fs' /\ chain_ok (nn_set_lim Z (Some fl) a) fs'.
Proof.
  induction fs as [|fr fs IH]; intros a path w fl Hne Hfirst Hfl Hsibs Hchain; [congruence|].
  cbn [length]. rewrite reset_loop_S. cbn [length] in Hfirst. rewrite Hfirst, get_plug, Hfl.
  destruct fl as [f l]. cbv zeta.
  destruct (match nn_lim Z a with
            | Some (of, ol) => nn_keq Z nn_zcmp f of && nn_keq Z nn_zcmp l ol
            | None => false
            end) eqn:Esame.
  - destruct (nn_lim Z a) as [[of ol]|] eqn:El; [|discriminate].
    apply andb_true_iff in Esame. destruct Esame as [E1 E2]. apply zkeq_iff in E1, E2. subst of ol.
    assert (Ha : nn_set_lim Z (Some (f, l)) a = a) by (rewrite <- El; apply set_lim_same).
    rewrite Ha. exists (fr :: fs). split; [reflexivity|]. split; [apply same_sibs_refl|exact Hchain].
  - rewrite upd_plug. set (a' := nn_set_lim Z (Some (f, l)) a).
    assert (Hla' : nn_lim Z a' = Some (f, l)) by apply lim_set_lim.
    destruct fs as [|fr2 fs].
    + cbn [length]. exists [fr]. split; [reflexivity|]. split; [apply same_sibs_refl|].
      cbn [chain_ok] in *. tauto.
    + cbn [length].
      inversion Hsibs as [|? ? [HL HR] Hsibs']; subst.
      destruct Hchain as [Hlc Hchain'].
      destruct (nn_first_last Z (fill fr a')) as [fl'|] eqn:Efl'.
      2:{ exfalso. revert Efl'. apply first_last_fill_some; [rewrite Hla'; discriminate|exact HL|exact HR]. }
      assert (Hfirst' : firstn (length (fr2 :: fs)) path = zpath (fr2 :: fs)).
      { rewrite <- (zpath_length (fr2 :: fs)). apply (firstn_prefix path (zpath (fr2 :: fs)) (fidx fr)).
        rewrite zpath_length. exact Hfirst. }
      assert (Hchain2 : chain_ok (fill fr a') (fr2 :: fs)) by (apply (chain_ok_lim _ (fill fr a)); [reflexivity|exact Hchain']).
      destruct (IH (fill fr a') path w fl' ltac:(discriminate) Hfirst' Efl' Hsibs' Hchain2) as (fs3 & Hres & Hsame & Hch3).
      cbn [length] in Hres. change (plug a' (fr :: fr2 :: fs)) with (plug (fill fr a') (fr2 :: fs)). rewrite Hres.
      destruct fr as [pl L R]. exists (Fr (Some fl') L R :: fs3).
      split; [reflexivity|]. split; [apply same_sibs_cons; exact Hsame|].
      rewrite set_lim_fill in Hch3. cbn [fr_L fr_R] in Hch3.
      destruct fs3 as [|fr3 fs3]; [destruct Hsame as [Hs _]; discriminate|].
      change (lc (fill (Fr (Some fl') L R) a') /\ chain_ok (fill (Fr (Some fl') L R) a') (fr3 :: fs3)).
      split; [|exact Hch3]. split.
      * cbn [fill nn_lim fr_lim]. symmetry. exact Efl'.
      * change (fill (Fr (Some fl') L R) a') with (nn_set_lim Z (Some fl') (fill (Fr pl L R) a')).
        rewrite first_last_set_lim, Efl'. discriminate.
Qed.

(* resetLimits of the node the path leads to (depth = number of frames) *)
Lemma reset_limits_zip : forall fs a (s : zst) q fl,
  st_root Z s = plug a fs -> st_path Z s = zpath fs ++ q -> nn_lim Z (plug a fs) = None ->
  nn_first_last Z a = Some fl -> sibs_ok fs -> chain_ok a fs ->
  exists a' fs', nn_reset_limits Z nn_zcmp (length fs) s = NNSt Z (plug a' fs') (st_path Z s) (st_item Z s) (st_warn Z s) /\
    same_sibs fs fs' /\ chain_ok a' fs' /\
    a' = match fs with [] => a | _ :: _ => nn_set_lim Z (Some fl) a end.
Proof.
  intros fs a s q fl Hr Hp Hnolim Hfl Hsibs Hchain. unfold nn_reset_limits. rewrite Hr, Hp.
  destruct fs as [|fr fs].
  - cbn [length nn_reset_loop firstn nn_upd plug] in *. rewrite <- Hnolim, set_lim_same.
    exists a, []. split; [reflexivity|]. split; [apply same_sibs_refl|]. split; [exact I|reflexivity].
  - destruct (reset_loop_zip (fr :: fs) a (zpath (fr :: fs) ++ q) (st_warn Z s) fl ltac:(discriminate)
                (firstn_zpath _ _) Hfl Hsibs Hchain) as (fs' & Hres & Hsame & Hch).
    rewrite Hres. exists (nn_set_lim Z (Some fl) a), fs'.
    split; [reflexivity|]. split; [exact Hsame|]. split; [exact Hch|reflexivity].
Qed.

(* a resetLimits that finds nothing to change *)
Lemma reset_loop_noop : forall dp path (root P : node) w fl,
  zget root (firstn dp path) = Some P -> nn_first_last Z P = Some fl ->
  (dp = 0%nat \/ nn_lim Z P = Some fl) ->
  nn_reset_loop Z nn_zcmp (S dp) dp path root w = (root, w).
Proof.
  intros dp path root P w [f l] Hg Hfl Hc. rewrite reset_loop_S, Hg, Hfl. cbv zeta.
  destruct Hc as [->|Hl].
  - destruct (match nn_lim Z P with
              | Some (of, ol) => nn_keq Z nn_zcmp f of && nn_keq Z nn_zcmp l ol
              | None => false
              end); reflexivity.
  - rewrite Hl. assert (E : nn_keq Z nn_zcmp f f && nn_keq Z nn_zcmp l l = true).
    { apply andb_true_iff. split; apply zkeq_iff; reflexivity. }
    rewrite E. reflexivity.
Qed.

(* ------------------------------------------------------------------ positions, structurally *)
Lemma plug_nonleaf : forall gs (a : node), gs <> [] -> exists l kids, plug a gs = NInner l kids.
Proof.
  induction gs as [|g gs IH]; intros a H; [congruence|]. destruct gs as [|g2 gs].
  - exists (fr_lim g), (fr_L g ++ a :: fr_R g). reflexivity.
  - apply (IH (fill g a)). discriminate.
Qed.

Lemma at_pos_leaf_intro : forall l A e B, at_pos (NLeaf l (A ++ e :: B)) [] (nn_zlen A) A e B.
Proof.
  intros l A e B. exists [], l, (A ++ e :: B). rewrite c18_to_nat_zlen. repeat split.
  - apply c18_zlen_nonneg.
  - rewrite nth_error_app2 by lia. rewrite Nat.sub_diag. reflexivity.
  - simpl. rewrite c18_firstn_mid. reflexivity.
  - rewrite c18_skipn_mid_S, app_nil_r. reflexivity.
Qed.
Lemma at_pos_leaf_inv : forall l items q item A e B, at_pos (NLeaf l items) q item A e B ->
  q = [] /\ items = A ++ e :: B /\ item = nn_zlen A.
Proof.
  intros l items q item A e B (gs & l' & items' & Hr & Hp & Hi & Hn & HA & HB).
  destruct gs as [|g gs].
  - cbn [plug] in Hr. injection Hr as <- <-. simpl in HA, HB. rewrite app_nil_r in HB. subst.
    split; [reflexivity|]. split; [apply c18_nth_split; exact Hn|].
    pose proof (c18_nth_lt _ _ _ Hn). unfold nn_zlen. rewrite firstn_length. lia.
  - exfalso. destruct (plug_nonleaf (g :: gs) (NLeaf l' items') ltac:(discriminate)) as (? & ? & E).
    rewrite E in Hr. discriminate.
Qed.
Lemma at_pos_inner_intro : forall l KL c KR q item A e B, at_pos c q item A e B ->
  at_pos (NInner l (KL ++ c :: KR)) (nn_zlen KL :: q) item (flat_map zabs KL ++ A) e (B ++ flat_map zabs KR).
Proof.
  intros l KL c KR q item A e B H.
  pose proof (at_pos_plug c q item A e B [Fr l KL KR] H) as X.
  eapply at_pos_eq; [exact X|reflexivity|]. simpl. rewrite app_nil_r. reflexivity.
Qed.
Lemma at_pos_inner_inv : forall l kids q item A e B, at_pos (NInner l kids) q item A e B ->
  exists KL c KR q' A' B', kids = KL ++ c :: KR /\ q = nn_zlen KL :: q' /\ at_pos c q' item A' e B' /\
    A = flat_map zabs KL ++ A' /\ B = B' ++ flat_map zabs KR.
Proof.
  intros l kids q item A e B (gs & l' & items & Hr & Hp & Hi & Hn & HA & HB).
  destruct (c18_last_or_nil gs) as [->|(gs' & [gl KL KR] & ->)]; [discriminate|].
  rewrite plug_app in Hr. cbn [plug] in Hr. unfold fill in Hr. cbn [fr_lim fr_L fr_R] in Hr.
  injection Hr as _ ->.
  exists KL, (plug (NLeaf l' items) gs'), KR, (zpath gs'),
         (zpre gs' ++ firstn (Z.to_nat item) items), (skipn (S (Z.to_nat item)) items ++ zpost gs').
  split; [reflexivity|]. split; [rewrite Hp, zpath_app; reflexivity|].
  split; [exists gs', l', items; repeat split; assumption|].
  split.
  - rewrite HA, zpre_app. simpl. rewrite <- app_assoc. reflexivity.
  - rewrite HB, zpost_app. simpl. rewrite app_nil_r, <- app_assoc. reflexivity.
Qed.
Lemma at_pos_set_lim : forall lim a q item A e B, at_pos a q item A e B -> at_pos (nn_set_lim Z lim a) q item A e B.
Proof.
  intros lim [l items|l kids] q item A e B H.
  - destruct (at_pos_leaf_inv _ _ _ _ _ _ _ H) as (-> & -> & ->). apply at_pos_leaf_intro.
  - destruct (at_pos_inner_inv _ _ _ _ _ _ _ H) as (KL & c & KR & q' & A' & B' & -> & -> & Hc & -> & ->).
    apply at_pos_inner_intro. exact Hc.
Qed.
Lemma at_pos_arity : forall a q item A e B, at_pos a q item A e B -> 1 <= arity a.
Proof.
  intros [l items|l kids] q item A e B H.
  - destruct (at_pos_leaf_inv _ _ _ _ _ _ _ H) as (_ & -> & _). cbn [arity].
    rewrite c18_zlen_app, c18_zlen_cons. pose proof (c18_zlen_nonneg A). pose proof (c18_zlen_nonneg B). lia.
  - destruct (at_pos_inner_inv _ _ _ _ _ _ _ H) as (KL & c & KR & q' & A' & B' & -> & _). cbn [arity].
    rewrite c18_zlen_app, c18_zlen_cons. pose proof (c18_zlen_nonneg KL). pose proof (c18_zlen_nonneg KR). lia.
Qed.

(* ------------------------------------------------------------------ the two halves of a split *)
Definition split_start (n : node) : Z :=
  match n with
  | NLeaf _ items => nn_start_idx (2 * nn_zlen items)
  | NInner _ kids => nn_start_idx (nn_zlen kids)
  end.
Definition split_pt (n : node) : nat :=
  match n with
  | NLeaf _ items => Z.to_nat (nn_start_idx (2 * nn_zlen items) / 2)
  | NInner _ kids => Z.to_nat (nn_start_idx (nn_zlen kids))
  end.
Definition half1 (n : node) : node :=
  match n with
  | NLeaf l items => NLeaf l (firstn (split_pt n) items)
  | NInner l kids => NInner l (firstn (split_pt n) kids)
  end.
Definition half2 (n : node) : node :=
  match n with
  | NLeaf l items => NLeaf None (skipn (split_pt n) items)
  | NInner l kids => NInner None (skipn (split_pt n) kids)
  end.
Definition is_leaf (n : node) : bool := match n with NLeaf _ _ => true | NInner _ _ => false end.

(* where split_body re-points the iterator *)
Definition split_iter (a : node) (dp : nat) (path : list Z) (item : Z) : list Z * Z :=
  let old_idx := if is_leaf a then 2 * item
                 else match nn_znth path (Z.of_nat (S dp)) with Some x => x | None => 0 end in
  if split_start a <=? old_idx then
    let p1 := nn_upd_nth path dp (fun x => x + 1) in
    if is_leaf a then (p1, item - split_start a / 2)
    else (nn_upd_nth p1 (S dp) (fun x => x - split_start a), item)
  else (path, item).

Lemma split_pt_arith : forall t n, 3 <= t -> t < arity n <= t + 1 ->
  2 <= Z.of_nat (split_pt n) <= t /\ 1 <= arity n - Z.of_nat (split_pt n) <= t /\
  (is_leaf n = true -> split_start n = 2 * Z.of_nat (split_pt n)) /\
  (is_leaf n = false -> split_start n = Z.of_nat (split_pt n)).
Proof.
  intros t [l items|l kids] Ht Ha; cbn [arity split_pt split_start is_leaf] in *; unfold nn_start_idx.
  - set (n := nn_zlen items) in *. rewrite Z2Nat.id by (Z.div_mod_to_equations; lia).
    repeat split; try discriminate; try (Z.div_mod_to_equations; lia).
  - set (n := nn_zlen kids) in *. rewrite Z2Nat.id by (Z.div_mod_to_equations; lia).
    repeat split; try discriminate; try (Z.div_mod_to_equations; lia).
Qed.

Lemma znth_zpath_tail : forall fr fs q, nn_znth (zpath (fr :: fs) ++ q) (Z.of_nat (length fs)) = Some (fidx fr).
Proof. intros. rewrite zpath_cons, <- app_assoc. rewrite znth_zpath. reflexivity. Qed.

Lemma lc_set_first_last : forall n fl, nn_first_last Z n = Some fl -> lc (nn_set_lim Z (Some fl) n).
Proof. intros n fl H. split; rewrite first_last_set_lim, ?lim_set_lim, H; [reflexivity|discriminate]. Qed.

Lemma split_body_zip : forall t fr fs' (a : node) (s : zst) q fl1 fl2,
  st_root Z s = plug a (fr :: fs') -> st_path Z s = zpath (fr :: fs') ++ q ->
  nn_first_last Z (half1 a) = Some fl1 -> nn_first_last Z (half2 a) = Some fl2 ->
  sibs_ok (fr :: fs') -> kids_ok (half2 a) ->
  (fs' <> [] -> nn_lim Z a <> None) -> chain_ok a (fr :: fs') ->
  exists pl4 fs4,
    nn_split_body Z nn_zcmp t (S (length fs')) s =
      Some (NNSt Z (plug (nn_set_lim Z (Some fl1) (half1 a))
                         (Fr pl4 (fr_L fr) (nn_set_lim Z (Some fl2) (half2 a) :: fr_R fr) :: fs4))
                   (fst (split_iter a (length fs') (st_path Z s) (st_item Z s)))
                   (snd (split_iter a (length fs') (st_path Z s) (st_item Z s))) (st_warn Z s)) /\
    same_sibs fs' fs4 /\
    chain_ok (nn_set_lim Z (Some fl1) (half1 a))
             (Fr pl4 (fr_L fr) (nn_set_lim Z (Some fl2) (half2 a) :: fr_R fr) :: fs4).
Proof.
  intros t [pl L R] fs' a s q fl1 fl2 Hr Hp Hfl1 Hfl2 Hsibs Hk2 Hlim Hchain.
  cbn [fr_L fr_R].
  set (a2 := nn_set_lim Z (Some fl2) (half2 a)).
  inversion Hsibs as [|? ? [HL HR] Hsibs']; subst. cbn [fr_L fr_R] in HL, HR.
  assert (Ha2 : sub_ok a2).
  { apply sub_ok_intro; [apply lc_set_first_last; exact Hfl2|apply kids_ok_set_lim; exact Hk2]. }
  assert (Hlim1 : nn_lim Z (half1 a) = nn_lim Z a) by (destruct a; reflexivity).
  (* after attaching the second half: resetLimits from the parent *)
  assert (H3 : exists pl3 fs3,
    (match length fs' with
     | O => (plug (half1 a) (Fr pl L (a2 :: R) :: fs'), st_warn Z s)
     | S _ => nn_reset_loop Z nn_zcmp (length fs') (length fs') (st_path Z s)
                (plug (half1 a) (Fr pl L (a2 :: R) :: fs')) (st_warn Z s)
     end) = (plug (half1 a) (Fr pl3 L (a2 :: R) :: fs3), st_warn Z s) /\
    same_sibs fs' fs3 /\ chain_ok (half1 a) (Fr pl3 L (a2 :: R) :: fs3)).
  { destruct fs' as [|fr2 fs''].
    - exists pl, []. split; [reflexivity|]. split; [apply same_sibs_refl|].
      cbn [chain_ok] in *. tauto.
    - cbn [length].
      change (plug (half1 a) (Fr pl L (a2 :: R) :: fr2 :: fs'')) with (plug (fill (Fr pl L (a2 :: R)) (half1 a)) (fr2 :: fs'')).
      destruct Hchain as [Hlc Hchain'].
      destruct (nn_first_last Z (fill (Fr pl L (a2 :: R)) (half1 a))) as [flP|] eqn:EflP.
      2:{ exfalso. revert EflP. apply first_last_fill_some; cbn [fr_L fr_R].
          - rewrite Hlim1. apply Hlim. discriminate.
          - exact HL.
          - constructor; assumption. }
      assert (Hf : firstn (length (fr2 :: fs'')) (st_path Z s) = zpath (fr2 :: fs'')).
      { rewrite Hp. apply firstn_zpath_tail. }
      assert (Hc2 : chain_ok (fill (Fr pl L (a2 :: R)) (half1 a)) (fr2 :: fs'')).
      { apply (chain_ok_lim _ (fill (Fr pl L R) a)); [reflexivity|exact Hchain']. }
      destruct (reset_loop_zip (fr2 :: fs'') _ (st_path Z s) (st_warn Z s) flP ltac:(discriminate) Hf EflP Hsibs' Hc2)
        as (fs3 & Hres & Hsame & Hch).
      cbn [length] in Hres. rewrite Hres. exists (Some flP), fs3. split; [reflexivity|]. split; [exact Hsame|].
      destruct fs3 as [|fr3 fs3]; [destruct Hsame as [Hs _]; discriminate|].
      change (lc (fill (Fr (Some flP) L (a2 :: R)) (half1 a)) /\ chain_ok (fill (Fr (Some flP) L (a2 :: R)) (half1 a)) (fr3 :: fs3)).
      split; [|exact Hch].
      change (fill (Fr (Some flP) L (a2 :: R)) (half1 a)) with (nn_set_lim Z (Some flP) (fill (Fr pl L (a2 :: R)) (half1 a))).
      apply lc_set_first_last. exact EflP. }
  destruct H3 as (pl3 & fs3 & H3eq & Hsame3 & Hch3).
  (* resetLimits of the first half *)
  assert (Hf4 : firstn (length (Fr pl3 L (a2 :: R) :: fs3)) (st_path Z s) = zpath (Fr pl3 L (a2 :: R) :: fs3)).
  { rewrite Hp. cbn [length]. rewrite <- (same_sibs_length _ _ Hsame3).
    change (S (length fs')) with (length (Fr pl L R :: fs')).
    rewrite (firstn_zpath (Fr pl L R :: fs') q). rewrite !zpath_cons. rewrite (same_sibs_zpath _ _ Hsame3). reflexivity. }
  assert (Hsibs4 : sibs_ok (Fr pl3 L (a2 :: R) :: fs3)).
  { constructor; [split; [exact HL|constructor; assumption]|]. apply (sibs_ok_same fs'); assumption. }
  destruct (reset_loop_zip (Fr pl3 L (a2 :: R) :: fs3) (half1 a) (st_path Z s) (st_warn Z s) fl1 ltac:(discriminate)
              Hf4 Hfl1 Hsibs4 Hch3) as (fs4' & H4eq & Hsame4 & Hch4).
  destruct (same_sibs_inv _ _ _ Hsame4) as (pl4 & fs4 & -> & Hsame4'). cbn [fr_L fr_R] in *.
  exists pl4, fs4. split; [|split; [apply (same_sibs_trans _ fs3); assumption|exact Hch4]].
  cbn [length] in H4eq. rewrite <- (same_sibs_length _ _ Hsame3) in H4eq.
  (* the computation *)
  assert (Hfd : firstn (S (length fs')) (st_path Z s) = zpath (Fr pl L R :: fs')).
  { rewrite Hp. apply (firstn_zpath (Fr pl L R :: fs') q). }
  assert (Hfdp : firstn (length fs') (st_path Z s) = zpath fs').
  { rewrite Hp. apply firstn_zpath_tail. }
  assert (Hzn : nn_znth (st_path Z s) (Z.of_nat (length fs')) = Some (nn_zlen L)).
  { rewrite Hp. apply znth_zpath_tail. }
  assert (Htriple : match a with
       | NLeaf l items =>
           (NLeaf l (firstn (Z.to_nat (nn_start_idx (2 * nn_zlen items) / 2)) items),
            NLeaf None (skipn (Z.to_nat (nn_start_idx (2 * nn_zlen items) / 2)) items),
            nn_start_idx (2 * nn_zlen items))
       | NInner l kids =>
           (NInner l (firstn (Z.to_nat (nn_start_idx (nn_zlen kids))) kids),
            NInner None (skipn (Z.to_nat (nn_start_idx (nn_zlen kids))) kids),
            nn_start_idx (nn_zlen kids))
       end = (half1 a, half2 a, split_start a)) by (destruct a; reflexivity).
  unfold nn_split_body. rewrite Hr, Hfd, get_plug, Hzn, Htriple. cbv beta iota zeta.
  rewrite upd_plug, Hfdp.
  change (plug (half1 a) (Fr pl L R :: fs')) with (plug (fill (Fr pl L R) (half1 a)) fs').
  rewrite get_plug. unfold fill at 1. cbn [fr_lim fr_L fr_R]. cbv beta iota.
  assert (Hrange : (nn_zlen L <? 0) || (nn_zlen (L ++ half1 a :: R) <? nn_zlen L + 1) = false).
  { apply orb_false_iff. rewrite c18_zlen_app, c18_zlen_cons.
    pose proof (c18_zlen_nonneg L). pose proof (c18_zlen_nonneg R). split; apply Z.ltb_ge; lia. }
  rewrite Hrange, Hfl2. cbv beta iota. fold a2. rewrite upd_plug.
  assert (Hins : nn_insert_at (L ++ half1 a :: R) (Z.to_nat (nn_zlen L + 1)) a2 = L ++ half1 a :: a2 :: R).
  { replace (Z.to_nat (nn_zlen L + 1)) with (S (length L)) by (unfold nn_zlen; lia). apply c18_insert_at_mid. }
  rewrite Hins.
  change (plug (NInner pl (L ++ half1 a :: a2 :: R)) fs') with (plug (half1 a) (Fr pl L (a2 :: R) :: fs')).
  rewrite H3eq. cbv beta iota. rewrite H4eq. cbv beta iota.
  unfold split_iter, is_leaf.
  destruct (split_start a <=? (if match a with NLeaf _ _ => true | NInner _ _ => false end then 2 * st_item Z s
                               else match nn_znth (st_path Z s) (Z.of_nat (S (length fs'))) with Some x => x | None => 0 end));
    [destruct a|]; reflexivity.
Qed.
