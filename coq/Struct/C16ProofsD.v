(* C16, model side (continued): a token proper read in includeIgnorable mode; white space and comments in front of it. *)
From QV Require Import Base.Bytes Lex.TokModel Lex.LexSpec Lex.TokInterp Lex.LexRun Lex.LexProofs Obj.Unparse Obj.UnparseProofs Struct.ContentNorm Struct.ContentSem Struct.C16ProofsA Struct.C16ProofsB.
Local Open Scope N_scope.

Local Arguments N.eqb : simpl never.
Local Arguments N.leb : simpl never.
Local Arguments N.ltb : simpl never.
Local Arguments N.add : simpl never.
Local Arguments N.sub : simpl never.
Local Arguments N.mul : simpl never.
Local Arguments N.modulo : simpl never.
Local Arguments rev' : simpl never.
Local Arguments list_eqb : simpl never.
Local Arguments run : simpl never.

Notation Fii c h d := (mkTk TS_before_token true true TT_bad [] [] TE_none true false 0 0 false 0%Z c h d).
Notation Fnn c h d := (mkTk TS_before_token true false TT_bad [] [] TE_none true false 0 0 false 0%Z c h d).

Lemma in_top_setii t ch : in_top (setii t) ch = setii (in_top t ch).
Proof.
  unfold in_top, setii. repeat match goal with |- context [if ?c then _ else _] => destruct c end; reflexivity.
Qed.

Lemma first_char c h d b : tk_is_space b = false -> (b =? 37) = false ->
  present_char_nr (Fii c h d) b = setii (present_char_nr (Fnn c h d) b).
Proof.
  intros Hsp H37. unfold present_char_nr, handle_character. cbn [t_state]. unfold in_before_token. rewrite Hsp, H37.
  change (set_in_token true (set_before false (Fii c h d))) with (setii (set_in_token true (set_before false (Fnn c h d)))).
  rewrite in_top_setii. set (y := in_top _ b). change (t_in_token (setii y)) with (t_in_token y).
  destruct (t_in_token y); reflexivity.
Qed.

(* a token proper, read in includeIgnorable mode: same reading as without it, and the raw text is what was consumed *)
Lemma token_run_ii s tok rest c h d :
  bytes_ok s -> spec_token_at s = LexTok tok rest -> ~ In 11 (token_run s) ->
  exists t' p, run (Fii c h d) s = (t', rest) /\ tok_interp (tk_token t') = Some tok /\ s = p ++ rest /\ rawof t' = rev p.
Proof.
  intros Hb Hs Hvt.
  destruct (token_at_run true s tok rest c h d Hb Hs Hvt) as (t0 & Hr0 & Hi0).
  destruct s as [|b r]; [discriminate|].
  (* first character: not white space, not '%' *)
  assert (Hb1 : b < 256) by (inversion Hb; assumption).
  assert (Hts : tk_is_space b = false /\ (b =? 37) = false).
  { assert (Hstart : ((b =? 40) || (b =? 60) || (b =? 62) || (b =? 91) || (b =? 93) || (b =? 123) || (b =? 125) || (b =? 47) || iso_regular b) = true).
    { cbn [spec_token_at] in Hs.
      repeat match type of Hs with (if ?c then _ else _) = _ => destruct c eqn:?; [cbn [orb]; rewrite ?orb_true_r; reflexivity|] end. discriminate. }
    assert (Hn11 : b <> 11).
    { intros ->. apply Hvt. unfold token_run. change (11 =? 47) with false. cbv iota. cbn [span_while].
      change (iso_regular 11) with true. cbv iota. destruct (span_while iso_regular r). cbn. left. reflexivity. }
    pose proof (byte_sweep (fun b => negb ((b =? 40) || (b =? 60) || (b =? 62) || (b =? 91) || (b =? 93) || (b =? 123) || (b =? 125) || (b =? 47) || iso_regular b)
                                     || (b =? 11) || (negb (tk_is_space b) && negb (b =? 37))) ltac:(vm_compute; reflexivity) b Hb1) as Hy.
    cbv beta in Hy. rewrite Hstart in Hy. apply N.eqb_neq in Hn11. rewrite Hn11 in Hy. cbn [negb orb] in Hy.
    apply andb_true_iff in Hy. destruct Hy as [Y1 Y2]. apply negb_true_iff in Y1, Y2. auto. }
  destruct Hts as [Hsp H37].
  rewrite run_cons in Hr0 |- *. cbv zeta in Hr0 |- *.
  pose proof (first_char c h d b Hsp H37) as Hfirst.
  rewrite Hfirst.
  change (is_ready (setii (present_char_nr (Fnn c h d) b))) with (is_ready (present_char_nr (Fnn c h d) b)).
  change (tk_unread_flag (setii (present_char_nr (Fnn c h d) b))) with (tk_unread_flag (present_char_nr (Fnn c h d) b)).
  assert (Hflags : t_in_token (present_char_nr (Fnn c h d) b) = true /\ t_before (present_char_nr (Fnn c h d) b) = false /\
                   t_raw (present_char_nr (Fnn c h d) b) = [b] /\
                   (is_ready (present_char_nr (Fnn c h d) b) = false -> good_state (t_state (present_char_nr (Fnn c h d) b)) = true)).
  { unfold present_char_nr, handle_character. cbn [t_state]. unfold in_before_token. rewrite Hsp, H37.
    set (T := set_in_token true (set_before false (Fnn c h d))).
    destruct (in_top_flags T b) as [G1 G2]. rewrite G1. change (t_in_token T) with true. cbv iota.
    split; [cbn [push_raw set_raw t_in_token]; exact G1|]. split; [cbn [push_raw set_raw t_before]; exact G2|].
    split.
    - cbn [push_raw set_raw t_raw]. f_equal. unfold in_top.
      repeat match goal with |- context [if ?c then _ else _] => destruct c end; reflexivity.
    - unfold is_ready. cbn [push_raw set_raw t_state]. unfold in_top.
      repeat match goal with |- context [if ?c then _ else _] => destruct c end; cbn; intros; try discriminate; reflexivity. }
  destruct Hflags as (F1 & F2 & F3 & F4).
  destruct (is_ready (present_char_nr (Fnn c h d) b)) eqn:Er.
  - unfold tk_unread_flag in Hr0 |- *. rewrite F1, F2 in Hr0 |- *. cbn [negb andb] in Hr0 |- *. injection Hr0 as <- <-.
    eexists. exists [b]. split; [reflexivity|]. split; [exact Hi0|]. split; [reflexivity|]. unfold rawof. cbn [setii set_incl_ign t_raw]. exact F3.
  - assert (Hg : ginv (present_char_nr (Fnn c h d) b)) by (unfold ginv; auto).
    destruct (run_good r _ Hg) as (t' & rest' & p & R1 & R2 & R3 & R4).
    rewrite Hr0 in R1. injection R1 as <- <-.
    exists (setii t0), (b :: p). split; [exact R2|]. split; [exact Hi0|]. split; [cbn; rewrite R3; reflexivity|].
    unfold rawof. cbn [setii set_incl_ign t_raw]. rewrite R4, F3. cbn [rev]. reflexivity.
Qed.
