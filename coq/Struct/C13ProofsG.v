(* C13 extension - facts that let copyForeignObject appear inside page-operation histories: what a copy does to the
   source (any invariant of Pages::all() is kept), to the destination (only the store, the object map and the stream
   table change; a flat page tree stays the same flat tree), what a successful copy returns, and what renaming keeps of
   a leaf dictionary. *)
From QV Require Import Base.Bytes Struct.PgModel Struct.PgSpec Struct.C13ProofsA Struct.C13ProofsB Struct.PgxSpec Struct.PgxModel Struct.PgxOracle Struct.C13ProofsC Struct.C13ProofsD Struct.C13ProofsE.
Local Open Scope N_scope.

(* ------------------------------------------------------------------ (Z1) the source during a copy *)
Section PgzSrc.
  Context (P : pg_doc -> Prop) (HP : forall p, P p -> P (fst (pg_all p))).

  Lemma pgz_type_is_src : forall c h t, P (pgc_src c) -> P (pgc_src (fst (pg_src_type_is c h t))).
  Proof.
    intros c h t H. unfold pg_src_type_is. destruct h; try exact H.
    pose proof (HP _ H) as H1. destruct (pg_all (pgc_src c)) as [src e]. cbn [fst] in H1.
    destruct e; exact H1.
  Qed.

  Lemma pgz_head_src : forall h top c, P (pgc_src c) -> P (pgc_src (fst (pg_reserve_head h top c))).
  Proof.
    intros h top c H. unfold pg_reserve_head. destruct h as [| | |og| |]; try exact H.
    destruct (pg_memN og (pgc_visiting c)); [exact H|].
    cbn [pgc_omap pgc_src pgc_dst pgc_visiting pgc_tocopy pgc_err].
    destruct (pg_omap_find (pgc_omap c) og) as [l|].
    - destruct top.
      + pose proof (pgz_type_is_src (mkPgCst (pgc_src c) (pgc_dst c) (pgc_omap c) (og :: pgc_visiting c) (pgc_tocopy c) (pgc_err c))
                      (PvRef og) pgk_Page H) as H2.
        destruct (pg_src_type_is _ (PvRef og) pgk_Page) as [c2 isp]. cbn [fst] in H2.
        destruct (true && isp && pg_is_null (pgc_dst c2) (PvRef l)); exact H2.
      + exact H.
    - assert ((if pg_is_stream (pd_store (pgc_src c)) (PvRef og) then pg_alloc (pgc_dst c) (PcStream [] [] 0) else pg_alloc (pgc_dst c) (PcObj PvNull))
              = ((pg_next_id (pgc_dst c), if pg_is_stream (pd_store (pgc_src c)) (PvRef og) then PcStream [] [] 0 else PcObj PvNull) :: pgc_dst c,
                 pg_next_id (pgc_dst c))) as -> by (destruct (pg_is_stream _ _); reflexivity).
      cbv iota beta. destruct top.
      + exact H.
      + match goal with |- context [pg_src_type_is ?c1 (PvRef og) pgk_Page] =>
          pose proof (pgz_type_is_src c1 (PvRef og) pgk_Page H) as H2;
          destruct (pg_src_type_is c1 (PvRef og) pgk_Page) as [c2 isp] end.
        cbn [fst] in H2. destruct (negb false && isp); exact H2.
  Qed.

  Lemma pgz_fold_src : forall {A} (f : pg_cst -> A -> pg_cst) (l : list A) c,
    (forall c x, P (pgc_src c) -> P (pgc_src (f c x))) -> P (pgc_src c) -> P (pgc_src (fold_left f l c)).
  Proof.
    intros A f l. induction l as [|x t IH]; intros c H W; simpl; [exact W|]. apply IH; [exact H|apply H, W].
  Qed.

  Lemma pgz_kids_src : forall rec h c, (forall x c, P (pgc_src c) -> P (pgc_src (rec x c))) ->
    P (pgc_src c) -> P (pgc_src (pg_reserve_kids rec h c)).
  Proof.
    intros rec h c Hrec W. unfold pg_reserve_kids.
    assert (Hd : forall d c0, P (pgc_src c0) -> P (pgc_src (fold_left (fun c1 (kv : pg_key * pg_val) => if pg_is_null (pd_store (pgc_src c1)) (snd kv) then c1 else rec (snd kv) c1) d c0))).
    { intros d c0. apply pgz_fold_src. intros c1 kv W1. destruct (pg_is_null _ _); [exact W1 | apply Hrec, W1]. }
    assert (Ha : forall l c0, P (pgc_src c0) -> P (pgc_src (fold_left (fun c1 x => rec x c1) l c0))).
    { intros l c0. apply pgz_fold_src. intros c1 x W1. apply Hrec, W1. }
    destruct h as [| | |og|l|d]; try exact W; [|apply Ha, W|apply Hd, W].
    destruct (pg_lookup (pd_store (pgc_src c)) og) as [[v|d x k]|]; try exact W; [|apply Hd, W].
    destruct v; try exact W; [apply Ha, W|apply Hd, W].
  Qed.

  Lemma pgz_reserve_src_sec : forall fuel h top c, P (pgc_src c) -> P (pgc_src (pg_reserve fuel h top c)).
  Proof.
    induction fuel as [|f IH]; intros h top c W; cbn [pg_reserve]; [exact W|].
    destruct (pgc_err c); [exact W|].
    pose proof (pgz_type_is_src c h pgk_Pages W) as W1.
    destruct (pg_src_type_is c h pgk_Pages) as [c1 isp]. cbn [fst] in W1.
    destruct (pgc_err c1); [exact W1|]. destruct isp; [exact W1|].
    destruct (pg_is_selfref (pd_store (pgc_src c1)) h); [exact W1|].
    pose proof (pgz_head_src h top c1 W1) as W2.
    destruct (pg_reserve_head h top c1) as [c2 go]. cbn [fst] in W2.
    destruct (pgc_err c2); [exact W2|]. destruct go; cbn [negb]; [|exact W2].
    pose proof (pgz_kids_src (fun x c0 => pg_reserve f x false c0) h c2 (fun x c0 => IH x false c0) W2) as W3.
    destruct (pgc_err (pg_reserve_kids (fun x c0 => pg_reserve f x false c0) h c2)); [exact W3|].
    unfold pg_reserve_done. destruct h; exact W3.
  Qed.
End PgzSrc.

Lemma pgz_reserve_src : forall (P : pg_doc -> Prop), (forall p, P p -> P (fst (pg_all p))) ->
  forall fuel h top c, P (pgc_src c) -> P (pgc_src (pg_reserve fuel h top c)).
Proof. exact pgz_reserve_src_sec. Qed.

Local Opaque pg_reserve.

Lemma pgz_copied_src : forall (P : pg_doc -> Prop), (forall p, P p -> P (fst (pg_all p))) ->
  forall src dst fid, P src -> P (fst (fst (fst (pg_copied src dst fid)))).
Proof.
  intros P HP src dst fid H. rewrite pg_copied_src. unfold pg_cres.
  exact (pgz_reserve_src P HP 200 (PvRef fid) true (pg_c0 src dst) H).
Qed.

(* ------------------------------------------------------------------ (Z2) the destination *)
Lemma pgz_copied_dst_fields : forall src dst fid, let dst' := snd (fst (fst (pg_copied src dst fid))) in
  pd_root dst' = pd_root dst /\ pd_all dst' = pd_all dst /\ pd_pos dst' = pd_pos dst /\ pd_pushed dst' = pd_pushed dst /\ pd_invalid dst' = pd_invalid dst.
Proof.
  intros src dst fid. cbv zeta. unfold pg_copied.
  destruct (pgc_err _); [repeat split|].
  destruct (fold_left _ _ _) as [[ds reg] e]. destruct e; [repeat split|].
  destruct (pg_omap_find _ _); repeat split.
Qed.

Lemma pgz_copied_dst_some : forall src dst fid j, pg_lookup (pd_store dst) j <> None ->
  pg_lookup (pd_store (snd (fst (fst (pg_copied src dst fid))))) j <> None.
Proof.
  intros src dst fid j Hj.
  destruct (pg_cR_reserve 200 (PvRef fid) true (pg_c0 src dst)) as (_ & _ & D & _).
  fold (pg_cres src dst fid) in *. cbn [pg_c0 pgc_dst] in D.
  assert (Hc : pg_lookup (pgc_dst (pg_cres src dst fid)) j <> None) by (rewrite D; exact Hj).
  unfold pg_copied. fold (pg_c0 src dst). fold (pg_cres src dst fid). set (c := pg_cres src dst fid) in *.
  destruct (pgc_err c); [exact Hc|].
  pose proof (pg_replace_fold_some (pgc_src c) (pgc_omap c) (rev' (pgc_tocopy c)) (pgc_dst c, pd_reg dst, None) j Hc) as Hs.
  destruct (fold_left _ _ _) as [[ds reg] e]. cbn [fst] in Hs.
  destruct e; [exact Hs|]. destruct (pg_omap_find _ _); exact Hs.
Qed.

Lemma pgz_frame_dict : forall src dst fid j d, pg_lookup (pd_store dst) j = Some (PcObj (PvDict d)) ->
  pg_lookup (pd_store (snd (fst (fst (pg_copied src dst fid))))) j = Some (PcObj (PvDict d)).
Proof.
  intros src dst fid j d H. apply copy_frame_lemma; [exact H|]. unfold pg_is_null. rewrite H. reflexivity.
Qed.

Lemma pgz_copied_dst_flat : forall src dst fid K, pgx_flat dst K -> pgx_flat (snd (fst (fst (pg_copied src dst fid)))) K.
Proof.
  intros src dst fid K (pn & d & Hroot & Hpn & Hkids & Hcount & Hpar & Hpnroot & Hpnk & Hrootk & Hnd & Hleaf & Hinv).
  destruct (pgz_copied_dst_fields src dst fid) as (Fr & _ & _ & _ & Fi).
  set (dst' := snd (fst (fst (pg_copied src dst fid)))) in *.
  exists pn, d. rewrite Fr, Fi.
  split; [|split; [apply pgz_frame_dict, Hpn|repeat (split; [assumption|]); split; [|exact Hinv]]].
  - rewrite <- Hroot. apply pg_root_pages_ext; [exact Fr|].
    unfold pg_root_pages, pg_hget, pg_rv in Hroot.
    destruct (pg_lookup (pd_store dst) (pd_root dst)) as [[v|]|] eqn:Er; try discriminate.
    destruct v; try discriminate. apply pgz_frame_dict, Er.
  - intros k Hk. destruct (Hleaf k Hk) as (dk & Ek & Lk). exists dk. split; [apply pgz_frame_dict, Ek|exact Lk].
Qed.

Lemma pgz_copied_dst_mark : forall src dst fid j, pg_lookup (pd_store dst) j <> None -> pg_is_null (pd_store dst) (PvRef j) = false ->
  pg_mark (pd_store (snd (fst (fst (pg_copied src dst fid))))) j = pg_mark (pd_store dst) j.
Proof.
  intros src dst fid j Hj Hn. apply pg_mark_ext.
  destruct (pg_lookup (pd_store dst) j) as [cell|] eqn:E; [|congruence].
  apply copy_frame_lemma; assumption.
Qed.

(* ------------------------------------------------------------------ (Z4) renaming a dictionary with distinct keys *)
Lemma pgz_rename_dict_cons : forall ss m k x t,
  pg_rename_dict ss m ((k, x) :: t) =
  if pg_is_null ss x then pg_rename_dict ss m t
  else match pg_rename ss m x with PvNull => pg_rename_dict ss m t | y => (k, y) :: pg_rename_dict ss m t end.
Proof.
  intros. unfold pg_rename_dict. cbn [pg_rename]. destruct (pg_is_null ss x); [reflexivity|].
  destruct (pg_rename ss m x); reflexivity.
Qed.

Lemma pgz_rename_dict_get : forall ss m d k, NoDup (map fst d) ->
  pg_dget (pg_rename_dict ss m d) k =
  if pg_is_null ss (pg_dget d k) then PvNull else pg_rename ss m (pg_dget d k).
Proof.
  intros ss m d k. induction d as [|[k' x] t IH]; intros Hnd; [reflexivity|].
  cbn [map fst] in Hnd. inversion Hnd as [|? ? Hnot Hnd']; subst. specialize (IH Hnd').
  rewrite pgz_rename_dict_cons. cbn [pg_dget].
  destruct (pg_key_eqb k k') eqn:E.
  - apply pg_key_eqb_eq in E. subst k'.
    assert (Hrest : pg_dget (pg_rename_dict ss m t) k = PvNull).
    { apply pgx_dget_notin. intros H. apply Hnot. eapply pgx_rename_dict_keys; exact H. }
    destruct (pg_is_null ss x); [exact Hrest|].
    destruct (pg_rename ss m x) eqn:Er; cbn [pg_dget]; rewrite ?pg_key_eqb_refl; try reflexivity. exact Hrest.
  - destruct (pg_is_null ss x); [exact IH|].
    destruct (pg_rename ss m x); cbn [pg_dget]; rewrite ?E; exact IH.
Qed.

Lemma pgz_rename_dict_eq : forall ss m d, pg_rename ss m (PvDict d) = PvDict (pg_rename_dict ss m d).
Proof. reflexivity. Qed.

(* (i) the content marker of a page survives the copy *)
Lemma pgz_rename_mark : forall ss m d, NoDup (map fst d) ->
  pg_val_mark (pg_rename ss m (PvDict d)) = pg_val_mark (PvDict d).
Proof.
  intros ss m d Hnd. rewrite pgz_rename_dict_eq. unfold pg_val_mark. rewrite (pgz_rename_dict_get ss m d pgk_Mk Hnd).
  destruct (pg_dget d pgk_Mk) as [| z | s | i | l | dd]; cbn [pg_is_null pg_rename]; try reflexivity.
  destruct (match pg_lookup ss i with None => true | Some (PcObj PvNull) => true | _ => false end); [reflexivity|].
  destruct (pg_omap_find m i); reflexivity.
Qed.

(* (ii) a leaf stays a leaf *)
Lemma pgz_rename_leafy : forall ss m d, NoDup (map fst d) -> pgx_leafy d -> pgx_leafy (pg_rename_dict ss m d).
Proof.
  intros ss m d Hnd [Hk Ht]. split.
  - rewrite (pgz_rename_dict_get ss m d pgk_Kids Hnd), Hk. reflexivity.
  - rewrite (pgz_rename_dict_get ss m d pgk_Type Hnd).
    destruct (pg_dget d pgk_Type) as [| z | s | i | l | dd]; cbn [pg_is_null pg_rename]; try exact I; [exact Ht|contradiction].
Qed.

(* ------------------------------------------------------------------ (Z3) what a successful copy returns *)
Lemma pgz_head_top_new : forall og c, pg_omap_find (pgc_omap c) og = None -> pg_memN og (pgc_visiting c) = false ->
  snd (pg_reserve_head (PvRef og) true c) = true.
Proof.
  intros og c Ho Hm. unfold pg_reserve_head. rewrite Hm. cbn [pgc_omap pgc_src pgc_dst pgc_visiting pgc_tocopy pgc_err].
  rewrite Ho. destruct (pg_is_stream (pd_store (pgc_src c)) (PvRef og)); reflexivity.
Qed.

(* the copied object ends on to_copy unless it had been copied before *)
Local Transparent pg_reserve.
Lemma pgz_top_tocopy_gen : forall f src dst fid l, pd_all src <> [] ->
  pg_omap_find (pgc_omap (pg_reserve (S f) (PvRef fid) true (pg_c0 src dst))) fid = Some l ->
  In fid (pgc_tocopy (pg_reserve (S f) (PvRef fid) true (pg_c0 src dst))) \/ pg_omap_find (pd_omap dst) fid = Some l.
Proof.
  intros f src dst fid l Hall. cbn [pg_reserve].
  change (pgc_err (pg_c0 src dst)) with (@None pg_err). cbv iota.
  rewrite (pgx_type_is src Hall (pg_c0 src dst) (PvRef fid) pgk_Pages eq_refl). cbv iota beta.
  change (pgc_err (pg_c0 src dst)) with (@None pg_err). cbv iota.
  destruct (pg_is_dict_of_type (pd_store src) (PvRef fid) pgk_Pages); [intros H; right; exact H|].
  destruct (pg_is_selfref (pd_store (pgc_src (pg_c0 src dst))) (PvRef fid)); [intros H; right; exact H|].
  assert (Hgo : forall c2, pgc_tocopy c2 = [fid] ->
            In fid (pgc_tocopy (match pgc_err (pg_reserve_kids (fun x c => pg_reserve f x false c) (PvRef fid) c2) with
                                | Some _ => pg_reserve_kids (fun x c => pg_reserve f x false c) (PvRef fid) c2
                                | None => pg_reserve_done (PvRef fid) (pg_reserve_kids (fun x c => pg_reserve f x false c) (PvRef fid) c2)
                                end))).
  { intros c2 Ht.
    destruct (pg_cR_kids (fun x c => pg_reserve f x false c) (PvRef fid) c2 (fun x c0 => pg_cR_reserve f x false c0))
      as (_ & _ & _ & more & T & _).
    destruct (pgc_err _); cbn [pg_reserve_done pgc_tocopy]; rewrite T, Ht; apply in_or_app; right; left; reflexivity. }
  destruct (pgx_head_spec src Hall fid true (pg_c0 src dst) eq_refl eq_refl) as [(l0 & El & _ & E)|[(l0 & El & E)|[(El & E)|(El & _ & E)]]].
  - rewrite E. cbn [pgc_err pg_c0 negb]. intros _. left. apply Hgo. reflexivity.
  - rewrite E. cbn [pgc_err pg_c0 negb pgc_omap]. intros H. right. exact H.
  - rewrite E. cbn [pgc_err pg_c0 negb]. intros _. left. apply Hgo. reflexivity.
  - pose proof (pgz_head_top_new fid (pg_c0 src dst) El eq_refl) as Hn. rewrite E in Hn. discriminate.
Qed.
Local Opaque pg_reserve.

Lemma pgz_top_tocopy : forall src dst fid l, pd_all src <> [] ->
  pg_omap_find (pgc_omap (pg_cres src dst fid)) fid = Some l ->
  In fid (pgc_tocopy (pg_cres src dst fid)) \/ pg_omap_find (pd_omap dst) fid = Some l.
Proof. intros src dst fid l Hall. exact (pgz_top_tocopy_gen 199 src dst fid l Hall). Qed.

Lemma pgz_copied_result : forall src dst fid l,
  pd_all src <> [] -> pg_omap_wf dst ->
  let '(src', dst', e, r) := pg_copied src dst fid in
  e = None -> r = PvRef l ->
  (exists v, pg_lookup (pd_store src) fid = Some (PcObj v) /\
             pg_lookup (pd_store dst') l = Some (PcObj (pg_rename (pd_store src) (pd_omap dst') v)) /\
             (pg_lookup (pd_store dst) l = None \/ pg_is_null (pd_store dst) (PvRef l) = true)) \/
  (exists d x k, pg_lookup (pd_store src) fid = Some (PcStream d x k)) \/
  (pg_omap_find (pd_omap dst) fid = Some l /\ pg_lookup (pd_store dst') l = pg_lookup (pd_store dst) l /\
   pg_lookup (pd_store dst) l <> None).
Proof.
  intros src dst fid l Hall [Wex Winj].
  assert (W : pg_cW (pg_cres src dst fid)).
  { apply pg_cW_reserve; [|reflexivity]. unfold pg_cW, pg_c0. cbn [pgc_dst pgc_omap pgc_tocopy].
    split; [exact Wex|split; [exact Winj|split; [intros og []|constructor]]]. }
  pose proof (pg_cR_reserve 200 (PvRef fid) true (pg_c0 src dst)) as (M & S & D & more & T & NN).
  pose proof (pgz_top_tocopy src dst fid l Hall) as Htop.
  fold (pg_cres src dst fid) in *.
  unfold pg_copied. fold (pg_c0 src dst). fold (pg_cres src dst fid).
  set (c := pg_cres src dst fid) in *.
  cbn [pg_c0 pgc_src pgc_dst pgc_omap pgc_tocopy] in M, S, D, T, NN. rewrite app_nil_r in T. specialize (S Hall).
  destruct W as (WA & WB & WC & WD).
  destruct (pgc_err c) eqn:Ee; [intros H; discriminate|]. rewrite S.
  destruct (fold_left (pg_replace_step src (pgc_omap c)) (rev' (pgc_tocopy c)) (pgc_dst c, pd_reg dst, None)) as [[ds reg] e] eqn:Ef.
  destruct e as [x|]; [intros H; discriminate|].
  assert (HL1 : NoDup (rev' (pgc_tocopy c))) by (rewrite rev'_rev; apply NoDup_rev, WD).
  assert (HL2 : forall og, In og (rev' (pgc_tocopy c)) -> In og (pgc_tocopy c)).
  { intros og H. rewrite rev'_rev in H. apply in_rev in H. exact H. }
  assert (HL3 : forall og, In og (pgc_tocopy c) -> In og (rev' (pgc_tocopy c))).
  { intros og H. rewrite rev'_rev. apply in_rev. rewrite rev_involutive. exact H. }
  assert (HL4 : forall og, In og (rev' (pgc_tocopy c)) -> pg_omap_find (pgc_omap c) og <> None) by (intros og H; apply WC, HL2, H).
  pose proof (pgx_replace_fold src (pgc_omap c) _ _ _ _ _ HL1 HL4 WB Ef) as Hrep.
  destruct (pg_replace_fold src (pgc_omap c) _ _ _ _ _ HL1 HL4 WB Ef) as [_ H2].
  destruct (pg_omap_find (pgc_omap c) fid) as [l0|] eqn:Efid; intros _ Hr; [|discriminate].
  injection Hr as ->. cbn [pd_store pd_omap pd_with_reg pd_with_omap pd_with_store].
  destruct (in_dec N.eq_dec fid (pgc_tocopy c)) as [Hin|Hnin].
  - specialize (Hrep fid l (HL3 fid Hin) Efid).
    assert (Hnull : pg_is_null (pd_store dst) (PvRef l) = true).
    { rewrite T in Hin. destruct (NN fid Hin) as (l' & El' & Hn). rewrite Efid in El'. injection El' as <-. exact Hn. }
    destruct (pg_lookup (pd_store src) fid) as [[v|d data k]|].
    + left. exists v. split; [reflexivity|split; [exact Hrep|right; exact Hnull]].
    + right; left. exists d, data, k. reflexivity.
    + destruct Hrep.
  - destruct (Htop eq_refl) as [Hin|Hold]; [contradiction|].
    right; right. split; [exact Hold|].
    assert (Hex : pg_lookup (pd_store dst) l <> None) by (eapply Wex; exact Hold).
    split; [|exact Hex]. rewrite <- (D l Hex). apply H2.
    intros og Hog E. apply Hnin. rewrite <- (WB og fid l E Efid). apply HL2, Hog.
Qed.
