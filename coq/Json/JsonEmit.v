(* C14 - MODEL of qpdf's JSON emission and import, written from the C++ in /repo:
     BaseHandle::write_json            libqpdf/QPDFObjectHandle.cc   (numbers, names, arrays, dictionaries)
     Name::analyzeJSONEncoding, Name::normalize                      (same file)
     QPDF_String::writeJSON, useHexString                            libqpdf/QPDF_String.cc
     JSON::Writer (writeStart/writeNext/writeEnd), encode_string     libqpdf/qpdf/JSON_writer.hh, JSON.cc
     QUtil::toUTF8, toUTF16, utf16_to_utf8, pdf_doc_to_utf8, get_next_utf8_codepoint,
            transcode_utf8 (e_pdfdoc, e_utf16), hex_encode, hex_decode   libqpdf/QUtil.cc
     JSONParser::getToken string states, handle_u_code               libqpdf/JSON.cc
     JSONReactor::makeObject (string classification), String::utf16  libqpdf/QPDF_json.cc, QPDFObjectHandle.cc
     Tokenizer::inName/inNameHex1/inNameHex2                         libqpdf/QPDFTokenizer.cc
   Bytes are N < 256; `char` is signed on this platform and the code depends on it (Name::normalize,
   useHexString): those comparisons are written on the signed reading.

   Three places of the pinned tree violate the property (DESIGN.md section 6: D1, D7/D8, D9). For each the
   file has BOTH the function as the pinned tree has it (suffix _pinned: the refutation witnesses are evaluated
   on it, and the correspondence expects exactly this behaviour from an unrepaired tree) and the function as
   it is after proposed_fixes/*.diff (no suffix: the theorems of Props/Properties_C14.v are about these).
   No proofs in this file. *)
From QV Require Import Base.Bytes Gen.PdfDoc.
Local Open Scope N_scope.

(* ------------------------------------------------------------------ small helpers *)

Definition jm_hexdigit (v : N) : N := if v <? 10 then 48 + v else 87 + v.     (* "0123456789abcdef"[v] *)

(* util::hex_decode_char: value < 16, or 16 ('\20') for a non-hex character; note 'g'..'z' etc:
   digit >= 'a' ? digit - 'a' + 10 : ...  is returned as a char and compared with '\20' by the callers *)
Definition jm_hex_decode_char (c : N) : N :=
  if (48 <=? c) && (c <=? 57) then c - 48
  else if 97 <=? c then (if c <? 128 then c - 87 else 16 (* negative char: digit >= 'a' is false, digit >= 'A' false *))
  else if 65 <=? c then c - 55
  else 16.
(* callers test `< '\20'` on a (signed) char: c - 87 for c in 'g'..0x7f is 16..40, not < 16 *)
Definition jm_is_hex_digit (c : N) : bool := jm_hex_decode_char c <? 16.

Fixpoint jm_drop_zeros (l : list N) : list N :=
  match l with
  | b :: t => if b =? 48 then jm_drop_zeros t else l
  | [] => []
  end.

Definition jm_last_is (c : N) (l : list N) : bool :=
  match rev' l with b :: _ => b =? c | [] => false end.

(* ------------------------------------------------------------------ write_json, case ot_real *)

(* pinned tree (D1): a leading '+' and zeros after a sign are copied verbatim *)
Definition jm_real_pinned (v : list N) : list N :=
  match v with
  | [] => [48]
  | b :: t =>
    (if b =? 46 then 48 :: v
     else if (b =? 45) && (match t with c :: _ => c =? 46 | [] => false end) then [45; 48; 46] ++ tl t
     else if b =? 48 then
       match jm_drop_zeros v with
       | [] => [48]
       | c :: r => if c =? 46 then 48 :: c :: r else c :: r
       end
     else v)
    ++ (if jm_last_is 46 v then [48] else [])
  end.

(* after proposed_fixes/D1_json_reals.diff: the sign is handled first (a '+' is dropped), then leading zeros *)
Definition jm_real (v : list N) : list N :=
  let '(sgn, u) := match v with
                   | b :: t => if b =? 45 then ([45], t) else if b =? 43 then ([], t) else ([], v)
                   | [] => ([], v)
                   end in
  sgn ++ (match jm_drop_zeros u with
          | [] => [48]
          | c :: r => if c =? 46 then 48 :: c :: r else c :: r
          end)
      ++ (if jm_last_is 46 u then [48] else []).

(* ------------------------------------------------------------------ JSON::Writer::encode_string *)

Definition jm_plain_char (c : N) : bool := ((34 <? c) && negb (c =? 92)) || (c =? 32) || (c =? 33).

Definition jm_encode_char (c : N) : list N :=
  if jm_plain_char c then [c]
  else if c =? 92 then [92; 92]
  else if c =? 34 then [92; 34]
  else if c =? 8 then [92; 98]
  else if c =? 12 then [92; 102]
  else if c =? 10 then [92; 110]
  else if c =? 13 then [92; 114]
  else if c =? 9 then [92; 116]
  else [92; 117; 48; 48; (if c <? 16 then 48 else 49); jm_hexdigit (c mod 16)].

Definition jm_encode_string (s : list N) : list N := flat_map jm_encode_char s.

(* ------------------------------------------------------------------ Name::analyzeJSONEncoding *)

(* state: tail, tail2, tail3, needs_escaping; result (is valid utf-8, needs no escaping) *)
Fixpoint jm_analyze_pinned_go (l : list N) (tail : N) (tail2 tail3 ne : bool) : bool * bool :=
  match l with
  | [] => (tail =? 0, negb ne)
  | c :: t =>
    if negb (tail =? 0) then
      if negb (N.land c 192 =? 128) then (false, false)
      else if tail2 then
        (if N.land c 224 =? 128 then (false, false) else jm_analyze_pinned_go t (tail - 1) false tail3 ne)
      else if tail3 then
        (if N.land c 240 =? 128 then (false, false) else jm_analyze_pinned_go t (tail - 1) tail2 false ne)
      else jm_analyze_pinned_go t (tail - 1) tail2 tail3 ne
    else if c <? 128 then jm_analyze_pinned_go t tail tail2 tail3 (ne || negb (jm_plain_char c))
    else if N.land c 224 =? 192 then
      (if N.land c 254 =? 192 then (false, false) else jm_analyze_pinned_go t 1 tail2 tail3 ne)
    else if N.land c 240 =? 224 then jm_analyze_pinned_go t 2 (c =? 224) tail3 ne
    else if N.land c 248 =? 240 then jm_analyze_pinned_go t 3 tail2 (c =? 240) ne
    else (false, false)
  end.
Definition jm_analyze_pinned (name : list N) : bool * bool := jm_analyze_pinned_go name 0 false false false.

(* after proposed_fixes/D9_json_names.diff: two more flags, `surr` (lead 0xED: second byte must be < 0xA0)
   and `top` (lead 0xF4: second byte must be < 0x90), and leads above 0xF4 are rejected *)
Fixpoint jm_analyze_go (l : list N) (tail : N) (tail2 tail3 surr top ne : bool) : bool * bool :=
  match l with
  | [] => (tail =? 0, negb ne)
  | c :: t =>
    if negb (tail =? 0) then
      if negb (N.land c 192 =? 128) then (false, false)
      else if tail2 then
        (if N.land c 224 =? 128 then (false, false) else jm_analyze_go t (tail - 1) false tail3 surr top ne)
      else if tail3 then
        (if N.land c 240 =? 128 then (false, false) else jm_analyze_go t (tail - 1) tail2 false surr top ne)
      else if surr then
        (if N.land c 224 =? 160 then (false, false) else jm_analyze_go t (tail - 1) tail2 tail3 false top ne)
      else if top then
        (if negb (N.land c 240 =? 128) then (false, false) else jm_analyze_go t (tail - 1) tail2 tail3 surr false ne)
      else jm_analyze_go t (tail - 1) tail2 tail3 surr top ne
    else if c <? 128 then jm_analyze_go t tail tail2 tail3 surr top (ne || negb (jm_plain_char c))
    else if N.land c 224 =? 192 then
      (if N.land c 254 =? 192 then (false, false) else jm_analyze_go t 1 tail2 tail3 surr top ne)
    else if N.land c 240 =? 224 then jm_analyze_go t 2 (c =? 224) tail3 (c =? 237) top ne
    else if N.land c 248 =? 240 then
      (if 244 <? c then (false, false) else jm_analyze_go t 3 tail2 (c =? 240) surr (c =? 244) ne)
    else (false, false)
  end.
Definition jm_analyze (name : list N) : bool * bool := jm_analyze_go name 0 false false false false false.

(* ------------------------------------------------------------------ Name::normalize (the name includes its leading '/') *)

Definition jm_name_special (c : N) : bool :=
  (c =? 35) || (c =? 47) || (c =? 40) || (c =? 41) || (c =? 123) || (c =? 125) ||
  (c =? 60) || (c =? 62) || (c =? 91) || (c =? 93) || (c =? 37).

Definition jm_normalize_char (c : N) : list N :=
  if c =? 0 then [35]
  else if (c <? 33) || (128 <=? c) (* signed ch < 33 *) || jm_name_special c || (c =? 127) (* signed ch > 126 *)
       then [35; jm_hexdigit (c / 16); jm_hexdigit (c mod 16)]
  else [c].

Definition jm_normalize (name : list N) : list N :=
  match name with
  | [] => []
  | a :: t => a :: flat_map jm_normalize_char t
  end.

(* ------------------------------------------------------------------ QUtil::toUTF8 / toUTF16 *)

Fixpoint jm_toutf8_go (fuel : nat) (uval maxval : N) (acc : list N) : list N :=
  match fuel with
  | O => acc
  | S f => if maxval <? uval
           then jm_toutf8_go f (uval / 64) (maxval / 2) ((128 + uval mod 64) :: acc)
           else ((255 - (1 + maxval * 2) + uval) mod 256) :: acc
  end.
(* defined for uval <= 0x7fffffff (the C++ throws above that; never reached from the callers modelled here) *)
Definition jm_to_utf8 (uval : N) : list N :=
  if uval <? 128 then [uval] else jm_toutf8_go 7 uval 63 [].

Definition jm_to_utf16 (uval : N) : list N :=
  if (55296 <=? uval) && (uval <=? 57343) then [255; 253]
  else if uval <=? 65535 then [uval / 256; uval mod 256]
  else if uval <=? 1114111 then
    let u := uval - 65536 in
    let high := u / 1024 + 55296 in
    let low := u mod 1024 + 56320 in
    [high / 256; high mod 256; low / 256; low mod 256]
  else [255; 253].

(* ------------------------------------------------------------------ QUtil::utf16_to_utf8 *)

Definition jm_is_utf16 (s : list N) : bool :=
  match s with
  | a :: b :: _ => ((a =? 254) && (b =? 255)) || ((a =? 255) && (b =? 254))
  | _ => false
  end.
Definition jm_is_explicit_utf8 (s : list N) : bool :=
  match s with
  | a :: b :: c :: _ => (a =? 239) && (b =? 187) && (c =? 191)
  | _ => false
  end.

(* the loop `for (i = start; i + 1 < len; i += 2)`; codepoint carries the pending high surrogate; acc reversed *)
Fixpoint jm_u16_loop (is_le : bool) (l : list N) (codepoint : N) (acc : list N) : list N :=
  match l with
  | a :: b :: t =>
    let bits := if is_le then b * 256 + a else a * 256 + b in
    if N.land bits 64512 =? 55296 then
      jm_u16_loop is_le t (65536 + (N.land bits 1023) * 1024) acc
    else
      let cp := if N.land bits 64512 =? 56320 then codepoint + N.land bits 1023 else bits in
      jm_u16_loop is_le t 0 (rev_append (jm_to_utf8 cp) acc)
  | _ => rev' acc           (* an odd last byte is ignored *)
  end.

Definition jm_utf16_to_utf8 (val : list N) : list N :=
  if jm_is_utf16 val
  then jm_u16_loop (match val with a :: _ => a =? 255 | [] => false end) (tl (tl val)) 0 []
  else jm_u16_loop false val 0 [].

(* ------------------------------------------------------------------ QUtil::pdf_doc_to_utf8 (tables: Gen/PdfDoc.v) *)

Fixpoint jm_assoc (k : N) (l : list (N * N)) : option N :=
  match l with
  | [] => None
  | (a, b) :: t => if a =? k then Some b else jm_assoc k t
  end.

Definition jm_pdfdoc_to_unicode (ch : N) : N :=
  match jm_assoc ch pdfdoc_fwd_table with Some u => u | None => ch end.

Definition jm_pdf_doc_to_utf8 (val : list N) : list N :=
  flat_map (fun ch => jm_to_utf8 (jm_pdfdoc_to_unicode ch)) val.

(* ------------------------------------------------------------------ QUtil::get_next_utf8_codepoint *)

(* number of consecutive one bits below the top bit (the while loop over bit_check), and the mask to_clear *)
Fixpoint jm_lead_bits (fuel : nat) (ch bit_check : N) (needed to_clear : N) : N * N :=
  match fuel with
  | O => (needed, to_clear)
  | S f => if (negb (bit_check =? 0)) && negb (N.land ch bit_check =? 0)
           then jm_lead_bits f ch (bit_check / 2) (needed + 1) (N.lor to_clear bit_check)
           else (needed, to_clear)
  end.

Fixpoint jm_cont_bytes (n : nat) (l : list N) (cp : N) : option (N * list N) * list N :=
  (* Some (codepoint, rest) | None with the rest starting AT the offending byte (--pos) *)
  match n with
  | O => (Some (cp, l), l)
  | S k => match l with
           | ch :: t => if N.land ch 192 =? 128 then jm_cont_bytes k t (cp * 64 + N.land ch 63)
                        else (None, l)
           | [] => (None, l)     (* not reachable: the length was checked *)
           end
  end.

(* returns (codepoint, error, rest) for a non-empty input *)
Definition jm_next_codepoint (l : list N) : N * bool * list N :=
  match l with
  | [] => (65533, true, [])
  | ch :: t =>
    if ch <? 128 then (ch, false, t)
    else
      let '(needed, to_clear) := jm_lead_bits 8 ch 64 0 128 in
      if (5 <? needed) || (needed <? 1) || (N.of_nat (length t) <? needed) then (65533, true, t)
      else
        match jm_cont_bytes (N.to_nat needed) t (N.land ch (255 - to_clear)) with
        | (None, rest) => (65533, true, rest)
        | (Some (cp, rest), _) =>
          let lower_bound := match needed with
                             | 1 => 128 | 2 => 2048 | 3 => 65536 | 4 => 4096 | 5 => 67108864 | _ => 0
                             end in
          (cp, (0 <? lower_bound) && (cp <? lower_bound), rest)
        end
  end.

(* ------------------------------------------------------------------ transcode_utf8 (e_pdfdoc with unknown = '?', e_utf16) *)

Fixpoint jm_prefix (p l : list N) : bool :=
  match p, l with
  | [], _ => true
  | a :: p', b :: l' => (a =? b) && jm_prefix p' l'
  | _ :: _, [] => false
  end.

Definition jm_encode_pdfdoc (cp : N) : N :=
  match jm_assoc cp pdfdoc_rev_table with Some b => b | None => 0 end.

(* one step of the while loop for e_pdfdoc: (bytes appended, okay) *)
Definition jm_pdfdoc_step (cp : N) (error : bool) : N * bool :=
  if error then (63, false)
  else if cp <? 128 then
    (if ((24 <=? cp) && (cp <=? 31)) || (cp =? 127) then (63, false) else (cp, true))
  else if cp =? 173 then (63, false)
  else if (160 <? cp) && (cp <? 256) then (cp, true)
  else let ch := jm_encode_pdfdoc cp in if ch =? 0 then (63, false) else (ch, true).

Fixpoint jm_to_pdfdoc_loop (fuel : nat) (l : list N) (acc : list N) (okay : bool) : bool * list N :=
  match fuel with
  | O => (okay, rev' acc)
  | S f =>
    match l with
    | [] => (okay, rev' acc)
    | _ => let '(cp, err, rest) := jm_next_codepoint l in
           let '(b, ok) := jm_pdfdoc_step cp err in
           jm_to_pdfdoc_loop f rest (b :: acc) (okay && ok)
    end
  end.

(* QUtil::utf8_to_pdf_doc(utf8, result, '?') : (return value, result) *)
Definition jm_utf8_to_pdf_doc (u : list N) : bool * list N :=
  let guard := (4 <=? N.of_nat (length u)) &&
               (match u with
                | 195 :: t => jm_prefix [190; 195; 191] t || jm_prefix [191; 195; 190] t
                              || jm_prefix [175; 194; 187; 194; 191] t
                | _ => false
                end) in
  if guard then jm_to_pdfdoc_loop (length u) u [63] false
  else jm_to_pdfdoc_loop (length u) u [] true.

Fixpoint jm_to_utf16_loop (fuel : nat) (l : list N) (acc : list N) : list N :=
  match fuel with
  | O => rev' acc
  | S f =>
    match l with
    | [] => rev' acc
    | _ => let '(cp, err, rest) := jm_next_codepoint l in
           jm_to_utf16_loop f rest (rev_append (if err then [255; 253] else jm_to_utf16 cp) acc)
    end
  end.
Definition jm_utf8_to_utf16 (u : list N) : list N := jm_to_utf16_loop (length u) u [255; 254].
(* acc is reversed: the string starts with FE FF *)

(* String::utf16 = QPDFObjectHandle::newUnicodeString *)
Definition jm_new_unicode_string (u : list N) : list N :=
  let '(ok, r) := jm_utf8_to_pdf_doc u in if ok then r else jm_utf8_to_utf16 u.

(* ------------------------------------------------------------------ hex *)

Definition jm_hex_encode (s : list N) : list N :=
  flat_map (fun c => [jm_hexdigit (c / 16); jm_hexdigit (c mod 16)]) s.

(* QUtil::hex_decode: non-hex characters are skipped, an odd last digit is the high nibble *)
Fixpoint jm_hex_decode_go (l : list N) (pending : option N) (acc : list N) : list N :=
  match l with
  | [] => match pending with Some d => rev' (d :: acc) | None => rev' acc end
  | c :: t =>
    let v := jm_hex_decode_char c in
    if v <? 16 then
      match pending with
      | None => jm_hex_decode_go t (Some (v * 16)) acc
      | Some d => jm_hex_decode_go t None ((d + v) :: acc)
      end
    else jm_hex_decode_go t pending acc
  end.
Definition jm_hex_decode (l : list N) : list N := jm_hex_decode_go l None [].

(* ------------------------------------------------------------------ QPDF_String::useHexString, writeJSON *)

(* returns (forced by a control character, number of non-ascii) *)
Fixpoint jm_hexstr_scan (l : list N) (non_ascii : N) : option N :=
  match l with
  | [] => Some non_ascii
  | ch :: t =>
    if ch =? 127 then jm_hexstr_scan t (non_ascii + 1)            (* signed ch > 126 *)
    else if (32 <=? ch) && (ch <? 127) then jm_hexstr_scan t non_ascii
    else if (128 <=? ch) || (24 <=? ch) then jm_hexstr_scan t (non_ascii + 1)   (* ch < 0 || ch >= 24 *)
    else if (ch =? 10) || (ch =? 13) || (ch =? 9) || (ch =? 8) || (ch =? 12) then jm_hexstr_scan t non_ascii
    else None
  end.
Definition jm_use_hex_string (val : list N) : bool :=
  match jm_hexstr_scan val 0 with
  | None => true
  | Some na => N.of_nat (length val) <? 5 * na
  end.

Definition jm_q (body : list N) : list N := 34 :: body ++ [34].

(* pinned tree (D7, D8): a byte-order mark alone selects the text form *)
Definition jm_string_json_pinned (version : N) (val : list N) : list N :=
  if version =? 1 then
    (if jm_is_utf16 val then jm_q (jm_encode_string (jm_utf16_to_utf8 val))
     else if jm_is_explicit_utf8 val then jm_q (jm_encode_string (skipn 3 val))
     else jm_q (jm_encode_string (jm_pdf_doc_to_utf8 val)))
  else if jm_is_utf16 val then jm_q ([117; 58] ++ jm_encode_string (jm_utf16_to_utf8 val))
  else if jm_is_explicit_utf8 val then jm_q ([117; 58] ++ jm_encode_string (skipn 3 val))
  else
    let candidate := jm_pdf_doc_to_utf8 val in
    if negb (jm_use_hex_string val) &&
       (let '(ok, test) := jm_utf8_to_pdf_doc candidate in ok && list_eqb N.eqb test val)
    then jm_q ([117; 58] ++ jm_encode_string candidate)
    else jm_q ([98; 58] ++ jm_hex_encode val).

(* proposed_fixes/D7D8_json_strings.diff: static helpers added to QPDF_String.cc *)
(* is_well_formed_utf16(val): even length, every high surrogate followed by a low one, no other low one *)
Fixpoint jm_wf_utf16_go (is_le : bool) (l : list N) (high : bool) : bool :=
  match l with
  | [] => negb high
  | [_] => false
  | a :: b :: t =>
    let msb := if is_le then b else a in
    if N.land msb 252 =? 216 then (if high then false else jm_wf_utf16_go is_le t true)
    else if N.land msb 252 =? 220 then (if high then jm_wf_utf16_go is_le t false else false)
    else if high then false
    else jm_wf_utf16_go is_le t false
  end.
Definition jm_wf_utf16 (val : list N) : bool :=
  jm_wf_utf16_go (match val with a :: _ => a =? 255 | [] => false end) (tl (tl val)) false.

(* is_valid_utf8(val, 3): the RFC 3629 ranges written as a scanner over (lead, first continuation) *)
Fixpoint jm_wf_utf8_go (l : list N) (tail : N) (lo hi : N) : bool :=
  (* tail = continuation bytes still expected; the next one must be in [lo, hi] *)
  match l with
  | [] => tail =? 0
  | c :: t =>
    if negb (tail =? 0) then
      (if (lo <=? c) && (c <=? hi) then jm_wf_utf8_go t (tail - 1) 128 191 else false)
    else if c <? 128 then jm_wf_utf8_go t 0 128 191
    else if (194 <=? c) && (c <=? 223) then jm_wf_utf8_go t 1 128 191
    else if c =? 224 then jm_wf_utf8_go t 2 160 191
    else if c =? 237 then jm_wf_utf8_go t 2 128 159
    else if (225 <=? c) && (c <=? 239) then jm_wf_utf8_go t 2 128 191
    else if c =? 240 then jm_wf_utf8_go t 3 144 191
    else if c =? 244 then jm_wf_utf8_go t 3 128 143
    else if (241 <=? c) && (c <=? 243) then jm_wf_utf8_go t 3 128 191
    else false
  end.
Definition jm_wf_utf8 (l : list N) : bool := jm_wf_utf8_go l 0 128 191.

Definition jm_string_json (version : N) (val : list N) : list N :=
  if version =? 1 then
    (if jm_is_utf16 val then jm_q (jm_encode_string (jm_utf16_to_utf8 val))
     else if jm_is_explicit_utf8 val && jm_wf_utf8 (skipn 3 val) then jm_q (jm_encode_string (skipn 3 val))
     else jm_q (jm_encode_string (jm_pdf_doc_to_utf8 val)))
  else if jm_is_utf16 val && jm_wf_utf16 val then jm_q ([117; 58] ++ jm_encode_string (jm_utf16_to_utf8 val))
  else if jm_is_explicit_utf8 val && jm_wf_utf8 (skipn 3 val) then jm_q ([117; 58] ++ jm_encode_string (skipn 3 val))
  else
    let candidate := jm_pdf_doc_to_utf8 val in
    if negb (jm_use_hex_string val) && negb (jm_is_utf16 val) && negb (jm_is_explicit_utf8 val) &&
       (let '(ok, test) := jm_utf8_to_pdf_doc candidate in ok && list_eqb N.eqb test val)
    then jm_q ([117; 58] ++ jm_encode_string candidate)
    else jm_q ([98; 58] ++ jm_hex_encode val).

(* ------------------------------------------------------------------ names (values and dictionary keys share this code) *)

Definition jm_name_body_with (analyze : list N -> bool * bool) (version : N) (name : list N) : list N :=
  if version =? 1 then jm_encode_string (jm_normalize name)
  else let '(valid, plain) := analyze name in
       if valid then (if plain then name else jm_encode_string name)
       else [110; 58] ++ jm_encode_string (jm_normalize name).

Definition jm_name_body := jm_name_body_with jm_analyze.
Definition jm_name_body_pinned := jm_name_body_with jm_analyze_pinned.
Definition jm_name_json (version : N) (name : list N) : list N := jm_q (jm_name_body version name).
Definition jm_name_json_pinned (version : N) (name : list N) : list N := jm_q (jm_name_body_pinned version name).

(* ------------------------------------------------------------------ object trees, JSON::Writer *)

Inductive jobj :=
| JNull
| JBool (b : bool)
| JInt (z : Z)
| JReal (spelling : list N)
| JStr (s : list N)
| JName (n : list N)                       (* with the leading '/' *)
| JArr (l : list jobj)
| JDict (d : list (list N * jobj))         (* std::map order = ascending bytewise key order (the caller sorts) *)
| JRef (num gen : N).                      (* indirect reference "n g R" *)

Definition jm_is_null (o : jobj) : bool := match o with JNull => true | _ => false end.

Definition jm_spaces (n : nat) : list N := repeat 32 n.
(* writeNext: first ? "\n" + indent spaces : ",\n" + indent spaces *)
Definition jm_next (first : bool) (indent : nat) : list N :=
  (if first then [10] else [44; 10]) ++ jm_spaces indent.

Definition jm_ref (num gen : N) : list N :=
  jm_q (dec_of_N num ++ [32] ++ dec_of_N gen ++ [32; 82]).

Section Emit.
  Variable fixedv : bool.      (* true: the tree after proposed_fixes; false: the pinned tree *)
  Variable version : N.

  Definition jm_real_sel := if fixedv then jm_real else jm_real_pinned.
  Definition jm_string_sel := if fixedv then jm_string_json version else jm_string_json_pinned version.
  Definition jm_name_body_sel := if fixedv then jm_name_body version else jm_name_body_pinned version.

  (* write_json with the writer at indentation `indent` (in spaces) *)
  Fixpoint jm_emit (indent : nat) (o : jobj) : list N :=
    match o with
    | JNull => [110; 117; 108; 108]
    | JBool true => [116; 114; 117; 101]
    | JBool false => [102; 97; 108; 115; 101]
    | JInt z => dec_of_Z z
    | JReal v => jm_real_sel v
    | JStr s => jm_string_sel s
    | JName n => jm_q (jm_name_body_sel n)
    | JRef n g => jm_ref n g
    | JArr l =>
      let fix items (l : list jobj) (first : bool) : list N :=
        match l with
        | [] => if first then [] else 10 :: jm_spaces indent
        | x :: t => jm_next first (indent + 2) ++ jm_emit (indent + 2) x ++ items t false
        end in
      91 :: items l true ++ [93]
    | JDict d =>
      let fix members (d : list (list N * jobj)) (first : bool) : list N :=
        match d with
        | [] => if first then [] else 10 :: jm_spaces indent
        | (k, v) :: t =>
          if jm_is_null v then members t first
          else jm_next first (indent + 2) ++ jm_q (jm_name_body_sel k) ++ [58; 32]
               ++ jm_emit (indent + 2) v ++ members t false
        end in
      123 :: members d true ++ [125]
    end.
End Emit.

(* ------------------------------------------------------------------ import: JSONParser string lexer *)

(* body after the opening quote -> (token, rest after the closing quote); None = the parser throws.
   Deviation, outside the emitted domain: handle_u_code accepts a lone low surrogate whose backslash is at
   absolute file offset 6 (high_offset == 0); here every unpaired surrogate is an error. *)
Fixpoint jm_parse_string (fuel : nat) (l : list N) (acc : list N) : option (list N * list N) :=
  match fuel with
  | O => None
  | S f =>
    match l with
    | [] => None
    | c :: t =>
      if c <? 32 then None
      else if c =? 34 then Some (rev' acc, t)
      else if c =? 92 then
        match t with
        | [] => None
        | e :: t1 =>
          if (e =? 92) || (e =? 34) || (e =? 47) then jm_parse_string f t1 (e :: acc)
          else if e =? 98 then jm_parse_string f t1 (8 :: acc)
          else if e =? 102 then jm_parse_string f t1 (12 :: acc)
          else if e =? 110 then jm_parse_string f t1 (10 :: acc)
          else if e =? 114 then jm_parse_string f t1 (13 :: acc)
          else if e =? 116 then jm_parse_string f t1 (9 :: acc)
          else if e =? 117 then
            match t1 with
            | h1 :: h2 :: h3 :: h4 :: t2 =>
              if jm_is_hex_digit h1 && jm_is_hex_digit h2 && jm_is_hex_digit h3 && jm_is_hex_digit h4 then
                let u := ((jm_hex_decode_char h1 * 16 + jm_hex_decode_char h2) * 16 + jm_hex_decode_char h3) * 16
                         + jm_hex_decode_char h4 in
                if N.land u 64512 =? 55296 then
                  match t2 with
                  | 92 :: 117 :: g1 :: g2 :: g3 :: g4 :: t3 =>
                    if jm_is_hex_digit g1 && jm_is_hex_digit g2 && jm_is_hex_digit g3 && jm_is_hex_digit g4 then
                      let v := ((jm_hex_decode_char g1 * 16 + jm_hex_decode_char g2) * 16 + jm_hex_decode_char g3) * 16
                               + jm_hex_decode_char g4 in
                      if N.land v 64512 =? 56320
                      then jm_parse_string f t3 (rev_append (jm_to_utf8 (65536 + (N.land u 1023) * 1024 + N.land v 1023)) acc)
                      else None
                    else None
                  | _ => None
                  end
                else if N.land u 64512 =? 56320 then None
                else jm_parse_string f t2 (rev_append (jm_to_utf8 u) acc)
              else None
            | _ => None
            end
          else None
        end
      else jm_parse_string f t (c :: acc)
    end
  end.

(* a complete string token "..." *)
Definition jm_parse_string_token (l : list N) : option (list N) :=
  match l with
  | 34 :: t => match jm_parse_string (length l) t [] with
               | Some (v, []) => Some v
               | _ => None
               end
  | _ => None
  end.

(* ------------------------------------------------------------------ import: Tokenizer name states on the text after "n:" *)

Definition jm_is_delimiter (c : N) : bool :=
  (c =? 0) || (c =? 32) || (c =? 10) || (c =? 13) || (c =? 9) || (c =? 12) || (c =? 11) ||
  (c =? 40) || (c =? 41) || (c =? 60) || (c =? 62) || (c =? 91) || (c =? 93) || (c =? 123) || (c =? 125) ||
  (c =? 47) || (c =? 37).

(* the characters after the leading '/', up to the end of the text; None = QPDFObjectHandle::parse throws: a
   delimiter ends the token early ("trailing data"), the token is bad (#00), or - with `strict`, the pinned
   tree, where parse() is called without a QPDF context so that every tokenizer warning is an exception - the
   name has a stray '#'. After proposed_fixes/F1_json_stray_hash_names.diff (strict = false) the stray '#'
   is a warning and the name keeps the NUL the tokenizer embeds for it. *)
Fixpoint jm_name_token (strict : bool) (l : list N) (acc : list N) : option (list N) :=
  match l with
  | [] => Some (rev' acc)
  | c :: t =>
    if jm_is_delimiter c then None
    else if c =? 35 then
      match t with
      | [] => if strict then None else Some (rev' (0 :: acc))      (* presentEOF pushes '\f': a stray '#' *)
      | h1 :: t1 =>
        if jm_is_hex_digit h1 then
          match t1 with
          | [] => if strict then None else Some (rev' (h1 :: 0 :: acc))
          | h2 :: t2 =>
            if jm_is_hex_digit h2 then
              let code := jm_hex_decode_char h1 * 16 + jm_hex_decode_char h2 in
              if code =? 0 then None else jm_name_token strict t2 (code :: acc)
            else if strict then None
            else jm_name_token strict t1 (h1 :: 0 :: acc)      (* val += '\0'; val += hex_char; inName(ch) *)
          end
        else if strict then None
        else jm_name_token strict t (0 :: acc)                 (* val += '\0'; inName(ch) *)
      end
    else jm_name_token strict t (c :: acc)
  end.

(* ------------------------------------------------------------------ import: JSONReactor::makeObject on a string value *)

Inductive jimported :=
| ImpRef (num gen : N)
| ImpString (bytes : list N)
| ImpName (name : list N)
| ImpError.                 (* "unrecognized string value" / exception *)

Fixpoint jm_take_digits (l : list N) : list N * list N :=
  match l with
  | b :: t => if is_digit b then let '(d, r) := jm_take_digits t in (b :: d, r) else ([], l)
  | [] => ([], [])
  end.
Fixpoint jm_drop_spaces (l : list N) : list N :=
  match l with b :: t => if b =? 32 then jm_drop_spaces t else l | [] => [] end.

(* is_indirect_object; string_to_int range errors are outside the model (ids of real documents are small) *)
Definition jm_is_indirect (v : list N) : option (N * N) :=
  match jm_take_digits v with
  | ([], _) => None
  | (o, 32 :: r1) =>
    match jm_take_digits (jm_drop_spaces r1) with
    | ([], _) => None
    | (g, 32 :: r2) =>
      match jm_drop_spaces r2 with
      | [82] => if 0 <? dec_value o then Some (dec_value o, dec_value g) else None
      | _ => None
      end
    | _ => None
    end
  | _ => None
  end.

Definition jm_make_string_object (strict : bool) (v : list N) : jimported :=
  match jm_is_indirect v with
  | Some (o, g) => ImpRef o g
  | None =>
    match v with
    | 117 :: 58 :: s => ImpString (jm_new_unicode_string s)
    | 98 :: 58 :: s =>
      if forallb jm_is_hex_digit s && N.even (N.of_nat (length s)) then ImpString (jm_hex_decode s)
      else ImpError
    | 47 :: _ => ImpName v
    | 110 :: 58 :: 47 :: s =>
      match jm_name_token strict s [] with Some n => ImpName (47 :: n) | None => ImpError end
    | _ => ImpError
    end
  end.

(* export followed by import of one string / name object *)
Definition jm_import_token (strict : bool) (tok : list N) : jimported :=
  match jm_parse_string_token tok with
  | Some v => jm_make_string_object strict v
  | None => ImpError
  end.
