(* C16.  What the /Contents entry of a page MEANS.  Written from ISO 32000-1:2008, Table 30 (entry Contents) and
   7.8.2; nothing here refers to qpdf's code or to Struct/ContentNorm.v / Struct/ContentList.v.

     "A content stream that shall describe the contents of this page.  If this entry is absent, the page shall be
      empty.  The value shall be either a single stream or an array of streams.  If the value is an array, the effect
      shall be as if all of the streams in the array were concatenated, in order, to form a single stream. [...]
      The division between streams may occur only at the boundaries between lexical tokens."

   - nothing requires the streams of the array to be distinct objects: an object listed k times contributes k times,
     at each of its positions (a shared `cm` fragment, a repeated drawing step);
   - every element contributes the token sequence of its own stream (the division is at token boundaries, the
     property's quantifier: a stream that does not read on its own gives the page no reading here);
   - an element that is not a stream (null, a number, a nested array, a reference to such an object) is not allowed:
     the page has no reading (None); the same for a value that is neither a stream nor an array;
   - absent / null: the empty page.
   The token sequence of one stream is c16_sem (Struct/ContentSem.v). *)
From QV Require Import Base.Bytes Struct.ContentObj Struct.ContentSem.
Local Open Scope N_scope.

(* the object with number n: the first entry of the table that carries the number *)
Definition c16s_object (st : c16_store) (n : N) : option c16_co :=
  option_map snd (find (fun p => fst p =? n) st).

(* the stream an array element designates; an array element must be (a reference to) a stream *)
Definition c16s_stream_of (st : c16_store) (v : c16_cv) : option (list N) :=
  match v with
  | CvRef n => match c16s_object st n with Some (CoStream d) => Some d | _ => None end
  | _ => None
  end.

(* "as if all of the streams in the array were concatenated, in order": one contribution per element *)
Fixpoint c16s_concat_sem (st : c16_store) (items : list c16_cv) : option (list c16_sem_token) :=
  match items with
  | [] => Some []
  | it :: r =>
      match c16s_stream_of st it with
      | None => None
      | Some d =>
          match c16_sem d, c16s_concat_sem st r with
          | Some a, Some b => Some (a ++ b)
          | _, _ => None
          end
      end
  end.

(* the operands and operators of a page whose /Contents is v *)
Definition c16_spec_page (st : c16_store) (v : c16_cv) : option (list c16_sem_token) :=
  match v with
  | CvNull => Some []
  | CvOther => None
  | CvArr items => c16s_concat_sem st items
  | CvRef n =>
      match c16s_object st n with
      | None | Some CoNull => Some []
      | Some (CoStream d) => c16_sem d
      | Some (CoArr items) => c16s_concat_sem st items
      | Some CoOther => None
      end
  end.

(* the structural half alone: absent, a stream, or an array all of whose elements are streams *)
Definition c16s_is_stream (st : c16_store) (v : c16_cv) : bool :=
  match c16s_stream_of st v with Some _ => true | None => false end.

Definition c16_spec_contents_wf (st : c16_store) (v : c16_cv) : bool :=
  match v with
  | CvNull => true
  | CvOther => false
  | CvArr items => forallb (c16s_is_stream st) items
  | CvRef n =>
      match c16s_object st n with
      | None | Some CoNull | Some (CoStream _) => true
      | Some (CoArr items) => forallb (c16s_is_stream st) items
      | Some CoOther => false
      end
  end.
