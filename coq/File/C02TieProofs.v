(* C02 - tie between the C++ source and the model: the definition that harness/translate_leaf.py generates from the
   clang AST of impl::Writer::bytesNeeded (libqpdf/QPDFWriter.cc) on every run (Gen/Leaf.v, lf_bytesNeeded) equals the
   hand-written model bytes_needed (File/WriterArith.v) on the whole non-negative range of `long long`, for every fuel
   from 9 on (the loop runs at most 8 times).  An edit of the C++ loop changes Gen/Leaf.v and re-decides this file. *)
From QV Require Import Base.Bytes File.WriterArith File.C02Proofs.
From Coq Require Import Lia ZifyBool ZifyNat ZifyN.
From QV Require Import Base.LeafSem Base.LeafSemFacts Gen.Leaf.
Local Open Scope N_scope.

Lemma bnf_fuel_irrelevant : forall m f n, (m <= f)%nat -> n < 256 ^ N.of_nat m ->
  bytes_needed_fuel (S f) n = bytes_needed_fuel (S m) n.
Proof.
  induction m as [|m IH]; intros f n Hf Hn.
  - change (256 ^ N.of_nat 0) with 1 in Hn. assert (n = 0) by lia. subst n. rewrite !bnf_zero. reflexivity.
  - destruct f as [|f]; [lia|].
    cbn [bytes_needed_fuel]. destruct (N.eqb_spec n 0); [reflexivity|].
    f_equal. apply IH; [lia|].
    rewrite Nat2N.inj_succ, N.pow_succ_r' in Hn.
    apply N.div_lt_upper_bound; lia.
Qed.

Lemma lf_bytesNeeded_loop : forall m f fuel0 n b, (m < f)%nat ->
  (0 <= n < 256 ^ Z.of_nat m)%Z -> (0 <= b)%Z -> (b + Z.of_nat m < 4294967296)%Z ->
  lf_bytesNeeded_loop1 fuel0 f n b = (b + Z.of_N (bytes_needed_fuel (S m) (Z.to_N n)))%Z.
Proof.
  induction m as [|m IH]; intros f fuel0 n b Hf Hn Hb Hbm.
  - change (256 ^ Z.of_nat 0)%Z with 1%Z in Hn. assert (n = 0%Z) by lia. subst n.
    destruct f as [|f]; [lia|]. cbn. lia.
  - destruct f as [|f]; [lia|].
    cbn [lf_bytesNeeded_loop1].
    destruct (Z.eqb_spec n 0) as [E|E].
    + subst n. cbn. lia.
    + rewrite lf_z2b_true by exact E.
      rewrite lf_wrap_u_32_small by lia.
      rewrite Z.shiftr_div_pow2 by lia. change (2 ^ 8)%Z with 256%Z.
      rewrite Nat2Z.inj_succ, Z.pow_succ_r in Hn by lia.
      rewrite IH; [| lia | | lia | lia].
      * change (bytes_needed_fuel (S (S m)) (Z.to_N n))
          with (if Z.to_N n =? 0 then 0 else 1 + bytes_needed_fuel (S m) (Z.to_N n / 256)).
        destruct (N.eqb_spec (Z.to_N n) 0); [lia|].
        rewrite Z2N.inj_div by lia. change (Z.to_N 256) with 256. lia.
      * split; [apply Z.div_pos; lia|]. apply Z.div_lt_upper_bound; lia.
Qed.

(* the translated C++ of bytesNeeded computes the model's bytes_needed for every n a non-negative long long can hold,
   whatever fuel >= 9 is supplied: 9 iterations of the C++ loop suffice *)
Lemma bytes_needed_src_lemma : forall fuel n, (9 <= fuel)%nat -> (0 <= n < 2 ^ 63)%Z ->
  lf_bytesNeeded fuel n = Z.of_N (bytes_needed (Z.to_N n)).
Proof.
  intros fuel n Hf Hn. unfold lf_bytesNeeded, bytes_needed.
  rewrite (lf_bytesNeeded_loop 8 fuel fuel n 0); [lia | lia | | lia | lia].
  change (256 ^ Z.of_nat 8)%Z with (2 ^ 64)%Z.
  assert (2 ^ 63 < 2 ^ 64)%Z by (apply Z.pow_lt_mono_r; lia). lia.
Qed.

(* the C++ result is the least width: bytes_needed_spec read on the translated source *)
Lemma bytes_needed_src_spec_lemma : forall n, (0 <= n < 2 ^ 63)%Z ->
  (n < 256 ^ lf_bytesNeeded 9 n /\ (0 < n -> 256 ^ (lf_bytesNeeded 9 n - 1) <= n))%Z.
Proof.
  intros n Hn. rewrite bytes_needed_src_lemma by lia.
  assert (Hlt : Z.to_N n < 2 ^ 63).
  { change (2 ^ 63) with (Z.to_N (2 ^ 63)%Z). apply Z2N.inj_lt; lia. }
  destruct (bytes_needed_spec_lemma (Z.to_N n) Hlt) as [H1 H2].
  set (k := bytes_needed (Z.to_N n)) in *.
  split.
  - replace n with (Z.of_N (Z.to_N n)) at 1 by lia.
    change 256%Z with (Z.of_N 256). rewrite <- N2Z.inj_pow. lia.
  - intros Hpos. assert (0 < Z.to_N n) by lia. specialize (H2 H).
    assert (1 <= k).
    { destruct (N.eq_dec k 0) as [K|K]; [|lia]. rewrite K in H1. change (256 ^ 0) with 1 in H1. lia. }
    replace (Z.of_N k - 1)%Z with (Z.of_N (k - 1)) by lia.
    change 256%Z with (Z.of_N 256). rewrite <- N2Z.inj_pow. lia.
Qed.

(* impl::Writer::calculateXrefStreamPadding (the space reserved after the first-pass xref stream of a linearized file):
   the translated C++ - long long arithmetic, truncating division, QIntC::to_size - is the model's xref_stream_padding
   for every byte count below 2^62; no intermediate result leaves long long and QIntC::to_size does not throw there *)
Lemma xref_stream_padding_src_lemma : forall x, (0 <= x < 2 ^ 62)%Z ->
  lf_calculateXrefStreamPadding x = Z.of_N (xref_stream_padding (Z.to_N x)).
Proof.
  intros x Hx. unfold lf_calculateXrefStreamPadding, xref_stream_padding.
  assert (H62 : (2 ^ 62 = 4611686018427387904)%Z) by reflexivity. rewrite H62 in Hx.
  rewrite (lf_wrap_s_64_small (x + 16383)) by lia.
  rewrite Z.quot_div_nonneg by lia.
  assert (Hq : (0 <= (x + 16383) / 16384 <= x + 1)%Z).
  { split; [apply Z.div_pos; lia|]. apply Z.div_le_upper_bound; lia. }
  rewrite (lf_wrap_s_64_small ((x + 16383) / 16384)) by lia.
  rewrite (lf_wrap_s_64_small (5 * ((x + 16383) / 16384))) by lia.
  rewrite (lf_wrap_s_64_small (16 + 5 * ((x + 16383) / 16384))) by lia.
  rewrite lf_checked_in by lia.
  rewrite N2Z.inj_add, N2Z.inj_mul, N2Z.inj_div, N2Z.inj_add, Z2N.id by lia. reflexivity.
Qed.
