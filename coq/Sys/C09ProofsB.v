(* C09, fixpoint clause in the plain output mode (qpdf --static-id --object-streams=disable --compress-streams=n
   --decode-level=none), proved at the model level by composing the plain writer model (Obj/WriterModel.v write_doc, tied
   to qpdf byte for byte by C01), the strict reader (File/ReadStrict.v) through C01's write_read_strict, the queue
   invariants (Obj/C01QueueProofs.v) and the numbering fixpoint (Sys/C09Proofs.v). Model: Sys/FixpointModel.v. *)
From QV Require Import Base.Bytes File.StrictSyntax File.ReadStrict Obj.Queue Obj.C01QueueProofs Obj.WriterModel
  Obj.WmPrinters Obj.C01WriterProofs Obj.C01RoundtripProofs Obj.C01FileProofs Sys.EnvModel Sys.C09Proofs Sys.FixpointModel.
From Coq Require Import Lia.
Local Open Scope N_scope.

(* ------------------------------------------------------------------------------------------------
   (5) determinism of the ID in the plain static-id mode: the bytes are a function of the document (and the original
   first /ID element) only - not of the environment (time, output name, random source), nor of the data the
   deterministic-ID digest or the /Info strings would contribute in the other modes. *)
Lemma plain_static_bytes_depend_on_doc_only_lemma : forall md5 md5' e1 e2 orig det1 det2 info1 info2 d,
  fx_plain_write md5 e1 orig det1 info1 d = fx_plain_write md5' e2 orig det2 info2 d.
Proof. reflexivity. Qed.

(* ------------------------------------------------------------------------------------------------
   small list facts *)
Lemma fx_flat_map_single : forall (A B : Type) (F : A -> list B) (G : A -> B) l,
  (forall a, In a l -> F a = [G a]) -> flat_map F l = map G l.
Proof.
  intros A B F G. induction l as [|a l IH]; intros H; [reflexivity|].
  cbn [flat_map map]. rewrite (H a (or_introl eq_refl)). cbn [app]. f_equal.
  apply IH. intros b Hb. apply H. right. exact Hb.
Qed.

Lemma fx_flat_map_map : forall (A B C : Type) (f : A -> B) (F : B -> list C) l,
  flat_map F (map f l) = flat_map (fun a => F (f a)) l.
Proof. intros A B C f F. induction l as [|a l IH]; [reflexivity|]. cbn [map flat_map]. rewrite IH. reflexivity. Qed.

Lemma fx_find_app_skip : forall (A : Type) (p : A -> bool) a b,
  Forall (fun x => p x = false) a -> find p (a ++ b) = find p b.
Proof.
  intros A p a b H. induction H as [|x a Hx _ IH]; [reflexivity|]. cbn [app find]. rewrite Hx. exact IH.
Qed.

Lemma fx_max_ge_acc : forall l m, m <= fold_left (fun m so => N.max m (so_num so)) l m.
Proof.
  induction l as [|a l IH]; intros m; cbn [fold_left]; [lia|].
  specialize (IH (N.max m (so_num a))). lia.
Qed.
Lemma fx_max_ge : forall l m so, In so l -> so_num so <= fold_left (fun m so => N.max m (so_num so)) l m.
Proof.
  induction l as [|a l IH]; intros m so H; [destruct H|]. cbn [fold_left]. destruct H as [H|H].
  - subst a. pose proof (fx_max_ge_acc l (N.max m (so_num so))). lia.
  - apply IH. exact H.
Qed.
Lemma fx_max_le : forall l m B, (forall so, In so l -> so_num so <= B) -> m <= B ->
  fold_left (fun m so => N.max m (so_num so)) l m <= B.
Proof.
  induction l as [|a l IH]; intros m B H Hm; cbn [fold_left]; [exact Hm|].
  apply IH; [intros so Hs; apply H; right; exact Hs|].
  pose proof (H a (or_introl eq_refl)). lia.
Qed.

(* ------------------------------------------------------------------------------------------------
   fx_of_pobj after to_pobj is the renaming fx_rn *)
Lemma fx_of_to_pobj : forall objs ren o, fx_of_pobj (to_pobj objs ren o) = fx_rn objs ren o.
Proof.
  intros objs ren. apply obj_ind'; try reflexivity.
  - intros l IH. rewrite to_pobj_arr. cbn [fx_of_pobj fx_rn]. f_equal. rewrite map_map.
    induction IH as [|x l Hx _ IHl]; [reflexivity|]. cbn [map]. rewrite Hx, IHl. reflexivity.
  - intros d IH. rewrite to_pobj_dict. cbn [fx_of_pobj fx_rn]. f_equal.
    induction IH as [|kv d Hkv _ IHd]; [reflexivity|]. cbn [pdict flat_map].
    destruct (is_null_val objs (snd kv)); [exact IHd|].
    cbn [map app fst snd]. rewrite Hkv, IHd. reflexivity.
Qed.

Lemma fx_of_expected_val : forall d i,
  fx_of_pobj (expected_val d i) = fx_norm_val d i.
Proof.
  intros d i. unfold expected_val, fx_norm_val. change (fx_ren d) with (doc_ren d).
  destruct (i_stream i) as [data|]; [|apply fx_of_to_pobj].
  rewrite <- fx_of_to_pobj.
  destruct (to_pobj (d_objects d) (doc_ren d) (drop_length (i_val i))); try reflexivity.
  cbn [fx_of_pobj]. rewrite map_app. reflexivity.
Qed.

(* ------------------------------------------------------------------------------------------------
   Theorem A: reading the writer model's own output gives fx_norm of the written document *)
Lemma fx_find_unique : forall (l : list sobj) so, NoDup (map so_num l) -> In so l ->
  find (fun o => so_num o =? so_num so) l = Some so.
Proof.
  induction l as [|a l IH]; intros so Hnd Hin; [destruct Hin|].
  cbn [find]. cbn [map] in Hnd. inversion Hnd as [|? ? Hna Hnd']; subst.
  destruct Hin as [Hin|Hin].
  - subst a. rewrite N.eqb_refl. reflexivity.
  - destruct (so_num a =? so_num so) eqn:E.
    + apply N.eqb_eq in E. exfalso. apply Hna. rewrite E. apply in_map. exact Hin.
    + apply IH; assumption.
Qed.

Lemma fx_trailer_norm : forall d,
  ~ In fx_k_ID (map fst (d_trailer d)) ->
  forall l, (forall kv, In kv l -> In kv (d_trailer d)) ->
  fx_trim (map fx_entry
    (flat_map (fun kv => if is_null_val (d_objects d) (snd kv) then []
                         else [(fst kv, if beqb (fst kv) k_Size then SpInt (Z.of_N (w_n d + 1))
                                        else to_pobj (d_objects d) (doc_ren d) (snd kv))]) l))
  = flat_map (fx_norm_entry d) l
  /\ Forall (fun x => beqb (fst x) fx_k_ID = false)
       (map fx_entry
         (flat_map (fun kv => if is_null_val (d_objects d) (snd kv) then []
                              else [(fst kv, if beqb (fst kv) k_Size then SpInt (Z.of_N (w_n d + 1))
                                             else to_pobj (d_objects d) (doc_ren d) (snd kv))]) l)).
Proof.
  intros d Hnoid. induction l as [|kv l IH]; intros Hl; [split; [reflexivity | constructor]|].
  destruct IH as [IH1 IH2]; [intros x Hx; apply Hl; right; exact Hx|].
  cbn [flat_map]. unfold fx_norm_entry at 1.
  destruct (is_null_val (d_objects d) (snd kv)) eqn:En; cbn [orb app]; [split; assumption|].
  cbn [map]. unfold fx_entry at 1 3. cbn [fst snd]. unfold fx_trim in *. cbn [filter fst].
  split.
  - destruct (fx_owned (fst kv)); cbn [negb]; [exact IH1|].
    rewrite IH1. cbn [app]. f_equal. f_equal.
    destruct (beqb (fst kv) k_Size); [reflexivity|]. apply fx_of_to_pobj.
  - constructor; [|exact IH2]. cbn [fst].
    destruct (beqb (fst kv) fx_k_ID) eqn:E; [|reflexivity].
    apply beqb_eq in E. exfalso. apply Hnoid. rewrite <- E. apply in_map. apply Hl. left. reflexivity.
Qed.

Lemma fx_read_write_lemma : forall d, wf_doc d ->
  N.of_nat (length (fx_write d)) < 10 ^ 10 ->
  fx_read (fx_write d) = Some (fx_norm d).
Proof.
  intros d W Hlt. change (fx_write d) with (wm_out d) in *.
  destruct (write_read_strict_lemma d W Hlt) as [f [Hrd [Hver [_ [_ [Htr [Hlen Hobjs]]]]]]].
  unfold fx_read. rewrite Hrd. f_equal.
  pose proof (wfd_closed d W) as Hc.
  set (Wd := written (graph_of d) (roots_of d)) in *.
  set (L := sf_objs f) in *.
  assert (HF1 : map (doc_ren d) Wd = map N.of_nat (seq 1 (length Wd))) by apply (map_f_written _ _ Hc).
  (* every written id has its object in L *)
  assert (Hso : forall id, In id Wd -> exists so i, In so L /\ find_obj (d_objects d) id = Some i
                  /\ sobj_view (wm_out d) so = (doc_ren d id, 0, expected_val d i, i_stream i)).
  { intros id Hin. destruct (written_find_obj d id Hc Hin) as [i Hi].
    destruct (Hobjs id i Hin Hi) as [so [H1 H2]]. exists so, i. repeat split; assumption. }
  assert (Hnum : forall so a b c e, sobj_view (wm_out d) so = (a, b, c, e) -> so_num so = a /\ so_val so = c).
  { intros so a b c e H. unfold sobj_view in H. inversion H. split; reflexivity. }
  assert (Hincl : incl (map (doc_ren d) Wd) (map so_num L)).
  { intros k Hk. apply in_map_iff in Hk. destruct Hk as [id [<- Hin]].
    destruct (Hso id Hin) as [so [i [H1 [_ H3]]]]. apply Hnum in H3. destruct H3 as [H3 _].
    rewrite <- H3. apply in_map. exact H1. }
  assert (Hnd0 : NoDup (map (doc_ren d) Wd)).
  { rewrite HF1. apply NoDup_map_of_nat. apply seq_NoDup. }
  assert (Hnd : NoDup (map so_num L)).
  { apply (NoDup_incl_NoDup Hnd0); [|exact Hincl]. rewrite !map_length. lia. }
  assert (Hincl' : incl (map so_num L) (map (doc_ren d) Wd)).
  { apply (NoDup_length_incl Hnd0); [|exact Hincl]. rewrite !map_length. lia. }
  (* the highest number *)
  assert (Hmax : fx_max_num L = N.of_nat (length Wd)).
  { unfold fx_max_num. apply N.le_antisymm.
    - apply fx_max_le; [|lia]. intros so Hs.
      assert (H : In (so_num so) (map (doc_ren d) Wd)) by (apply Hincl'; apply in_map; exact Hs).
      rewrite HF1 in H. apply in_map_iff in H. destruct H as [j [<- Hj]]. apply in_seq in Hj. lia.
    - destruct (length Wd) as [|n'] eqn:En; [lia|].
      assert (H : In (N.of_nat (S n')) (map so_num L)).
      { apply Hincl. rewrite HF1. apply in_map. apply in_seq. lia. }
      apply in_map_iff in H. destruct H as [so [Hs Hin]]. rewrite <- Hs. apply fx_max_ge. exact Hin. }
  unfold fx_doc_of_file, fx_norm. fold L. fold Wd.
  assert (Hobjs_eq : fx_objects (wm_out d) L = map (fx_norm_obj d) Wd).
  { unfold fx_objects. rewrite Hmax, Nat2N.id, <- HF1, fx_flat_map_map.
    apply fx_flat_map_single. intros id Hin.
    destruct (Hso id Hin) as [so [i [H1 [H2 H3]]]].
    pose proof (Hnum _ _ _ _ _ H3) as [Hn Hv].
    unfold fx_slot. rewrite <- Hn, (fx_find_unique L so Hnd H1).
    unfold fx_norm_obj. change (fx_ren d id) with (doc_ren d id). rewrite Hn, H2.
    f_equal. f_equal. unfold fx_indirect. rewrite Hv, fx_of_expected_val. f_equal.
    unfold sobj_view in H3. inversion H3. reflexivity. }
  rewrite Hobjs_eq, Hver, Htr, expected_trailer_eq. unfold et_entries.
  destruct (wfd_keys_nodup d W) as [_ [Hnoid _]].
  destruct (fx_trailer_norm d Hnoid (d_trailer d) (fun kv H => H)) as [T1 T2].
  rewrite map_app. cbn [map]. unfold fx_entry at 2. cbn [fst snd fx_of_pobj map].
  f_equal.
  - unfold fx_trim. rewrite filter_app. fold (fx_trim (map fx_entry
      (flat_map (fun kv => if is_null_val (d_objects d) (snd kv) then []
                           else [(fst kv, if beqb (fst kv) k_Size then SpInt (Z.of_N (w_n d + 1))
                                          else to_pobj (d_objects d) (doc_ren d) (snd kv))]) (d_trailer d)))).
    rewrite T1. cbn. apply app_nil_r.
  - f_equal. unfold fx_original_id1. rewrite (fx_find_app_skip _ _ _ _ T2). reflexivity.
Qed.
