(* handlers: model of the container-stream data path (Obj/C01Container.v).  I/O only.
   values are written as in h_read.ml: n t f i<int> N<hex> s<hex> r<hex> [a,b] <hexkey:val,...> *)
open Qvmodel
open Runner

let c1c_parse (s : string) : mobj =
  let pos = ref 0 in
  let len = String.length s in
  let peek () = if !pos < len then s.[!pos] else '\000' in
  let hexrun () =
    let st = !pos in
    while !pos < len && (match s.[!pos] with '0'..'9' | 'a'..'f' | 'A'..'F' -> true | _ -> false) do incr pos done;
    let h = String.sub s st (!pos - st) in
    bytes_of_string (unhex (if h = "" then "-" else h)) in
  let rec value () : mobj =
    let c = peek () in
    incr pos;
    match c with
    | 'n' -> MoNull
    | 't' -> MoBool true
    | 'f' -> MoBool false
    | 'i' ->
      let st = !pos in
      while !pos < len && (match s.[!pos] with '0'..'9' | '-' -> true | _ -> false) do incr pos done;
      MoInt (z_of_int (int_of_string (String.sub s st (!pos - st))))
    | 'N' -> MoName (hexrun ())
    | 's' -> MoStr (hexrun ())
    | 'r' -> MoReal (hexrun ())
    | '[' ->
      let items = ref [] in
      if peek () = ']' then incr pos
      else begin
        let continue = ref true in
        while !continue do
          items := value () :: !items;
          if peek () = ',' then incr pos else (incr pos; continue := false)
        done
      end;
      MoArr (List.rev !items)
    | '<' ->
      let items = ref [] in
      if peek () = '>' then incr pos
      else begin
        let continue = ref true in
        while !continue do
          let k = hexrun () in
          incr pos;  (* ':' *)
          let v = value () in
          items := (k, v) :: !items;
          if peek () = ',' then incr pos else (incr pos; continue := false)
        done
      end;
      MoDict (List.rev !items)
    | _ -> failwith "c1c_parse" in
  value ()

let c1c_show (o : c1c_outcome) : string =
  match o with
  | C1cData d -> "data " ^ hexbytes d
  | C1cUnfilterable -> "unfilterable"
  | C1cDecodeError -> "error"
  | C1cThrow -> "throw"
  | C1cOutside -> "outside"

let () =
  register "c1c_get" (fun args ->
      match args with
      | [lv; f; p; raw] -> c1c_show (c1c_run_get (n_of_int (int_of_string lv)) (c1c_parse f) (c1c_parse p) (unhexbytes raw))
      | _ -> "?args");
  register "c1c_objstm" (fun args ->
      match args with
      | [f; p; raw] -> c1c_show (c1c_run_objstm (c1c_parse f) (c1c_parse p) (unhexbytes raw))
      | _ -> "?args");
  register "c1c_xref" (fun args ->
      match args with
      | [f; p; raw] -> c1c_show (c1c_run_xref (c1c_parse f) (c1c_parse p) (unhexbytes raw))
      | _ -> "?args")
