(* C03 - towards rd_reads_writer_output, continued: positions (tell()) through Tokenizer::nextToken and Parser::parse,
   lookups in a parsed dictionary, and readObjectAtOffset on an emitted STREAM object.  Step (4) of the list at the
   end of File/C03ProofsRdW.v. *)
From QV Require Import Base.Bytes Lex.TokModel Lex.LexSpec Lex.TokInterp Lex.LexRun Lex.LexProofs
     Obj.Unparse Obj.UnparseProofs Obj.SynSpec Obj.SynMachine Obj.ParseModel Obj.ParseProofs Obj.ParseSim
     Obj.Queue Obj.C01QueueProofs File.WriterArith Obj.WriterModel Obj.WmPrinters File.C02Proofs Obj.C01WriterProofs Obj.C01FileProofs
     File.XrefModel File.RdModel File.C03ProofsRd File.C03ProofsRdW File.C03ProofsRdW2.
From Coq Require Import Lia.
Local Open Scope N_scope.

(* ------------------------------------------------------------------ positions *)
Lemma rw_nt_loop_pos : forall inp m t off pos t1 rest o np,
  nt_loop m t inp off pos = (t1, rest, o, np) -> rest <> [] -> np + rd_len rest = pos + rd_len inp.
Proof.
  induction inp as [|ch r IH]; intros m t off pos t1 rest o np H Hne.
  - cbn [nt_loop] in H. destruct (ttype_eqb _ _ && _) in H; inversion H; subst; contradiction.
  - cbn [nt_loop] in H. destruct (is_ready (nt_step m t ch)).
    + destruct (tk_unread_flag (nt_step m t ch)); inversion H; subst; unfold rd_len; cbn [length]; lia.
    + specialize (IH _ _ _ _ _ _ _ _ H Hne). unfold rd_len in *. cbn [length]. lia.
Qed.

Lemma rw_next_token_pos : forall m t inp pos t1 rest np last,
  next_token m t inp pos = (t1, rest, np, last) -> rest <> [] -> np + rd_len rest = pos + rd_len inp.
Proof.
  intros m t inp pos t1 rest np last H Hne. unfold next_token in H.
  destruct (nt_loop m _ inp pos pos) as [[[t1' rest'] off'] np'] eqn:E. inversion H; subst.
  exact (rw_nt_loop_pos _ _ _ _ _ _ _ _ _ E Hne).
Qed.

Lemma rw_next_token_len : forall m t inp pos t1 rest np last,
  next_token m t inp pos = (t1, rest, np, last) -> (length rest <= length inp)%nat.
Proof.
  intros m t inp pos t1 rest np last H. unfold next_token in H.
  pose proof (nt_loop_len inp m (match t_state t with TS_inline_image => t | _ => tk_reset t end) pos pos) as L.
  destruct (nt_loop m _ inp pos pos) as [[[t1' rest'] off'] np'] eqn:E. inversion H; subst. exact L.
Qed.

Lemma rw_loop_pos : forall fuel cs sanity p t inp pos,
  let r := remainder_loop fuel cs sanity p t inp pos in
  (length (pr_rest r) <= length inp)%nat /\ (pr_rest r <> [] -> pr_pos r + rd_len (pr_rest r) = pos + rd_len inp).
Proof.
  induction fuel as [|f IH]; intros cs sanity p t inp pos; cbn [remainder_loop].
  - cbn. split; [lia | intros _; reflexivity].
  - destruct (next_token 0 t inp pos) as [[[t1 rest] newpos] last] eqn:En.
    pose proof (rw_next_token_len _ _ _ _ _ _ _ _ En) as L1.
    assert (P1 : rest <> [] -> newpos + rd_len rest = pos + rd_len inp) by (apply (rw_next_token_pos _ _ _ _ _ _ _ _ En)).
    destruct (remainder_step cs sanity (tk_token t1) (tok_warn t1 p)) as [p2|p2 o|p2|p2].
    + destruct (IH cs sanity p2 t1 rest newpos) as [L2 P2]. cbv zeta in *. split; [lia|].
      intros Hne. assert (Hr : rest <> []).
      { intros ->. cbn [length] in L2. destruct (pr_rest (remainder_loop f cs sanity p2 t1 [] newpos)); [contradiction | cbn in L2; lia]. }
      rewrite (P2 Hne). exact (P1 Hr).
    + cbn [pr_rest pr_pos]. split; [exact L1 | exact P1].
    + cbn [pr_rest pr_pos]. split; [exact L1 | exact P1].
    + cbn [pr_rest pr_pos]. split; [exact L1 | exact P1].
Qed.

(* tell() after Parser::parse returned an object: every byte before the rest was consumed *)
Lemma rd_parse_pos_lemma : forall cs sanity t inp pos,
  let r := parse_object cs sanity t inp pos in
  pr_obj r <> None -> pr_rest r <> [] -> pr_pos r + rd_len (pr_rest r) = pos + rd_len inp.
Proof.
  intros cs sanity t inp pos. unfold parse_object.
  destruct (next_token 0 t inp pos) as [[[t1 rest] newpos] last] eqn:En.
  assert (P1 : rest <> [] -> newpos + rd_len rest = pos + rd_len inp) by (apply (rw_next_token_pos _ _ _ _ _ _ _ _ En)).
  pose proof (rw_next_token_len _ _ _ _ _ _ _ _ En) as L1.
  destruct (tok_type (tk_token t1)) eqn:Ety; cbv zeta; cbn [pr_obj pr_rest pr_pos]; try (intros H; contradiction H; reflexivity);
    try (intros _; exact P1).
  - (* array open *) intros _ Hne.
    destruct (rw_loop_pos (length rest + 20) cs sanity (set_stack [mkFrame PF_array [] [] [] 0] (tok_warn t1 pstate0)) t1 rest newpos) as [L2 P2].
    cbv zeta in *. rewrite (P2 Hne). apply P1. intros ->. cbn [length] in L2.
    destruct (pr_rest _); [contradiction | cbn in L2; lia].
  - (* dict open *) intros _ Hne.
    destruct (rw_loop_pos (length rest + 20) cs sanity (set_stack [mkFrame PF_dict_key [] [] [] 0] (tok_warn t1 pstate0)) t1 rest newpos) as [L2 P2].
    cbv zeta in *. rewrite (P2 Hne). apply P1. intros ->. cbn [length] in L2.
    destruct (pr_rest _); [contradiction | cbn in L2; lia].
  - (* integer *) destruct (text_to_ll (tok_value (tk_token t1))); cbn [pr_obj pr_rest pr_pos]; [intros _; exact P1 | intros H; contradiction H; reflexivity].
  - (* word *) destruct cs; cbn [pr_obj pr_rest pr_pos]; [intros _; exact P1|].
    destruct (list_eqb N.eqb (tok_value (tk_token t1)) str_endobj); cbn [pr_obj pr_rest pr_pos]; [intros H; contradiction H; reflexivity | intros _; exact P1].
  - (* eof *) destruct cs; cbn [pr_obj pr_rest pr_pos]; intros H; contradiction H; reflexivity.
Qed.

Lemma rd_tok_pos : forall m inp pos tk rest np last,
  rd_tok m inp pos = (tk, rest, np, last) -> rest <> [] -> np + rd_len rest = pos + rd_len inp.
Proof.
  intros m inp pos tk rest np last H Hne. unfold rd_tok, read_token in H.
  destruct (next_token m rd_tk inp pos) as [[[t1 rest'] np'] last'] eqn:En. inversion H; subst.
  exact (rw_next_token_pos _ _ _ _ _ _ _ _ En Hne).
Qed.

(* ------------------------------------------------------------------ lookups in a parsed dictionary *)
Lemma rw_get_put_same : forall k v d, rd_dict_get k (fst (map_put k v d)) = v.
Proof.
  intros k v. induction d as [|[k2 v2] d IH]; cbn [map_put fst rd_dict_get].
  - unfold rd_beq. assert (E : list_eqb N.eqb k k = true) by (apply list_eqb_N_eq; reflexivity). rewrite E. reflexivity.
  - destruct (list_eqb N.eqb k k2) eqn:E.
    + cbn [fst rd_dict_get]. unfold rd_beq. assert (E' : list_eqb N.eqb k k = true) by (apply list_eqb_N_eq; reflexivity). rewrite E'. reflexivity.
    + destruct (bytes_ltb k k2).
      * cbn [fst rd_dict_get]. unfold rd_beq. assert (E' : list_eqb N.eqb k k = true) by (apply list_eqb_N_eq; reflexivity). rewrite E'. reflexivity.
      * destruct (map_put k v d) as [r ins] eqn:Ep. cbn [fst rd_dict_get] in *. unfold rd_beq. rewrite E. exact IH.
Qed.
Lemma rw_get_put_other : forall k' k v d, list_eqb N.eqb k' k = false -> rd_dict_get k' (fst (map_put k v d)) = rd_dict_get k' d.
Proof.
  intros k' k v. induction d as [|[k2 v2] d IH]; intros Hne; cbn [map_put fst rd_dict_get].
  - unfold rd_beq. rewrite Hne. reflexivity.
  - destruct (list_eqb N.eqb k k2) eqn:E.
    + cbn [fst rd_dict_get]. apply list_eqb_N_eq in E. subst k2. unfold rd_beq. rewrite Hne. reflexivity.
    + destruct (bytes_ltb k k2).
      * cbn [fst rd_dict_get]. unfold rd_beq. rewrite Hne. reflexivity.
      * destruct (map_put k v d) as [r ins] eqn:Ep. cbn [fst rd_dict_get] in *. rewrite (IH Hne). reflexivity.
Qed.

Lemma rw_has_key_in : forall k acc (sv : sobj), has_key k acc = false -> In (k, sv) acc -> False.
Proof.
  intros k acc sv. induction acc as [|[k2 s2] acc IH]; intros H Hin; [destruct Hin|].
  cbn [has_key] in H. apply orb_false_iff in H. destruct H as [H1 H2].
  destruct Hin as [E|Hin]; [|exact (IH H2 Hin)].
  injection E as -> _. assert (list_eqb N.eqb k k = true) by (apply list_eqb_N_eq; reflexivity). congruence.
Qed.

(* a key written once in the dictionary text is found in the parsed dictionary, with the parsed value *)
Lemma rd_dict_lookup_lemma : forall d acc, R_dict d acc -> forall k sv, In (k, sv) acc ->
  exists v, rd_dict_get (47 :: k) d = v /\ R_obj v sv.
Proof.
  induction 1 as [|d acc k0 v0 sv0 HR IH Hv Hk]; intros k sv Hin; [destruct Hin|].
  destruct Hin as [E|Hin].
  - injection E as -> ->. exists v0. split; [apply rw_get_put_same | exact Hv].
  - destruct (IH k sv Hin) as (v & Hg & Hrv). exists v. split; [|exact Hrv].
    rewrite rw_get_put_other; [exact Hg|].
    destruct (list_eqb N.eqb (47 :: k) (47 :: k0)) eqn:E; [|reflexivity].
    apply list_eqb_N_eq in E. injection E as ->. exfalso. exact (rw_has_key_in k0 acc sv Hk Hin).
Qed.

Lemma rw_get_fixrefs : forall known k d,
  rd_dict_get k (map (fun kv : list N * mobj => match kv with (k, v) => (k, rd_fixrefs known v) end) d)
  = rd_fixrefs known (rd_dict_get k d).
Proof.
  intros known k. induction d as [|[k2 v2] d IH]; [reflexivity|].
  cbn [map rd_dict_get]. destruct (rd_beq k k2); [reflexivity | exact IH].
Qed.

(* ------------------------------------------------------------------ the stream dictionary the writer prints *)
Definition rw_stream_dict (o : obj) (len : N) : obj :=
  match drop_length o with
  | ODict d => ODict (d ++ [(k_Length, OInt (Z.of_N len))])
  | other => other
  end.

Lemma rw_dec_Z_N : forall n, dec_of_Z (Z.of_N n) = dec_of_N n.
Proof. intros [|p]; reflexivity. Qed.

Lemma rd_stream_dict_text_lemma : forall objs ren dd len,
  unparse_stream_dict wm_unparse_string wm_unparse_name objs ren (ODict dd) len
  = unparse wm_unparse_string wm_unparse_name objs ren (rw_stream_dict (ODict dd) len).
Proof.
  intros objs ren dd len. unfold unparse_stream_dict, rw_stream_dict. cbn [drop_length].
  set (d' := filter _ dd). cbn [unparse]. rewrite flat_map_app. cbn [flat_map snd fst is_null_val unparse].
  rewrite rw_dec_Z_N, app_nil_r. rewrite <- !app_assoc. reflexivity.
Qed.

(* ------------------------------------------------------------------ readObjectAtOffset on an emitted stream object *)
Lemma rw_rd_at_shift : forall file off A B, rd_at file off = A ++ B -> rd_at file (off + rd_len A) = B.
Proof.
  intros file off A B H. unfold rd_at, rd_len in *. rewrite N2Nat.inj_add, Nat2N.id.
  revert file H. generalize (N.to_nat off). intros n. revert A B. induction n as [|n IH]; intros A B file H.
  - cbn [skipn Nat.add] in *. rewrite H. clear. induction A as [|a A IH]; [reflexivity | exact IH].
  - destruct file as [|c file]; cbn [skipn Nat.add] in *.
    + destruct A; [|discriminate H]. cbn in H. subst B. cbn. destruct (length (@nil N)); reflexivity.
    + apply IH. exact H.
Qed.

Lemma rw_read_stream_core : forall file t resolve og d inp pos inp1 spos w1 n tok rest np last,
  rd_stream_eol inp pos [] = (inp1, spos, w1) ->
  rd_dict_get rd_s_Length d = MoInt (Z.of_N n) ->
  rd_tok 0 (rd_at file (spos + n)) (spos + n) = (tok, rest, np, last) -> rd_is_word tok rd_s_endstream = true ->
  rd_read_stream file t resolve og d inp pos = (mkRdObj (MoDict d) (Some (spos, n)) false, rest, np, w1).
Proof.
  intros file t resolve og d inp pos inp1 spos w1 n tok rest np last He Hd Ht Hw.
  unfold rd_read_stream. rewrite He, Hd. cbv beta iota.
  assert (Hz : (Z.of_N n <? 0)%Z = false) by (apply Z.ltb_ge; lia).
  rewrite Hz, N2Z.id, Ht, Hw. rewrite !app_nil_r. reflexivity.
Qed.

Definition rw_kw_stream : list N := [10; 115; 116; 114; 101; 97; 109; 10].       (* LF stream LF *)

Lemma rd_read_at_emitted_stream_step : forall e resolve objs ren k dd data tail off,
  let o0 := rw_stream_dict (ODict dd) (rd_len data) in
  rd_at (rde_file e) off = obj_header k ++ unparse wm_unparse_string wm_unparse_name objs ren o0
                           ++ rw_kw_stream ++ data ++ rd_s_endstream ++ s_endobj ++ tail ->
  off <> 0 -> 0 < k -> (Z.of_N k <= 2147483647)%Z ->
  (forall id, 0 < ren id) -> rw_wf o0 = true -> rw_nd objs o0 = true ->
  ints_ok (rd_toks objs ren o0) -> refs_ok (rd_toks objs ren o0) = true ->
  opens (rd_toks objs ren o0) <= 500 -> len (rd_toks objs ren o0) < 4294967295 ->
  bytes_ok data -> bytes_ok tail -> (match tail with c :: _ => c_isspace c = false | [] => False end) ->
  exists o' dd' spos,
    rd_read_at e resolve false off (Some (k, 0))
    = RdrObj (Z.of_N k) 0 (mkRdObj (MoDict dd') (Some (spos, rd_len data)) false) [] /\
    rd_fixrefs (rd_known e) o' = MoDict dd' /\ R_obj o' (rd_sy objs ren o0) /\
    rd_stream_raw (rde_file e) (mkRdObj (MoDict dd') (Some (spos, rd_len data)) false) = data.
Proof.
  intros e resolve objs ren k dd data tail off o0 Hat Hoff Hk Hkmax Hren W ND Hi Hr Ho Hl Bd Bt Htail.
  set (Uv := unparse wm_unparse_string wm_unparse_name objs ren o0) in *.
  set (E3 := 10 :: [101; 110; 100; 111; 98; 106] ++ 10 :: tail).                       (* s_endobj ++ tail *)
  set (D2 := data ++ rd_s_endstream ++ E3).
  set (F2 := 10 :: D2).
  set (F := 10 :: [115; 116; 114; 101; 97; 109] ++ F2).
  assert (BE3 : bytes_ok E3) by (unfold E3; cbn [app]; repeat (first [assumption | constructor; [reflexivity|]])).
  assert (BD2 : bytes_ok D2).
  { unfold D2. apply Forall_app. split; [exact Bd|]. apply Forall_app. split; [|exact BE3]. unfold rd_s_endstream. repeat constructor. }
  assert (BF2 : bytes_ok F2) by (unfold F2; constructor; [reflexivity | exact BD2]).
  assert (BF : bytes_ok F) by (unfold F; cbn [app]; repeat (first [assumption | constructor; [reflexivity|]])).
  pose proof (rw_chain_obj objs ren o0 F W BF eq_refl) as Hch. fold Uv in Hch.
  assert (BU : bytes_ok (Uv ++ F)).
  { destruct (rd_toks objs ren o0) as [|t0 ts0] eqn:Et; [exfalso; exact (rd_toks_ne objs ren o0 Et)|]. exact (rw_chain_bytes _ _ _ _ Hch). }
  set (X3 := 10 :: Uv ++ F). set (X2 := 32 :: [111; 98; 106] ++ X3). set (X1 := 32 :: [48] ++ X2).
  assert (B3 : bytes_ok X3) by (unfold X3; constructor; [reflexivity | exact BU]).
  assert (B2 : bytes_ok X2) by (unfold X2; cbn [app]; repeat (first [assumption | constructor; [reflexivity|]])).
  assert (B1 : bytes_ok X1) by (unfold X1; cbn [app]; repeat (first [assumption | constructor; [reflexivity|]])).
  assert (Hat' : rd_at (rde_file e) off = dec_of_N k ++ X1).
  { rewrite Hat. unfold obj_header, s_endobj, rw_kw_stream, X1, X2, X3, F, F2, D2, E3, Uv. rewrite <- !app_assoc. reflexivity. }
  (* header tokens, with positions *)
  destruct (rw_tok_step _ _ _ off (rw_step_N k X1 B1 eq_refl)) as (tk1 & p1 & l1 & T1 & I1).
  assert (S2 : rw_step X1 (PInt 0) X2) by (unfold X1; apply rw_step_sp; apply (rw_step_int 0 X2 B2); reflexivity).
  destruct (rw_tok_step _ _ _ p1 S2) as (tk2 & p2 & l2 & T2 & I2).
  assert (S3 : rw_step X2 (PKeyword [111; 98; 106]) X3).
  { unfold X2. apply rw_step_sp. apply (rw_step_kw [111; 98; 106] (PKeyword [111; 98; 106]) X3); try reflexivity; [discriminate | exact B3]. }
  destruct (rw_tok_step _ _ _ p2 S3) as (tk3 & p3 & l3 & T3 & I3).
  assert (Rk : in_int_range (Z.of_N k) = true) by (unfold in_int_range; apply andb_true_iff; split; apply Z.leb_le; lia).
  destruct (rw_int_tok _ _ I1 Rk) as [J1 V1]. destruct (rw_int_tok _ _ I2 eq_refl) as [J2 V2].
  pose proof (rw_word_tok _ _ I3 rd_s_obj) as W3. change (list_eqb N.eqb [111; 98; 106] rd_s_obj) with true in W3.
  assert (Q1 : p1 + rd_len X1 = off + rd_len (dec_of_N k ++ X1)) by (apply (rd_tok_pos _ _ _ _ _ _ _ T1); discriminate).
  assert (Q2 : p2 + rd_len X2 = p1 + rd_len X1) by (apply (rd_tok_pos _ _ _ _ _ _ _ T2); discriminate).
  assert (Q3 : p3 + rd_len X3 = p2 + rd_len X2) by (apply (rd_tok_pos _ _ _ _ _ _ _ T3); discriminate).
  (* the dictionary *)
  assert (Hch3 : good_chain X3 (rd_toks objs ren o0) F).
  { unfold X3. apply rw_chain_ws; [reflexivity | reflexivity | exact Hch | apply rd_toks_ne]. }
  pose proof (rw_syn_obj objs ren Hren o0 (Datatypes.S (length (rd_toks objs ren o0))) [] ND ltac:(lia) I) as Hs.
  rewrite app_nil_r in Hs.
  assert (Hsy : exists ents, rd_sy objs ren o0 = SyDict (ents ++ [(k_Length, SyInt (Z.of_N (rd_len data)))])).
  { unfold o0, rw_stream_dict. cbn [drop_length rd_sy]. rewrite flat_map_app. cbn [flat_map is_null_val rd_sy]. rewrite app_nil_r. eexists. reflexivity. }
  destruct Hsy as (ents & Hsy).
  destruct (rd_toks objs ren o0) as [|tok0 toks] eqn:Et; [exfalso; exact (rd_toks_ne objs ren o0 Et)|].
  assert (H0 : tok0 = PArrOpen \/ tok0 = PDictOpen).
  { unfold o0, rw_stream_dict in Et. cbn [drop_length rd_toks] in Et. injection Et as <- _. right. reflexivity. }
  assert (Hi' : ints_ok toks) by (unfold ints_ok in *; inversion Hi; assumption).
  pose proof (refs_ok_tail _ _ Hr) as Hr'.
  destruct (parse_complete_container_lemma X3 tok0 toks F _ rd_tk p3 Hch3 H0 Hs Hi' Hr' Ho Hl eq_refl ltac:(discriminate))
    as (o' & P1 & P2 & P3 & P4).
  set (r := parse_object false false rd_tk X3 p3) in *.
  assert (Q4 : pr_pos r + rd_len F = p3 + rd_len X3).
  { rewrite <- P4. apply rd_parse_pos_lemma; [fold r; rewrite P1; discriminate | fold r; rewrite P4; discriminate]. }
  (* o' is a dictionary with /Length *)
  rewrite Hsy in P2. inversion P2 as [| | | | | | |dm acc HRd Eo Hrev|]. subst o'.
  assert (Hin : In (k_Length, SyInt (Z.of_N (rd_len data))) acc).
  { apply in_rev. rewrite Hrev. apply in_or_app. right. left. reflexivity. }
  destruct (rd_dict_lookup_lemma dm acc HRd _ _ Hin) as (v & Hg & Hv). inversion Hv; subst.
  cbn [rd_fixrefs] in *.
  set (dd' := map (fun kv : list N * mobj => match kv with (k0, v0) => (k0, rd_fixrefs (rd_known e) v0) end) dm).
  assert (Hlen : rd_dict_get rd_s_Length dd' = MoInt (Z.of_N (rd_len data))).
  { unfold dd'. rewrite rw_get_fixrefs. change rd_s_Length with (47 :: k_Length). rewrite <- H. reflexivity. }
  (* the stream keyword *)
  assert (S4 : rw_step F (PKeyword [115; 116; 114; 101; 97; 109]) F2).
  { unfold F. apply rw_step_ws; [reflexivity | reflexivity|].
    apply (rw_step_kw [115; 116; 114; 101; 97; 109] (PKeyword [115; 116; 114; 101; 97; 109]) F2); try reflexivity; [discriminate | exact BF2]. }
  destruct (rw_tok_step _ _ _ (pr_pos r) S4) as (tk4 & p4 & l4 & T4 & I4).
  pose proof (rw_word_tok _ _ I4 rd_s_stream) as W4. change (list_eqb N.eqb [115; 116; 114; 101; 97; 109] rd_s_stream) with true in W4.
  assert (Q5 : p4 + rd_len F2 = pr_pos r + rd_len F) by (apply (rd_tok_pos _ _ _ _ _ _ _ T4); discriminate).
  (* where the data is *)
  set (A := dec_of_N k ++ 32 :: [48] ++ 32 :: [111; 98; 106] ++ 10 :: Uv ++ 10 :: [115; 116; 114; 101; 97; 109] ++ [10]).
  assert (HatA : rd_at (rde_file e) off = A ++ D2).
  { rewrite Hat'. unfold A, X1, X2, X3, F, F2. rewrite <- !app_assoc. cbn [app]. rewrite <- !app_assoc. reflexivity. }
  assert (Hspos : p4 + 1 = off + rd_len A).
  { assert (L : rd_len (dec_of_N k ++ X1) = rd_len A + rd_len D2) by (rewrite <- rd_len_app, <- HatA, <- Hat'; reflexivity).
    assert (L2 : rd_len F2 = 1 + rd_len D2) by (unfold F2, rd_len; cbn [length]; lia). lia. }
  pose proof (rw_rd_at_shift _ _ _ _ HatA) as HD2. rewrite <- Hspos in HD2.
  assert (HE : rd_at (rde_file e) (p4 + 1 + rd_len data) = rd_s_endstream ++ E3).
  { apply (rw_rd_at_shift _ _ data (rd_s_endstream ++ E3)). exact HD2. }
  assert (S5 : rw_step (rd_s_endstream ++ E3) (PKeyword rd_s_endstream) E3).
  { apply (rw_step_kw rd_s_endstream (PKeyword rd_s_endstream) E3); try reflexivity; [discriminate | exact BE3]. }
  destruct (rw_tok_step _ _ _ (p4 + 1 + rd_len data) S5) as (tk5 & p5 & l5 & T5 & I5).
  pose proof (rw_word_tok _ _ I5 rd_s_endstream) as W5. change (list_eqb N.eqb rd_s_endstream rd_s_endstream) with true in W5.
  rewrite <- HE in T5.
  assert (Hrs : rd_read_stream (rde_file e) (rde_tbl e) resolve (Z.of_N k, 0%Z) dd' F2 p4
                = (mkRdObj (MoDict dd') (Some (p4 + 1, rd_len data)) false, E3, p5, [])).
  { apply (rw_read_stream_core _ _ _ _ _ F2 p4 D2 (p4 + 1) [] (rd_len data) tk5 E3 p5 l5); [reflexivity | exact Hlen | exact T5 | exact W5]. }
  (* endobj *)
  assert (S6 : rw_step E3 (PKeyword [101; 110; 100; 111; 98; 106]) (10 :: tail)).
  { unfold E3. apply rw_step_ws; [reflexivity | reflexivity|].
    apply (rw_step_kw [101; 110; 100; 111; 98; 106] (PKeyword [101; 110; 100; 111; 98; 106]) (10 :: tail)); try reflexivity;
      [discriminate | constructor; [reflexivity | exact Bt]]. }
  destruct (rw_tok_step _ _ _ p5 S6) as (tk6 & p6 & l6 & T6 & I6).
  pose proof (rw_word_tok _ _ I6 rd_s_endobj) as W6. change (list_eqb N.eqb [101; 110; 100; 111; 98; 106] rd_s_endobj) with true in W6.
  assert (Hsk : rd_skip_cspace (10 :: tail) = true).
  { cbn [rd_skip_cspace]. change (c_isspace 10) with true. cbv iota. destruct tail as [|c r']; [contradiction|].
    cbn [rd_skip_cspace]. rewrite Htail. reflexivity. }
  exists (MoDict dm), dd', (p4 + 1). split; [|split; [reflexivity | split]].
  - unfold rd_read_at. assert (Eoff : (off =? 0) = false) by (apply N.eqb_neq; exact Hoff). rewrite Eoff. cbn [andb].
    unfold rd_object_start. rewrite Hat', T1. cbv beta iota. rewrite J1. cbn [negb]. rewrite T2. cbv beta iota. rewrite J2. cbn [negb].
    rewrite T3. cbv beta iota. rewrite W3. cbn [negb]. rewrite V1, V2.
    assert (Ek : (Z.of_N k =? 0)%Z = false) by (apply Z.eqb_neq; lia). rewrite Ek.
    rewrite Z.eqb_refl. change ((0 =? Z.of_N 0)%Z) with true. cbn [andb negb].
    unfold rd_read_object. fold r. rewrite P1, P3, P4. cbn [map rd_fixrefs]. fold dd'.
    rewrite T4. rewrite W4. rewrite Hrs. rewrite T6. rewrite W6. cbn [app]. rewrite Hsk. reflexivity.
  - rewrite Hsy, <- Hrev. constructor. exact HRd.
  - unfold rd_stream_raw. cbn [rdo_stream]. rewrite HD2. unfold D2. apply rd_firstn_app.
Qed.
