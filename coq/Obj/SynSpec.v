(* Object syntax of ISO 32000-1:2008 7.3.6 (arrays), 7.3.7 (dictionaries), 7.3.10 (indirect references),
   on top of the lexical specification Lex/LexSpec.v: an executable specification parser from the token
   list to a syntax tree.  Written from the standard; nothing here refers to qpdf's parser.
   Not specified = None: a keyword other than R in object position, an unbalanced bracket, a dictionary
   key that is not a name, a dictionary with an odd number of items or with a repeated key ("multiple
   entries in the same dictionary shall not have the same key"), a reference whose object number is not
   positive or whose generation number is negative. *)
From QV Require Import Base.Bytes Lex.LexSpec.
Local Open Scope N_scope.

Inductive sobj :=
| SyNull
| SyBool (b : bool)
| SyInt (z : Z)
| SyReal (mant : Z) (scale : N)
| SyStr (s : list N)
| SyName (n : list N)
| SyArr (items : list sobj)
| SyDict (entries : list (list N * sobj))     (* in the order written *)
| SyRef (id gen : Z).

Definition kw_R : list N := [82].

Fixpoint has_key (k : list N) (d : list (list N * sobj)) : bool :=
  match d with
  | [] => false
  | (k', _) :: r => list_eqb N.eqb k k' || has_key k r
  end.

(* one object starting at the head of toks; fuel bounds the number of tokens consumed *)
Fixpoint syn_obj (fuel : nat) (toks : list ptoken) : option (sobj * list ptoken) :=
  match fuel with
  | O => None
  | S f =>
      match toks with
      | [] => None
      | PInt n :: PInt g :: PKeyword w :: rest =>
          if list_eqb N.eqb w kw_R then
            if (0 <? n)%Z && (0 <=? g)%Z then Some (SyRef n g, rest) else None
          else Some (SyInt n, PInt g :: PKeyword w :: rest)
      | PInt n :: rest => Some (SyInt n, rest)
      | PReal m k :: rest => Some (SyReal m k, rest)
      | PStr s :: rest => Some (SyStr s, rest)
      | PName n :: rest => Some (SyName n, rest)
      | PBool b :: rest => Some (SyBool b, rest)
      | PNull :: rest => Some (SyNull, rest)
      | PArrOpen :: rest =>
          (fix items (g : nat) (ts : list ptoken) (acc : list sobj) {struct g} : option (sobj * list ptoken) :=
             match g with
             | O => None
             | S g' =>
                 match ts with
                 | PArrClose :: rest' => Some (SyArr (rev' acc), rest')
                 | _ => match syn_obj f ts with
                        | Some (o, ts') => items g' ts' (o :: acc)
                        | None => None
                        end
                 end
             end) fuel rest []
      | PDictOpen :: rest =>
          (fix entries (g : nat) (ts : list ptoken) (acc : list (list N * sobj)) {struct g} : option (sobj * list ptoken) :=
             match g with
             | O => None
             | S g' =>
                 match ts with
                 | PDictClose :: rest' => Some (SyDict (rev' acc), rest')
                 | PName k :: ts1 =>
                     if has_key k acc then None
                     else match syn_obj f ts1 with
                          | Some (o, ts') => entries g' ts' ((k, o) :: acc)
                          | None => None
                          end
                 | _ => None
                 end
             end) fuel rest []
      | _ => None
      end
  end.

(* the text of exactly one object (with any white space and comments around it) *)
Definition syn_spec (inp : list N) : option sobj :=
  match lex_spec inp with
  | None => None
  | Some toks =>
      match syn_obj (S (length toks)) toks with
      | Some (o, []) => Some o
      | _ => None
      end
  end.

(* 7.3.7: "A dictionary entry whose value is null shall be treated the same as if the entry does not
   exist"; entries are unordered.  Canonical form: null-valued entries dropped, keys sorted bytewise. *)
Fixpoint bytes_leb (a b : list N) : bool :=
  match a, b with
  | [], _ => true
  | _ :: _, [] => false
  | x :: a', y :: b' => if x <? y then true else if y <? x then false else bytes_leb a' b'
  end.

Fixpoint insert_entry (e : list N * sobj) (d : list (list N * sobj)) : list (list N * sobj) :=
  match d with
  | [] => [e]
  | e' :: r => if bytes_leb (fst e) (fst e') then e :: d else e' :: insert_entry e r
  end.

Definition is_null (o : sobj) : bool := match o with SyNull => true | _ => false end.

Fixpoint syn_canon (o : sobj) : sobj :=
  match o with
  | SyArr items => SyArr (map syn_canon items)
  | SyDict entries =>
      SyDict (fold_right (fun e acc => let v := syn_canon (snd e) in
                                       if is_null v then acc else insert_entry (fst e, v) acc) [] entries)
  | _ => o
  end.
