(* Which leaves of the output QPDFWriter encrypts: model of the flag discipline of
   impl::Writer::unparseObject (ot_string branch: encryption && !(flags & f_in_ostream) &&
   !(flags & f_no_encryption) && !cur_data_key.empty()), write_encrypted (encryption &&
   !cur_data_key.empty()), and of where cur_data_key is set and cleared (writeObject: setDataKey /
   clear around a top-level object; writeObjectStream: the contained objects are unparsed with
   f_in_ostream before setDataKey(new_stream_id); writeTrailer and writeEncryptionDictionary run
   with the key cleared; writeTrailer always clears it (ee8e608b); for the cleartext metadata
   stream the key is cleared AFTER its dictionary has been unparsed and before the data (5a982a7f); signature /Contents gets f_no_encryption), per class of enc_leaf; and the
   specification: what ISO 32000 (7.6.2 "General", EncryptMetadata, 12.8.1 /Contents) says must
   be encrypted. *)
From QV Require Import Base.Bytes.

Inductive enc_leaf :=
| LfString              (* string in an ordinary top-level indirect object *)
| LfStreamDictString    (* string in the dictionary of an ordinary stream *)
| LfStringInObjStm      (* string of an object stored in an object stream *)
| LfSigContents         (* /Contents of a /Type /Sig dictionary that has /ByteRange *)
| LfEncDictString       (* /O /U /OE /UE /Perms *)
| LfTrailerString       (* direct strings of the trailer: /ID *)
| LfMetaDictString      (* string in the dictionary of the catalog's /Metadata stream *)
| LfStreamData          (* data of an ordinary stream *)
| LfObjStmData          (* data of an object stream *)
| LfHintStreamData      (* linearization hint stream *)
| LfMetaStreamData      (* data of the catalog's /Metadata stream *)
| LfXRefStreamData.     (* cross-reference stream *)

Definition enc_all_leaves : list enc_leaf :=
  [LfString; LfStreamDictString; LfStringInObjStm; LfSigContents; LfEncDictString; LfTrailerString;
   LfMetaDictString; LfStreamData; LfObjStmData; LfHintStreamData; LfMetaStreamData; LfXRefStreamData].

Record wflags := { wf_in_ostream : bool; wf_no_encryption : bool; wf_key_set : bool }.

(* the state unparseObject / write_encrypted see when they reach a enc_leaf of that class *)
Definition leaf_flags (encrypt_metadata : bool) (l : enc_leaf) : wflags :=
  match l with
  | LfString | LfStreamDictString => {| wf_in_ostream := false; wf_no_encryption := false; wf_key_set := true |}
  | LfStringInObjStm => {| wf_in_ostream := true; wf_no_encryption := false; wf_key_set := false |}
  | LfSigContents => {| wf_in_ostream := false; wf_no_encryption := true; wf_key_set := true |}
  | LfEncDictString | LfTrailerString => {| wf_in_ostream := false; wf_no_encryption := false; wf_key_set := false |}
  | LfMetaDictString =>       (* the key is cleared only after the dictionary has been unparsed (fix 5a982a7f) *)
      {| wf_in_ostream := false; wf_no_encryption := false; wf_key_set := true |}
  | LfMetaStreamData =>
      {| wf_in_ostream := false; wf_no_encryption := false; wf_key_set := encrypt_metadata |}
  | LfStreamData | LfObjStmData | LfHintStreamData =>
      {| wf_in_ostream := false; wf_no_encryption := false; wf_key_set := true |}
  | LfXRefStreamData => {| wf_in_ostream := false; wf_no_encryption := false; wf_key_set := false |}
  end.

Definition leaf_is_string (l : enc_leaf) : bool :=
  match l with
  | LfString | LfStreamDictString | LfStringInObjStm | LfSigContents | LfEncDictString | LfTrailerString
  | LfMetaDictString => true
  | _ => false
  end.

(* what the writer does (an encryption is configured) *)
Definition writer_encrypts (encrypt_metadata : bool) (l : enc_leaf) : bool :=
  let f := leaf_flags encrypt_metadata l in
  if leaf_is_string l then negb (wf_in_ostream f) && negb (wf_no_encryption f) && wf_key_set f
  else wf_key_set f.

(* what the standard requires: every string and stream, except the listed ones; a string inside an
   object stream is protected by the encryption of the enclosing stream *)
Definition iso_requires_encrypted (encrypt_metadata : bool) (l : enc_leaf) : bool :=
  match l with
  | LfStringInObjStm | LfSigContents | LfEncDictString | LfTrailerString | LfXRefStreamData => false
  | LfMetaStreamData => encrypt_metadata
  | _ => true
  end.
