# serialise a pdfgen.Doc for the extracted writer model (runner command write_docf) and compare with qpdf
import os
import common, pdfgen, dociso
from pdfgen import Name, Ref, Str, Real, Stream


def tok(v):
    if v is None:
        return "n"
    if v is True:
        return "t"
    if v is False:
        return "f"
    if isinstance(v, int):
        return "i%d" % v
    if isinstance(v, Real):
        return "r" + v.s.encode("latin-1").hex()
    if isinstance(v, Str):
        return "s" + v.b.hex()
    if isinstance(v, Name):
        return "N" + v.b.hex()
    if isinstance(v, Ref):
        return "R%d" % v.n
    if isinstance(v, list):
        return " ".join(["a%d" % len(v)] + [tok(x) for x in v])
    if isinstance(v, dict):
        items = sorted(v.items())
        return " ".join(["d%d" % len(items)] + ["k" + k.hex() + " " + tok(x) for k, x in items])
    raise TypeError(v)


def describe(doc, path, id1, id2=bytes.fromhex("31415926535897932384626433832795")):
    lines = ["version " + doc.version.hex(), "id1 " + (id1 or id2).hex(), "id2 " + id2.hex()]
    tr = {k: v for k, v in doc.trailer.items() if k not in dociso.TRAILER_OWNED}
    tr[b"Size"] = 0
    lines.append("trailer " + tok(tr))
    for n in sorted(doc.objects):
        o = doc.objects[n]
        if isinstance(o, Stream):
            lines.append("stream %d %s %s" % (n, o.data.hex() or "-", tok(o.d)))
        else:
            lines.append("obj %d %s" % (n, tok(o)))
    open(path, "w").write("\n".join(lines) + "\n")
