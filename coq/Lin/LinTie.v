(* Glue for the correspondence run (neither model nor specification): the semantic content of the
   hint tables found in a real file (objects per page, page lengths, shared identifiers, group
   lengths, first objects and offsets) is given to the MODEL of qpdf's encoder, whose bytes must be
   the bytes of the real hint stream. *)
From QV Require Import Base.Bytes Lin.HintTypes Lin.BitIO Lin.Hints Lin.AnnexF.
Local Open Scope N_scope.

Definition lin_model_hint (r : af_report) : option (list N * N * N) :=
  match ar_tables r with
  | None => None
  | Some (hp, hs, hg) =>
      let pages := map (fun e => {| cpg_nobjects := hp_min_nobjects hp + pe_nobjects_delta e;
                                    cpg_length := hp_min_length hp + pe_length_delta e;
                                    cpg_shared := pe_identifiers e |}) (hp_entries hp) in
      let lens := map (fun e => hs_min_length hs + se_length_delta e) (hs_entries hs) in
      let ho := match hg with Some g => g | None => {| hg_first_obj := 0; hg_first_offset := 0; hg_nobjects := 0; hg_length := 0 |} end in
      lh_encode pages (hp_first_page_offset hp) lens (hs_nfirst hs) (hs_first_obj hs) (hs_first_offset hs) ho
  end.

Definition lin_run_ops (ops : list bitop) : option (list N) :=
  match bs_run ops bs_init with Some s => Some (bs_bytes s) | None => None end.

(* ---- classification tie: users of every object of a real output (found with the specification's
   reachability functions) -> MODEL of calculateLinearizationData's classification -> part, compared with
   the part the object is physically in. Returns (object, model part, observed part) for every difference;
   model part 0 = an object without any user. ---- *)
From QV Require Import File.StrictSyntax File.ReadStrict Lin.Parts.

Definition lt_flag (b : bool) (u : ouser) : list ouser := if b then [u] else [].

(* users of an object (container) of a real output: (users_of, outlines_in_first_page) *)
Definition lt_users (sf : sfile) (pages : list N) (fuel : nat) : (N -> list ouser) * bool :=
      let objs := sf_objs sf in
      let cont := fun l => af_dedup (map (af_container objs) l) in
      let root := match dict_get (sf_trailer sf) n_Root with Some (SpRef x _) => x | _ => 0 end in
      let catd := match af_find objs root with Some c => match so_val c with SpDict d => d | _ => [] end | None => [] end in
      let thumb_raw := map (fun p => match af_find objs p with
                                      | Some o => match so_val o with
                                                  | SpDict d => match dict_get d afn_Thumb with
                                                               | Some v => af_closure fuel objs (af_refs v) []
                                                               | None => []
                                                               end
                                                  | _ => []
                                                  end
                                      | None => [] end) pages in
      (* updateObjectMaps uses ONE visited set per page for the page and its thumbnail, and the /Thumb entry is popped before the
         entries that sort before it: what the thumbnail reaches is attributed to the thumbnail only and is not entered again *)
      let page_sets := map (fun pt => match af_find objs (fst pt) with
                                      | Some o => cont (filter (fun n => negb (af_mem n (snd pt)))
                                                          (af_closure fuel objs (af_refs_skip [afn_Parent; afn_Thumb] (so_val o)) (fst pt :: snd pt)))
                                      | None => [fst pt] end) (combine pages thumb_raw) in
      let thumb_sets := map (fun p => match af_find objs p with
                                      | Some o => match so_val o with
                                                  | SpDict d => match dict_get d afn_Thumb with
                                                               | Some v => cont (af_closure fuel objs (af_refs v) [])
                                                               | None => []
                                                               end
                                                  | _ => []
                                                  end
                                      | None => [] end) pages in
      (* updateObjectMaps starts at the key's value as "top": a value that is itself a page object (a page that is not in
         the page tree) is entered like a page *)
      let top_closure := fun v =>
        match v with
        | SpRef n _ => match af_find objs n with
                      | Some o => if af_has_type afn_Page (so_val o)
                                  then af_closure fuel objs (af_refs_skip [afn_Parent; afn_Thumb] (so_val o)) [n]
                                  else af_closure fuel objs (af_refs v) []
                      | None => []
                      end
        | _ => af_closure fuel objs (af_refs v) []
        end in
      let root_sets := map (fun kv => (fst kv, match snd kv with SpNull => [] | v => cont (top_closure v) end)) catd in
      let trailer_sets := flat_map (fun kv => if beq (fst kv) n_Root then [] else
                                              match snd kv with SpNull => [] | v => [(fst kv, cont (top_closure v))] end)
                                   (sf_trailer sf) in
      let use_outl := match dict_get catd afn_PageMode, dict_get catd afn_Outlines with
                      | Some (SpName m), Some _ => beq m afn_UseOutlines
                      | _, _ => false end in
      let indexed := fun (sets : list (list N)) => combine (map N.of_nat (seq 0 (length sets))) sets in
      let users_of := fun c =>
        lt_flag (c =? root) OuRoot ++
        flat_map (fun x => lt_flag (af_mem c (snd x)) (OuPage (fst x))) (indexed page_sets) ++
        flat_map (fun x => lt_flag (af_mem c (snd x)) (OuThumb (fst x))) (indexed thumb_sets) ++
        flat_map (fun x => lt_flag (af_mem c (snd x)) (OuRootKey (fst x))) root_sets ++
        flat_map (fun x => lt_flag (af_mem c (snd x)) (OuTrailerKey (fst x))) trailer_sets in
      (users_of, use_outl).

Definition lin_parts_tie (file : list N) : option (list (N * N * N) * N) :=
  let r := lin_check file in
  match read_strict file, ar_tables r, ar_params r with
  | RsOk sf, Some (hp, hs, _), [L; h0; h1; pO; E; Np; T] =>
      let objs := sf_objs sf in
      let '(users_of, use_outl) := lt_users sf (ar_pages r) (length file) in
      (* regions of the file *)
      let lens := map (fun e => hp_min_length hp + pe_length_delta e) (hp_entries hp) in
      let end7 := E + af_sum (tl lens) in
      let shared_later := skipn (N.to_nat (hs_nfirst hs)) (hs_entries hs) in
      let end8 := end7 + af_sum (map (fun e => hs_min_length hs + se_length_delta e) shared_later) in
      let observed := fun off => if off <? h0 then 4 else if off <? E then 6 else if off <? end7 then 7 else if off <? end8 then 8 else 9 in
      let diffs := flat_map (fun o =>
          match af_off o with
          | None => []
          | Some off =>
              if (off =? h0) || af_has_type n_XRef (so_val o) || (match so_val o with SpDict d => match dict_get d afn_Linearized with Some _ => true | None => false end | _ => false end)
              then [] else
              let us := users_of (so_num o) in
              let mp := match us with [] => 0 | _ => lc_part use_outl (lc_classify us) end in
              if mp =? observed off then [] else [(so_num o, mp, observed off)]
          end) objs in
      Some (diffs, N.of_nat (length objs))
  | _, _, _ => None
  end.

(* ---- shared-identifier tie: the object-to-users map of a real output (uncompressed objects in ascending object number =
   the order in which the writer numbered the parts) -> MODEL of the last loop of calculateLinearizationData
   (Lin/SharedIds.v) -> per page the identifiers, compared as sorted lists with the identifiers decoded from the file's
   page offset hint table (the C++ pushes them in the order of the INPUT's object numbers, which the output does not
   show). Returns (page index, model identifiers, file identifiers) for every page that differs. ---- *)
From QV Require Import Lin.SharedIds.

Fixpoint lt_insert (x : N) (l : list N) : list N :=
  match l with [] => [x] | y :: t => if x <=? y then x :: l else y :: lt_insert x t end.
Definition lt_sort (l : list N) : list N := fold_left (fun acc x => lt_insert x acc) l [].

Definition lin_shared_tie (file : list N) : option (list (N * list N * list N) * N) :=
  let r := lin_check file in
  match read_strict file, ar_tables r with
  | RsOk sf, Some (hp, hs, _) =>
      let objs := sf_objs sf in
      let '(users_of, use_outl) := lt_users sf (ar_pages r) (length file) in
      let nums := lt_sort (flat_map (fun o => match af_off o with Some _ => [so_num o] | None => [] end) objs) in
      let um := flat_map (fun n => match users_of n with [] => [] | us => [(n, us)] end) nums in
      let model := lsi_all_ids use_outl um (length (ar_pages r)) in
      let found := map (fun e => pe_identifiers e) (hp_entries hp) in
      let diffs := flat_map (fun x => match x with (i, (m, f)) => if list_eqb N.eqb (lt_sort m) (lt_sort f) then [] else [(i, lt_sort m, lt_sort f)] end)
                            (combine (map N.of_nat (seq 0 (length model))) (combine model found)) in
      Some (diffs, N.of_nat (length model))
  | _, _ => None
  end.
