(* Proofs for C03 (file structure): qpdf's way of combining cross-reference sections against the ISO lookup
   rule. Statements are fixed. *)
From QV Require Import Base.Bytes File.XrefModel.
From Coq Require Import Lia.
Local Open Scope N_scope.

(* ---- helpers: the chain flattened into one entry list; the state seen from one object number ---- *)
Definition x3_flat (s : c3_section) : list (N * c3_xe) :=
  if c3_is_table s then
    filter (fun oe => negb (c3_is_free oe)) (c3_table s) ++ c3_stm s ++ filter c3_is_free (c3_table s)
  else c3_table s ++ c3_stm s.

Lemma x3_read_section_flat : forall max st s,
  c3_read_section max st s = fold_left (c3_entry max) (x3_flat s) st.
Proof.
  intros. unfold c3_read_section, x3_flat. destruct (c3_is_table s); repeat rewrite fold_left_app; reflexivity.
Qed.

Lemma x3_chain_flat : forall max chain st,
  fold_left (c3_read_section max) chain st = fold_left (c3_entry max) (flat_map x3_flat chain) st.
Proof.
  induction chain as [|a chain IH]; intros st; cbn [fold_left flat_map]; [reflexivity|].
  rewrite fold_left_app, x3_read_section_flat. apply IH.
Qed.

Definition x3_ents (st : c3_state) (obj : N) : list (N * N * c3_xe) :=
  filter (fun e : N * N * c3_xe => fst (fst e) =? obj) (c3_tbl st).

Definition x3_step (obj : N) (acc : option (N * c3_xe)) (e : N * N * c3_xe) : option (N * c3_xe) :=
  if fst (fst e) =? obj then
    match acc with
    | Some (g, _) => if g <? snd (fst e) then Some (snd (fst e), snd e) else acc
    | None => Some (snd (fst e), snd e)
    end
  else acc.

Lemma x3_best_filter : forall obj tbl acc,
  fold_left (x3_step obj) tbl acc
  = fold_left (x3_step obj) (filter (fun e : N * N * c3_xe => fst (fst e) =? obj) tbl) acc.
Proof.
  induction tbl as [|a t IH]; intros acc; cbn [fold_left filter]; [reflexivity|].
  destruct (fst (fst a) =? obj) eqn:E.
  - cbn [fold_left]. apply IH.
  - assert (Hs : x3_step obj acc a = acc) by (unfold x3_step; rewrite E; reflexivity).
    rewrite Hs. apply IH.
Qed.

Lemma x3_best_step : forall tbl obj, c3_best tbl obj = fold_left (x3_step obj) tbl None.
Proof. reflexivity. Qed.

Lemma x3_best_nil : forall st obj, x3_ents st obj = [] -> c3_best (c3_tbl st) obj = None.
Proof.
  intros st obj H. rewrite x3_best_step, x3_best_filter. unfold x3_ents in H. rewrite H. reflexivity.
Qed.

Lemma x3_best_one : forall st obj g e, x3_ents st obj = [(obj, g, e)] -> c3_best (c3_tbl st) obj = Some (g, e).
Proof.
  intros st obj g e H. rewrite x3_best_step, x3_best_filter. unfold x3_ents in H. rewrite H.
  cbn [fold_left]. unfold x3_step. cbn [fst snd]. rewrite N.eqb_refl. reflexivity.
Qed.

Lemma x3_has_ents : forall st obj g,
  c3_has st obj g = existsb (fun e : N * N * c3_xe => snd (fst e) =? g) (x3_ents st obj).
Proof.
  intros st obj g. unfold c3_has, x3_ents. induction (c3_tbl st) as [|a t IH]; cbn [existsb filter]; [reflexivity|].
  destruct (fst (fst a) =? obj) eqn:E; cbn [existsb andb orb]; rewrite IH; reflexivity.
Qed.

Definition x3_clean (st : c3_state) (obj : N) : Prop := x3_ents st obj = [] /\ c3_is_deleted st obj = false.
Definition x3_dead (st : c3_state) (obj : N) : Prop := x3_ents st obj = [] /\ c3_is_deleted st obj = true.

(* entries for other objects do not touch what is known about obj *)
Lemma x3_frame : forall max st oe obj, fst oe <> obj ->
  x3_ents (c3_entry max st oe) obj = x3_ents st obj
  /\ c3_is_deleted (c3_entry max st oe) obj = c3_is_deleted st obj.
Proof.
  intros max st [k e] obj Hne. cbn [fst] in Hne. unfold c3_entry. cbn [fst snd].
  assert (Hko : (k =? obj) = false) by (apply N.eqb_neq; exact Hne).
  assert (Hok : (obj =? k) = false) by (apply N.eqb_neq; intro Hx; apply Hne; symmetry; exact Hx).
  destruct e as [g|off g|stm idx].
  - unfold c3_insert_free. destruct (negb (c3_has st k g) && (k <=? max)); [|split; reflexivity].
    split; [reflexivity|]. unfold c3_is_deleted. cbn [c3_deleted existsb]. rewrite Hok. reflexivity.
  - unfold c3_insert_use.
    destruct (negb ((0 <? k) && (k <=? max) && (g <? 65535))); [split; reflexivity|].
    destruct (c3_is_deleted st k); [split; reflexivity|].
    destruct (c3_has st k g); [split; reflexivity|].
    unfold x3_ents, c3_is_deleted. cbn [c3_tbl c3_deleted]. rewrite filter_app. cbn [filter fst].
    rewrite Hko, app_nil_r. split; reflexivity.
  - unfold c3_insert_use.
    destruct (negb ((0 <? k) && (k <=? max))); [split; reflexivity|].
    destruct (c3_is_deleted st k); [split; reflexivity|].
    destruct (stm =? k); [split; reflexivity|].
    destruct (max <? stm); [split; reflexivity|].
    destruct (c3_has st k 0); [split; reflexivity|].
    unfold x3_ents, c3_is_deleted. cbn [c3_tbl c3_deleted]. rewrite filter_app. cbn [filter fst].
    rewrite Hko, app_nil_r. split; reflexivity.
Qed.

(* deleted with no entry stays so *)
Lemma x3_dead_entry : forall max st oe obj, x3_dead st obj -> x3_dead (c3_entry max st oe) obj.
Proof.
  intros max st oe obj [He Hd]. destruct (N.eq_dec (fst oe) obj) as [Heq|Hne].
  - destruct oe as [k e]. cbn [fst] in Heq. subst k. unfold c3_entry. cbn [fst snd].
    destruct e as [g|off g|stm idx].
    + unfold c3_insert_free. destruct (negb (c3_has st obj g) && (obj <=? max)); [|split; assumption].
      split; [exact He|]. unfold c3_is_deleted. cbn [c3_deleted existsb]. rewrite N.eqb_refl. reflexivity.
    + unfold c3_insert_use. destruct (negb ((0 <? obj) && (obj <=? max) && (g <? 65535))); [split; assumption|].
      rewrite Hd. split; assumption.
    + unfold c3_insert_use. destruct (negb ((0 <? obj) && (obj <=? max))); [split; assumption|].
      rewrite Hd. split; assumption.
  - destruct (x3_frame max st oe obj Hne) as [F1 F2]. unfold x3_dead. rewrite F1, F2. split; assumption.
Qed.

Lemma x3_dead_fold : forall max L st obj, x3_dead st obj -> x3_dead (fold_left (c3_entry max) L st) obj.
Proof.
  induction L as [|a L IH]; intros st obj H; cbn [fold_left]; [exact H|].
  apply IH. apply x3_dead_entry. exact H.
Qed.

(* a single entry of generation g refuses later entries that are compatible with it *)
Definition x3_compat (obj g : N) (oe : N * c3_xe) : Prop :=
  fst oe = obj ->
  match snd oe with C3Free _ => True | C3Use _ g' => g' = g | C3Comp _ _ => g = 0 end.

Lemma x3_fixed_entry : forall max st oe obj g e0,
  x3_ents st obj = [(obj, g, e0)] -> x3_compat obj g oe ->
  x3_ents (c3_entry max st oe) obj = [(obj, g, e0)].
Proof.
  intros max st oe obj g e0 He Hc. destruct (N.eq_dec (fst oe) obj) as [Heq|Hne].
  - specialize (Hc Heq). destruct oe as [k e]. cbn [fst snd] in *. subst k. unfold c3_entry. cbn [fst snd].
    assert (Hhas : c3_has st obj g = true).
    { rewrite x3_has_ents, He. cbn [existsb fst snd]. rewrite N.eqb_refl. reflexivity. }
    destruct e as [g'|off g'|stm idx].
    + unfold c3_insert_free. destruct (negb (c3_has st obj g') && (obj <=? max)); exact He.
    + subst g'. unfold c3_insert_use.
      destruct (negb ((0 <? obj) && (obj <=? max) && (g <? 65535))); [exact He|].
      destruct (c3_is_deleted st obj); [exact He|]. rewrite Hhas. exact He.
    + subst g. unfold c3_insert_use.
      destruct (negb ((0 <? obj) && (obj <=? max))); [exact He|].
      destruct (c3_is_deleted st obj); [exact He|].
      destruct (stm =? obj); [exact He|].
      destruct (max <? stm); [exact He|]. rewrite Hhas. exact He.
  - destruct (x3_frame max st oe obj Hne) as [F1 _]. rewrite F1. exact He.
Qed.

Lemma x3_fixed_fold : forall max obj g e0 L st,
  x3_ents st obj = [(obj, g, e0)] -> Forall (x3_compat obj g) L ->
  x3_ents (fold_left (c3_entry max) L st) obj = [(obj, g, e0)].
Proof.
  induction L as [|a L IH]; intros st He HF; cbn [fold_left]; [exact He|].
  inversion HF as [|? ? Ha HL]; subst. apply IH; [|exact HL]. apply x3_fixed_entry; assumption.
Qed.

(* first entry for obj on a clean state *)
Lemma x3_clean_has : forall st obj g, x3_clean st obj -> c3_has st obj g = false.
Proof. intros st obj g [He _]. rewrite x3_has_ents, He. reflexivity. Qed.

Lemma x3_clean_free : forall max st obj g, x3_clean st obj -> obj <= max ->
  x3_dead (c3_entry max st (obj, C3Free g)) obj.
Proof.
  intros max st obj g Hc Hle. unfold c3_entry. cbn [fst snd]. unfold c3_insert_free.
  rewrite (x3_clean_has st obj g Hc). apply N.leb_le in Hle. rewrite Hle. cbn [negb andb].
  destruct Hc as [He Hd]. split; [exact He|].
  unfold c3_is_deleted. cbn [c3_deleted existsb]. rewrite N.eqb_refl. reflexivity.
Qed.

Lemma x3_clean_use : forall max st obj off g, x3_clean st obj -> c3_entry_ok max (obj, C3Use off g) ->
  x3_ents (c3_entry max st (obj, C3Use off g)) obj = [(obj, g, C3Use off g)].
Proof.
  intros max st obj off g Hc [Hle [Hpos Hg]]. cbn [fst snd] in *. unfold c3_entry. cbn [fst snd].
  unfold c3_insert_use. rewrite (x3_clean_has st obj g Hc).
  apply N.leb_le in Hle. apply N.ltb_lt in Hpos. apply N.ltb_lt in Hg. rewrite Hle, Hpos, Hg. cbn [negb andb].
  destruct Hc as [He Hd]. rewrite Hd. unfold x3_ents. cbn [c3_tbl]. rewrite filter_app. cbn [filter fst].
  rewrite N.eqb_refl. unfold x3_ents in He. rewrite He. reflexivity.
Qed.

Lemma x3_clean_comp : forall max st obj stm idx, x3_clean st obj -> c3_entry_ok max (obj, C3Comp stm idx) ->
  x3_ents (c3_entry max st (obj, C3Comp stm idx)) obj = [(obj, 0, C3Comp stm idx)].
Proof.
  intros max st obj stm idx Hc [Hle [Hpos [Hne Hs]]]. cbn [fst snd] in *. unfold c3_entry. cbn [fst snd].
  unfold c3_insert_use. rewrite (x3_clean_has st obj 0 Hc).
  apply N.leb_le in Hle. apply N.ltb_lt in Hpos. apply N.eqb_neq in Hne.
  assert (Hs' : (max <? stm) = false) by (apply N.ltb_ge; exact Hs).
  rewrite Hle, Hpos, Hne, Hs'. cbn [negb andb].
  destruct Hc as [He Hd]. rewrite Hd. unfold x3_ents. cbn [c3_tbl]. rewrite filter_app. cbn [filter fst].
  rewrite N.eqb_refl. unfold x3_ents in He. rewrite He. reflexivity.
Qed.

Definition x3_view (r : option c3_xe) : option (N * c3_xe) :=
  match r with
  | Some (C3Use o g) => Some (g, C3Use o g)
  | Some (C3Comp s i) => Some (0, C3Comp s i)
  | _ => None
  end.
Definition x3_gen (e : c3_xe) : N := match e with C3Use _ g => g | _ => 0 end.

(* qpdf on one flat entry list: the first entry for obj decides *)
Lemma x3_flat_view : forall max obj L st,
  x3_clean st obj -> Forall (c3_entry_ok max) L ->
  (forall e, In (obj, e) L -> c3_is_free (obj, e) = false -> Forall (x3_compat obj (x3_gen e)) L) ->
  c3_best (c3_tbl (fold_left (c3_entry max) L st)) obj = x3_view (c3_find L obj).
Proof.
  induction L as [|[k e] L IH]; intros st Hc Hok Hcomp.
  - cbn [fold_left c3_find x3_view]. apply x3_best_nil. apply Hc.
  - cbn [fold_left c3_find]. inversion Hok as [|? ? Hhd Htl]; subst.
    destruct (N.eqb_spec k obj) as [Heq|Hne].
    + subst k. destruct e as [g|off g|stm idx]; cbn [x3_view].
      * apply x3_best_nil. apply (x3_dead_fold max L _ obj). apply x3_clean_free; [exact Hc|]. apply Hhd.
      * apply x3_best_one. apply x3_fixed_fold with (g := g).
        -- apply x3_clean_use; assumption.
        -- specialize (Hcomp (C3Use off g) (or_introl eq_refl) eq_refl).
           inversion Hcomp; assumption.
      * apply x3_best_one. apply x3_fixed_fold with (g := 0).
        -- apply x3_clean_comp; assumption.
        -- specialize (Hcomp (C3Comp stm idx) (or_introl eq_refl) eq_refl).
           inversion Hcomp; assumption.
    + destruct (x3_frame max st (k, e) obj Hne) as [F1 F2]. apply IH.
      * unfold x3_clean. rewrite F1, F2. exact Hc.
      * exact Htl.
      * intros e' Hin Hf. specialize (Hcomp e' (or_intror Hin) Hf). inversion Hcomp; assumption.
Qed.

Lemma x3_clean_free_fold : forall max obj g L st,
  x3_clean st obj -> c3_find L obj = Some (C3Free g) -> obj <= max ->
  x3_dead (fold_left (c3_entry max) L st) obj.
Proof.
  induction L as [|[k e] L IH]; intros st Hc Hf Hle; cbn [c3_find] in Hf; [discriminate|].
  cbn [fold_left]. destruct (N.eqb_spec k obj) as [Heq|Hne].
  - subst k. injection Hf as Hf. subst e. apply x3_dead_fold. apply x3_clean_free; assumption.
  - destruct (x3_frame max st (k, e) obj Hne) as [F1 F2]. apply IH; [|exact Hf|exact Hle].
    unfold x3_clean. rewrite F1, F2. exact Hc.
Qed.

(* ---- the specification on the flat list ---- *)
Lemma x3_find_app : forall A B obj,
  c3_find (A ++ B) obj = match c3_find A obj with Some e => Some e | None => c3_find B obj end.
Proof.
  induction A as [|[k e] A IH]; intros B obj; cbn [app c3_find]; [reflexivity|].
  destruct (k =? obj); [reflexivity|apply IH].
Qed.

Lemma x3_find_notin : forall l obj, ~ In obj (map fst l) -> c3_find l obj = None.
Proof.
  induction l as [|[k e] l IH]; intros obj Hn; cbn [c3_find]; [reflexivity|].
  cbn [map fst In] in Hn. destruct (N.eqb_spec k obj) as [Heq|Hne].
  - exfalso. apply Hn. left. exact Heq.
  - apply IH. intro Hx. apply Hn. right. exact Hx.
Qed.

Lemma x3_find_filter : forall p l obj, NoDup (map fst l) ->
  c3_find (filter p l) obj
  = match c3_find l obj with Some e => if p (obj, e) then Some e else None | None => None end.
Proof.
  induction l as [|[k e] l IH]; intros obj Hnd; cbn [filter c3_find]; [reflexivity|].
  cbn [map fst] in Hnd. inversion Hnd as [|? ? Hnotin Hnd']; subst.
  destruct (N.eqb_spec k obj) as [Heq|Hne].
  - subst k. destruct (p (obj, e)).
    + cbn [c3_find]. rewrite N.eqb_refl. reflexivity.
    + rewrite IH by exact Hnd'. rewrite (x3_find_notin l obj Hnotin). reflexivity.
  - destruct (p (k, e)).
    + cbn [c3_find]. apply N.eqb_neq in Hne. rewrite Hne. apply IH. exact Hnd'.
    + apply IH. exact Hnd'.
Qed.

Lemma x3_spec_section : forall s older obj,
  NoDup (map fst (c3_table s)) -> (c3_is_table s = false -> c3_stm s = []) ->
  c3_spec_view (s :: older) obj
  = match c3_find (x3_flat s) obj with Some e => x3_view (Some e) | None => c3_spec_view older obj end.
Proof.
  intros s older obj Hnd Hs. cbn [c3_spec_view]. unfold x3_flat. destruct (c3_is_table s).
  - rewrite !x3_find_app, !x3_find_filter by exact Hnd.
    destruct (c3_find (c3_table s) obj) as [[g|off g|stm idx]|]; unfold c3_is_free; cbn [snd negb x3_view];
      destruct (c3_find (c3_stm s) obj) as [[g2|off2 g2|stm2 idx2]|]; reflexivity.
  - rewrite (Hs eq_refl), app_nil_r. cbn [c3_find].
    destruct (c3_find (c3_table s) obj) as [[g|off g|stm idx]|]; reflexivity.
Qed.

Lemma x3_spec_flat : forall max chain obj,
  Forall (c3_section_ok max) chain -> (forall s, In s chain -> c3_is_table s = false -> c3_stm s = []) ->
  c3_spec_view chain obj = x3_view (c3_find (flat_map x3_flat chain) obj).
Proof.
  induction chain as [|s chain IH]; intros obj Hok Hs; [reflexivity|].
  inversion Hok as [|? ? Hhd Htl]; subst. cbn [flat_map]. rewrite x3_find_app.
  rewrite x3_spec_section; [|apply Hhd|apply Hs; left; reflexivity].
  destruct (c3_find (x3_flat s) obj); [reflexivity|].
  apply IH; [exact Htl|]. intros s' Hin. apply Hs. right. exact Hin.
Qed.

Lemma x3_flat_in : forall s oe, In oe (x3_flat s) -> In oe (c3_table s ++ c3_stm s).
Proof.
  intros s oe. unfold x3_flat. destruct (c3_is_table s); [|tauto].
  rewrite !in_app_iff, !filter_In. tauto.
Qed.

Lemma x3_flat_chain_in : forall chain oe, In oe (flat_map x3_flat chain) ->
  exists s, In s chain /\ In oe (c3_table s ++ c3_stm s).
Proof.
  intros chain oe H. apply in_flat_map in H. destruct H as [s [Hs Hin]].
  exists s. split; [exact Hs|]. apply x3_flat_in. exact Hin.
Qed.

Lemma x3_empty_clean : forall obj, x3_clean {| c3_tbl := []; c3_deleted := [] |} obj.
Proof. intros obj. split; reflexivity. Qed.

(* For every well-formed chain without reuse of an object number at another generation, qpdf's table equals the
   ISO lookup for every object: the newest section that mentions an object wins; a free entry there makes it read
   as null unless that same section's /XRefStm holds it (hidden object of a hybrid-reference file); objects
   never mentioned are absent. *)
Lemma xref_chain_newest_wins_lemma : forall max_id chain obj,
  Forall (c3_section_ok max_id) chain -> c3_single_gen chain ->
  (forall s, In s chain -> c3_is_table s = false -> c3_stm s = []) ->
  (forall s stm idx, In s chain -> In (obj, C3Comp stm idx) (c3_table s ++ c3_stm s) ->
     forall s' o' g', In s' chain -> In (obj, C3Use o' g') (c3_table s' ++ c3_stm s') -> g' = 0) ->
  c3_qpdf_view max_id chain obj = c3_spec_view chain obj.
Proof.
  intros max_id chain obj Hok Hsg Hstm Hcomp.
  unfold c3_qpdf_view. rewrite x3_chain_flat, (x3_spec_flat max_id chain obj Hok Hstm).
  apply x3_flat_view.
  - apply x3_empty_clean.
  - apply Forall_forall. intros oe Hin. apply x3_flat_chain_in in Hin. destruct Hin as [s [Hs Hin]].
    rewrite Forall_forall in Hok. destruct (Hok s Hs) as [Ht [Hst _]].
    rewrite Forall_forall in Ht, Hst. apply in_app_or in Hin. destruct Hin as [Hin|Hin]; auto.
  - intros e Hin Hfree. apply x3_flat_chain_in in Hin. destruct Hin as [s [Hs Hin]].
    apply Forall_forall. intros [k e'] Hin' Hk. cbn [fst snd] in *. subst k.
    apply x3_flat_chain_in in Hin'. destruct Hin' as [s' [Hs' Hin']].
    destruct e as [g|off g|stm idx]; [discriminate Hfree| |]; destruct e' as [g'|off' g'|stm' idx']; cbn [x3_gen]; auto.
    + exact (Hsg s' s obj off' g' off g Hs' Hs Hin' Hin).
    + exact (Hcomp s' stm' idx' Hs' Hin' s off g Hs Hin).
    + exact (Hcomp s stm idx Hs Hin s' off' g' Hs' Hin').
Qed.

(* The hybrid layout of ISO 32000-1 7.5.8.4 (hidden objects listed FREE in the table of the very section whose
   /XRefStm holds them) is read as the standard says. *)
Lemma hybrid_hidden_objects_read_lemma :
  let chain := [ {| c3_is_table := true; c3_table := [(0, C3Free 65535); (1, C3Use 15 0); (2, C3Free 65535)];
                   c3_stm := [(2, C3Comp 1 0)] |} ] in
  c3_qpdf_view 5 chain 2 = Some (0, C3Comp 1 0) /\ c3_qpdf_view 5 chain 2 = c3_spec_view chain 2.
Proof. vm_compute. split; reflexivity. Qed.

(* free in the newest section that mentions the object (and not hidden in its /XRefStm): it reads as null
   whatever older sections say *)
Lemma free_reads_null_lemma : forall max_id s older obj g,
  c3_section_ok max_id s -> c3_find (c3_table s) obj = Some (C3Free g) -> c3_find (c3_stm s) obj = None ->
  obj <= max_id ->
  c3_qpdf_view max_id (s :: older) obj = None.
Proof.
  intros max_id s older obj g Hok Ht Hst Hle.
  unfold c3_qpdf_view. rewrite x3_chain_flat. cbn [flat_map]. rewrite fold_left_app.
  apply x3_best_nil. apply (x3_dead_fold max_id (flat_map x3_flat older) _ obj).
  destruct Hok as [_ [_ [Hnd _]]].
  apply x3_clean_free_fold with (g := g); [apply x3_empty_clean| |exact Hle].
  unfold x3_flat. destruct (c3_is_table s).
  - rewrite !x3_find_app, !x3_find_filter by exact Hnd. rewrite Ht, Hst. reflexivity.
  - rewrite x3_find_app, Ht. reflexivity.
Qed.
