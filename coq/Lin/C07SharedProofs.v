(* C07 - proofs about (a) the model of the shared-object identifiers of the page offset hint table
   (Lin/SharedIds.v, the last loop of calculateLinearizationData) and (b) the "inherited attributes" clause of the
   Annex F checker (Lin/AnnexF.v: af_inh_walk / af_page_inh_needs).

   (a) The C++ lists, for a later page, the objects of the shared object table that the page uses AND that have more than
       one user. The specification (Annex F, Table F.4 items 4-5; clause 29 of the checker) wants every object of the
       shared object table that the page needs, and nothing else. The two agree because an object of the table that a
       later page uses always has a second user (c07sh_two_users); so the identifiers are exactly the table positions of
       the objects the page uses (c07sh_ids_sound / c07sh_ids_complete / c07sh_ids_exact).
   (b) A page-tree node has the root key /Pages as its only user and is therefore emitted in part 9, after /E and
       outside the shared object table (c07inh_pages_node_part9): whatever a page would still inherit through /Parent is
       out of reach of the first-page section and of the hint tables. When no ancestor carries an inheritable
       attribute - the conclusion pa_clean of pa_pushdown_effective (C12, Struct/PageAttr.v) read on the output's object
       graph - the checker's inherited needs are empty (c07inh_clean_needs_nothing). *)
From QV Require Import Base.Bytes File.StrictSyntax File.ReadStrict Lin.Parts Lin.SharedIds Lin.AnnexF.
Local Open Scope N_scope.

(* ------------------------------------------------------------------ (a) shared identifiers *)

Lemma c07sh_two_users_lemma : forall uo us i,
  i <> 0 -> lsi_uses i us = true -> lc_in_shared_table uo (lc_classify us) = true ->
  1 < N.of_nat (length us).
Proof.
  intros uo us i Hi Hu Ht.
  destruct us as [|u [|u2 rest]].
  - discriminate.
  - exfalso. unfold lsi_uses in Hu. cbn [existsb] in Hu. rewrite orb_false_r in Hu.
    destruct u as [n|n|k|k|]; cbn [lsi_is_page] in Hu; try discriminate.
    apply N.eqb_eq in Hu. subst n.
    unfold lc_classify in Ht. cbn [fold_left lc_step] in Ht.
    destruct (N.eqb_spec i 0) as [E|E]; [contradiction|].
    vm_compute in Ht. discriminate.
  - cbn [length]. lia.
Qed.

Lemma c07sh_index_from_in : forall tbl j og k, lsi_index_from j tbl og = Some k -> In og tbl.
Proof.
  induction tbl as [|x t IH]; intros j og k H; cbn [lsi_index_from] in H; [discriminate|].
  destruct (N.eqb_spec x og) as [E|E]; [left; exact E|right; eapply IH; exact H].
Qed.

Lemma c07sh_index_from_nth : forall tbl j og k, lsi_index_from j tbl og = Some k ->
  j <= k /\ nth_error tbl (N.to_nat (k - j)) = Some og.
Proof.
  induction tbl as [|x t IH]; intros j og k H; cbn [lsi_index_from] in H; [discriminate|].
  destruct (N.eqb_spec x og) as [E|E].
  - inversion H; subst. split; [lia|]. rewrite N.sub_diag. reflexivity.
  - apply IH in H. destruct H as [H1 H2]. split; [lia|].
    replace (N.to_nat (k - j)) with (S (N.to_nat (k - (j + 1)))) by lia. exact H2.
Qed.

Lemma c07sh_in_index_from : forall tbl j og, In og tbl -> exists k, lsi_index_from j tbl og = Some k.
Proof.
  induction tbl as [|x t IH]; intros j og H; [destruct H|].
  cbn [lsi_index_from]. destruct (N.eqb_spec x og) as [E|E]; [eexists; reflexivity|].
  destruct H as [H|H]; [contradiction|]. apply IH. exact H.
Qed.

Lemma c07sh_in_part_objs : forall uo p um og, In og (lsi_part_objs uo p um) ->
  exists us, In (og, us) um /\ lc_part uo (lc_classify us) = p.
Proof.
  intros uo p um og H. unfold lsi_part_objs in H. apply in_map_iff in H.
  destruct H as [[og' us] [E H]]. cbn in E. subst og'. apply filter_In in H. destruct H as [H1 H2].
  exists us. split; [exact H1|]. cbn in H2. apply N.eqb_eq in H2. exact H2.
Qed.

Lemma c07sh_in_table : forall uo um og, In og (lsi_table uo um) ->
  exists us, In (og, us) um /\ lc_in_shared_table uo (lc_classify us) = true.
Proof.
  intros uo um og H. unfold lsi_table in H. apply in_app_or in H.
  destruct H as [H|H]; apply c07sh_in_part_objs in H; destruct H as [us [H1 H2]]; exists us; (split; [exact H1|]);
    unfold lc_in_shared_table; rewrite H2; reflexivity.
Qed.

Lemma c07sh_nodup_fst : forall (um : lsi_umap) og us us',
  NoDup (map fst um) -> In (og, us) um -> In (og, us') um -> us = us'.
Proof.
  induction um as [|[o u] t IH]; intros og us us' Hn H1 H2; [destruct H1|].
  cbn [map fst] in Hn. inversion Hn as [|? ? Hni Hnt]; subst.
  destruct H1 as [H1|H1]; destruct H2 as [H2|H2].
  - inversion H1; inversion H2; subst; reflexivity.
  - inversion H1; subst. exfalso. apply Hni. apply in_map_iff. exists (og, us'). split; [reflexivity|exact H2].
  - inversion H2; subst. exfalso. apply Hni. apply in_map_iff. exists (og, us). split; [reflexivity|exact H1].
  - eapply IH; eassumption.
Qed.

(* nothing else is listed: every identifier is the position, in the shared object table, of an object page i uses *)
Lemma c07sh_ids_sound_lemma : forall uo um i k, In k (lsi_page_ids uo um i) ->
  exists og us, In (og, us) um /\ lsi_uses i us = true /\
                lsi_index (lsi_table uo um) og = Some k /\ nth_error (lsi_table uo um) (N.to_nat k) = Some og.
Proof.
  intros uo um i k H. unfold lsi_page_ids in H. apply in_flat_map in H.
  destruct H as [[og us] [Hin H]]. cbn [fst snd] in H.
  destruct (lsi_uses i us) eqn:Eu; [|destruct H].
  destruct (1 <? N.of_nat (length us)); cbn [andb] in H; [|destruct H].
  destruct (lsi_index (lsi_table uo um) og) as [k'|] eqn:Ei; [|destruct H].
  destruct H as [H|[]]. subst k'.
  exists og, us. repeat split; try assumption.
  unfold lsi_index in Ei. apply c07sh_index_from_nth in Ei. destruct Ei as [_ Ei]. rewrite N.sub_0_r in Ei. exact Ei.
Qed.

(* everything is listed: an object of the shared object table that a later page uses is among the page's identifiers *)
Lemma c07sh_ids_complete_lemma : forall uo um i og us,
  NoDup (map fst um) -> i <> 0 -> In (og, us) um -> lsi_uses i us = true -> In og (lsi_table uo um) ->
  exists k, lsi_index (lsi_table uo um) og = Some k /\ In k (lsi_page_ids uo um i).
Proof.
  intros uo um i og us Hn Hi Hin Hu Ht.
  destruct (c07sh_in_index_from (lsi_table uo um) 0 og Ht) as [k Hk].
  exists k. split; [exact Hk|].
  unfold lsi_page_ids. apply in_flat_map. exists (og, us). split; [exact Hin|]. cbn [fst snd].
  rewrite Hu. apply c07sh_in_table in Ht. destruct Ht as [us' [Hin' Hs]].
  assert (us' = us) by (eapply c07sh_nodup_fst; eassumption). subst us'.
  pose proof (c07sh_two_users_lemma uo us i Hi Hu Hs) as H2.
  apply N.ltb_lt in H2. rewrite H2. cbn [andb]. unfold lsi_index. rewrite Hk. left. reflexivity.
Qed.

(* the "more than one user" test of the loop is redundant: the loop computes the specification's list *)
Lemma c07sh_ids_exact_lemma : forall uo um i, NoDup (map fst um) -> i <> 0 ->
  lsi_page_ids uo um i =
  flat_map (fun e => if lsi_uses i (snd e)
                     then match lsi_index (lsi_table uo um) (fst e) with Some k => [k] | None => [] end
                     else []) um.
Proof.
  intros uo um i Hn Hi. unfold lsi_page_ids.
  assert (Hall : forall e, In e um ->
            (if lsi_uses i (snd e) && (1 <? N.of_nat (length (snd e)))
             then match lsi_index (lsi_table uo um) (fst e) with Some k => [k] | None => [] end else []) =
            (if lsi_uses i (snd e)
             then match lsi_index (lsi_table uo um) (fst e) with Some k => [k] | None => [] end else [])).
  { intros [og us] Hin. cbn [fst snd].
    destruct (lsi_uses i us) eqn:Eu; [|reflexivity]. cbn [andb].
    destruct (1 <? N.of_nat (length us)) eqn:E1; [reflexivity|].
    destruct (lsi_index (lsi_table uo um) og) as [k|] eqn:Ei; [|reflexivity].
    exfalso. unfold lsi_index in Ei. apply c07sh_index_from_in in Ei.
    apply c07sh_in_table in Ei. destruct Ei as [us' [Hin' Hs]].
    assert (us' = us) by (eapply c07sh_nodup_fst; eassumption). subst us'.
    pose proof (c07sh_two_users_lemma uo us i Hi Eu Hs) as H2. apply N.ltb_lt in H2. congruence. }
  clear Hn. revert Hall. generalize (lsi_table uo um) as tbl. intros tbl.
  induction um as [|e t IH]; intros Hall; [reflexivity|].
  cbn [flat_map]. rewrite (Hall e (or_introl eq_refl)). f_equal. apply IH. intros e' He'. apply Hall. right. exact He'.
Qed.

(* an object used by exactly one later page and by the /Thumb of another page is classified thumbnail_private: part 9, no
   entry in the shared object table, not in the page's run - the hint tables do not lead a reader of that page to it *)
Lemma c07sh_page_and_other_thumb_refuted_lemma : exists users,
  lsi_uses 1 users = true /\ lc_classify users = LcThumbPrivate /\ lc_part false (lc_classify users) = 9
  /\ lc_in_shared_table false (lc_classify users) = false.
Proof. exists [OuPage 1; OuThumb 5]. repeat split; vm_compute; reflexivity. Qed.

(* page 0 lists nothing (Table F.4 item 4: "zero for the first page") *)
Lemma c07sh_first_page_none_lemma : forall uo um n, (0 < n)%nat -> nth_error (lsi_all_ids uo um n) 0 = Some [].
Proof.
  intros uo um n Hn. destruct n as [|n]; [lia|]. reflexivity.
Qed.

(* ------------------------------------------------------------------ (b) inherited attributes *)

Definition c07inh_pk_Pages : list N := [80; 97; 103; 101; 115].

(* a page-tree node: part 9, no entry in the shared object table - with or without /UseOutlines *)
Lemma c07inh_pages_node_part9_lemma : forall uo,
  lc_part uo (lc_classify [OuRootKey c07inh_pk_Pages]) = 9 /\
  lc_in_shared_table uo (lc_classify [OuRootKey c07inh_pk_Pages]) = false.
Proof. intros [|]; split; vm_compute; reflexivity. Qed.

Lemma c07inh_flat_map_nil : forall (A B : Type) (f : A -> list B) l, (forall x, In x l -> f x = []) -> flat_map f l = [].
Proof.
  induction l as [|x t IH]; intros H; [reflexivity|]. cbn [flat_map].
  rewrite (H x (or_introl eq_refl)). apply IH. intros y Hy. apply H. right. exact Hy.
Qed.

(* A = a set of nodes closed under /Parent none of whose dictionaries carries an inheritable attribute *)
Lemma c07inh_walk_clean_lemma : forall objs (A : N -> Prop),
  (forall n o d, A n -> af_find objs n = Some o -> so_val o = SpDict d ->
     (forall k, In k afn_inheritable_keys -> af_dict_has d k = false) /\ (forall m, af_parent_of d = Some m -> A m)) ->
  forall fuel node missing, (forall n, node = Some n -> A n) -> incl missing afn_inheritable_keys ->
  af_inh_walk fuel objs node missing = [].
Proof.
  intros objs A HA. induction fuel as [|f IH]; intros node missing Hn Hm; [reflexivity|].
  cbn [af_inh_walk]. destruct node as [n|]; [|reflexivity]. destruct missing as [|k0 mt]; [reflexivity|].
  destruct (af_find objs n) as [o|] eqn:Ef; [|reflexivity].
  destruct (so_val o) as [| | | | | | |d|] eqn:Ev; try reflexivity.
  destruct (HA n o d (Hn n eq_refl) Ef Ev) as [Hk Hp].
  rewrite c07inh_flat_map_nil.
  - cbn [app]. apply IH.
    + intros m Em. apply Hp. exact Em.
    + intros k Hin. apply filter_In in Hin. apply Hm. exact (proj1 Hin).
  - intros k Hin. rewrite (Hk k (Hm k Hin)). reflexivity.
Qed.

(* ... then the page needs nothing through /Parent: the checker's inherited needs are empty *)
Lemma c07inh_clean_needs_nothing_lemma : forall objs (A : N -> Prop) fuel p,
  (forall n o d, A n -> af_find objs n = Some o -> so_val o = SpDict d ->
     (forall k, In k afn_inheritable_keys -> af_dict_has d k = false) /\ (forall m, af_parent_of d = Some m -> A m)) ->
  (forall o d m, af_find objs p = Some o -> so_val o = SpDict d -> af_parent_of d = Some m -> A m) ->
  af_page_inherits fuel objs p = [] /\ af_page_inh_needs fuel objs p = [].
Proof.
  intros objs A fuel p HA Hp.
  assert (H : af_page_inherits fuel objs p = []).
  { unfold af_page_inherits. destruct (af_find objs p) as [o|] eqn:Ef; [|reflexivity].
    destruct (so_val o) as [| | | | | | |d|] eqn:Ev; try reflexivity.
    eapply c07inh_walk_clean_lemma; [exact HA| |].
    - intros n En. eapply Hp; [reflexivity|exact Ev|exact En].
    - intros k Hin. apply filter_In in Hin. exact (proj1 Hin). }
  split; [exact H|]. unfold af_page_inh_needs. rewrite H. reflexivity.
Qed.

(* and conversely the clause is not vacuous: a page without /CropBox under a node that has one inherits from that node *)
Lemma c07inh_inherits_witness_lemma : exists objs p node,
  af_page_inherits 10 objs p = [(node, SpArr [SpInt 0; SpInt 0; SpInt 10; SpInt 10])] /\
  af_page_inh_needs 10 objs p = [node].
Proof.
  exists [ {| so_num := 2; so_gen := 0; so_where := XInUse 100 0;
              so_val := SpDict [(afn_Kids, SpArr [SpRef 3 0]); (nth 2 afn_inheritable_keys [], SpArr [SpInt 0; SpInt 0; SpInt 10; SpInt 10])];
              so_stream := None; so_end := 150 |};
           {| so_num := 3; so_gen := 0; so_where := XInUse 20 0;
              so_val := SpDict [(n_Type, SpName afn_Page); (afn_Parent, SpRef 2 0);
                                (nth 1 afn_inheritable_keys [], SpArr []); (nth 0 afn_inheritable_keys [], SpDict []); (nth 3 afn_inheritable_keys [], SpInt 0)];
              so_stream := None; so_end := 90 |} ], 3, 2.
  split; vm_compute; reflexivity.
Qed.
