(* C13 extension - specification side of the unrestricted statements.

   Written from ISO 32000-1 7.7.3 (page tree: "the leaves of the tree, in order, are the pages";
   /Count = number of leaf descendants; /Parent names the node that lists the kid) and from the
   documentation of copyForeignObject in include/qpdf/QPDF.hh ("the copy is deep", "object
   structure will be preserved ... including circular references", "shared objects will not be
   copied multiple times", pages other than the copied object and /Pages nodes are not copied),
   NOT from QPDF_pages.cc / QPDF.cc.  Only the syntax of values (pg_val, pg_cell, pg_store) and
   its plain accessors are shared with Struct/PgModel.v.  No proofs in this file. *)
From QV Require Import Base.Bytes Struct.PgModel.
Local Open Scope N_scope.

(* ------------------------------------------------------------------ copies *)
(* a /Pages node of the source: never copied, a reference to it becomes null *)
Definition pgx_is_pages (ss : pg_store) (i : N) : bool := pg_is_dict_of_type ss (PvRef i) pgk_Pages.

Section PgxCopy.
  Variable ss : pg_store.            (* objects of the source document *)
  Variable m : list (N * N).         (* source object -> its local copy *)

  (* "deep": every reference inside the value (null-valued dictionary entries do not count, they are not part
     of the document) leads to an object that has a copy, or to a /Pages node *)
  Fixpoint pgx_closed (v : pg_val) : Prop :=
    match v with
    | PvRef i => pg_omap_find m i <> None \/ pgx_is_pages ss i = true
    | PvArr l => (fix all (l : list pg_val) : Prop :=
                    match l with [] => True | x :: t => pgx_closed x /\ all t end) l
    | PvDict d => (fix all (d : pg_dict) : Prop :=
                     match d with
                     | [] => True
                     | (k, x) :: t => (pg_is_null ss x = true \/ pgx_closed x) /\ all t
                     end) d
    | _ => True
    end.

  Definition pgx_closed_obj (og : N) : Prop :=
    match pg_lookup ss og with
    | Some (PcObj v) => pgx_closed v
    | Some (PcStream d _ _) => pgx_closed (PvDict d)
    | None => True
    end.
End PgxCopy.

(* what "the destination holds a faithful copy of everything that was ever copied from the source" means:
   the map is an injective function into existing objects, never maps a /Pages node, and every mapped object is
   either a placeholder (a null object standing for a page behind a page boundary) or exactly the source value
   with every reference replaced by its image, all references inside it being mapped again (deep) *)
Definition pgx_copy_inv (src dst : pg_doc) : Prop :=
  let ss := pd_store src in
  let m := pd_omap dst in
  (forall a l, pg_omap_find m a = Some l -> pg_lookup (pd_store dst) l <> None) /\
  (forall a a' l, pg_omap_find m a = Some l -> pg_omap_find m a' = Some l -> a = a') /\
  (forall a l, pg_omap_find m a = Some l -> pgx_is_pages ss a = false) /\
  (forall a l, pg_omap_find m a = Some l ->
     pg_is_null (pd_store dst) (PvRef l) = true \/
     match pg_lookup ss a with
     | Some (PcObj v) => pgx_closed ss m v /\ pg_lookup (pd_store dst) l = Some (PcObj (pg_rename ss m v))
     | Some (PcStream d _ _) =>
         pgx_closed ss m (PvDict d) /\
         exists d' x k, pg_lookup (pd_store dst) l = Some (PcStream d' x k) /\
           forall key, pg_dget d' key = pg_dget (pg_rename_dict ss m d) key
     | None => False
     end).
