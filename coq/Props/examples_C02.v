(* ---- non-vacuity examples for C02 (appended to Properties_C02.v by tools/gen_props.py) ---- *)

(* the strict reader on the object-stream / xref-stream model's output for C01's example document (catalog, page tree, page,
   one content stream): header 1.5, one stream section, the object stream 1 with members 2 3 4 as compressed objects, the
   stream object 5 and the xref stream 6 as in-use objects, and the accounted regions (header, object stream, content stream,
   xref stream, tail) *)
Example xs_write_read_strict_example :
  match read_strict (xs_out ex_doc) with
  | RsOk f =>
      sf_version f = [49; 46; 53] /\ sf_sections f = 1 /\ sf_xref_stream f = true /\
      map (fun o => (so_num o, so_where o)) (sf_objs f)
      = [(6, XInUse 290 0); (5, XInUse 234 0); (1, XInUse 15 0); (4, XComp 1 2); (3, XComp 1 1); (2, XComp 1 0)] /\
      sf_regions f = [(0, 15); (15, 234); (234, 290); (290, 430); (430, 450)] /\
      sf_trailer f = [([84; 121; 112; 101], SpName [88; 82; 101; 102]); ([76; 101; 110; 103; 116; 104], SpInt 28);
                      ([87], SpArr [SpInt 1; SpInt 2; SpInt 1]); ([82; 111; 111; 116], SpRef 2 0);
                      ([83; 105; 122; 101], SpInt 7); ([73; 68], SpArr [SpStr [1; 2; 254]; SpStr []])]
  | RsErr _ _ => False
  end.
Proof. vm_compute. repeat split. Qed.

(* and the capstone theorem applies to it: every hypothesis of xs_write_read_strict holds for this document *)
Example xs_write_read_strict_applies :
  exists f, read_strict (xs_write_doc wm_unparse_string wm_unparse_name ex_doc) = RsOk f
            /\ sf_sections f = 1 /\ sf_xref_stream f = true /\ sf_regions f = xr_regions ex_doc.
Proof.
  destruct (xs_write_read_strict ex_doc wf_doc_example) as [f [H1 [_ [H3 [H4 [_ [_ [_ [H8 _]]]]]]]]].
  - vm_compute. discriminate.
  - intros k Hk H. cbn in Hk, H. in_cases Hk; in_cases H; discriminate.
  - cbn. intros H. in_cases H; discriminate.
  - vm_compute. reflexivity.
  - vm_compute. reflexivity.
  - exists f. repeat split; assumption.
Qed.
