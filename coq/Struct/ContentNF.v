(* C16 extension (prefix ci_).  The NORMAL FORM of a content stream: the byte strings on which
   ContentNormalizer::handleToken (libqpdf/ContentNormalizer.cc) behind Pl_QPDFTokenizer::finish has nothing left to do,
   stated on the independent reading of content streams (Lex/LexSpec.v + Struct/ContentSem.v), not on the model:
     * white space and comments in front of a token contain no CR (the tt_space branch turns CR and CR LF into LF),
     * a string token is spelt exactly as QPDF_String::unparse prints its value, a name token exactly as
       Name::normalize prints it (the tt_string / tt_name branches), every other token is free (written verbatim),
     * the byte that follows the operator ID is not CR (it is handed to handleToken as a tt_space token); the image
       data up to EI are free (written verbatim).
   Definitions only; the theorems (normalisation produces this form and is the identity on it) are in
   Struct/C16ProofsI.v. *)
From QV Require Import Base.Bytes Lex.TokModel Lex.LexSpec Obj.Unparse Struct.ContentNorm Struct.ContentSem.
Local Open Scope N_scope.

(* the spelling of one token *)
Definition ci_canon (tk : ptoken) (u : list N) : Prop :=
  match tk with
  | PStr v => u = string_unparse false v
  | PName n => u = name_normalize (47 :: n)
  | _ => True
  end.

Inductive ci_normal_form : list N -> Prop :=
| ci_nf_end c :
    skip_ignorable false c = [] -> ~ In 13 c -> ci_normal_form c
| ci_nf_tok c pre u tk rest :
    c = pre ++ u ++ rest -> skip_ignorable false c = u ++ rest -> ~ In 13 pre ->
    spec_token_at (u ++ rest) = LexTok tk rest ->
    match tk with PKeyword w => list_eqb N.eqb w c16_kw_ID = false | _ => True end ->
    ci_canon tk u ->
    ci_normal_form rest -> ci_normal_form c
| ci_nf_img c pre u w ws data rest :
    c = pre ++ u ++ ws :: data ++ 69 :: 73 :: rest -> skip_ignorable false c = u ++ ws :: data ++ 69 :: 73 :: rest ->
    ~ In 13 pre ->
    spec_token_at (u ++ ws :: data ++ 69 :: 73 :: rest) = LexTok (PKeyword w) (ws :: data ++ 69 :: 73 :: rest) ->
    list_eqb N.eqb w c16_kw_ID = true ->
    c16_after_ID (ws :: data ++ 69 :: 73 :: rest) = Some (data, rest) ->
    ws <> 13 ->
    ci_normal_form rest -> ci_normal_form c.
