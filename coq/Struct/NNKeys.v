(* Model of the key comparison of NAME trees, written from the C++ as it is:

     NNTreeImpl::compareKeys (libqpdf/NNTree.cc), key_type == ot_string:
         auto as = a.getUTF8Value();  auto bs = b.getUTF8Value();
         return as < bs ? -1 : (as > bs ? 1 : 0);                 (std::string operator<: unsigned bytes)
     QPDFObjectHandle::getUTF8Value -> String::utf8_value (libqpdf/QPDFObjectHandle.cc):
         if (util::is_utf16(val))         return QUtil::utf16_to_utf8(val);   (BOM FE FF or FF FE)
         if (util::is_explicit_utf8(val)) return val.substr(3);               (BOM EF BB BF)
         return QUtil::pdf_doc_to_utf8(val);

   The three conversions of libqpdf/QUtil.cc are the ones C14 models (Json/JsonEmit.v: jm_utf16_to_utf8 with
   its treatment of odd lengths, little-endian BOMs and unpaired surrogates, jm_pdf_doc_to_utf8 over the table
   translated from the source on every run, Gen/PdfDoc.v); they are used here, not copied.

   A key of a name tree is the string object as stored: its bytes (list N, every element < 256).
   No proofs in this file. *)
From QV Require Import Base.Bytes Json.JsonEmit Struct.NNTreeModel.

(* String::utf8_value *)
Definition nk_utf8_value (s : list N) : list N :=
  if jm_is_utf16 s then jm_utf16_to_utf8 s
  else if jm_is_explicit_utf8 s then skipn 3 s
  else jm_pdf_doc_to_utf8 s.

(* NNTreeImpl::compareKeys for name trees: Lt = -1, Eq = 0, Gt = 1 *)
Definition nk_compare_names (a b : list N) : comparison :=
  nn_scmp (nk_utf8_value a) (nk_utf8_value b).

(* all pairs of a key set, row by row (what the driver command nncmp prints) *)
Definition nk_code (c : comparison) : N := match c with Lt => 60 | Eq => 61 | Gt => 62 end.
Definition nk_compare_matrix (keys : list (list N)) : list (list N) :=
  map (fun a => map (fun b => nk_code (nk_compare_names a b)) keys) keys.

(* a name tree as stored (raw string keys) seen through getUTF8Value: what the public helper API shows
   (QPDFNameTreeObjectHelper::iterator: ivalue.first = p->first.getUTF8Value()) and what compareKeys orders *)
Fixpoint nk_view_node (n : nnode (list N)) : nnode (list N) :=
  match n with
  | NLeaf lim items =>
      NLeaf (option_map (fun l => (nk_utf8_value (fst l), nk_utf8_value (snd l))) lim)
            (map (fun kv => (nk_utf8_value (fst kv), snd kv)) items)
  | NInner lim kids =>
      NInner (option_map (fun l => (nk_utf8_value (fst l), nk_utf8_value (snd l))) lim)
             (map nk_view_node kids)
  end.

(* histories on a name tree whose keys are stored strings: the model of NNTree.cc run with the comparison
   the code really uses; the harness compares it (viewed through getUTF8Value) with the real library *)
Definition nk_run_raw (t : Z) (root : nnode (list N)) (ops : list (nnop (list N)))
  : list (nnres (list N) * Z * nnode (list N)) :=
  nn_run (list N) nk_compare_names t root ops.
