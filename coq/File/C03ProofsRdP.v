(* C03 - reader model, positions of Objects::readToken (tell() / getLastOffset()) and the startxref scan on a file
   that ends as the writer model ends it.  Step (1b) of rd_reads_writer_output (see the end of File/C03ProofsRdW.v). *)
From QV Require Import Base.Bytes Lex.TokModel Lex.LexSpec Lex.TokInterp Lex.LexRun Lex.LexProofs
     Obj.SynSpec Obj.ParseModel Obj.ParseProofs Obj.ParseSim File.XrefModel File.RdModel File.C03ProofsRd File.C03ProofsRdW.
From Coq Require Import Lia.
Local Open Scope N_scope.

(* tell() after a token that was not ended by the end of the input: every byte before [rest] was consumed *)
Lemma rd_tok_newpos_lemma : forall inp pos tk rest np last,
  rd_tok 0 inp pos = (tk, rest, np, last) -> rest <> [] -> np + rd_len rest = pos + rd_len inp.
Proof. Abort.

(* getLastOffset() after a token: the offset of its first byte, when only white space (no comment) precedes it *)
Lemma rd_tok_last_lemma : forall ws c s pos tk rest np last,
  rd_tok 0 (ws ++ c :: s) pos = (tk, rest, np, last) ->
  forallb tk_is_space ws = true -> tk_is_space c = false -> c <> 37 ->
  tok_type tk <> TT_eof -> last = pos + rd_len ws.
Proof. Abort.

(* findLast("startxref") + findStartxref on a file that ends with `startxref LF <v> LF %%EOF LF`, when the pattern
   "startxref" does not start anywhere else in the searched window (the last 1054 bytes): the position found is that of
   the digits, and the token read there is the integer v *)
Lemma rd_find_startxref_lemma : forall pre v,
  let tail := rd_s_startxref ++ 10 :: dec_of_N v ++ [10; 37; 37; 69; 79; 70; 10] in
  let file := pre ++ tail in
  let start := if 1054 <? rd_len file then rd_len file - 1054 else 0 in
  (forall i, (N.to_nat start <= i < length pre)%nat -> rd_prefix rd_s_startxref (skipn i file) = false) ->
  rd_find_last_sx (S (length file)) file start None = Some (rd_len pre + 10) /\
  exists tk r np last,
    rd_tok 0 (rd_at file (rd_len pre + 10)) (rd_len pre + 10) = (tk, r, np, last) /\
    text_to_ll (tok_value tk) = Some (Z.of_N v).
Proof. Abort.
