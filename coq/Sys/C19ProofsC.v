(* C19 - proofs. Part 3: which Config calls can fail to commute (DESIGN §5 C19, commute_or_listed).  The footprints are translated
   from QPDFJob_config.cc and the Writer::Config setters on every run; the listing is decided by computation over that finite table;
   that non-interfering calls commute is the generic theorem of Sys/JobCommute.v. *)
From Coq Require Import String.
From Coq Require Import List NArith Bool.
From QV Require Import Base.Bytes Sys.JobTypes Gen.JobTables Sys.JobCommute.
Import ListNotations.
Open Scope N_scope.

(* the pairs of Config methods whose footprints interfere on the pinned tree (found mechanically: conflicting_pairs config_footprints,
   Config::jobJsonFile - which can make any call - left out).  The order-sensitive option pairs observed on the real binary
   (known_findings.json, C19:order-sensitive-flags:...) are all instances of pairs in this list; the others are pairs that share a
   member but happen to commute (both orders end in the same configuration), or calls whose order is fixed by the table structure
   (encrypt before its sub-options, a page file before its range). *)
Definition non_commuting_pairs : list ((bstr * bstr) * (bstr * bstr)) := [
   ((B"c_att", B"creationdate"), (B"c_att", B"endAddAttachment"));
   ((B"c_att", B"endAddAttachment"), (B"c_att", B"file"));
   ((B"c_att", B"endAddAttachment"), (B"c_att", B"filename"));
   ((B"c_att", B"endAddAttachment"), (B"c_att", B"key"));
   ((B"c_att", B"endAddAttachment"), (B"c_att", B"moddate"));
   ((B"c_copy_att", B"endCopyAttachmentsFrom"), (B"c_copy_att", B"file"));
   ((B"c_enc", B"annotate"), (B"c_enc", B"modify"));
   ((B"c_enc", B"annotate"), (B"c_main", B"encrypt"));
   ((B"c_enc", B"assemble"), (B"c_enc", B"modify"));
   ((B"c_enc", B"endEncrypt"), (B"c_main", B"copyEncryption"));
   ((B"c_enc", B"endEncrypt"), (B"c_main", B"decrypt"));
   ((B"c_enc", B"endEncrypt"), (B"c_main", B"deterministicId"));
   ((B"c_enc", B"endEncrypt"), (B"c_main", B"encrypt"));
   ((B"c_enc", B"extract"), (B"c_main", B"encrypt"));
   ((B"c_enc", B"form"), (B"c_enc", B"modify"));
   ((B"c_enc", B"modify"), (B"c_enc", B"modifyOther"));
   ((B"c_enc", B"modify"), (B"c_main", B"encrypt"));
   ((B"c_enc", B"print"), (B"c_main", B"encrypt"));
   ((B"c_enc", B"useAes"), (B"c_main", B"encrypt"));
   ((B"c_global", B"maxStreamFilters"), (B"c_global", B"noDefaultLimits"));
   ((B"c_global", B"noDefaultLimits"), (B"c_global", B"parserMaxContainerSizeDamaged"));
   ((B"c_global", B"noDefaultLimits"), (B"c_global", B"parserMaxErrors"));
   ((B"c_main", B"compressStreams"), (B"c_main", B"qdf"));
   ((B"c_main", B"compressStreams"), (B"c_main", B"streamData"));
   ((B"c_main", B"copyEncryption"), (B"c_main", B"decrypt"));
   ((B"c_main", B"copyEncryption"), (B"c_main", B"deterministicId"));
   ((B"c_main", B"decodeLevel"), (B"c_main", B"jsonOutput"));
   ((B"c_main", B"decodeLevel"), (B"c_main", B"qdf"));
   ((B"c_main", B"decodeLevel"), (B"c_main", B"streamData"));
   ((B"c_main", B"decrypt"), (B"c_main", B"deterministicId"));
   ((B"c_main", B"deterministicId"), (B"c_main", B"encrypt"));
   ((B"c_main", B"emptyInput"), (B"c_main", B"inputFile"));
   ((B"c_main", B"inputFile"), (B"c_main", B"pages"));
   ((B"c_main", B"inputFile"), (B"c_pages", B"endPages"));
   ((B"c_main", B"inputFile"), (B"c_pages", B"file"));
   ((B"c_main", B"inputFile"), (B"c_pages", B"pageSpec"));
   ((B"c_main", B"inputFile"), (B"c_pages", B"password"));
   ((B"c_main", B"inputFile"), (B"c_pages", B"range"));
   ((B"c_main", B"json"), (B"c_main", B"jsonOutput"));
   ((B"c_main", B"jsonKey"), (B"c_main", B"jsonOutput"));
   ((B"c_main", B"jsonOutput"), (B"c_main", B"jsonStreamData"));
   ((B"c_main", B"jsonOutput"), (B"c_main", B"qdf"));
   ((B"c_main", B"jsonOutput"), (B"c_main", B"streamData"));
   ((B"c_main", B"linearize"), (B"c_main", B"qdf"));
   ((B"c_main", B"normalizeContent"), (B"c_main", B"qdf"));
   ((B"c_main", B"outputFile"), (B"c_main", B"replaceInput"));
   ((B"c_main", B"overlay"), (B"c_main", B"underlay"));
   ((B"c_main", B"overlay"), (B"c_uo", B"endUnderlayOverlay"));
   ((B"c_main", B"pages"), (B"c_pages", B"file"));
   ((B"c_main", B"pages"), (B"c_pages", B"pageSpec"));
   ((B"c_main", B"pages"), (B"c_pages", B"password"));
   ((B"c_main", B"pages"), (B"c_pages", B"range"));
   ((B"c_main", B"password"), (B"c_main", B"passwordFile"));
   ((B"c_main", B"preserveUnreferencedResources"), (B"c_main", B"removeUnreferencedResources"));
   ((B"c_main", B"qdf"), (B"c_main", B"streamData"));
   ((B"c_main", B"underlay"), (B"c_uo", B"endUnderlayOverlay"));
   ((B"c_pages", B"endPages"), (B"c_pages", B"file"));
   ((B"c_pages", B"endPages"), (B"c_pages", B"pageSpec"));
   ((B"c_pages", B"endPages"), (B"c_pages", B"password"));
   ((B"c_pages", B"endPages"), (B"c_pages", B"range"));
   ((B"c_pages", B"file"), (B"c_pages", B"pageSpec"));
   ((B"c_pages", B"file"), (B"c_pages", B"password"));
   ((B"c_pages", B"file"), (B"c_pages", B"range"));
   ((B"c_pages", B"pageSpec"), (B"c_pages", B"password"));
   ((B"c_pages", B"pageSpec"), (B"c_pages", B"range"));
   ((B"c_pages", B"password"), (B"c_pages", B"range"));
   ((B"c_uo", B"endUnderlayOverlay"), (B"c_uo", B"file"))
].

Definition is_jjf (p : footprint) : bool := bstr_eqb (snd (fp_name p)) B"jobJsonFile".

(* commute_or_listed: two distinct Config methods (Config::jobJsonFile apart) either have non-interfering footprints - conflicting_pairs
   does not report them, and then they commute: footprint_commute - or are listed above; and the list is exact: every listed pair does
   interfere on the current source (a pair that stops interfering is noticed too) *)
Lemma commute_or_listed_lemma :
  (let found := conflicting_pairs (filter (fun p => negb (is_jjf p)) config_footprints) in
   forallb (fun p => pair_listed non_commuting_pairs (fst p) (snd p)) found &&
   forallb (fun p => pair_listed found (fst p) (snd p)) non_commuting_pairs) = true.
Proof. vm_compute. reflexivity. Qed.

(* conflicting_pairs is complete: a conflicting pair of a list is reported *)
Lemma conflicting_pairs_complete_lemma : forall l a b l1 l2 l3,
  l = l1 ++ a :: l2 ++ b :: l3 -> conflict a b = true -> In (fp_name a, fp_name b) (conflicting_pairs l).
Proof.
  intros l a b l1. revert l. induction l1 as [|x l1 IH]; intros l l2 l3 -> Hc.
  - cbn [app conflicting_pairs]. apply in_or_app. left. apply in_map_iff. exists b. split; [reflexivity|].
    apply filter_In. split; [|exact Hc]. apply in_or_app. right. left. reflexivity.
  - cbn [app conflicting_pairs]. apply in_or_app. right. eapply IH; [reflexivity|exact Hc].
Qed.

(* every Config method bound by an option table has a translated footprint *)
Definition target_has_footprint (t : otarget) : bool :=
  match t with
  | TConfig o m => existsb (fun p => name_eqb (fp_name p) (o, m)) config_footprints
  | TManual _ => true
  end.
Lemma footprints_cover_tables_lemma :
  forallb (fun e => target_has_footprint (ae_target e)) argv_table = true /\
  forallb (fun e => target_has_footprint (je_target e)) json_table = true.
Proof. vm_compute. split; reflexivity. Qed.

(* calls whose footprints do not interfere commute, whatever they compute (generic; Sys/JobCommute.v) *)
Lemma footprint_commute_lemma : forall (field value : Type) (field_eq_dec : forall a b : field, {a = b} + {a <> b})
  (a b : op field value), respects field value a -> respects field value b -> independent field value a b ->
  forall s, same_outcome field value (then_ field value a (op_run field value b s)) (then_ field value b (op_run field value a s)).
Proof. exact independent_commute. Qed.
