(* C20 - heap model of qpdf's object graph: object identity, per-document ownership, and the
   process-wide statics that every document shares.  Written from
     libqpdf/QPDFParser.cc      (Parser::parse_remainder / add / add_null / add_scalar, the static null_obj)
     libqpdf/QPDF_Array.cc      (file-static null_oh, sparse representation, push_back/set/erase/getAsVector)
     libqpdf/QPDF_Dictionary.cc (BaseHandle::replace, QPDFObjectHandle::getKey/replaceKey/removeKey/checkOwnership)
     libqpdf/QPDF_objects.cc    (makeIndirectFromQPDFObject, updateCache/replaceObject, getObject, getObjectForParser)
     libqpdf/QPDFObjectHandle.cc(BaseHandle::disconnect, BaseHandle::unparse) and QPDF.cc (QPDF::~QPDF, Disconnect)
     libqpdf/qpdf/QPDFObject_private.hh (QPDFObject: value, qpdf, og; move_to; setObjGen)
   A QPDFObject is a cell; a QPDFObjectHandle is a location.  Locations are (arena, index): one arena per
   document (what that document's operations allocate) and one arena for objects with static storage
   duration.  Nothing observable depends on the numbering.

   The flag [sh] selects the allocation discipline for nulls.  [sh = false] is the code as it is (since fix
   b456e5d1 in /repo: a fresh QPDF_Null for every `null` token and for every hole of a sparse array that is handed
   out); this is the model the correspondence runs against and the theorems are about.  [sh = true] is the
   discipline of the tree before that fix (every `null` token of every parse was THE static object at
   [null_obj_loc], every hole read through getAsVector THE static at [null_oh_loc]); it is kept as a historical
   model: the machine-checked witnesses of finding D6 are stated over it, and the check uses it to recognise the
   finding if it ever comes back.
   No proofs in this file. *)
From QV Require Import Base.Bytes.
Local Open Scope N_scope.

Inductive iloc := LStat (i : nat) | LDoc (d : nat) (i : nat).

Definition iloc_eqb (a b : iloc) : bool :=
  match a, b with
  | LStat i, LStat j => Nat.eqb i j
  | LDoc d i, LDoc e j => Nat.eqb d e && Nat.eqb i j
  | _, _ => false
  end.

(* the variant held by a QPDFObject (only the alternatives the modelled API can produce) *)
Inductive hval :=
| HNull | HBool (b : bool) | HInt (z : Z) | HName (k : N)
| HArr (els : list iloc)
| HSparse (size : nat) (els : list (nat * iloc))      (* QPDF_Array::Sparse: index-sorted map, holes are null *)
| HDict (items : list (N * iloc))                     (* std::map: key-sorted; keys are one byte here *)
| HRef (target : iloc)                                (* QPDF_Reference, left behind by move_to *)
| HReserved | HDestroyed.

Record hcell := mkCell { c_val : hval; c_qpdf : option nat; c_og : N }.

Record docv := mkDocv {
  dv_cells : list hcell;            (* this document's arena *)
  dv_cache : list (N * iloc);       (* m->obj_cache, sorted by object id (generation always 0) *)
  dv_alive : bool;
  dv_roots : list (nat * iloc)      (* handles held by the caller that were obtained from this document *)
}.

Record world := mkWorld { w_stat : list hcell; w_docs : list docv }.

Definition null_obj_loc : iloc := LStat 0.      (* Parser::add_null()::null_obj *)
Definition null_oh_loc : iloc := LStat 1.       (* QPDF_Array.cc: static const QPDFObjectHandle null_oh *)
Definition null_cell : hcell := mkCell HNull None 0.
(* arena 0 is the scratch arena of context-free parses (QPDFObjectHandle::parse(text) has no QPDF argument);
   documents are numbered from 1 *)
Definition scratch_docv : docv := mkDocv [] [] false [].
Definition world0 : world := mkWorld [null_cell; null_cell] [scratch_docv].

(* ---------------------------------------------------------------- lists *)
Fixpoint set_nth {A} (l : list A) (n : nat) (x : A) : list A :=
  match l, n with
  | [], _ => []
  | _ :: t, O => x :: t
  | h :: t, S m => h :: set_nth t m x
  end.

Fixpoint remove_nth {A} (l : list A) (n : nat) : list A :=
  match l, n with
  | [], _ => []
  | _ :: t, O => t
  | h :: t, S m => h :: remove_nth t m
  end.

(* sorted association lists (std::map) *)
Fixpoint nmap_get {A} (m : list (N * A)) (k : N) : option A :=
  match m with
  | [] => None
  | (k', v) :: t => if k' =? k then Some v else nmap_get t k
  end.
Fixpoint nmap_set {A} (m : list (N * A)) (k : N) (v : A) : list (N * A) :=
  match m with
  | [] => [(k, v)]
  | (k', v') :: t => if k <? k' then (k, v) :: m else if k' =? k then (k, v) :: t else (k', v') :: nmap_set t k v
  end.
Fixpoint nmap_del {A} (m : list (N * A)) (k : N) : list (N * A) :=
  match m with
  | [] => []
  | (k', v') :: t => if k' =? k then t else (k', v') :: nmap_del t k
  end.
Fixpoint imap_get {A} (m : list (nat * A)) (k : nat) : option A :=
  match m with
  | [] => None
  | (k', v) :: t => if Nat.eqb k' k then Some v else imap_get t k
  end.
Fixpoint imap_set {A} (m : list (nat * A)) (k : nat) (v : A) : list (nat * A) :=
  match m with
  | [] => [(k, v)]
  | (k', v') :: t => if Nat.ltb k k' then (k, v) :: m else if Nat.eqb k' k then (k, v) :: t else (k', v') :: imap_set t k v
  end.
(* QPDF_Array erase on the sparse representation: drop index n, shift the larger indices down *)
Fixpoint imap_erase_shift {A} (m : list (nat * A)) (n : nat) : list (nat * A) :=
  match m with
  | [] => []
  | (k, v) :: t => if Nat.eqb k n then imap_erase_shift t n
                   else if Nat.ltb n k then (pred k, v) :: imap_erase_shift t n
                   else (k, v) :: imap_erase_shift t n
  end.

(* ---------------------------------------------------------------- heap access *)
Definition hget (w : world) (l : iloc) : option hcell :=
  match l with
  | LStat i => nth_error (w_stat w) i
  | LDoc d i => match nth_error (w_docs w) d with Some dv => nth_error (dv_cells dv) i | None => None end
  end.

Definition set_dv (w : world) (d : nat) (dv : docv) : world := mkWorld (w_stat w) (set_nth (w_docs w) d dv).

Definition hset (w : world) (l : iloc) (c : hcell) : world :=
  match l with
  | LStat i => mkWorld (set_nth (w_stat w) i c) (w_docs w)
  | LDoc d i => match nth_error (w_docs w) d with
                | Some dv => set_dv w d (mkDocv (set_nth (dv_cells dv) i c) (dv_cache dv) (dv_alive dv) (dv_roots dv))
                | None => w
                end
  end.

(* operator new inside an operation of document a *)
Definition halloc (w : world) (a : nat) (c : hcell) : world * iloc :=
  match nth_error (w_docs w) a with
  | Some dv => (set_dv w a (mkDocv (dv_cells dv ++ [c]) (dv_cache dv) (dv_alive dv) (dv_roots dv)),
                LDoc a (length (dv_cells dv)))
  | None => (w, LDoc a 0)
  end.

Definition cval (w : world) (l : iloc) : hval := match hget w l with Some c => c_val c | None => HDestroyed end.
Definition cog (w : world) (l : iloc) : N := match hget w l with Some c => c_og c | None => 0 end.
Definition cqpdf (w : world) (l : iloc) : option nat := match hget w l with Some c => c_qpdf c | None => None end.

(* as<T>() / type_code(): one QPDF_Reference is followed *)
Definition target (w : world) (l : iloc) : iloc := match cval w l with HRef t => t | _ => l end.
Definition is_null_h (w : world) (l : iloc) : bool := match cval w (target w l) with HNull => true | _ => false end.
Definition is_arr_h (w : world) (l : iloc) : bool :=
  match cval w (target w l) with HArr _ | HSparse _ _ => true | _ => false end.
Definition is_dict_h (w : world) (l : iloc) : bool := match cval w (target w l) with HDict _ => true | _ => false end.
(* getArrayNItems(): BaseHandle::size() switches on resolved_type_code(), which does NOT follow a QPDF_Reference
   (it answers 0 for one), although isArray() does *)
Definition arr_size (w : world) (l : iloc) : nat :=
  match cval w l with HArr els => length els | HSparse n _ => n | _ => O end.

Definition set_val (w : world) (l : iloc) (v : hval) : world :=
  match hget w l with Some c => hset w l (mkCell v (c_qpdf c) (c_og c)) | None => w end.

Definition dv_get (w : world) (d : nat) : option docv := nth_error (w_docs w) d.
Definition alive (w : world) (d : nat) : bool := match dv_get w d with Some dv => dv_alive dv | None => false end.

Fixpoint cache_max (m : list (N * iloc)) : N := match m with [] => 0 | (k, _) :: t => N.max k (cache_max t) end.
(* QPDF::getObjectCount *)
Definition objcount (w : world) (d : nat) : N := match dv_get w d with Some dv => cache_max (dv_cache dv) | None => 0 end.

Definition set_cache (w : world) (d : nat) (id : N) (l : iloc) : world :=
  match dv_get w d with
  | Some dv => set_dv w d (mkDocv (dv_cells dv) (nmap_set (dv_cache dv) id l) (dv_alive dv) (dv_roots dv))
  | None => w
  end.
Definition set_root (w : world) (d : nat) (r : nat) (l : iloc) : world :=
  match dv_get w d with
  | Some dv => set_dv w d (mkDocv (dv_cells dv) (dv_cache dv) (dv_alive dv) (imap_set (dv_roots dv) r l))
  | None => w
  end.

(* fresh QPDF_Null the way the repaired discipline allocates it; the shared cell otherwise *)
Definition parsed_null (sh : bool) (w : world) (a : nat) : world * iloc :=
  if sh then (w, null_obj_loc) else halloc w a null_cell.
Definition hole_null (sh : bool) (w : world) (a : nat) : world * iloc :=
  if sh then (w, null_oh_loc) else halloc w a null_cell.

(* ---------------------------------------------------------------- the parser (a stack machine over tokens) *)
Inductive itok := ItNull | ItBool (b : bool) | ItInt (z : Z) | ItName (k : N) | ItRef (id : N) | ItAO | ItAC | ItDO | ItDC.
Inductive fkind := FArr | FDictKey | FDictVal (k : N).
Record pframe := mkFrame { f_kind : fkind; f_olist : list iloc (* reversed *); f_dict : list (N * iloc); f_nulls : nat }.

(* Parser::add *)
Definition frame_add (f : pframe) (l : iloc) : option pframe :=
  match f_kind f with
  | FArr => Some (mkFrame FArr (l :: f_olist f) (f_dict f) (f_nulls f))
  | FDictVal k => Some (mkFrame FDictKey (f_olist f) (nmap_set (f_dict f) k l) (f_nulls f))
  | FDictKey => None        (* a non-name where a key is expected: not generated *)
  end.
Definition frame_null (f : pframe) : pframe := mkFrame (f_kind f) (f_olist f) (f_dict f) (S (f_nulls f)).

(* QPDF_Array(std::vector&&, sparse = true): direct nulls become holes *)
Fixpoint sparse_of (w : world) (els : list iloc) (i : nat) : list (nat * iloc) :=
  match els with
  | [] => []
  | l :: t => let keep := match cval w l with HNull => negb (cog w l =? 0) | _ => true end in
              if keep then (i, l) :: sparse_of w t (S i) else sparse_of w t (S i)
  end.

(* Objects::getObjectForParser(id, 0, parse_pdf = false) *)
Definition obj_for_parser (w : world) (a : nat) (id : N) : world * iloc :=
  match dv_get w a with
  | Some dv => match nmap_get (dv_cache dv) id with
               | Some l => (w, l)
               | None => let (w1, l) := halloc w a (mkCell HNull (Some a) id) in (set_cache w1 a id l, l)
               end
  | None => (w, LDoc a 0)
  end.

(* ctx: the QPDF* given to QPDFObjectHandle::parse (setDescription stores it in every object it creates) *)
Fixpoint parse_toks (sh : bool) (ctx : option nat) (a : nat) (w : world) (stack : list pframe) (toks : list itok)
  : option (world * iloc) :=
  match toks with
  | [] => None
  | t :: rest =>
    let scalar v :=
      match stack with
      | [] => None
      | f :: st => let (w1, l) := halloc w a (mkCell v ctx 0) in
                   match frame_add f l with Some f' => parse_toks sh ctx a w1 (f' :: st) rest | None => None end
      end in
    match t with
    | ItNull =>
      match stack with
      | [] => None
      | f :: st => let (w1, l) := parsed_null sh w a in
                   match frame_add f l with Some f' => parse_toks sh ctx a w1 (frame_null f' :: st) rest | None => None end
      end
    | ItBool b => scalar (HBool b)
    | ItInt z => scalar (HInt z)
    | ItName k =>
      match stack with
      | f :: st => match f_kind f with
                   | FDictKey => parse_toks sh ctx a w (mkFrame (FDictVal k) (f_olist f) (f_dict f) (f_nulls f) :: st) rest
                   | _ => scalar (HName k)
                   end
      | [] => None
      end
    | ItRef id =>
      match ctx, stack with
      | Some _, f :: st => let (w1, l) := obj_for_parser w a id in
                           match frame_add f l with Some f' => parse_toks sh ctx a w1 (f' :: st) rest | None => None end
      | _, _ => None
      end
    | ItAO => parse_toks sh ctx a w (mkFrame FArr [] [] O :: stack) rest
    | ItDO => parse_toks sh ctx a w (mkFrame FDictKey [] [] O :: stack) rest
    | ItAC =>
      match stack with
      | f :: st =>
        match f_kind f with
        | FArr =>
          let els := rev' (f_olist f) in
          let v := if Nat.ltb 100 (f_nulls f) then HSparse (length els) (sparse_of w els O) else HArr els in
          let (w1, l) := halloc w a (mkCell v ctx 0) in
          match st with
          | [] => Some (w1, l)
          | f2 :: st2 => match frame_add f2 l with Some f' => parse_toks sh ctx a w1 (f' :: st2) rest | None => None end
          end
        | _ => None
        end
      | [] => None
      end
    | ItDC =>
      match stack with
      | f :: st =>
        match f_kind f with
        | FDictKey =>
          let (w1, l) := halloc w a (mkCell (HDict (f_dict f)) ctx 0) in
          match st with
          | [] => Some (w1, l)
          | f2 :: st2 => match frame_add f2 l with Some f' => parse_toks sh ctx a w1 (f' :: st2) rest | None => None end
          end
        | _ => None
        end
      | [] => None
      end
    end
  end.

Definition parse_obj (sh : bool) (ctx : option nat) (a : nat) (w : world) (toks : list itok) : option (world * iloc) :=
  match toks with
  | ItAO :: _ | ItDO :: _ => parse_toks sh ctx a w [] toks
  | _ => None
  end.

(* ---------------------------------------------------------------- handle expressions *)
Inductive hstep := SIdx (n : nat) | SVec (n : nat) | SKey (k : N).
Inductive hhead := ERoot (r : nat) | EObj (id : N) | ENewInt (z : Z) | ENewNull | ENewName (k : N) | ENewArr | ENewDict.
Definition hexpr := (hhead * list hstep)%type.

Definition nav1 (sh : bool) (a : nat) (w : world) (l : iloc) (s : hstep) : option (world * iloc) :=
  let t := target w l in
  match s with
  | SIdx n =>           (* QPDFObjectHandle::getArrayItem, guarded by isArray() and 0 <= n < getArrayNItems() *)
    if negb (Nat.ltb n (arr_size w l)) then None else
    match cval w t with
    | HArr els => match nth_error els n with Some e => Some (w, e) | None => None end
    | HSparse sz els => if Nat.ltb n sz then
                          match imap_get els n with Some e => Some (w, e) | None => Some (halloc w a null_cell) end
                        else None
    | _ => None
    end
  | SVec n =>           (* getArrayAsVector().at(n) *)
    if negb (Nat.ltb n (arr_size w l)) then None else
    match cval w t with
    | HArr els => match nth_error els n with Some e => Some (w, e) | None => None end
    | HSparse sz els => if Nat.ltb n sz then
                          match imap_get els n with Some e => Some (w, e) | None => Some (hole_null sh w a) end
                        else None
    | _ => None
    end
  | SKey k =>           (* getKey, guarded by isDictionary(); a missing key gives QPDF_Null::create(obj, ...) *)
    match cval w t with
    | HDict items => match nmap_get items k with
                     | Some e => Some (w, e)
                     | None => Some (halloc w a (mkCell HNull (cqpdf w l) 0))
                     end
    | _ => None
    end
  end.

Fixpoint nav (sh : bool) (a : nat) (w : world) (l : iloc) (p : list hstep) : option (world * iloc) :=
  match p with
  | [] => Some (w, l)
  | s :: p' => match nav1 sh a w l s with Some (w1, l1) => nav sh a w1 l1 p' | None => None end
  end.

Definition eval_head (a : nat) (w : world) (h : hhead) : option (world * iloc) :=
  match h with
  | ERoot r => match dv_get w a with
               | Some dv => match imap_get (dv_roots dv) r with Some l => Some (w, l) | None => None end
               | None => None
               end
  | EObj id => match dv_get w a with
               | Some dv => if dv_alive dv && (3 <=? id) && (id <=? cache_max (dv_cache dv)) then
                              match nmap_get (dv_cache dv) id with
                              | Some l => Some (w, l)
                              | None => Some (halloc w a null_cell)     (* QPDF::getObject of an unknown id *)
                              end
                            else None
               | None => None
               end
  | ENewInt z => Some (halloc w a (mkCell (HInt z) None 0))
  | ENewNull => Some (halloc w a null_cell)
  | ENewName k => Some (halloc w a (mkCell (HName k) None 0))
  | ENewArr => Some (halloc w a (mkCell (HArr []) None 0))
  | ENewDict => Some (halloc w a (mkCell (HDict []) None 0))
  end.

Definition eval_hx (sh : bool) (a : nat) (w : world) (e : hexpr) : option (world * iloc) :=
  match dv_get w a with
  | None => None
  | Some _ => match eval_head a w (fst e) with Some (w1, l) => nav sh a w1 l (snd e) | None => None end
  end.

(* a value that is put into a container must be a scalar, an indirect object or a freshly made object *)
Definition eval_vx (sh : bool) (a : nat) (w : world) (e : hexpr) : option (world * iloc) :=
  match eval_hx sh a w e with
  | Some (w1, l) =>
    match fst e with
    | ERoot _ | EObj _ => if (is_arr_h w1 l || is_dict_h w1 l) && (cog w1 l =? 0) then None else Some (w1, l)
    | _ => Some (w1, l)
    end
  | None => None
  end.

(* ---------------------------------------------------------------- operations *)
Inductive iop :=
| OpNewDoc                                   (* QPDF q; q.emptyPDF() *)
| OpParse (r : nat) (toks : list itok)       (* root r := QPDFObjectHandle::parse(&q, text) *)
| OpHold (r : nat) (h : hexpr)               (* root r := handle *)
| OpMakeInd (h : hexpr)                      (* q.makeIndirectObject(h) *)
| OpReplaceKey (h : hexpr) (k : N) (v : hexpr)
| OpRemoveKey (h : hexpr) (k : N)
| OpAppend (h : hexpr) (v : hexpr)
| OpSetItem (h : hexpr) (n : nat) (v : hexpr)
| OpErase (h : hexpr) (n : nat)
| OpReplaceObj (id : N) (v : hexpr)          (* q.replaceObject(id, 0, v) *)
| OpDestroy                                  (* ~QPDF *)
| OpObserve                                  (* QPDFWriter::write (default configuration): no effect on the modelled state *)
| OpJson.                                    (* QPDF::writeJSON: getAllObjects() re-labels every cached object with its key *)

Inductive ires := IrOk | IrSkip | IrLogic.

(* QPDFObjectHandle::checkOwnership / Array::checkOwnership *)
Definition own_clash (w : world) (h v : iloc) : bool :=
  match cqpdf w h, cqpdf w v with
  | Some x, Some y => negb (Nat.eqb x y)
  | _, _ => false
  end.

Definition new_docv (d : nat) : docv :=
  mkDocv [mkCell HReserved (Some d) 1; mkCell HReserved (Some d) 2] [(1, LDoc d O); (2, LDoc d 1)] true [].

(* BaseHandle::disconnect: children first (only direct ones), then this object's qpdf and og *)
Fixpoint disconnect (fuel : nat) (only_direct : bool) (w : world) (l : iloc) : world :=
  match fuel with
  | O => w
  | S f =>
    match hget w l with
    | None => w
    | Some c =>
      if only_direct && negb (c_og c =? 0) then w else
      let w1 := match c_val c with
                | HArr els => fold_left (fun wa e => disconnect f true wa e) els w
                | HSparse _ els => fold_left (fun wa e => disconnect f true wa (snd e)) els w
                | HDict items => fold_left (fun wa e => disconnect f true wa (snd e)) items w
                | _ => w
                end in
      match hget w1 l with
      | Some c1 => hset w1 l (mkCell (c_val c1) None 0)
      | None => w1
      end
    end
  end.

Definition disc_fuel : nat := 24.

(* class Disconnect (QPDF.cc): disconnect(false), then everything but a null becomes QPDF_Destroyed *)
Definition destroy_entry (w : world) (l : iloc) : world :=
  let w1 := disconnect disc_fuel false w l in
  match cval w1 l with HNull => w1 | _ => set_val w1 l HDestroyed end.

(* the caller's variables: root number r belongs to document r / 10 *)
Definition root_ok (a r : nat) : bool := Nat.eqb (Nat.div r 10) a.

(* ---------------------------------------------------------------- observation: QPDFObjectHandle::unparse *)
Definition s_null : list N := [110; 117; 108; 108].
Definition s_true : list N := [116; 114; 117; 101].
Definition s_false : list N := [102; 97; 108; 115; 101].
Definition s_ref (og : N) : list N := dec_of_N og ++ [32; 48; 32; 82].     (* "<og> 0 R" *)

Fixpoint concat_opt (l : list (option (list N))) : option (list N) :=
  match l with
  | [] => Some []
  | None :: _ => None
  | Some x :: t => match concat_opt t with Some y => Some (x ++ y) | None => None end
  end.

Fixpoint null_run (n : nat) : list N := match n with O => [] | S m => s_null ++ [32] ++ null_run m end.

(* sparse array: holes print as "null " *)
Fixpoint sparse_parts (pr : iloc -> option (list N)) (els : list (nat * iloc)) (next size : nat) : list (option (list N)) :=
  match els with
  | [] => [Some (null_run (size - next))]
  | (k, e) :: t => Some (null_run (k - next)) :: (match pr e with Some s => Some (s ++ [32]) | None => None end)
                   :: sparse_parts pr t (S k) size
  end.

(* None = the call throws std::logic_error (reserved / destroyed object) *)
Fixpoint unparse_res (fuel : nat) (w : world) (l : iloc) : option (list N) :=
  match fuel with
  | O => None
  | S f =>
    let item e := if cog w e =? 0 then unparse_res f w e else Some (s_ref (cog w e)) in
    match cval w l with
    | HNull => Some s_null
    | HBool b => Some (if b then s_true else s_false)
    | HInt z => Some (dec_of_Z z)
    | HName k => Some [47; k]
    | HArr els =>
      match concat_opt (map (fun e => match item e with Some s => Some (s ++ [32]) | None => None end) els) with
      | Some s => Some ([91; 32] ++ s ++ [93])
      | None => None
      end
    | HSparse sz els =>
      match concat_opt (sparse_parts item els O sz) with
      | Some s => Some ([91; 32] ++ s ++ [93])
      | None => None
      end
    | HDict items =>
      match concat_opt (map (fun kv => if is_null_h w (snd kv) then Some []
                                       else match item (snd kv) with
                                            | Some s => Some ([47; fst kv; 32] ++ s ++ [32])
                                            | None => None
                                            end) items) with
      | Some s => Some ([60; 60; 32] ++ s ++ [62; 62])
      | None => None
      end
    | HRef _ => Some (s_ref (cog w l))
    | HReserved => None
    | HDestroyed => None
    end
  end.

Definition unp_fuel : nat := 16.

Definition json_unwritable (w : world) (cache : list (N * iloc)) : bool :=
  existsb (fun e => (3 <=? fst e) && match unparse_res unp_fuel w (snd e) with None => true | Some _ => false end) cache.

Definition step (sh : bool) (a : nat) (w : world) (op : iop) : world * ires :=
  match op with
  | OpNewDoc => if Nat.eqb a (length (w_docs w)) then (mkWorld (w_stat w) (w_docs w ++ [new_docv a]), IrOk) else (w, IrSkip)
  | OpParse r toks =>
    if alive w a && root_ok a r then
      match parse_obj sh (Some a) a w toks with
      | Some (w1, l) => (set_root w1 a r l, IrOk)
      | None => (w, IrSkip)
      end
    else (w, IrSkip)
  | OpHold r h =>
    if root_ok a r then
      match eval_hx sh a w h with Some (w1, l) => (set_root w1 a r l, IrOk) | None => (w, IrSkip) end
    else (w, IrSkip)
  | OpMakeInd h =>
    if alive w a then
      match eval_hx sh a w h with
      | Some (w1, l) =>
        let next := objcount w1 a + 1 in
        let w2 := set_cache w1 a next l in
        (match hget w2 l with Some c => hset w2 l (mkCell (c_val c) (Some a) next) | None => w2 end, IrOk)
      | None => (w, IrSkip)
      end
    else (w, IrSkip)
  | OpReplaceKey h k v =>
    match eval_hx sh a w h with
    | Some (w1, lh) =>
      if is_dict_h w1 lh then
        match eval_vx sh a w1 v with
        | Some (w2, lv) =>
          if own_clash w2 lh lv then (w2, IrLogic) else
          let t := target w2 lh in
          match cval w2 t with
          | HDict items =>
            if is_null_h w2 lv && (cog w2 lv =? 0) then (set_val w2 t (HDict (nmap_del items k)), IrOk)
            else (set_val w2 t (HDict (nmap_set items k lv)), IrOk)
          | _ => (w2, IrOk)
          end
        | None => (w, IrSkip)
        end
      else (w, IrSkip)
    | None => (w, IrSkip)
    end
  | OpRemoveKey h k =>
    match eval_hx sh a w h with
    | Some (w1, lh) =>
      if is_dict_h w1 lh then
        let t := target w1 lh in
        match cval w1 t with
        | HDict items => (set_val w1 t (HDict (nmap_del items k)), IrOk)
        | _ => (w1, IrOk)
        end
      else (w, IrSkip)
    | None => (w, IrSkip)
    end
  | OpAppend h v =>
    match eval_hx sh a w h with
    | Some (w1, lh) =>
      if is_arr_h w1 lh then
        match eval_vx sh a w1 v with
        | Some (w2, lv) =>
          if own_clash w2 lh lv then (w2, IrLogic) else
          let t := target w2 lh in
          match cval w2 t with
          | HArr els => (set_val w2 t (HArr (els ++ [lv])), IrOk)
          | HSparse sz els => (set_val w2 t (HSparse (S sz) (imap_set els sz lv)), IrOk)
          | _ => (w2, IrOk)
          end
        | None => (w, IrSkip)
        end
      else (w, IrSkip)
    | None => (w, IrSkip)
    end
  | OpSetItem h n v =>
    match eval_hx sh a w h with
    | Some (w1, lh) =>
      if is_arr_h w1 lh && Nat.ltb n (arr_size w1 lh) then
        match eval_vx sh a w1 v with
        | Some (w2, lv) =>
          if own_clash w2 lh lv then (w2, IrLogic) else
          let t := target w2 lh in
          match cval w2 t with
          | HArr els => (set_val w2 t (HArr (set_nth els n lv)), IrOk)
          | HSparse sz els => (set_val w2 t (HSparse sz (imap_set els n lv)), IrOk)
          | _ => (w2, IrOk)
          end
        | None => (w, IrSkip)
        end
      else (w, IrSkip)
    | None => (w, IrSkip)
    end
  | OpErase h n =>
    match eval_hx sh a w h with
    | Some (w1, lh) =>
      if is_arr_h w1 lh && Nat.ltb n (arr_size w1 lh) then
        let t := target w1 lh in
        match cval w1 t with
        | HArr els => (set_val w1 t (HArr (remove_nth els n)), IrOk)
        | HSparse sz els => (set_val w1 t (HSparse (pred sz) (imap_erase_shift els n)), IrOk)
        | _ => (w1, IrOk)
        end
      else (w, IrSkip)
    | None => (w, IrSkip)
    end
  | OpReplaceObj id v =>
    if alive w a && (3 <=? id) && (id <=? objcount w a) then
      match eval_hx sh a w v with
      | Some (w1, lv) =>
        if negb (cog w1 lv =? 0) then (w, IrSkip) else
        (* Objects::updateCache: object->setObjGen(&qpdf, og); cached ? object->move_to(cache.object, false) : insert *)
        let w2 := match hget w1 lv with Some c => hset w1 lv (mkCell (c_val c) (Some a) id) | None => w1 end in
        match dv_get w2 a with
        | Some dv =>
          match nmap_get (dv_cache dv) id with
          | Some lc =>
            let w3 := hset w2 lc (mkCell (cval w2 lv) (Some a) id) in
            (set_val w3 lv (HRef lc), IrOk)
          | None => (set_cache w2 a id lv, IrOk)
          end
        | None => (w2, IrOk)
        end
      | None => (w, IrSkip)
      end
    else (w, IrSkip)
  | OpDestroy =>
    match dv_get w a with
    | Some dv =>
      if dv_alive dv then
        let w1 := fold_left (fun wa e => destroy_entry wa (snd e)) (dv_cache dv) w in
        match dv_get w1 a with
        | Some dv1 => (set_dv w1 a (mkDocv (dv_cells dv1) [] false (dv_roots dv1)), IrOk)
        | None => (w1, IrOk)
        end
      else (w, IrSkip)
    | None => (w, IrSkip)
    end
  | OpObserve => if alive w a then (w, IrOk) else (w, IrSkip)
  | OpJson =>
    match dv_get w a with
    | Some dv =>
      if dv_alive dv then
        (* Objects::newIndirect -> setDefaultDescription(&qpdf, og) for every entry of obj_cache, in key order *)
        let w1 := fold_left (fun wa e => match hget wa (snd e) with
                                         | Some c => hset wa (snd e) (mkCell (c_val c) (Some a) (fst e))
                                         | None => wa
                                         end) (dv_cache dv) w in
        (* ... then every object is written; a destroyed / reserved object cannot be (std::logic_error) *)
        (w1, if json_unwritable w1 (dv_cache dv) then IrLogic else IrOk)
      else (w, IrSkip)
    | None => (w, IrSkip)
    end
  end.

(* ---------------------------------------------------------------- what a caller can see *)
Definition unparse_h (w : world) (l : iloc) : option (list N) :=
  if cog w l =? 0 then unparse_res unp_fuel w l else Some (s_ref (cog w l)).
Definition show (o : option (list N)) : list N := match o with Some s => s | None => [33; 76] end.   (* "!L" *)

(* what a caller can see of document d: every object id 3..getObjectCount (while alive), every held handle *)
Fixpoint ids_from (n : nat) (from : N) : list N := match n with O => [] | S m => from :: ids_from m (from + 1) end.

Definition obs_objects (w : world) (d : nat) : list (N * list N) :=
  match dv_get w d with
  | Some dv => if dv_alive dv then
                 map (fun id => (id, match nmap_get (dv_cache dv) id with
                                     | Some l => show (unparse_res unp_fuel w l)
                                     | None => s_null
                                     end)) (ids_from (N.to_nat (cache_max (dv_cache dv) - 2)) 3)
               else []
  | None => []
  end.
Definition obs_roots (w : world) (d : nat) : list (nat * (list N * list N)) :=
  match dv_get w d with
  | Some dv => map (fun rl => (fst rl, (show (unparse_h w (snd rl)), show (unparse_res unp_fuel w (snd rl))))) (dv_roots dv)
  | None => []
  end.
Definition obs_doc (w : world) (d : nat) : list (N * list N) * list (nat * (list N * list N)) := (obs_objects w d, obs_roots w d).

(* fresh-parse probes (no context): "[ null 1 << /K null /L [ null ] >> ]" and a 102-element array with 101 nulls *)
Definition probe1_toks : list itok := [ItAO; ItNull; ItInt 1; ItDO; ItName 75; ItNull; ItName 76; ItAO; ItNull; ItAC; ItDC; ItAC].
Definition probe2_toks : list itok := ItAO :: ItInt 5 :: repeat ItNull 101 ++ [ItAC].
Definition probe_world (w : world) : world := w.

Definition parse_fresh (sh : bool) (w : world) (toks : list itok) : option (list N) :=
  let a := O in
  match parse_obj sh None a (probe_world w) toks with
  | Some (w1, l) => unparse_h w1 l
  | None => None
  end.

Definition probe2_expect : list N := [91; 32; 53; 32] ++ null_run 101 ++ [93].
Definition obs_probe2 (sh : bool) (w : world) : list N :=
  let a := O in
  match parse_obj sh None a (probe_world w) probe2_toks with
  | Some (w1, l) =>
    let item p := match nav1 sh a w1 l p with Some (w2, e) => unparse_h w2 e | None => Some [63] end in
    show (concat_opt [Some (dec_of_N (N.of_nat (arr_size w1 l)) ++ [58]); item (SVec 0); Some [44]; item (SVec 1); Some [44];
                      item (SVec 101); Some [44]; item (SIdx 3); Some [44];
                      match unparse_h w1 l with
                      | Some u => Some (if list_eqb N.eqb u probe2_expect then [61] else u)
                      | None => None
                      end])
  | None => [33; 76]
  end.

Definition obs_fresh (sh : bool) (w : world) : list N :=
  [70; 61] ++ show (parse_fresh sh w probe1_toks) ++ [126] ++ obs_probe2 sh w.

(* the dump line the driver prints (harness/drv_isolation.cc World::dump, JSON hashes removed) *)
Definition dump_doc (w : world) (d : nat) : list N :=
  match dv_get w d with
  | Some dv =>
    (if dv_alive dv then
       [100] ++ dec_of_N (N.of_nat d) ++ [123] ++
       flat_map (fun p => dec_of_N (fst p) ++ [61] ++ snd p ++ [59]) (obs_objects w d) ++ [125; 32]
     else [])
  | None => []
  end.
(* root numbers are 10 * d + k (enforced by [root_ok]), so per-document order is the driver's map order *)
Definition dump_roots (w : world) : list N :=
  flat_map (fun d => flat_map (fun p => [114] ++ dec_of_N (N.of_nat (fst p)) ++ [64] ++ dec_of_N (N.of_nat d) ++ [61] ++
                                        fst (snd p) ++ [126] ++ snd (snd p) ++ [32]) (obs_roots w d))
           (seq 0 (length (w_docs w))).
Definition dump_world (sh : bool) (w : world) : list N :=
  flat_map (dump_doc w) (seq 0 (length (w_docs w))) ++ dump_roots w ++ obs_fresh sh w.

(* a history: operations tagged with the document that performs them *)
Definition run_hist (sh : bool) (w : world) (h : list (nat * iop)) : list (ires * list N) * world :=
  fold_left (fun acc aop => let (w1, r) := step sh (fst aop) (snd acc) (snd aop) in
                            (fst acc ++ [(r, dump_world sh w1)], w1)) h ([], w).

Definition iso_run (sh : bool) (h : list (nat * iop)) : list N * list (ires * list N) :=
  (dump_world sh world0, fst (run_hist sh world0 h)).
