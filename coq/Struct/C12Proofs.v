(* Proofs for C12 (page ranges, collation, splitting, rotation). Statements are fixed;
   Props/Properties_C12.v re-exports them with `exact`. *)
From QV Require Import Base.Bytes Struct.NumRange Struct.RangeSpec Struct.PageOps.
From Coq Require Import Lia.
(* needed so that the qualified name Permutation.Permutation in collate_perm_lemma resolves *)
From Coq Require Permutation.

(* ---------- page ranges: parse_numrange refines range_spec ---------- *)

Fixpoint nr_run (gps : list (group * list Z)) (rr lg : list Z) : list Z :=
  match gps with
  | [] => rev rr ++ lg
  | (g, p) :: t => if g_excl g then nr_run t rr (filter (fun n => negb (zmem n p)) lg)
                   else nr_run t (rev_append lg rr) p
  end.

Definition nr_step (max : Z) (g : list N) (first : bool) : option (group * list Z) :=
  match group_of g with
  | None => None
  | Some gr => if first && g_excl gr then None else
               match den_group max gr with None => None | Some w => Some (gr, w) end
  end.

Lemma nr_final : forall rr lg : list Z, rev' (rev_append lg rr) = rev rr ++ lg.
Proof.
  intros rr lg. rewrite rev'_rev, rev_append_rev, rev_app_distr, rev_involutive. reflexivity.
Qed.

Lemma loop_step : forall f max body pos first rr lg, body <> [] ->
  nr_ok (groups_loop (S f) max body pos first rr lg) =
  match nr_step max (fst (split_first 44%N body)) first with
  | None => None
  | Some (gr, w) =>
      let rr' := if g_excl gr then rr else rev_append lg rr in
      let lg' := if g_excl gr then filter (fun n => negb (zmem n w)) lg else w in
      match snd (split_first 44%N body) with
      | None => Some (rev rr' ++ lg')
      | Some [] => None
      | Some rest =>
          nr_ok (groups_loop f max rest (pos + lenN (fst (split_first 44%N body)) + 1)%N
                             false rr' lg')
      end
  end.
Proof.
  intros f max body pos first rr lg Hne.
  destruct body as [|x body]; [contradiction|].
  cbn [groups_loop].
  destruct (split_first 44%N (x :: body)) as [g after].
  cbn [fst snd]. unfold nr_step, group_of.
  destruct (match_group g) as [[[ex n1] on2]|]; [|reflexivity].
  cbn [g_excl].
  destruct (first && ex); [reflexivity|].
  unfold den_group. cbn [g_first g_last].
  destruct (eval_num max n1) as [a|]; [|reflexivity].
  destruct on2 as [n2|].
  - destruct (eval_num max n2) as [b|]; [|reflexivity].
    destruct ex; cbn [g_excl]; cbv zeta; destruct after as [[|y rest]|];
      try reflexivity; cbn [nr_ok]; rewrite nr_final; reflexivity.
  - destruct ex; cbn [g_excl]; cbv zeta; destruct after as [[|y rest]|];
      try reflexivity; cbn [nr_ok]; rewrite nr_final; reflexivity.
Qed.

Lemma split_first_on : forall c s,
  split_on c s = match split_first c s with
                 | (g, None) => [g]
                 | (g, Some rest) => g :: split_on c rest
                 end.
Proof.
  intros c. induction s as [|x t IH].
  - reflexivity.
  - cbn [split_on split_first]. destruct (N.eqb x c); [reflexivity|].
    rewrite IH. destruct (split_first c t) as [a [r|]]; reflexivity.
Qed.

Lemma split_first_length : forall c s g rest,
  split_first c s = (g, Some rest) -> (length rest < length s)%nat.
Proof.
  intros c. induction s as [|x t IH]; intros g rest H.
  - discriminate.
  - cbn [split_first] in H. destruct (N.eqb x c).
    + injection H as _ <-. cbn [length]. lia.
    + destruct (split_first c t) as [a [r|]] eqn:E; [|discriminate].
      injection H as _ <-. specialize (IH a r eq_refl). cbn [length]. lia.
Qed.

Lemma loop_run : forall max fuel body pos first rr lg, body <> [] -> (length body < fuel)%nat ->
  nr_ok (groups_loop fuel max body pos first rr lg) =
  match all_some (map group_of (split_on 44%N body)) with
  | None => None
  | Some gs =>
      if first && match gs with g :: _ => g_excl g | [] => false end then None else
      match all_some (map (den_group max) gs) with
      | None => None
      | Some pages => Some (nr_run (combine gs pages) rr lg)
      end
  end.
Proof.
  intros max. induction fuel as [|f IH]; intros body pos first rr lg Hne Hlen; [lia|].
  rewrite loop_step by assumption.
  rewrite (split_first_on 44%N body).
  destruct (split_first 44%N body) as [g after] eqn:Esf.
  cbn [fst snd]. unfold nr_step.
  destruct after as [rest|].
  - cbn [map all_some].
    destruct (group_of g) as [gr|]; [|reflexivity].
    destruct rest as [|y rest'].
    + (* trailing comma *)
      cbn [split_on map]. change (group_of []) with (@None group). cbn [all_some].
      destruct (first && g_excl gr); [reflexivity|].
      destruct (den_group max gr); reflexivity.
    + pose proof (split_first_length _ _ _ _ Esf) as Hl.
      destruct (first && g_excl gr) eqn:Efx.
      * destruct (all_some (map group_of (split_on 44%N (y :: rest')))); [|reflexivity].
        rewrite Efx. reflexivity.
      * destruct (den_group max gr) as [w|] eqn:Eden.
        -- cbv zeta. rewrite IH by (try discriminate; lia).
           destruct (all_some (map group_of (split_on 44%N (y :: rest')))) as [gs'|];
             [|reflexivity].
           rewrite Efx. cbn [andb map all_some]. rewrite Eden.
           destruct (all_some (map (den_group max) gs')) as [pages'|]; [|reflexivity].
           cbn [combine nr_run]. destruct (g_excl gr); reflexivity.
        -- destruct (all_some (map group_of (split_on 44%N (y :: rest')))) as [gs'|];
             [|reflexivity].
           rewrite Efx. cbn [map all_some]. rewrite Eden. reflexivity.
  - cbn [map all_some].
    destruct (group_of g) as [gr|]; [|reflexivity].
    destruct (first && g_excl gr); [reflexivity|].
    cbn [map all_some].
    destruct (den_group max gr) as [w|]; [|reflexivity].
    cbv zeta. cbn [combine nr_run]. destruct (g_excl gr); reflexivity.
Qed.

Lemma filter_excl_cons : forall (p : list Z) (pend : list (list Z)) (lg : list Z),
  filter (fun n => negb (existsb (zmem n) pend)) (filter (fun n => negb (zmem n p)) lg)
  = filter (fun n => negb (existsb (zmem n) (p :: pend))) lg.
Proof.
  intros p pend. induction lg as [|x lg IH].
  - reflexivity.
  - cbn [filter existsb]. destruct (zmem x p); cbn [negb orb].
    + exact IH.
    + cbn [filter]. destruct (existsb (zmem x) pend); cbn [negb]; rewrite IH; reflexivity.
Qed.

Lemma filter_excl_nil : forall lg : list Z,
  filter (fun n => negb (existsb (zmem n) [])) lg = lg.
Proof.
  induction lg as [|x lg IH]; [reflexivity|]. cbn [filter existsb negb]. f_equal. exact IH.
Qed.

Lemma nr_run_den : forall gps rr lg,
  nr_run gps rr lg =
  rev rr ++ filter (fun n => negb (existsb (zmem n) (snd (fold_right den_step ([], []) gps)))) lg
         ++ fst (fold_right den_step ([], []) gps).
Proof.
  induction gps as [|[g p] t IH]; intros rr lg.
  - cbn [nr_run fold_right fst snd]. rewrite filter_excl_nil, app_nil_r. reflexivity.
  - cbn [nr_run fold_right]. unfold den_step at 1 3.
    destruct (fold_right den_step ([], []) t) as [res pend] eqn:EF.
    cbn [fst snd] in IH.
    destruct (g_excl g).
    + rewrite IH. cbn [fst snd]. rewrite filter_excl_cons. reflexivity.
    + rewrite IH. cbn [fst snd]. rewrite filter_excl_nil.
      rewrite rev_append_rev, rev_app_distr, rev_involutive, <- app_assoc. reflexivity.
Qed.

Lemma every_other_positional : forall (even : bool) (l : list Z) (k : nat),
  every_other (Bool.eqb (Nat.odd k) even) l
  = map snd (filter (fun ip => Bool.eqb (Nat.odd (fst ip)) even) (combine (seq k (length l)) l)).
Proof.
  intros even. induction l as [|x l IH]; intros k.
  - reflexivity.
  - cbn [every_other length seq combine filter fst].
    assert (Hs : Nat.odd (S k) = negb (Nat.odd k)).
    { rewrite Nat.odd_succ. rewrite <- Nat.negb_odd. reflexivity. }
    destruct (Bool.eqb (Nat.odd k) even) eqn:E.
    + cbn [map snd]. f_equal. rewrite <- IH. rewrite Hs.
      destruct (Nat.odd k), even; try discriminate; reflexivity.
    + rewrite <- IH. rewrite Hs.
      destruct (Nat.odd k), even; try discriminate; reflexivity.
Qed.

Definition den_core (max : Z) (gs : list group) : option (list Z) :=
  match gs with
  | g :: _ => if g_excl g then None else
      match all_some (map (den_group max) gs) with
      | None => None
      | Some pages => Some (den_groups (combine gs pages))
      end
  | [] => Some []
  end.

Lemma den_den_core : forall max gs par,
  den max {| r_groups := gs; r_parity := par |} =
  match den_core max gs with
  | None => None
  | Some l => Some (match par with None => l | Some e => positional e l end)
  end.
Proof.
  intros max gs par. unfold den, den_core. cbn [r_groups r_parity].
  destruct gs as [|g gs]; [destruct par; reflexivity|].
  destruct (g_excl g); [reflexivity|].
  destruct (all_some (map (den_group max) (g :: gs))); reflexivity.
Qed.

Lemma body_run : forall max body, body <> [] ->
  nr_ok (groups_loop (S (length body)) max body 0%N true [] []) =
  match all_some (map group_of (split_on 44%N body)) with
  | None => None
  | Some gs => den_core max gs
  end.
Proof.
  intros max body Hne. rewrite loop_run by (try assumption; lia).
  destruct (all_some (map group_of (split_on 44%N body))) as [gs|]; [|reflexivity].
  unfold den_core. destruct gs as [|g gs]; [reflexivity|].
  cbn [andb]. destruct (g_excl g) eqn:Eg; [reflexivity|].
  destruct (all_some (map (den_group max) (g :: gs))) as [pages|]; [|reflexivity].
  rewrite nr_run_den. cbn [rev filter app]. reflexivity.
Qed.

Lemma nr_ok_map : forall (r : nr_result) (f : list Z -> list Z),
  nr_ok (match r with NrOk l => NrOk (f l) | e => e end)
  = match nr_ok r with Some l => Some (f l) | None => None end.
Proof. intros [l|k p] f; reflexivity. Qed.

(* The model of QUtil::parse_numrange accepts exactly the strings of the manual's range
   grammar and returns exactly the page list the declarative denotation gives; every other
   string, and every out-of-range number, is rejected. For all strings, all max. *)
Lemma numrange_spec_lemma : forall s max, nr_ok (parse_numrange s max) = range_spec s max.
Proof.
  intros s max. unfold parse_numrange, range_spec, parse_syntax.
  destruct (split_first 58%N s) as [body suffix].
  assert (Hrun : forall par,
    match (match body with
           | [] => Some {| r_groups := []; r_parity := par |}
           | _ :: _ => match all_some (map group_of (split_on 44%N body)) with
                       | Some gs => Some {| r_groups := gs; r_parity := par |}
                       | None => None
                       end
           end) with
    | None => None
    | Some r => den max r
    end =
    match nr_ok (groups_loop (S (length body)) max body 0%N true [] []) with
    | None => None
    | Some l => Some (match par with None => l | Some e => positional e l end)
    end).
  { intros par. destruct body as [|x body].
    - cbn. destruct par; reflexivity.
    - rewrite body_run by discriminate.
      destruct (all_some (map group_of (split_on 44%N (x :: body)))) as [gs|]; [|reflexivity].
      apply den_den_core. }
  destruct suffix as [suf|].
  - destruct (list_eqb N.eqb suf s_odd).
    + rewrite Hrun. rewrite nr_ok_map.
      destruct (nr_ok (groups_loop (S (length body)) max body 0%N true [] [])) as [l|];
        [|reflexivity].
      f_equal. unfold positional. apply (every_other_positional false l 0).
    + destruct (list_eqb N.eqb suf s_even).
      * rewrite Hrun. rewrite nr_ok_map.
        destruct (nr_ok (groups_loop (S (length body)) max body 0%N true [] [])) as [l|];
          [|reflexivity].
        f_equal. unfold positional. apply (every_other_positional true l 0).
      * reflexivity.
  - rewrite Hrun.
    destruct (nr_ok (groups_loop (S (length body)) max body 0%N true [] [])); reflexivity.
Qed.

(* ---------- collation ---------- *)

Lemma skipn_skipn' : forall (A : Type) (n m : nat) (l : list A),
  skipn n (skipn m l) = skipn (m + n) l.
Proof.
  intros A n m. induction m as [|m IH]; intros l.
  - reflexivity.
  - destruct l as [|x l].
    + rewrite !skipn_nil. reflexivity.
    + cbn [skipn Nat.add]. apply IH.
Qed.

Lemma sweep_round : forall (A : Type) (r : nat) (sels : list (list A)) (cs : list nat),
  length cs = length sels ->
  exists got,
    collate_sweep sels cs (map (fun c => r * c)%nat cs)
    = (round_blocks r sels cs, got, map (fun c => S r * c)%nat cs)
    /\ (got = false -> round_blocks r sels cs = []).
Proof.
  intros A r. induction sels as [|sel sels IH]; intros cs Hlen.
  - destruct cs as [|c cs]; [|discriminate]. exists false. split; reflexivity.
  - destruct cs as [|c cs]; [discriminate|].
    cbn [length] in Hlen. injection Hlen as Hlen.
    destruct (IH cs Hlen) as [got [E Hg]].
    cbn [collate_sweep map round_blocks]. rewrite E.
    eexists. split.
    + unfold block. f_equal. f_equal. lia.
    + intros Hf. apply orb_false_iff in Hf. destruct Hf as [Hf1 Hf2].
      rewrite (Hg Hf2). unfold block.
      destruct (firstn c (skipn (r * c) sel)); [reflexivity|discriminate].
Qed.

Lemma block_empty_succ : forall (A : Type) (r c : nat) (sel : list A), (0 < c)%nat ->
  block r c sel = [] -> block (S r) c sel = [].
Proof.
  intros A r c sel Hc H. unfold block in *.
  assert (Hs : skipn (r * c) sel = []).
  { destruct c as [|c]; [lia|]. destruct (skipn (r * S c) sel); [reflexivity|discriminate]. }
  assert (Hl : (length sel <= r * c)%nat).
  { pose proof (skipn_length (r * c) sel) as HL. rewrite Hs in HL. cbn [length] in HL. lia. }
  rewrite skipn_all2 by lia. apply firstn_nil.
Qed.

Lemma round_empty_succ : forall (A : Type) (r : nat) (sels : list (list A)) (cs : list nat),
  Forall (fun c => 0 < c)%nat cs ->
  round_blocks r sels cs = [] -> round_blocks (S r) sels cs = [].
Proof.
  intros A r. induction sels as [|sel sels IH]; intros cs Hpos H.
  - reflexivity.
  - destruct cs as [|c cs]; [reflexivity|].
    cbn [round_blocks] in *. apply app_eq_nil in H. destruct H as [H1 H2].
    inversion Hpos as [|c' cs' Hc Hcs]; subst.
    rewrite (block_empty_succ _ _ _ _ Hc H1). rewrite (IH cs Hcs H2). reflexivity.
Qed.

Lemma round_empty_later : forall (A : Type) (sels : list (list A)) (cs : list nat),
  Forall (fun c => 0 < c)%nat cs -> forall r r', (r <= r')%nat ->
  round_blocks r sels cs = [] -> round_blocks r' sels cs = [].
Proof.
  intros A sels cs Hpos r r' Hle H. induction Hle as [|r' Hle IH].
  - exact H.
  - apply round_empty_succ; assumption.
Qed.

Lemma rounds_empty_concat : forall (A : Type) (sels : list (list A)) (cs : list nat),
  Forall (fun c => 0 < c)%nat cs -> forall r, round_blocks r sels cs = [] ->
  forall f r', (r <= r')%nat ->
  concat (map (fun r => round_blocks r sels cs) (seq r' f)) = [].
Proof.
  intros A sels cs Hpos r H. induction f as [|f IH]; intros r' Hle.
  - reflexivity.
  - cbn [seq map concat]. rewrite (round_empty_later _ sels cs Hpos r r' Hle H).
    rewrite IH by lia. reflexivity.
Qed.

Lemma collate_loop_rounds : forall (A : Type) (sels : list (list A)) (cs : list nat),
  length cs = length sels -> Forall (fun c => 0 < c)%nat cs ->
  forall fuel r,
  collate_loop fuel sels cs (map (fun c => r * c)%nat cs)
  = concat (map (fun r => round_blocks r sels cs) (seq r fuel)).
Proof.
  intros A sels cs Hlen Hpos. induction fuel as [|f IH]; intros r.
  - reflexivity.
  - cbn [collate_loop].
    destruct (sweep_round A r sels cs Hlen) as [got [E Hg]]. rewrite E.
    destruct got.
    + rewrite IH. reflexivity.
    + symmetry. apply (rounds_empty_concat _ sels cs Hpos r (Hg eq_refl)). lia.
Qed.

(* The collation loop of handlePageSpecs is the round-robin of the manual. *)
Lemma collate_refines_lemma : forall (A : Type) (sels : list (list A)) (cs : list nat),
  length cs = length sels -> Forall (fun c => 0 < c)%nat cs ->
  collate sels cs = collate_spec sels cs.
Proof.
  intros A sels cs Hlen Hpos. unfold collate, collate_spec.
  replace (map (fun _ : list A => 0%nat) sels) with (map (fun c => 0 * c)%nat cs).
  - apply collate_loop_rounds; assumption.
  - clear Hpos. revert cs Hlen. induction sels as [|sel sels IH]; intros cs Hlen.
    + destruct cs; [reflexivity|discriminate].
    + destruct cs as [|c cs]; [discriminate|]. cbn [map]. f_equal.
      apply IH. cbn [length] in Hlen. lia.
Qed.

Lemma firstn_add' : forall (A : Type) (c m : nat) (l : list A),
  firstn c l ++ firstn m (skipn c l) = firstn (c + m) l.
Proof.
  intros A c m. induction c as [|c IH]; intros l.
  - reflexivity.
  - destruct l as [|x l].
    + cbn [skipn firstn Nat.add app]. rewrite firstn_nil. reflexivity.
    + cbn [skipn firstn Nat.add app]. rewrite IH. reflexivity.
Qed.

Lemma blocks_concat : forall (A : Type) (c : nat) (sel : list A) (N a : nat),
  concat (map (fun r => block r c sel) (seq a N)) = firstn (N * c) (skipn (a * c) sel).
Proof.
  intros A c sel. induction N as [|N IH]; intros a.
  - reflexivity.
  - cbn [seq map concat]. rewrite IH. unfold block.
    replace (S a * c)%nat with (a * c + c)%nat by lia.
    rewrite <- skipn_skipn'. rewrite firstn_add'. f_equal.
Qed.

Lemma concat_map_app_perm : forall (A : Type) (f g : nat -> list A) (l : list nat),
  Permutation.Permutation (concat (map (fun r => f r ++ g r) l))
                          (concat (map f l) ++ concat (map g l)).
Proof.
  intros A f g. induction l as [|x l IH].
  - constructor.
  - cbn [map concat]. rewrite <- !app_assoc. apply Permutation.Permutation_app_head.
    eapply Permutation.Permutation_trans.
    + apply Permutation.Permutation_app_head. exact IH.
    + rewrite !app_assoc. apply Permutation.Permutation_app_tail.
      apply Permutation.Permutation_app_comm.
Qed.

Lemma rounds_perm : forall (A : Type) (sels : list (list A)) (cs : list nat) (N : nat),
  length cs = length sels -> Forall (fun c => 0 < c)%nat cs -> (total_len sels <= N)%nat ->
  Permutation.Permutation (concat (map (fun r => round_blocks r sels cs) (seq 0 N)))
                          (concat sels).
Proof.
  intros A. induction sels as [|sel sels IH]; intros cs N Hlen Hpos HN.
  - cbn [round_blocks concat].
    replace (concat (map (fun _ : nat => @nil A) (seq 0 N))) with (@nil A); [constructor|].
    generalize (seq 0 N). intros l. induction l as [|x l IHl]; [reflexivity|exact IHl].
  - destruct cs as [|c cs]; [discriminate|].
    cbn [length] in Hlen. injection Hlen as Hlen.
    inversion Hpos as [|c' cs' Hc Hcs]; subst.
    cbn [total_len fold_right] in HN. fold (total_len sels) in HN.
    cbn [round_blocks concat].
    eapply Permutation.Permutation_trans.
    + apply (concat_map_app_perm A (fun r => block r c sel) (fun r => round_blocks r sels cs)).
    + rewrite blocks_concat. cbn [Nat.mul skipn].
      rewrite firstn_all2 by nia.
      apply Permutation.Permutation_app_head. apply IH; try assumption. lia.
Qed.

(* Collation neither loses nor duplicates a selected page. *)
Lemma collate_perm_lemma : forall (A : Type) (sels : list (list A)) (cs : list nat),
  length cs = length sels -> Forall (fun c => 0 < c)%nat cs ->
  Permutation.Permutation (collate sels cs) (concat sels).
Proof.
  intros A sels cs Hlen Hpos. rewrite collate_refines_lemma by assumption.
  unfold collate_spec. apply rounds_perm; try assumption. lia.
Qed.

(* ---------- split-pages ---------- *)

Lemma split_chunks_concat : forall (A : Type) (ps : list A) (n : nat), (0 < n)%nat ->
  forall fuel i, (length ps < fuel + i)%nat ->
  concat (map (pages_of_chunk ps) (split_chunks_fuel fuel n i (length ps))) = skipn i ps.
Proof.
  intros A ps n Hn. induction fuel as [|f IH]; intros i Hf.
  - cbn [split_chunks_fuel map concat]. symmetry. apply skipn_all2. lia.
  - cbn [split_chunks_fuel].
    destruct (Nat.ltb_spec i (length ps)) as [Hlt|Hge].
    + cbn [map concat]. rewrite IH by lia.
      unfold pages_of_chunk. cbn [fst snd].
      replace (S i - 1)%nat with i by lia.
      set (k := (Nat.min (i + n) (length ps) - i)%nat).
      rewrite <- (firstn_skipn k (skipn i ps)) at 2.
      f_equal. rewrite skipn_skipn'.
      destruct (Nat.le_gt_cases (i + n) (length ps)) as [Hle|Hgt].
      * f_equal. lia.
      * rewrite !skipn_all2 by lia. reflexivity.
    + cbn [map concat]. symmetry. apply skipn_all2. lia.
Qed.

Lemma split_chunks_sizes : forall (A : Type) (ps : list A) (n : nat), (0 < n)%nat ->
  forall fuel i,
  Forall (fun c => 0 < length c <= n)%nat
         (map (pages_of_chunk ps) (split_chunks_fuel fuel n i (length ps))).
Proof.
  intros A ps n Hn. induction fuel as [|f IH]; intros i.
  - constructor.
  - cbn [split_chunks_fuel].
    destruct (Nat.ltb_spec i (length ps)) as [Hlt|Hge].
    + cbn [map]. constructor; [|apply IH].
      unfold pages_of_chunk. cbn [fst snd].
      rewrite firstn_length, skipn_length. lia.
    + constructor.
Qed.

(* The split outputs concatenated in order reproduce the page sequence; every file has
   between 1 and n pages. *)
Lemma split_concat_lemma : forall (A : Type) (n : nat) (ps : list A), (0 < n)%nat ->
  concat (split_pages n ps) = ps
  /\ Forall (fun c => 0 < length c <= n)%nat (split_pages n ps).
Proof.
  intros A n ps Hn. unfold split_pages, split_chunks. split.
  - rewrite split_chunks_concat by lia. reflexivity.
  - apply split_chunks_sizes. exact Hn.
Qed.

(* ---------- rotation ---------- *)

Lemma rem90_mod90 : forall x, (Z.rem x 90 =? 0)%Z = (x mod 90 =? 0)%Z.
Proof.
  intros x.
  destruct (Z.eqb_spec (Z.rem x 90) 0) as [e|e], (Z.eqb_spec (x mod 90) 0) as [e'|e'];
    try reflexivity; exfalso.
  - apply Z.rem_divide in e; [|lia]. apply Z.mod_divide in e; [|lia]. contradiction.
  - apply Z.mod_divide in e'; [|lia]. apply Z.rem_divide in e'; [|lia]. contradiction.
Qed.

(* Rotation: the written /Rotate is congruent to the requested one modulo 360 (C++ % written
   out), and lies in [0,360) whenever the sum is at least -360. *)
Lemma rotate_mod360_lemma : forall old a rel r, (a mod 90 = 0)%Z ->
  rotate_angle old a rel = Some r ->
  let eff := if (old mod 90 =? 0)%Z then old else 0%Z in
  (r mod 360 = (if rel then eff + a else a) mod 360)%Z
  /\ ((-360 <= (if rel then eff + a else a))%Z -> (0 <= r < 360)%Z).
Proof.
  intros old a rel r Ha H eff.
  unfold rotate_angle, c_rem in H. rewrite !rem90_mod90 in H. rewrite Ha in H.
  change (0 =? 0)%Z with true in H. cbn [negb] in H.
  fold eff in H.
  set (new := if rel then (eff + a)%Z else a).
  replace (if rel then (a + eff)%Z else a) with new in H by (unfold new; destruct rel; lia).
  injection H as <-.
  split.
  - pose proof (Z.quot_rem' (new + 360) 360) as Hq.
    replace (Z.rem (new + 360) 360) with (new + (1 - Z.quot (new + 360) 360) * 360)%Z by lia.
    apply Z_mod_plus_full.
  - intros Hlo. rewrite Z.rem_mod_nonneg by lia. apply Z.mod_pos_bound. lia.
Qed.

Lemma rotate_rejects_lemma : forall old a rel, (a mod 90 <> 0)%Z -> rotate_angle old a rel = None.
Proof.
  intros old a rel Ha. unfold rotate_angle, c_rem. rewrite rem90_mod90.
  destruct (Z.eqb_spec (a mod 90) 0) as [e|e]; [contradiction|reflexivity].
Qed.
