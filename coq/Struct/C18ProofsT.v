(* C18 proofs, part 14: compareKeys orders the keys qpdf writes as the specification orders their texts.

   QPDFObjectHandle::newUnicodeString stores a key in PDFDocEncoding when its text can be written so and in UTF-16BE with
   the mark FE FF otherwise.  For every two stored strings that have a text in one of these two spellings (Struct/NNKeySpec.v:
   ks_text - Annex D.2, and a strict UTF-16BE decoder written from RFC 2781: odd lengths and unpaired surrogates have no
   text), of any length and in any mixture:   nk_compare_names a b = ks_text_order (text a) (text b).
   The decoding loop of QUtil::utf16_to_utf8 (jm_u16_loop) classifies a 16-bit unit with bit masks, the specification by
   ranges: the two agree on all 65 536 units (computation), the rest is induction on the string. *)
From QV Require Import Base.Bytes Json.JsonEmit Struct.NNTreeModel Struct.NNKeys Struct.NNKeySpec Struct.C18ProofsN
  Struct.C18ProofsR Struct.C18ProofsS.

(* the classification jm_u16_loop makes of a big-endian unit *)
Definition nk_unit_of (a b : N) : ks_unit :=
  let bits := (a * 256 + b)%N in
  if (N.land bits 64512 =? 55296)%N then KsHigh (65536 + N.land bits 1023 * 1024)
  else if (N.land bits 64512 =? 56320)%N then KsLow (N.land bits 1023)
  else KsPlain bits.

Lemma nk_u16_step : forall a b t cp acc, jm_u16_loop false (a :: b :: t) cp acc =
  match nk_unit_of a b with
  | KsHigh c => jm_u16_loop false t c acc
  | KsLow p => jm_u16_loop false t 0 (rev_append (jm_to_utf8 (cp + p)) acc)
  | KsPlain u => jm_u16_loop false t 0 (rev_append (jm_to_utf8 u) acc)
  end.
Proof.
  intros a b t cp acc. cbn [jm_u16_loop]. unfold nk_unit_of. cbv zeta.
  destruct (N.land (a * 256 + b) 64512 =? 55296)%N; [reflexivity|].
  destruct (N.land (a * 256 + b) 64512 =? 56320)%N; reflexivity.
Qed.

Definition nk_unit_eqb (x y : ks_unit) : bool :=
  match x, y with
  | KsPlain u, KsPlain v => (u =? v)%N
  | KsHigh u, KsHigh v => (u =? v)%N
  | KsLow u, KsLow v => (u =? v)%N
  | _, _ => false
  end.
Lemma nk_unit_eqb_eq : forall x y, nk_unit_eqb x y = true -> x = y.
Proof. intros [u|u|u] [v|v|v] H; simpl in H; try discriminate; apply N.eqb_eq in H; subst; reflexivity. Qed.
Definition nk_unit_bound (x : ks_unit) : bool :=
  match x with
  | KsPlain u => (u <? 65536)%N
  | KsHigh c => (c + 1023 <? 1114112)%N
  | KsLow p => (p <=? 1023)%N
  end.
Definition nk_unit_ok (a b : N) : bool := nk_unit_eqb (nk_unit_of a b) (ks_unit_of a b) && nk_unit_bound (ks_unit_of a b).

Lemma nk_unit_sweep : forallb (fun a => forallb (nk_unit_ok a) all_bytes) all_bytes = true.
Proof. vm_compute. reflexivity. Qed.
Lemma nk_unit_ok_all : forall a b, (a < 256)%N -> (b < 256)%N ->
  nk_unit_of a b = ks_unit_of a b /\ nk_unit_bound (ks_unit_of a b) = true.
Proof.
  intros a b Ha Hb. pose proof (byte_sweep _ nk_unit_sweep a Ha) as H. cbv beta in H.
  pose proof (byte_sweep _ H b Hb) as H2. unfold nk_unit_ok in H2. apply andb_prop in H2. destruct H2 as [H3 H4].
  split; [apply nk_unit_eqb_eq; exact H3|exact H4].
Qed.

Lemma nk_rev'_rev_append {A} (x acc : list A) : rev' (rev_append x acc) = rev' acc ++ x.
Proof. unfold rev'. rewrite <- !rev_alt. rewrite rev_append_rev, rev_app_distr, rev_involutive. reflexivity. Qed.

Lemma nk_bytes_of_check : forall a b, (256 <=? a)%N || (256 <=? b)%N = false -> (a < 256)%N /\ (b < 256)%N.
Proof.
  intros a b H. apply orb_false_elim in H. destruct H as [H1 H2]. apply N.leb_gt in H1. apply N.leb_gt in H2. split; assumption.
Qed.

Lemma nk_u16_decode : forall (n : nat) body, (length body <= n)%nat -> forall ta acc, ks_utf16be body = Some ta ->
  jm_u16_loop false body 0 acc = rev' acc ++ flat_map jm_to_utf8 ta /\ Forall (fun c => (c < 1114112)%N) ta.
Proof.
  induction n as [|n IH]; intros body Hlen ta acc H.
  - destruct body; [|simpl in Hlen; lia]. simpl in H. injection H as <-. split; [simpl; rewrite app_nil_r; reflexivity|constructor].
  - destruct body as [|a [|b t]].
    + simpl in H. injection H as <-. split; [simpl; rewrite app_nil_r; reflexivity|constructor].
    + simpl in H. discriminate.
    + cbn [ks_utf16be] in H. destruct ((256 <=? a)%N || (256 <=? b)%N) eqn:Eb; [discriminate|].
      destruct (nk_bytes_of_check a b Eb) as [Ha Hb]. destruct (nk_unit_ok_all a b Ha Hb) as [Hu Hbd].
      rewrite nk_u16_step, Hu. destruct (ks_unit_of a b) as [u|hi|lo] eqn:Eu.
      * destruct (ks_utf16be t) as [r|] eqn:Er; [|discriminate]. injection H as <-.
        assert (Hl : (length t <= n)%nat) by (simpl in Hlen; lia).
        destruct (IH t Hl r (rev_append (jm_to_utf8 u) acc) Er) as [H1 H2].
        split; [rewrite H1, nk_rev'_rev_append, <- app_assoc; reflexivity|].
        constructor; [|exact H2]. simpl in Hbd. apply N.ltb_lt in Hbd. lia.
      * destruct t as [|a2 [|b2 t2]]; try discriminate.
        destruct ((256 <=? a2)%N || (256 <=? b2)%N) eqn:Eb2; [discriminate|].
        destruct (nk_bytes_of_check a2 b2 Eb2) as [Ha2 Hb2]. destruct (nk_unit_ok_all a2 b2 Ha2 Hb2) as [Hu2 Hbd2].
        rewrite nk_u16_step, Hu2. destruct (ks_unit_of a2 b2) as [u2|hi2|lo] eqn:Eu2; try discriminate.
        destruct (ks_utf16be t2) as [r|] eqn:Er; [|discriminate]. injection H as <-.
        assert (Hl : (length t2 <= n)%nat) by (simpl in Hlen; lia).
        destruct (IH t2 Hl r (rev_append (jm_to_utf8 (hi + lo)) acc) Er) as [H1 H2].
        split; [rewrite H1, nk_rev'_rev_append, <- app_assoc; reflexivity|].
        constructor; [|exact H2]. simpl in Hbd, Hbd2. apply N.ltb_lt in Hbd. apply N.leb_le in Hbd2. lia.
      * discriminate.
Qed.

Lemma nk_text_value : forall s ts, ks_text s = Some ts ->
  nk_utf8_value s = flat_map jm_to_utf8 ts /\ Forall (fun c => (c < 1114112)%N) ts.
Proof.
  intros s ts H. unfold ks_text in H. destruct (ks_has_be_mark s) eqn:Em.
  - destruct s as [|a [|b body]]; simpl in Em; try discriminate.
    apply andb_prop in Em. destruct Em as [E1 E2]. apply N.eqb_eq in E1. apply N.eqb_eq in E2. subst a b.
    cbn [skipn] in H. destruct (nk_u16_decode (length body) body (le_n _) ts [] H) as [H1 H2].
    split; [|exact H2]. unfold nk_utf8_value. cbn [jm_is_utf16 N.eqb Pos.eqb andb orb]. unfold jm_utf16_to_utf8.
    cbn [jm_is_utf16 N.eqb Pos.eqb andb orb tl]. exact H1.
  - split; [apply nk_utf8_value_pdfdoc_text_lemma; exact H|].
    unfold ks_pdfdoc_text in H. destruct (ks_unmarked s); [|discriminate]. apply (nk_chars_bound s ts H).
Qed.

(* S3.  getUTF8Value of a key in either spelling qpdf writes is the UTF-8 form of its text *)
Lemma nk_utf8_value_text_lemma : forall (s ts : list N), ks_text s = Some ts -> nk_utf8_value s = flat_map jm_to_utf8 ts.
Proof. intros s ts H. apply (nk_text_value s ts H). Qed.

(* S4.  compareKeys = the specification's order of texts for all keys in the spellings qpdf writes (PDFDocEncoding,
   UTF-16BE with mark), of any length, in any mixture; in particular two such keys are the same key for qpdf exactly
   when they are the same text. *)
Lemma nk_compare_names_text_order_lemma : forall (a b ta tb : list N),
  ks_text a = Some ta -> ks_text b = Some tb -> nk_compare_names a b = ks_text_order ta tb.
Proof.
  intros a b ta tb Ha Hb. destruct (nk_text_value a ta Ha) as [Va Ba]. destruct (nk_text_value b tb Hb) as [Vb Bb].
  unfold nk_compare_names. rewrite Va, Vb. apply nk_utf8_text_order_lemma; assumption.
Qed.

Lemma nk_text_order_eq : forall ta tb, ks_text_order ta tb = Eq -> ta = tb.
Proof.
  induction ta as [|x ta IH]; intros [|y tb] H; simpl in H; try discriminate; [reflexivity|].
  destruct (N.ltb_spec x y); [discriminate|]. destruct (N.ltb_spec y x); [discriminate|].
  assert (x = y) by lia. subst. f_equal. apply IH. exact H.
Qed.
Lemma nk_same_key_same_text_lemma : forall (a b ta tb : list N),
  ks_text a = Some ta -> ks_text b = Some tb -> (nk_compare_names a b = Eq <-> ta = tb).
Proof.
  intros a b ta tb Ha Hb. rewrite (nk_compare_names_text_order_lemma a b ta tb Ha Hb). split; [apply nk_text_order_eq|].
  intros ->. clear. induction tb as [|x t IH]; [reflexivity|]. simpl. rewrite N.ltb_irrefl. exact IH.
Qed.
