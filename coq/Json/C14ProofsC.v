(* C14 - proofs, part C: qpdf's toUTF8 is the RFC 3629 encoder; Name::analyzeJSONEncoding (after
   D9_json_names.diff) and the scanner of D7D8_json_strings.diff decide exactly UTF-8 validity. *)
From QV Require Import Base.Bytes Gen.PdfDoc Json.JsonSpec Json.JsonEmit Json.C14ProofsA Json.C14ProofsB.
Local Open Scope N_scope.

Ltac Zify.zify_post_hook ::= Z.to_euclidean_division_equations.

(* ------------------------------------------------------------------ QUtil::toUTF8 is the RFC 3629 encoder *)

Lemma to_utf8_is_utf8_enc_lemma : forall c, c <= 1114111 -> jm_to_utf8 c = utf8_enc c.
Proof.
  intros c Hc. unfold jm_to_utf8, utf8_enc.
  destruct (N.ltb_spec c 128); [reflexivity|].
  cbn [jm_toutf8_go]. destruct (N.ltb_spec 63 c); [|lia].
  change (63 / 2) with 31. change (31 / 2) with 15. change (15 / 2) with 7.
  destruct (N.ltb_spec c 2048).
  - destruct (N.ltb_spec 31 (c / 64)); [lia|].
    replace ((255 - (1 + 31 * 2) + c / 64) mod 256) with (192 + c / 64) by lia. reflexivity.
  - destruct (N.ltb_spec 31 (c / 64)); [|lia].
    destruct (N.ltb_spec c 65536).
    + destruct (N.ltb_spec 15 (c / 64 / 64)); [lia|].
      replace ((255 - (1 + 15 * 2) + c / 64 / 64) mod 256) with (224 + c / 4096) by lia.
      replace ((c / 64) mod 64) with ((c / 64) mod 64) by reflexivity. reflexivity.
    + destruct (N.ltb_spec 15 (c / 64 / 64)); [|lia].
      destruct (N.ltb_spec 7 (c / 64 / 64 / 64)); [lia|].
      replace ((255 - (1 + 7 * 2) + c / 64 / 64 / 64) mod 256) with (240 + c / 262144) by lia.
      replace ((c / 64 / 64) mod 64) with ((c / 4096) mod 64) by lia. reflexivity.
Qed.

(* ------------------------------------------------------------------ continuation-byte expectations *)

(* after a lead byte: k continuation bytes, the first of them in [lo, hi], then well-formed text *)
Fixpoint u8_cont (k : nat) (lo hi : N) (l : list N) : bool :=
  match k with
  | O => utf8_valid l
  | S k' => match l with
            | c :: t => js_in_rng lo hi c && u8_cont k' 128 191 t
            | [] => false
            end
  end.

Ltac decide_tests :=
  repeat match goal with
         | |- context [?a <=? ?b] =>
           first [ replace (a <=? b) with true by (symmetry; apply N.leb_le; lia)
                 | replace (a <=? b) with false by (symmetry; apply N.leb_gt; lia) ]
         | |- context [?a <? ?b] =>
           first [ replace (a <? b) with true by (symmetry; apply N.ltb_lt; lia)
                 | replace (a <? b) with false by (symmetry; apply N.ltb_ge; lia) ]
         | |- context [?a =? ?b] =>
           first [ replace (a =? b) with true by (symmetry; apply N.eqb_eq; lia)
                 | replace (a =? b) with false by (symmetry; apply N.eqb_neq; lia) ]
         end.

Lemma utf8_valid_lead a t :
  utf8_valid (a :: t) =
  if a <=? 127 then utf8_valid t
  else if js_in_rng 194 223 a then u8_cont 1 128 191 t
  else if a =? 224 then u8_cont 2 160 191 t
  else if a =? 237 then u8_cont 2 128 159 t
  else if js_in_rng 225 239 a then u8_cont 2 128 191 t
  else if a =? 240 then u8_cont 3 144 191 t
  else if a =? 244 then u8_cont 3 128 143 t
  else if js_in_rng 241 243 a then u8_cont 3 128 191 t
  else false.
Proof.
  cbn [utf8_valid u8_cont]. unfold js_u_tail, js_in_rng.
  assert (Hcls : a <= 127 \/ (128 <= a <= 193) \/ (194 <= a <= 223) \/ a = 224 \/ (225 <= a <= 236) \/ a = 237 \/
                 (238 <= a <= 239) \/ a = 240 \/ (241 <= a <= 243) \/ a = 244 \/ 245 <= a) by lia.
  destruct Hcls as [H|[H|[H|[H|[H|[H|[H|[H|[H|[H|H]]]]]]]]]]; decide_tests; cbn [andb orb];
    try reflexivity;
    (destruct t as [|b t1]; [reflexivity|]); try reflexivity;
    (destruct t1 as [|c t2]; [rewrite ?andb_false_r; reflexivity|]); try (rewrite <- ?andb_assoc; reflexivity);
    (destruct t2 as [|d t3]; [rewrite ?andb_false_r; reflexivity|]); rewrite <- ?andb_assoc; reflexivity.
Qed.

Lemma land_facts c : c < 256 ->
  (N.land c 192 =? 128) = js_in_rng 128 191 c /\
  (N.land c 224 =? 128) = js_in_rng 128 159 c /\
  (N.land c 240 =? 128) = js_in_rng 128 143 c /\
  (N.land c 224 =? 160) = js_in_rng 160 191 c /\
  (N.land c 224 =? 192) = js_in_rng 192 223 c /\
  (N.land c 254 =? 192) = js_in_rng 192 193 c /\
  (N.land c 240 =? 224) = js_in_rng 224 239 c /\
  (N.land c 248 =? 240) = js_in_rng 240 247 c.
Proof.
  intros Hc.
  assert (E : forallb (fun c =>
      Bool.eqb (N.land c 192 =? 128) (js_in_rng 128 191 c) && Bool.eqb (N.land c 224 =? 128) (js_in_rng 128 159 c) &&
      Bool.eqb (N.land c 240 =? 128) (js_in_rng 128 143 c) && Bool.eqb (N.land c 224 =? 160) (js_in_rng 160 191 c) &&
      Bool.eqb (N.land c 224 =? 192) (js_in_rng 192 223 c) && Bool.eqb (N.land c 254 =? 192) (js_in_rng 192 193 c) &&
      Bool.eqb (N.land c 240 =? 224) (js_in_rng 224 239 c) && Bool.eqb (N.land c 248 =? 240) (js_in_rng 240 247 c)) all_bytes = true)
    by (vm_compute; reflexivity).
  pose proof (byte_sweep _ E c Hc) as Hs. cbv beta in Hs.
  repeat (apply andb_true_iff in Hs; destruct Hs as [Hs ?]).
  repeat match goal with H : Bool.eqb _ _ = true |- _ => apply Bool.eqb_prop in H end.
  repeat split; assumption.
Qed.

(* ------------------------------------------------------------------ Name::analyzeJSONEncoding = UTF-8 validity *)

Lemma in_rng_true lo hi c : js_in_rng lo hi c = true <-> lo <= c <= hi.
Proof. unfold js_in_rng. rewrite andb_true_iff, !N.leb_le. tauto. Qed.
Lemma in_rng_false lo hi c : js_in_rng lo hi c = false <-> (c < lo \/ hi < c).
Proof. unfold js_in_rng. rewrite andb_false_iff, !N.leb_gt. tauto. Qed.

Lemma analyze_go_spec : forall l, bytes_lt l -> forall ne,
  fst (jm_analyze_go l 0 false false false false ne) = utf8_valid l /\
  fst (jm_analyze_go l 1 false false false false ne) = u8_cont 1 128 191 l /\
  fst (jm_analyze_go l 2 false false false false ne) = u8_cont 2 128 191 l /\
  fst (jm_analyze_go l 2 true false false false ne) = u8_cont 2 160 191 l /\
  fst (jm_analyze_go l 2 false false true false ne) = u8_cont 2 128 159 l /\
  fst (jm_analyze_go l 3 false false false false ne) = u8_cont 3 128 191 l /\
  fst (jm_analyze_go l 3 false true false false ne) = u8_cont 3 144 191 l /\
  fst (jm_analyze_go l 3 false false false true ne) = u8_cont 3 128 143 l.
Proof.
  induction 1 as [|c t Hc Ht IH]; intros ne.
  - repeat split; reflexivity.
  - destruct (land_facts c Hc) as (L1 & L2 & L3 & L4 & L5 & L6 & L7 & L8).
    assert (IH0 : forall ne, fst (jm_analyze_go t 0 false false false false ne) = utf8_valid t) by (intros; apply IH).
    assert (IH1 : forall ne, fst (jm_analyze_go t 1 false false false false ne) = u8_cont 1 128 191 t) by (intros; apply IH).
    assert (IH2 : forall ne, fst (jm_analyze_go t 2 false false false false ne) = u8_cont 2 128 191 t) by (intros; apply IH).
    assert (IH2a : forall ne, fst (jm_analyze_go t 2 true false false false ne) = u8_cont 2 160 191 t) by (intros; apply IH).
    assert (IH2b : forall ne, fst (jm_analyze_go t 2 false false true false ne) = u8_cont 2 128 159 t) by (intros; apply IH).
    assert (IH3 : forall ne, fst (jm_analyze_go t 3 false false false false ne) = u8_cont 3 128 191 t) by (intros; apply IH).
    assert (IH3a : forall ne, fst (jm_analyze_go t 3 false true false false ne) = u8_cont 3 144 191 t) by (intros; apply IH).
    assert (IH3b : forall ne, fst (jm_analyze_go t 3 false false false true ne) = u8_cont 3 128 143 t) by (intros; apply IH).
    clear IH.
    (* a continuation byte is expected: states 1..3 *)
    assert (Hcont : forall (k : N) (t2 t3 sr tp : bool) lo hi (kk : nat),
       (k = 1 /\ kk = O) \/ (k = 2 /\ kk = 1%nat) \/ (k = 3 /\ kk = 2%nat) ->
       128 <= lo -> hi <= 191 ->
       (* which flag is set decides the admissible range of this byte *)
       ((t2 = true /\ t3 = false /\ sr = false /\ tp = false /\ lo = 160 /\ hi = 191 /\ k = 2) \/
        (t2 = false /\ t3 = true /\ sr = false /\ tp = false /\ lo = 144 /\ hi = 191 /\ k = 3) \/
        (t2 = false /\ t3 = false /\ sr = true /\ tp = false /\ lo = 128 /\ hi = 159 /\ k = 2) \/
        (t2 = false /\ t3 = false /\ sr = false /\ tp = true /\ lo = 128 /\ hi = 143 /\ k = 3) \/
        (t2 = false /\ t3 = false /\ sr = false /\ tp = false /\ lo = 128 /\ hi = 191)) ->
       fst (jm_analyze_go (c :: t) k t2 t3 sr tp ne) =
       js_in_rng lo hi c && fst (jm_analyze_go t (k - 1) false false false false ne)).
    { intros k f2 f3 sr tp lo hi kk Hk Hlo Hhi Hfl. cbn [jm_analyze_go].
      replace (k =? 0) with false by (symmetry; apply N.eqb_neq; lia). cbn [negb].
      rewrite L1, L2, L3, L4.
      destruct (js_in_rng 128 191 c) eqn:Er.
      - apply in_rng_true in Er. cbn [negb].
        destruct Hfl as [(-> & -> & -> & -> & -> & -> & ->)|[(-> & -> & -> & -> & -> & -> & ->)|[(-> & -> & -> & -> & -> & -> & ->)|[(-> & -> & -> & -> & -> & -> & ->)|(-> & -> & -> & -> & -> & ->)]]]].
        + destruct (js_in_rng 128 159 c) eqn:E; [apply in_rng_true in E|apply in_rng_false in E].
          * replace (js_in_rng 160 191 c) with false by (symmetry; apply in_rng_false; lia). reflexivity.
          * replace (js_in_rng 160 191 c) with true by (symmetry; apply in_rng_true; lia). reflexivity.
        + destruct (js_in_rng 128 143 c) eqn:E; [apply in_rng_true in E|apply in_rng_false in E].
          * replace (js_in_rng 144 191 c) with false by (symmetry; apply in_rng_false; lia). reflexivity.
          * replace (js_in_rng 144 191 c) with true by (symmetry; apply in_rng_true; lia). reflexivity.
        + destruct (js_in_rng 160 191 c) eqn:E; [apply in_rng_true in E|apply in_rng_false in E].
          * replace (js_in_rng 128 159 c) with false by (symmetry; apply in_rng_false; lia). reflexivity.
          * replace (js_in_rng 128 159 c) with true by (symmetry; apply in_rng_true; lia). reflexivity.
        + destruct (js_in_rng 128 143 c) eqn:E; reflexivity.
        + replace (js_in_rng 128 191 c) with true by (symmetry; apply in_rng_true; lia). reflexivity.
      - cbn [negb fst]. apply in_rng_false in Er. symmetry. apply andb_false_iff. left. apply in_rng_false. lia. }
    repeat split.
    + (* state 0: a lead byte or ASCII *)
      rewrite utf8_valid_lead. cbn [jm_analyze_go]. change (0 =? 0) with true. cbn [negb].
      rewrite L5, L6, L7, L8.
      assert (Hcls : c <= 127 \/ (128 <= c <= 191) \/ (192 <= c <= 193) \/ (194 <= c <= 223) \/ c = 224 \/ (225 <= c <= 236) \/ c = 237 \/
                     (238 <= c <= 239) \/ c = 240 \/ (241 <= c <= 243) \/ c = 244 \/ (245 <= c <= 247) \/ 248 <= c) by lia.
      unfold js_in_rng.
      destruct Hcls as [H|[H|[H|[H|[H|[H|[H|[H|[H|[H|[H|[H|H]]]]]]]]]]]]; decide_tests; cbn [andb orb negb fst];
        first [ apply IH0 | apply IH1 | apply IH2 | apply IH2a | apply IH2b | apply IH3 | apply IH3a | apply IH3b | reflexivity ].
    + rewrite (Hcont 1 false false false false 128 191 O) by (try lia; tauto). change (1 - 1) with 0. rewrite IH0. reflexivity.
    + rewrite (Hcont 2 false false false false 128 191 1%nat) by (try lia; tauto). change (2 - 1) with 1. rewrite IH1. reflexivity.
    + rewrite (Hcont 2 true false false false 160 191 1%nat) by (try lia; tauto). change (2 - 1) with 1. rewrite IH1. reflexivity.
    + rewrite (Hcont 2 false false true false 128 159 1%nat) by (try lia; tauto). change (2 - 1) with 1. rewrite IH1. reflexivity.
    + rewrite (Hcont 3 false false false false 128 191 2%nat) by (try lia; tauto). change (3 - 1) with 2. rewrite IH2. reflexivity.
    + rewrite (Hcont 3 false true false false 144 191 2%nat) by (try lia; tauto). change (3 - 1) with 2. rewrite IH2. reflexivity.
    + rewrite (Hcont 3 false false false true 128 143 2%nat) by (try lia; tauto). change (3 - 1) with 2. rewrite IH2. reflexivity.
Qed.

(* After D9_json_names.diff, the first component of Name::analyzeJSONEncoding is exactly RFC 3629 validity. *)
Lemma analyze_is_utf8_valid_lemma : forall n, bytes_lt n -> fst (jm_analyze n) = utf8_valid n.
Proof. intros n Hn. unfold jm_analyze. apply (analyze_go_spec n Hn false). Qed.

(* D9: on the pinned tree it is not: UTF-16 surrogates and code points beyond U+10FFFF are accepted *)
Lemma analyze_is_utf8_valid_refuted_lemma :
  exists n, bytes_lt n /\ fst (jm_analyze_pinned n) = true /\ utf8_valid n = false.
Proof. exists [47; 237; 160; 128]. split; [repeat constructor|]. vm_compute. split; reflexivity. Qed.

Lemma analyze_pinned_witnesses_lemma :
  fst (jm_analyze_pinned [237; 160; 128]) = true /\ utf8_valid [237; 160; 128] = false /\
  fst (jm_analyze_pinned [244; 144; 128; 128]) = true /\ utf8_valid [244; 144; 128; 128] = false /\
  fst (jm_analyze_pinned [245; 128; 128; 128]) = true /\ utf8_valid [245; 128; 128; 128] = false /\
  fst (jm_analyze_pinned [247; 191; 191; 191]) = true /\ utf8_valid [247; 191; 191; 191] = false.
Proof. vm_compute. repeat split. Qed.

(* ------------------------------------------------------------------ the scanner added by D7D8_json_strings.diff = UTF-8 validity *)

Lemma wf_utf8_go_spec : forall l,
  jm_wf_utf8_go l 0 128 191 = utf8_valid l /\
  (forall lo hi, jm_wf_utf8_go l 1 lo hi = u8_cont 1 lo hi l) /\
  (forall lo hi, jm_wf_utf8_go l 2 lo hi = u8_cont 2 lo hi l) /\
  (forall lo hi, jm_wf_utf8_go l 3 lo hi = u8_cont 3 lo hi l).
Proof.
  induction l as [|c t IH].
  - repeat split; reflexivity.
  - destruct IH as (IH0 & IH1 & IH2 & IH3).
    assert (Hk : forall (k : N) lo hi, k = 1 \/ k = 2 \/ k = 3 ->
              jm_wf_utf8_go (c :: t) k lo hi = js_in_rng lo hi c && jm_wf_utf8_go t (k - 1) 128 191).
    { intros k lo hi Hk. cbn [jm_wf_utf8_go]. replace (k =? 0) with false by (symmetry; apply N.eqb_neq; lia).
      cbn [negb]. unfold js_in_rng. destruct ((lo <=? c) && (c <=? hi)); reflexivity. }
    repeat split.
    + rewrite utf8_valid_lead. cbn [jm_wf_utf8_go]. change (0 =? 0) with true. cbn [negb]. unfold js_in_rng.
      assert (Hcls : c <= 127 \/ (128 <= c <= 193) \/ (194 <= c <= 223) \/ c = 224 \/ (225 <= c <= 236) \/ c = 237 \/
                     (238 <= c <= 239) \/ c = 240 \/ (241 <= c <= 243) \/ c = 244 \/ 245 <= c) by lia.
      destruct Hcls as [H|[H|[H|[H|[H|[H|[H|[H|[H|[H|H]]]]]]]]]]; decide_tests; cbn [andb orb negb];
        first [ apply IH0 | apply IH1 | apply IH2 | apply IH3 | reflexivity ].
    + intros lo hi. rewrite Hk by tauto. change (1 - 1) with 0. rewrite IH0. reflexivity.
    + intros lo hi. rewrite Hk by tauto. change (2 - 1) with 1. rewrite IH1. reflexivity.
    + intros lo hi. rewrite Hk by tauto. change (3 - 1) with 2. rewrite IH2. reflexivity.
Qed.

Lemma wf_utf8_is_utf8_valid_lemma : forall l, jm_wf_utf8 l = utf8_valid l.
Proof. intros l. unfold jm_wf_utf8. apply wf_utf8_go_spec. Qed.
