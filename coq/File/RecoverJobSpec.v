(* C08 - specification side for (a) the exit status of a job with several input files and (b) the catalog a
   reconstruction without any surviving trailer has to find.  Written from the property text and the manual,
   in a different style than the models (File/RecoverJob.v, File/Recover.v rc_last_catalog): nothing here knows
   about qpdf's map of input files, about the order in which files are named or opened, or about the order in which
   a table is walked.

   (a) The manual: exit status 2 = errors, 3 = "warnings were issued", 0 = neither; the property: damage of an
       input "never yields exit status 0".  Whatever role a file has in the job (main input, --pages, --overlay,
       --underlay, --copy-attachments-from, --copy-encryption), what reading it gave counts.
   (b) The catalog of a file that holds several /Type /Catalog objects (an incremental update that installed its
       catalog under another object number leaves the superseded one behind) is the one the newest trailer names;
       once no trailer is left the reader can only go by the objects: rsc_is_highest says which one a reader
       choosing "the catalog with the highest object id" gets, and the theorems say when that is the document's. *)
From QV Require Import Base.Bytes File.Recover File.RecoverJob.
Local Open Scope N_scope.

(* ------------------------------------------------------------------ (a) exit status of a job *)
(* every file the job reads, in no particular order *)
Definition rjs_inputs (j : rj_job) : list rj_file :=
  rj_opt (rj_enc j) ++ rj_attach j ++ rj_uo j ++ rj_pages j ++ rj_opt (rj_main j).

Definition rjs_exit (j : rj_job) : N :=
  if existsb rj_fatal (rjs_inputs j) then 2
  else if existsb rj_warn (rjs_inputs j) then 3
  else 0.

(* a name denotes one file: two mentions of the same name gave the same result *)
Definition rjs_wf (j : rj_job) : Prop :=
  forall f g, In f (rjs_inputs j) -> In g (rjs_inputs j) -> rj_name f = rj_name g ->
              rj_fatal f = rj_fatal g /\ rj_warn f = rj_warn g.

(* the same job with its files named in another order *)
Definition rjs_same_files (j j' : rj_job) : Prop :=
  rj_main j = rj_main j' /\ rj_enc j = rj_enc j' /\
  (forall f, In f (rj_pages j) <-> In f (rj_pages j')) /\
  (forall f, In f (rj_uo j) <-> In f (rj_uo j')) /\
  (forall f, In f (rj_attach j) <-> In f (rj_attach j')).

(* ------------------------------------------------------------------ (b) the catalog without a trailer *)
(* og is an entry of the table that holds a catalog, and no entry that holds a catalog has a higher id *)
Definition rsc_is_highest (file : list N) (len : N) (t : rc_table) (og : rc_og) : Prop :=
  (exists off, In (og, off) t /\ rc_is_catalog file len off = true) /\
  (forall og' off', In (og', off') t -> rc_is_catalog file len off' = true ->
                    og' = og \/ rc_og_ltb og' og = true).

Definition rsc_no_catalog (file : list N) (len : N) (t : rc_table) : Prop :=
  forall og off, In (og, off) t -> rc_is_catalog file len off = false.
