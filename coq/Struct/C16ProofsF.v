(* C16: the normaliser model against the content reading - main simulation. *)
From QV Require Import Base.Bytes Lex.TokModel Lex.LexSpec Lex.TokInterp Lex.LexRun Lex.LexProofs Obj.Unparse Obj.UnparseProofs Struct.ContentNorm Struct.ContentSem Struct.C16ProofsA Struct.C16ProofsB Struct.C16ProofsD Struct.C16ProofsE.
Local Open Scope N_scope.

Local Arguments N.eqb : simpl never.
Local Arguments N.leb : simpl never.
Local Arguments N.ltb : simpl never.
Local Arguments rev' : simpl never.
Local Arguments list_eqb : simpl never.
Local Arguments run : simpl never.
Local Arguments span_while : simpl never.
Local Arguments string_unparse : simpl never.
Local Arguments name_normalize : simpl never.

Notation Fii c h d := (mkTk TS_before_token true true TT_bad [] [] TE_none true false 0 0 false 0%Z c h d).

(* ---------------------------------------------------------------- small facts *)
Lemma skip_white_run : forall ws x, forallb iso_white ws = true -> skip_ignorable false (ws ++ x) = skip_ignorable false x.
Proof.
  induction ws as [|w ws IH]; intros x H; [reflexivity|]. cbn [forallb] in H. apply andb_true_iff in H. destruct H as [Hw H].
  cbn [app skip_ignorable]. rewrite Hw. apply IH, H.
Qed.

Lemma skip_comment_body : forall body x, forallb (fun b => negb (iso_eol b)) body = true ->
  skip_ignorable true (body ++ x) = skip_ignorable true x.
Proof.
  induction body as [|w body IH]; intros x H; [reflexivity|]. cbn [forallb] in H. apply andb_true_iff in H. destruct H as [Hw H].
  cbn [app skip_ignorable]. rewrite Hw. apply IH, H.
Qed.

Lemma space_norm_white : forall n ws, (length ws <= n)%nat -> forallb iso_white ws = true -> forallb iso_white (c16_space_norm ws) = true.
Proof.
  induction n as [|n IH]; intros ws Hl H.
  - destruct ws; [reflexivity|cbn in Hl; lia].
  - destruct ws as [|b r]; [reflexivity|]. cbn [forallb] in H. apply andb_true_iff in H. destruct H as [Hb Hr]. cbn [length] in Hl.
    cbn [c16_space_norm]. destruct (b =? 13).
    + destruct r as [|c r']; [reflexivity|]. destruct (c =? 10).
      * apply IH; [lia|exact Hr].
      * cbn [forallb]. change (iso_white 10) with true. cbn [andb]. apply IH; [lia|exact Hr].
    + cbn [forallb]. rewrite Hb. cbn [andb]. apply IH; [lia|exact Hr].
Qed.

Lemma space_norm_head : forall b r, iso_white b = true ->
  exists e E2, c16_space_norm (b :: r) = e :: E2 /\ iso_white e = true /\ (iso_eol b = true -> e = 10).
Proof.
  intros b r Hb. cbn [c16_space_norm]. destruct (b =? 13) eqn:E13.
  - destruct r as [|c r'].
    + exists 10, []. repeat split.
    + destruct (c =? 10) eqn:E10.
      * apply N.eqb_eq in E10. subst c. cbn [c16_space_norm]. change (10 =? 13) with false. cbv iota.
        exists 10, (c16_space_norm r'). repeat split.
      * exists 10, (c16_space_norm (c :: r')). repeat split.
  - exists b, (c16_space_norm r). split; [reflexivity|]. split; [exact Hb|].
    unfold iso_eol. rewrite E13, orb_false_r. intros H. apply N.eqb_eq in H. exact H.
Qed.

Lemma in_token_run x s : In x (token_run s) -> In x s.
Proof.
  unfold token_run. destruct s as [|b r]; [cbn; auto|].
  destruct (b =? 47).
  - destruct (span_while iso_regular r) as [w rest] eqn:E. destruct (span_while_spec _ _ _ _ E) as (-> & _ & _). cbn [fst].
    intros H. right. apply in_or_app. left. exact H.
  - destruct (span_while iso_regular (b :: r)) as [w rest] eqn:E. destruct (span_while_spec _ _ _ _ E) as (Hw & _ & _). cbn [fst].
    intros H. rewrite Hw. apply in_or_app. left. exact H.
Qed.

Lemma not_in_suffix (x : N) pre s : ~ In x (pre ++ s) -> ~ In x s.
Proof. intros H X. apply H, in_or_app. right. exact X. Qed.
Lemma not_in_prefix (x : N) pre s : ~ In x (pre ++ s) -> ~ In x pre.
Proof. intros H X. apply H, in_or_app. left. exact X. Qed.

(* the token handed out after a run *)
Lemma token_of_simple t ty raw : typeof t = ty -> rawof t = rev raw ->
  match ty with TT_name | TT_string => False | _ => True end ->
  tok_type (tk_token t) = ty /\ tok_raw (tk_token t) = raw.
Proof.
  unfold typeof, rawof, tk_token. intros <- Hr. 
  destruct (t_type t); intros Hty; try contradiction; cbn [tok_type tok_raw]; rewrite Hr, rev'_rev, rev_involutive; auto.
Qed.

Definition tok_plain (tok : token) : Prop :=
  tok_is_bad tok = false /\ ttype_eqb (tok_type tok) TT_eof = false /\ c16_is_word_ID tok = false.

Lemma loop_step t s t1 rest toks : tinv t -> run (tk_reset t) s = (t1, rest) -> tok_plain (tk_token t1) ->
  loop_rel (tk_reset t1) rest toks -> loop_rel t s (tk_token t1 :: toks).
Proof.
  intros (A & B & C) Hr (P1 & P2 & P3) Hl. destruct (read_token_run t s C) as (np & last & Hrt).
  rewrite Hr in Hrt. cbn [fst snd] in Hrt. eapply lr_tok; eassumption.
Qed.

(* ---------------------------------------------------------------- white space and comments in front of a token *)
Definition head_cond (s Y : list N) : Prop :=
  match s with
  | [] => Y = []
  | _ :: _ => exists y Y', Y = y :: Y' /\ token_start y
  end.

Lemma ign_loop : forall n c, (length c <= n)%nat -> bytes_ok c -> ~ In 11 c ->
  forall t, tinv t ->
  exists pre toks_pre t',
    c = pre ++ skip_ignorable false c /\ tinv t' /\
    (length toks_pre <= length pre)%nat /\
    Forall tok_plain toks_pre /\
    (forall toksK, loop_rel t' (skip_ignorable false c) toksK -> loop_rel t c (toks_pre ++ toksK)) /\
    (forall Y, head_cond (skip_ignorable false c) Y -> skip_ignorable false (concat (map c16_emit toks_pre) ++ Y) = Y) /\
    (forall e r, c = e :: r -> iso_eol e = true -> exists E2, concat (map c16_emit toks_pre) = 10 :: E2) /\
    (pre <> [] -> exists e E2, concat (map c16_emit toks_pre) = e :: E2 /\ iso_regular e = false).
Proof.
  induction n as [|n IH]; intros c Hl Hb Hvt t Ht.
  { destruct c; [|cbn in Hl; lia]. exists [], [], t. cbn [skip_ignorable app length map concat].
    split; [reflexivity|]. split; [exact Ht|]. split; [lia|]. split; [constructor|]. split; [intros toksK HK; exact HK|].
    split; [intros Y HY; cbn in HY; rewrite HY; reflexivity|]. split; [intros e r H; discriminate|intros H; contradiction]. }
  destruct c as [|b r].
  { exists [], [], t. cbn [skip_ignorable app length map concat].
    split; [reflexivity|]. split; [exact Ht|]. split; [lia|]. split; [constructor|]. split; [intros toksK HK; exact HK|].
    split; [intros Y HY; cbn in HY; rewrite HY; reflexivity|]. split; [intros e r H; discriminate|intros H; contradiction]. }
  cbn [length] in Hl.
  destruct Ht as (Hii & Hae & Hst). pose proof (reset_ii t Hii Hae) as Hreset.
  assert (Hb0 : b < 256) by (inversion Hb; assumption).
  destruct (iso_white b) eqn:Ew.
  - (* a run of white space *)
    destruct (span_while iso_white (b :: r)) as [ws c'] eqn:Esp.
    destruct (span_while_spec _ _ _ _ Esp) as (Hc & Hws & Hhd).
    assert (Hne : exists ws', ws = b :: ws').
    { unfold span_while in Esp. fold (span_while iso_white r) in Esp. rewrite Ew in Esp.
      destruct (span_while iso_white r). injection Esp as <- _. eauto. }
    destruct Hne as (ws' & ->).
    assert (Hbc : bytes_ok c') by (rewrite Hc in Hb; apply bytes_ok_app in Hb; tauto).
    assert (Hvc : ~ In 11 c') by (rewrite Hc in Hvt; eapply not_in_suffix; exact Hvt).
    assert (Hsp : forallb tk_is_space (b :: ws') = true).
    { apply forallb_forall. intros x Hx. rewrite forallb_forall in Hws. destruct (white_props x (Hws x Hx)) as (W & _). exact W. }
    assert (Hstop : stops_space c').
    { destruct c' as [|x c'']; [exact I|]. cbn. rewrite space_agree; [exact Hhd| |].
      - inversion Hbc; assumption.
      - intros ->. apply Hvc. left. reflexivity. }
    cbn [forallb] in Hsp. apply andb_true_iff in Hsp. destruct Hsp as [Hsp1 Hsp2].
    destruct (space_token_run b ws' c' (t_code t) (t_hexch t) (t_digits t) Hsp1 Hsp2 Hstop) as (t1 & Hr1 & Hty & Hraw).
    cbn [app] in Hc. rewrite <- Hc, <- Hreset in Hr1.
    destruct (token_of_simple t1 TT_space (b :: ws') Hty Hraw I) as (T1 & T2).
    assert (Hplain : tok_plain (tk_token t1)).
    { unfold tok_plain, tok_is_bad, c16_is_word_ID. rewrite T1. auto. }
    assert (Ht1 : tinv (tk_reset t1)) by (eapply tinv_reset; [split; [exact Hii|split; [exact Hae|exact Hst]]|exact Hr1]).
    assert (Hlen : (length c' <= n)%nat).
    { assert (length (b :: r) = length ((b :: ws') ++ c')) by (rewrite Hc; reflexivity). rewrite app_length in H. cbn [length] in H. lia. }
    destruct (IH c' Hlen Hbc Hvc (tk_reset t1) Ht1) as (pre & tp & t' & Hpre & Ht' & Hlp & Hpl & Hk & HY & Heol & Hnr).
    assert (Hskip : skip_ignorable false (b :: r) = skip_ignorable false c').
    { rewrite Hc. change (b :: ws' ++ c') with ((b :: ws') ++ c'). apply skip_white_run, Hws. }
    exists ((b :: ws') ++ pre), (tk_token t1 :: tp), t'. rewrite Hskip.
    assert (Hemit : c16_emit (tk_token t1) = c16_space_norm (b :: ws')) by (unfold c16_emit; rewrite T1, T2; reflexivity).
    split; [rewrite <- app_assoc, <- Hpre; exact Hc|]. split; [exact Ht'|].
    split; [rewrite app_length; cbn [length]; lia|]. split; [constructor; assumption|].
    split.
    { intros toksK HK. cbn [app]. eapply loop_step; [split; [exact Hii|split; [exact Hae|exact Hst]]|exact Hr1|exact Hplain|apply Hk, HK]. }
    cbn [map concat]. rewrite Hemit.
    split.
    { intros Y HYc. rewrite <- app_assoc. rewrite skip_white_run; [apply HY, HYc|].
      apply (space_norm_white (length (b :: ws'))); [lia|exact Hws]. }
    split.
    { intros e r0 He Heol'. injection He as <- <-.
      destruct (space_norm_head b ws' Ew) as (e & E2 & Hs & _ & He10). rewrite Hs, (He10 Heol'). eexists. reflexivity. }
    { intros _. destruct (space_norm_head b ws' Ew) as (e & E2 & Hs & Hwe & _). rewrite Hs. exists e. eexists. split; [reflexivity|].
      apply white_not_regular, Hwe. }
  - destruct (b =? 37) eqn:E37.
    + (* a comment *)
      apply N.eqb_eq in E37. subst b.
      destruct (span_while (fun b => negb (iso_eol b)) r) as [body c'] eqn:Esp.
      destruct (span_while_spec _ _ _ _ Esp) as (Hc & Hbody & Hhd).
      assert (Hbc : bytes_ok c').
      { inversion Hb as [|? ? _ Hb2]; subst. apply bytes_ok_app in Hb2. tauto. }
      assert (Hvc : ~ In 11 c').
      { intros X. apply Hvt. right. rewrite Hc. apply in_or_app. right. exact X. }
      assert (Hstop : stops_comment c').
      { destruct c' as [|x c'']; [exact I|]. cbn. cbv beta in Hhd. apply negb_false_iff in Hhd. exact Hhd. }
      destruct (comment_token_run body c' (t_code t) (t_hexch t) (t_digits t) Hbody Hstop) as (t1 & Hr1 & Hty & Hraw).
      rewrite <- Hc, <- Hreset in Hr1.
      destruct (token_of_simple t1 TT_comment (37 :: body) Hty Hraw I) as (T1 & T2).
      assert (Hplain : tok_plain (tk_token t1)).
      { unfold tok_plain, tok_is_bad, c16_is_word_ID. rewrite T1. auto. }
      assert (Ht1 : tinv (tk_reset t1)) by (eapply tinv_reset; [split; [exact Hii|split; [exact Hae|exact Hst]]|exact Hr1]).
      assert (Hlen : (length c' <= n)%nat).
      { assert (length r = length (body ++ c')) by (rewrite Hc; reflexivity). rewrite app_length in H. lia. }
      destruct (IH c' Hlen Hbc Hvc (tk_reset t1) Ht1) as (pre & tp & t' & Hpre & Ht' & Hlp & Hpl & Hk & HY & Heol & Hnr).
      assert (Hskip : skip_ignorable false (37 :: r) = skip_ignorable false c').
      { cbn [skip_ignorable]. change (iso_white 37) with false. change (37 =? 37) with true. cbv iota.
        rewrite Hc, skip_comment_body by exact Hbody.
        destruct c' as [|e c'']; [reflexivity|]. cbn in Hstop. cbn [skip_ignorable]. rewrite Hstop, (eol_white _ Hstop). reflexivity. }
      exists ((37 :: body) ++ pre), (tk_token t1 :: tp), t'. rewrite Hskip.
      assert (Hemit : c16_emit (tk_token t1) = 37 :: body) by (unfold c16_emit; rewrite T1, T2; reflexivity).
      split; [rewrite <- app_assoc, <- Hpre; cbn [app]; rewrite Hc; reflexivity|]. split; [exact Ht'|].
      split; [rewrite app_length; cbn [length]; lia|]. split; [constructor; assumption|].
      split.
      { intros toksK HK. cbn [app]. eapply loop_step; [split; [exact Hii|split; [exact Hae|exact Hst]]|exact Hr1|exact Hplain|apply Hk, HK]. }
      cbn [map concat]. rewrite Hemit.
      split.
      { intros Y HYc. cbn [app skip_ignorable]. change (iso_white 37) with false. change (37 =? 37) with true. cbv iota.
        rewrite <- app_assoc, skip_comment_body by exact Hbody.
        destruct c' as [|e c''].
        - (* the comment runs to the end of the input *)
          destruct pre as [|x pre']; [|destruct (skip_ignorable false []); discriminate].
          destruct tp as [|x tp']; [|cbn in Hlp; lia]. cbn [map concat app]. cbn in HYc. rewrite HYc. reflexivity.
        - cbn in Hstop. destruct (Heol e c'' eq_refl Hstop) as (E2 & HE2). rewrite HE2. cbn [app skip_ignorable].
          change (iso_eol 10) with true. cbn [negb].
          specialize (HY Y HYc). rewrite HE2 in HY. cbn [app skip_ignorable] in HY. change (iso_white 10) with true in HY. exact HY. }
      split.
      { intros e r0 He Heol'. injection He as <- _. discriminate. }
      { intros _. exists 37. eexists. split; [reflexivity|]. reflexivity. }
    + (* a token starts here *)
      exists [], [], t. cbn [skip_ignorable]. rewrite Ew, E37. cbn [app length map concat].
      split; [reflexivity|]. split; [split; [exact Hii|split; [exact Hae|exact Hst]]|]. split; [lia|]. split; [constructor|].
      split; [intros toksK HK; exact HK|].
      split.
      { intros Y (y & Y' & -> & Hy). apply skip_start, Hy. }
      split.
      { intros e r0 He Heol'. injection He as <- _. apply eol_white in Heol'. congruence. }
      { intros H. contradiction. }
Qed.

(* ---------------------------------------------------------------- one token proper and what is written for it *)
Lemma tok_raw_tk t : tok_raw (tk_token t) = rev' (t_raw t).
Proof. unfold tk_token. destruct (t_type t); reflexivity. Qed.

Lemma spec_next_start s : (exists b s', s = b :: s' /\ token_start b) -> spec_next s = spec_token_at s.
Proof. intros (b & s' & -> & Hb). unfold spec_next. rewrite (skip_start _ _ Hb). reflexivity. Qed.

Lemma name_rest_clean s n rest : spec_token_at s = LexTok (PName n) rest -> ends_cleanly rest.
Proof.
  intros H. destruct s as [|b r]; [discriminate|]. cbn [spec_token_at] in H.
  destruct (b =? 40). { destruct (lit_string 0 r) as [[? ?]|]; discriminate. }
  destruct (b =? 60).
  { destruct r as [|c r1]; [discriminate|]. destruct (c =? 60); [discriminate|]. destruct (hex_string (c :: r1)) as [[? ?]|]; discriminate. }
  destruct (b =? 62). { destruct r as [|c r1]; [discriminate|]. destruct (c =? 62); discriminate. }
  destruct (b =? 91); [discriminate|]. destruct (b =? 93); [discriminate|].
  destruct (b =? 123); [discriminate|]. destruct (b =? 125); [discriminate|].
  destruct (b =? 47).
  { destruct (span_while iso_regular r) as [w rest0] eqn:Esp. destruct (name_decode w); [|discriminate]. injection H as _ <-.
    destruct (span_while_spec _ _ _ _ Esp) as (_ & _ & Hh). destruct rest0; [exact I|exact Hh]. }
  destruct (iso_regular b); [|discriminate]. destruct (span_while iso_regular (b :: r)) as [w rest0]. injection H as H _.
  unfold token_of_run in H. destruct (number_of_run w) as [t|] eqn:En.
  - subst t. unfold number_of_run in En.
    destruct (match w with b0 :: r0 => if b0 =? 43 then (false, r0) else if b0 =? 45 then (true, r0) else (false, w) | [] => (false, w) end) as [neg body].
    destruct (split_at_dot body) as [ip [fp|]].
    + destruct (all_digits ip && all_digits fp && (nonempty ip || nonempty fp)); discriminate.
    + destruct (nonempty ip && all_digits ip); discriminate.
  - destruct (list_eqb N.eqb w kw_true); [discriminate|]. destruct (list_eqb N.eqb w kw_false); [discriminate|].
    destruct (list_eqb N.eqb w kw_null); discriminate.
Qed.

Definition nl_or_nil (l : list N) : Prop := l = [] \/ l = [10].

Lemma emit_token t1 tk s p rest :
  bytes_ok s -> spec_token_at s = LexTok tk rest -> s = p ++ rest ->
  (exists b s', s = b :: s' /\ token_start b) ->
  tok_interp (tk_token t1) = Some tk -> rawof t1 = rev p ->
  tok_is_bad (tk_token t1) = false /\ ttype_eqb (tok_type (tk_token t1)) TT_eof = false /\
  (c16_is_word_ID (tk_token t1) = match tk with PKeyword w => list_eqb N.eqb w c16_kw_ID | _ => false end) /\
  (match tk with PKeyword _ => c16_emit (tk_token t1) = p | _ => True end) /\
  (exists y Y', c16_emit (tk_token t1) = y :: Y' /\ token_start y) /\
  (ends_cleanly s -> exists y Y', c16_emit (tk_token t1) = y :: Y' /\ iso_regular y = false) /\
  forall OUT, (ends_cleanly rest -> ends_cleanly OUT) ->
    exists nl, nl_or_nil nl /\ spec_token_at (c16_emit (tk_token t1) ++ OUT) = LexTok tk (nl ++ OUT).
Proof.
  intros Hb Hs Hsp (b0 & s0 & Hs0 & Hstart) Hi Hraw.
  pose proof (token_value_props _ _ _ Hs Hb) as Hval.
  destruct (token_local _ _ _ Hs) as (p' & Hp' & Hendp & Hloc).
  assert (p' = p) by (rewrite Hsp in Hp'; apply app_inv_tail in Hp'; congruence). subst p'.
  assert (Hrawtok : tok_raw (tk_token t1) = p).
  { rewrite tok_raw_tk. unfold rawof in Hraw. rewrite Hraw, rev'_rev, rev_involutive. reflexivity. }
  assert (Hp0 : exists p0, p = b0 :: p0).
  { destruct p as [|x p0]; [exfalso; exact (ends_nonwhite_nil Hendp)|]. rewrite Hs0 in Hsp. injection Hsp as -> _. eauto. }
  destruct Hp0 as (p0 & Hp0).
  (* verbatim tokens *)
  assert (Hverb : c16_emit (tk_token t1) = p ->
                  (exists y Y', c16_emit (tk_token t1) = y :: Y' /\ token_start y) /\
                  (ends_cleanly s -> exists y Y', c16_emit (tk_token t1) = y :: Y' /\ iso_regular y = false) /\
                  forall OUT, (ends_cleanly rest -> ends_cleanly OUT) ->
                    exists nl, nl_or_nil nl /\ spec_token_at (c16_emit (tk_token t1) ++ OUT) = LexTok tk (nl ++ OUT)).
  { intros He. rewrite He. split; [rewrite Hp0; eauto|]. split.
    - intros Hc. rewrite Hs0 in Hc. cbn in Hc. rewrite Hp0. eauto.
    - intros OUT HO. exists []. split; [left; reflexivity|]. apply Hloc, HO. }
  unfold tok_interp in Hi. destruct (negb (terr_is_none (tok_err (tk_token t1)))); [discriminate|].
  unfold tok_is_bad, c16_is_word_ID.
  assert (Hemit : c16_emit (tk_token t1) =
                  match tok_type (tk_token t1) with
                  | TT_space => c16_space_norm p
                  | TT_string => string_unparse false (tok_value (tk_token t1)) ++ (if c16_has_eol p then [10] else [])
                  | TT_name => name_normalize (tok_value (tk_token t1)) ++ (if c16_has_eol p then [10] else [])
                  | _ => p
                  end).
  { unfold c16_emit. rewrite Hrawtok. reflexivity. }
  destruct (tok_type (tk_token t1)) eqn:Ety; try discriminate.
  all: try (injection Hi as <-; cbn [ttype_eqb andb]; split; [reflexivity|]; split; [reflexivity|]; split; [reflexivity|]; split; [exact I|];
            apply Hverb; exact Hemit).
  - (* name *)
    revert Hi. destruct (tok_value (tk_token t1)) as [|sl n] eqn:Ev; intros Hi; [discriminate|]. destruct (sl =? 47) eqn:Esl; [|discriminate].
    injection Hi as <-. apply N.eqb_eq in Esl. subst sl. destruct Hval as [Hbn Hn0].
    cbn [ttype_eqb andb]. split; [reflexivity|]. split; [reflexivity|]. split; [reflexivity|]. split; [exact I|].
    rewrite Hemit, name_normalize_form.
    split; [cbn [app]; exists 47; eexists; split; [reflexivity|split; reflexivity]|].
    split; [intros _; cbn [app]; exists 47; eexists; split; reflexivity|].
    intros OUT HO. pose proof (name_rest_clean _ _ _ Hs) as Hrc.
    destruct (c16_has_eol p).
    + exists [10]. split; [right; reflexivity|]. rewrite <- app_assoc.
      pose proof (name_roundtrip_lemma n ([10] ++ OUT) Hbn Hn0 ltac:(reflexivity)) as Hrt.
      rewrite name_normalize_form in Hrt. rewrite spec_next_start in Hrt; [exact Hrt|]. cbn [app]. exists 47. eexists. split; [reflexivity|split; reflexivity].
    + exists []. split; [left; reflexivity|]. rewrite app_nil_r. cbn [app].
      pose proof (name_roundtrip_lemma n OUT Hbn Hn0 (HO Hrc)) as Hrt.
      rewrite name_normalize_form in Hrt. rewrite spec_next_start in Hrt; [exact Hrt|]. cbn [app]. exists 47. eexists. split; [reflexivity|split; reflexivity].
  - (* real *)
    destruct (real_of_text (tok_value (tk_token t1))) as [m k]. injection Hi as <-.
    cbn [ttype_eqb andb]. split; [reflexivity|]. split; [reflexivity|]. split; [reflexivity|]. split; [exact I|].
    apply Hverb; exact Hemit.
  - (* string *)
    injection Hi as <-. cbn [ttype_eqb andb]. split; [reflexivity|]. split; [reflexivity|]. split; [reflexivity|]. split; [exact I|].
    assert (Hhd : exists y Y', string_unparse false (tok_value (tk_token t1)) = y :: Y' /\ token_start y /\ iso_regular y = false).
    { rewrite string_unparse_form. destruct (false || use_hex_string (tok_value (tk_token t1))).
      - exists 60. eexists. split; [reflexivity|]. split; [split; reflexivity|reflexivity].
      - exists 40. eexists. split; [reflexivity|]. split; [split; reflexivity|reflexivity]. }
    destruct Hhd as (y & Y' & Hy & Hy1 & Hy2). rewrite Hemit.
    split; [rewrite Hy; cbn [app]; eauto|]. split; [intros _; rewrite Hy; cbn [app]; eauto|].
    intros OUT HO. exists (if c16_has_eol p then [10] else []).
    split; [destruct (c16_has_eol p); [right|left]; reflexivity|].
    rewrite <- app_assoc.
    pose proof (string_roundtrip_lemma false _ ((if c16_has_eol p then [10] else []) ++ OUT) Hval) as Hrt.
    rewrite spec_next_start in Hrt; [exact Hrt|]. rewrite Hy. cbn [app]. eauto.
  - (* word *)
    injection Hi as <-. cbn [ttype_eqb andb]. split; [reflexivity|]. split; [reflexivity|]. split; [reflexivity|].
    split; [exact Hemit|]. apply Hverb; exact Hemit.
Qed.

(* ---------------------------------------------------------------- the main simulation *)
(* the hypothesis about inline images: at every ID of the specification's reading, Tokenizer::findEI chooses the
   end of the image data the specification chooses, and the data are not empty *)
Inductive ei_ok : list N -> Prop :=
| eo_end c : c16_step c = CsEnd -> ei_ok c
| eo_tok c x rest : c16_step c = CsStep [x] rest -> ei_ok rest -> ei_ok c
| eo_img c w data rest : c16_step c = CsStep [CsOp w; CsImage data] rest -> data <> [] ->
    c16_find_ei (data ++ 69 :: 73 :: rest) = N.of_nat (length data) -> ei_ok rest -> ei_ok c.

Lemma step_single c x rest : c16_step c = CsStep [x] rest ->
  exists tk, spec_next c = LexTok tk rest /\
    (forall inp' r', spec_next inp' = LexTok tk r' -> c16_step inp' = CsStep [x] r') /\
    match tk with PKeyword w => list_eqb N.eqb w c16_kw_ID = false | _ => True end.
Proof.
  unfold c16_step. destruct (spec_next c) as [|tk rest0|] eqn:Esn; try discriminate.
  destruct tk; try (intros H; injection H as <- <-; eexists; split; [reflexivity|]; split; [intros inp' r' ->; reflexivity|exact I]).
  destruct (list_eqb N.eqb w c16_kw_ID) eqn:Eid.
  - destruct (c16_after_ID rest0) as [[d r]|]; discriminate.
  - intros H; injection H as <- <-. eexists. split; [reflexivity|]. split; [intros inp' r' ->; rewrite Eid; reflexivity|exact Eid].
Qed.

Lemma image_data_shape : forall s pw d rest, c16_image_data pw s = Some (d, rest) -> s = d ++ 69 :: 73 :: rest.
Proof.
  induction s as [|b r IH]; intros pw d rest H; [discriminate|]. cbn [c16_image_data] in H.
  destruct r as [|c r2]; [cbn in H; discriminate|].
  destruct (pw && (b =? 69) && (c =? 73) && c16_ends_token r2) eqn:Eh.
  - cbn [tl] in H. injection H as <- <-.
    apply andb_true_iff in Eh. destruct Eh as [Eh _]. apply andb_true_iff in Eh. destruct Eh as [Eh E3].
    apply andb_true_iff in Eh. destruct Eh as [_ E2]. apply N.eqb_eq in E2, E3. subst. reflexivity.
  - destruct (c16_image_data (iso_white b) (c :: r2)) as [[d0 rest0]|] eqn:Er; [|discriminate]. injection H as <- <-.
    rewrite (IH _ _ _ Er). reflexivity.
Qed.

Lemma step_image c w data rest : c16_step c = CsStep [CsOp w; CsImage data] rest ->
  exists ws, spec_next c = LexTok (PKeyword w) (ws :: data ++ 69 :: 73 :: rest) /\ list_eqb N.eqb w c16_kw_ID = true /\
             iso_white ws = true /\ ends_cleanly rest /\
             forall OUT, ends_cleanly OUT -> c16_image_data true (data ++ 69 :: 73 :: OUT) = Some (data, OUT).
Proof.
  unfold c16_step. destruct (spec_next c) as [|tk rest0|] eqn:Esn; try discriminate.
  destruct tk; try discriminate.
  destruct (list_eqb N.eqb w0 c16_kw_ID) eqn:Eid; [|discriminate].
  destruct (c16_after_ID rest0) as [[d r]|] eqn:Ea; [|discriminate]. intros H. injection H as <- <- <-.
  unfold c16_after_ID in Ea. destruct rest0 as [|ws dd]; [discriminate|]. destruct (iso_white ws) eqn:Ews; [|discriminate].
  pose proof (image_data_shape _ _ _ _ Ea) as Hshape.
  destruct (image_data_local _ _ _ _ Ea) as (p' & Hd & Hc1 & Himg).
  assert (p' = d).
  { rewrite Hshape in Hd. rewrite <- !app_assoc in Hd. cbn [app] in Hd.
    assert (H2 : d ++ [69; 73] ++ r = p' ++ [69; 73] ++ r) by exact Hd.
    rewrite !app_assoc in H2. apply app_inv_tail in H2. apply app_inv_tail in H2. congruence. }
  subst p'. exists ws. rewrite Hshape. split; [reflexivity|]. split; [exact Eid|]. split; [exact Ews|]. split; [exact Hc1|].
  intros OUT HO. specialize (Himg OUT HO). rewrite <- app_assoc in Himg. exact Himg.
Qed.

Lemma ei_token rest : ends_cleanly rest -> spec_token_at (69 :: 73 :: rest) = LexTok (PKeyword [69; 73]) rest.
Proof.
  intros Hc. cbn [spec_token_at].
  change (69 =? 40) with false. change (69 =? 60) with false. change (69 =? 62) with false. change (69 =? 91) with false.
  change (69 =? 93) with false. change (69 =? 123) with false. change (69 =? 125) with false. change (69 =? 47) with false.
  change (iso_regular 69) with true. cbv iota.
  change (69 :: 73 :: rest) with ([69; 73] ++ rest). rewrite span_while_app; [reflexivity|reflexivity|].
  destruct rest; [exact I|exact Hc].
Qed.

Lemma read_token_image t s : t_state t = TS_inline_image ->
  exists np last, read_token 0 true t s 0 = (tk_token (fst (run t s)), false, tk_reset (fst (run t s)), snd (run t s), np, last).
Proof.
  intros Hst. unfold read_token, next_token. rewrite Hst.
  pose proof (nt_loop_run s t 0 0) as H. destruct (nt_loop 0 t s 0 0) as [[[t1 rest'] off] np]. cbn [fst snd] in H. rewrite H. cbn [fst snd].
  eexists. eexists. rewrite andb_false_r. reflexivity.
Qed.

Lemma bytes_ok_cons_inv b l : bytes_ok (b :: l) -> bytes_ok l.
Proof. intros H. inversion H; assumption. Qed.

Lemma space_norm_single ws : iso_white ws = true -> exists ws', c16_space_norm [ws] = [ws'] /\ iso_white ws' = true.
Proof. intros H. cbn [c16_space_norm]. destruct (ws =? 13); [exists 10|exists ws]; auto. Qed.

Lemma token_consumes s tk rest p : spec_token_at s = LexTok tk rest -> s = p ++ rest -> p <> [].
Proof.
  intros Hs Hsp. destruct (token_local _ _ _ Hs) as (p' & Hp' & Hend & _).
  assert (p' = p) by (rewrite Hsp in Hp'; apply app_inv_tail in Hp'; congruence). subst p'. apply ends_nonwhite_nonnil, Hend.
Qed.

Lemma norm_main : forall c, ei_ok c -> bytes_ok c -> ~ In 11 c ->
  forall ts, sem_rel c ts -> forall t, tinv t ->
  exists toks,
    loop_rel t c toks /\ (length toks <= length c + 1)%nat /\ existsb tok_is_bad toks = false /\
    sem_rel (concat (map c16_emit toks)) ts /\
    (ends_cleanly c -> ends_cleanly (concat (map c16_emit toks))).
Proof.
  induction 1 as [c Hstep|c x rest Hstep Hok IH|c w data rest Hstep Hne Hei Hok IH]; intros Hb Hvt ts Hsem t Ht.
  - (* only white space and comments remain *)
    inversion Hsem as [? _|? ? ? ? Hs2 _]; subst; [|rewrite Hstep in Hs2; discriminate].
    assert (Hskip : skip_ignorable false c = []).
    { unfold c16_step, spec_next in Hstep. destruct (skip_ignorable false c) as [|b s]; [reflexivity|].
      exfalso. destruct (spec_token_at (b :: s)) as [|tk r|] eqn:Et; [exact (token_at_not_end _ _ Et)| |discriminate].
      destruct tk; try discriminate. destruct (list_eqb N.eqb w c16_kw_ID); [|discriminate]. destruct (c16_after_ID r) as [[? ?]|]; discriminate. }
    destruct (ign_loop (length c) c (le_n _) Hb Hvt t Ht) as (pre & tp & t' & Hpre & Ht' & Hlp & Hpl & Hk & HY & _ & Hnr).
    rewrite Hskip in *. rewrite app_nil_r in Hpre. subst pre.
    destruct Ht' as (Hii & Hae & Hst). destruct (read_token_run t' [] Hst) as (np & last & Hrt).
    rewrite (reset_ii t' Hii Hae) in Hrt. rewrite run_nil in Hrt. cbn in Hrt.
    change (rev' (@nil N)) with (@nil N) in Hrt. set (eof := mkToken TT_eof [] [] TE_none) in Hrt.
    assert (Hl : loop_rel t' [] [eof]) by (eapply lr_eof; [exact Hrt|reflexivity]).
    exists (tp ++ [eof]). split; [apply Hk, Hl|]. split; [rewrite app_length; cbn; lia|].
    assert (Hnb : existsb tok_is_bad tp = false).
    { clear - Hpl. induction Hpl as [|y l (A & _) _ IHl]; [reflexivity|]. cbn. rewrite A, IHl. reflexivity. }
    split; [rewrite existsb_app, Hnb; reflexivity|].
    rewrite map_app, concat_app. cbn [map concat]. change (c16_emit eof) with (@nil N). rewrite !app_nil_r.
    split.
    + apply sem_end. unfold c16_step, spec_next. specialize (HY [] eq_refl). rewrite app_nil_r in HY. rewrite HY. reflexivity.
    + intros Hc. destruct c as [|b r]; [destruct tp; [exact I|cbn in Hlp; lia]|].
      destruct (Hnr ltac:(discriminate)) as (e & E2 & -> & He). exact He.
  - (* one token *)
    inversion Hsem as [? Hs1|? toks0 rest0 ts0 Hs2 Hsr]; subst; [rewrite Hstep in Hs1; discriminate|].
    rewrite Hstep in Hs2. injection Hs2 as <- <-.
    destruct (step_single _ _ _ Hstep) as (tk & Hsn & Hstepf & Hnid).
    destruct (ign_loop (length c) c (le_n _) Hb Hvt t Ht) as (pre & tp & t' & Hpre & Ht' & Hlp & Hpl & Hk & HY & _ & Hnr).
    unfold spec_next in Hsn. set (s := skip_ignorable false c) in *.
    destruct (token_at_nonempty _ _ _ Hsn) as (b0 & s0 & Hs0).
    assert (Hstart : token_start b0) by (eapply skip_head; exact Hs0).
    assert (Hbs : bytes_ok s) by (rewrite Hpre in Hb; apply bytes_ok_app in Hb; tauto).
    assert (Hvs : ~ In 11 s) by (rewrite Hpre in Hvt; eapply not_in_suffix; exact Hvt).
    destruct Ht' as (Hii & Hae & Hst).
    destruct (token_run_ii s tk rest (t_code t') (t_hexch t') (t_digits t') Hbs Hsn ltac:(intros X; apply Hvs, in_token_run, X))
      as (t1 & p & Hr1 & Hi1 & Hsp & Hraw1).
    rewrite <- (reset_ii t' Hii Hae) in Hr1.
    destruct (emit_token t1 tk s p rest Hbs Hsn Hsp ltac:(eauto) Hi1 Hraw1) as (P1 & P2 & P3 & _ & Phead & Pclean & Pout).
    assert (Hplain : tok_plain (tk_token t1)).
    { split; [exact P1|]. split; [exact P2|]. rewrite P3. destruct tk; try reflexivity. exact Hnid. }
    assert (Ht1 : tinv (tk_reset t1)) by (eapply tinv_reset; [split; [exact Hii|split; [exact Hae|exact Hst]]|exact Hr1]).
    assert (Hbr : bytes_ok rest) by (rewrite Hsp in Hbs; apply bytes_ok_app in Hbs; tauto).
    assert (Hvr : ~ In 11 rest) by (rewrite Hsp in Hvs; eapply not_in_suffix; exact Hvs).
    destruct (IH Hbr Hvr _ Hsr (tk_reset t1) Ht1) as (tr & Hlr & Hlen & Hbad & Hsemr & Hcl).
    exists (tp ++ tk_token t1 :: tr).
    split; [apply Hk; eapply loop_step; [split; [exact Hii|split; [exact Hae|exact Hst]]|exact Hr1|exact Hplain|exact Hlr]|].
    split.
    { rewrite app_length. cbn [length]. rewrite Hpre, Hsp, !app_length.
      assert (length p > 0)%nat by (pose proof (token_consumes _ _ _ _ Hsn Hsp); destruct p; [contradiction|cbn; lia]).
      lia. }
    assert (Hnb : existsb tok_is_bad tp = false).
    { clear - Hpl. induction Hpl as [|y l (A & _) _ IHl]; [reflexivity|]. cbn. rewrite A, IHl. reflexivity. }
    split; [rewrite existsb_app, Hnb; cbn [existsb]; rewrite P1, Hbad; reflexivity|].
    rewrite map_app, concat_app. cbn [map concat].
    set (E := concat (map c16_emit tp)) in *. set (OUT := concat (map c16_emit tr)) in *.
    destruct (Pout OUT Hcl) as (nl & Hnl & Hspec).
    destruct Phead as (y & Y' & Hy & Hystart).
    assert (Hsn' : spec_next (E ++ c16_emit (tk_token t1) ++ OUT) = LexTok tk (nl ++ OUT)).
    { unfold spec_next. rewrite HY; [exact Hspec|]. unfold head_cond. fold s. rewrite Hs0. rewrite Hy. cbn [app]. eauto. }
    split.
    + change [x] with ([x] ++ []). change (x :: ts0) with ([x] ++ ts0). eapply sem_step; [apply Hstepf, Hsn'|].
      destruct Hnl as [->| ->]; [exact Hsemr|]. apply sem_rel_white; [reflexivity|exact Hsemr].
    + intros Hc. destruct pre as [|pb pre'].
      * destruct tp; [|cbn in Hlp; lia]. subst E. cbn [map concat app]. cbn [app] in Hpre. rewrite <- Hpre in Pclean.
        destruct (Pclean Hc) as (y2 & Y2 & -> & Hy2). exact Hy2.
      * destruct (Hnr ltac:(discriminate)) as (e & E2 & -> & He). exact He.
  - (* an inline image *)
    inversion Hsem as [? Hs1|? toks0 rest0 ts0 Hs2 Hsr]; subst; [rewrite Hstep in Hs1; discriminate|].
    rewrite Hstep in Hs2. injection Hs2 as <- <-.
    destruct (step_image _ _ _ _ Hstep) as (ws & Hsn & Hid & Hws & Hcr & Himg).
    destruct (ign_loop (length c) c (le_n _) Hb Hvt t Ht) as (pre & tp & t' & Hpre & Ht' & Hlp & Hpl & Hk & HY & _ & Hnr).
    unfold spec_next in Hsn. set (s := skip_ignorable false c) in *.
    set (rest0 := ws :: data ++ 69 :: 73 :: rest) in *.
    destruct (token_at_nonempty _ _ _ Hsn) as (b0 & s0 & Hs0).
    assert (Hstart : token_start b0) by (eapply skip_head; exact Hs0).
    assert (Hbs : bytes_ok s) by (rewrite Hpre in Hb; apply bytes_ok_app in Hb; tauto).
    assert (Hvs : ~ In 11 s) by (rewrite Hpre in Hvt; eapply not_in_suffix; exact Hvt).
    destruct Ht' as (Hii & Hae & Hst).
    destruct (token_run_ii s _ rest0 (t_code t') (t_hexch t') (t_digits t') Hbs Hsn ltac:(intros X; apply Hvs, in_token_run, X))
      as (t1 & p & Hr1 & Hi1 & Hsp & Hraw1).
    rewrite <- (reset_ii t' Hii Hae) in Hr1.
    destruct (emit_token t1 _ s p rest0 Hbs Hsn Hsp ltac:(eauto) Hi1 Hraw1) as (P1 & P2 & P3 & Pemit & Phead & Pclean & Pout).
    rewrite Hid in P3.
    assert (Ht1 : tinv (tk_reset t1)) by (eapply tinv_reset; [split; [exact Hii|split; [exact Hae|exact Hst]]|exact Hr1]).
    assert (Hbr0 : bytes_ok rest0) by (rewrite Hsp in Hbs; apply bytes_ok_app in Hbs; tauto).
    assert (Hvr0 : ~ In 11 rest0) by (rewrite Hsp in Hvs; eapply not_in_suffix; exact Hvs).
    (* the tokenizer in inline-image mode *)
    set (d := data ++ 69 :: 73 :: rest) in *.
    set (tI := c16_expect_inline_image (tk_reset t1) d).
    assert (HtI : t_state tI = TS_inline_image /\ t_in_token tI = true /\ t_before tI = false /\ t_iib tI = N.of_nat (length data) /\
                  t_raw tI = [] /\ t_incl_ign tI = true /\ t_allow_eof tI = true).
    { destruct Ht1 as (A & B & _). unfold tI, c16_expect_inline_image. change (is_ready (tk_reset t1)) with false. cbv iota.
      unfold d at 1. rewrite Hei. cbn in A, B |- *. repeat split; assumption. }
    destruct HtI as (I1 & I2 & I3 & I4 & I5 & I6 & I7).
    destruct (image_run data tI (69 :: 73 :: rest) Hne I1 I2 I3 ltac:(unfold raw_len; rewrite I4, I5; cbn; lia)) as (t2 & Hr2 & Hty2 & Hraw2).
    fold d in Hr2. rewrite I5, app_nil_r in Hraw2.
    destruct (token_of_simple t2 TT_inline_image data Hty2 Hraw2 I) as (T1 & T2).
    destruct (read_token_image tI d I1) as (np2 & last2 & Hrt2). rewrite Hr2 in Hrt2. cbn [fst snd] in Hrt2.
    destruct (run_facts _ _ _ _ Hr2) as (F1 & F2 & _).
    assert (Ht2 : tinv (tk_reset t2)).
    { unfold tinv, tk_reset. cbn. rewrite F1, F2, I6, I7. repeat split; discriminate. }
    (* the EI operator *)
    assert (Hbd : bytes_ok d) by (eapply bytes_ok_cons_inv; exact Hbr0).
    assert (Hbe : bytes_ok (69 :: 73 :: rest)) by (unfold d in Hbd; apply bytes_ok_app in Hbd; tauto).
    assert (Hve : ~ In 11 (69 :: 73 :: rest)).
    { intros X. apply Hvr0. right. unfold d. apply in_or_app. right. exact X. }
    destruct Ht2 as (Hii2 & Hae2 & Hst2).
    destruct (token_run_ii (69 :: 73 :: rest) _ rest (t_code (tk_reset t2)) (t_hexch (tk_reset t2)) (t_digits (tk_reset t2)) Hbe (ei_token rest Hcr)
                ltac:(intros X; apply Hve, in_token_run, X)) as (t3 & p3 & Hr3 & Hi3 & Hsp3 & Hraw3).
    rewrite <- (reset_ii (tk_reset t2) Hii2 Hae2) in Hr3.
    destruct (emit_token t3 _ (69 :: 73 :: rest) p3 rest Hbe (ei_token rest Hcr) Hsp3 ltac:(exists 69; eexists; split; [reflexivity|split; reflexivity]) Hi3 Hraw3)
      as (Q1 & Q2 & Q3 & Qemit & _ & _ & _).
    assert (Hp3 : p3 = [69; 73]).
    { change (69 :: 73 :: rest) with ([69; 73] ++ rest) in Hsp3. apply app_inv_tail in Hsp3. congruence. }
    rewrite Hp3 in Qemit. cbn in Q3.
    assert (Ht3 : tinv (tk_reset t3)) by (eapply tinv_reset; [split; [exact Hii2|split; [exact Hae2|exact Hst2]]|exact Hr3]).
    assert (Hbr : bytes_ok rest) by (do 2 apply bytes_ok_cons_inv in Hbe; exact Hbe).
    assert (Hvr : ~ In 11 rest) by (intros X; apply Hve; right; right; exact X).
    destruct (IH Hbr Hvr _ Hsr (tk_reset t3) Ht3) as (tr & Hlr & Hlen & Hbad & Hsemr & Hcl).
    set (Tid := tk_token t1) in *. set (Timg := tk_token t2) in *. set (Tei := tk_token t3) in *.
    exists (tp ++ Tid :: c16_space_token ws :: Timg :: Tei :: tr).
    assert (Hloop : loop_rel t' s (Tid :: c16_space_token ws :: Timg :: Tei :: tr)).
    { destruct (read_token_run t' s Hst) as (np & last & Hrt). rewrite Hr1 in Hrt. cbn [fst snd] in Hrt.
      change (c16_space_token ws) with (c16_space_token (hd 32 rest0)).
      eapply lr_id; [exact Hrt|exact P2|exact P3|]. change (tl rest0) with d. fold tI.
      eapply lr_tok; [exact Hrt2| | |].
      - rewrite T1. reflexivity.
      - unfold c16_is_word_ID. rewrite T1. reflexivity.
      - eapply loop_step; [split; [exact Hii2|split; [exact Hae2|exact Hst2]]|exact Hr3| |exact Hlr].
        split; [exact Q1|]. split; [exact Q2|]. change (c16_is_word_ID Tei = false). rewrite Q3. reflexivity. }
    split; [apply Hk, Hloop|].
    split.
    { rewrite app_length. cbn [length]. rewrite Hpre, Hsp, !app_length. unfold rest0, d. cbn [length]. rewrite app_length. cbn [length].
      assert (length p > 0)%nat by (pose proof (token_consumes _ _ _ _ Hsn Hsp); destruct p; [contradiction|cbn; lia]).
      assert (length data > 0)%nat by (destruct data; [contradiction|cbn; lia]). lia. }
    assert (Hnb : existsb tok_is_bad tp = false).
    { clear - Hpl. induction Hpl as [|y l (A & _) _ IHl]; [reflexivity|]. cbn. rewrite A, IHl. reflexivity. }
    split.
    { rewrite existsb_app, Hnb. cbn [existsb]. rewrite P1, Q1, Hbad. unfold tok_is_bad at 2. rewrite T1. reflexivity. }
    rewrite map_app, concat_app. cbn [map concat].
    set (E := concat (map c16_emit tp)) in *. set (OUT := concat (map c16_emit tr)) in *.
    assert (E1 : c16_emit Tid = p) by exact Pemit.
    assert (E3 : c16_emit Timg = data) by (unfold c16_emit; rewrite T1, T2; reflexivity).
    assert (E4 : c16_emit Tei = [69; 73]) by exact Qemit.
    destruct (space_norm_single ws Hws) as (ws' & E2 & Hws').
    change (c16_emit (c16_space_token ws)) with (c16_space_norm [ws]). rewrite E1, E2, E3, E4.
    destruct Phead as (y & Y' & Hy & Hystart). rewrite E1 in Hy.
    destruct (token_local _ _ _ Hsn) as (p' & Hp' & _ & Hloc).
    assert (p' = p) by (rewrite Hsp in Hp'; apply app_inv_tail in Hp'; congruence). subst p'.
    set (Z := [ws'] ++ data ++ [69; 73] ++ OUT).
    assert (Hsn' : spec_next (E ++ p ++ Z) = LexTok (PKeyword w) Z).
    { unfold spec_next. rewrite HY.
      - apply Hloc. intros _. unfold Z. cbn. apply white_not_regular, Hws'.
      - unfold head_cond. fold s. rewrite Hs0, Hy. cbn [app]. eauto. }
    split.
    + change (CsOp w :: CsImage data :: ts0) with ([CsOp w; CsImage data] ++ ts0).
      eapply sem_step; [|exact Hsemr]. unfold c16_step. rewrite Hsn', Hid. unfold Z. cbn [app c16_after_ID]. rewrite Hws'.
      rewrite (Himg OUT (Hcl Hcr)). reflexivity.
    + intros Hc. destruct pre as [|pb pre'].
      * destruct tp; [|cbn in Hlp; lia]. subst E. cbn [map concat app]. cbn [app] in Hpre. rewrite <- Hpre in Pclean.
        destruct (Pclean Hc) as (y2 & Y2 & Hy2 & Hy3). rewrite E1 in Hy2. rewrite Hy2. exact Hy3.
      * destruct (Hnr ltac:(discriminate)) as (e & E2' & -> & He). exact He.
Qed.
