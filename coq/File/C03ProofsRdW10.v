(* C03 - rd_reads_writer_output: helper facts about the trailer entries, the known references, the fold of the view. *)
From QV Require Import Base.Bytes Lex.TokModel Lex.LexSpec Lex.TokInterp Lex.LexRun Lex.LexProofs
     Obj.Unparse Obj.UnparseProofs Obj.SynSpec Obj.SynMachine Obj.ParseModel Obj.ParseProofs Obj.ParseSim
     Obj.Queue Obj.C01QueueProofs File.WriterArith Obj.WriterModel Obj.WmPrinters File.C02Proofs Obj.C01WriterProofs Obj.C01FileProofs
     File.XrefModel File.RdModel File.C03ProofsRd File.C03ProofsRdW File.C03ProofsRdW2 File.C03ProofsRdW3 File.C03ProofsRdW4
     File.C03ProofsRdW5 File.C03ProofsRdP File.C03ProofsRdX File.C03ProofsRdT File.C03ProofsRdTr File.C03ProofsRdW6 File.C03ProofsRdW7
     File.C03ProofsRdW8 File.C03ProofsRdW9.
From Coq Require Import Lia.
Local Open Scope N_scope.

Lemma rw_sy_in : forall objs ren l k v, In (k, v) l -> is_null_val objs v = false ->
  In (k, rd_sy objs ren v) (rw_sy_entries objs ren l).
Proof.
  intros objs ren l k v Hin Hn. unfold rw_sy_entries. apply in_flat_map. exists (k, v). split; [exact Hin|].
  rewrite Hn. left. reflexivity.
Qed.
Lemma rw_sy_keys : forall objs ren l k sv, In (k, sv) (rw_sy_entries objs ren l) -> In k (map fst l).
Proof.
  intros objs ren l k sv H. unfold rw_sy_entries in H. apply in_flat_map in H. destruct H as ([k' v'] & Hin & H).
  destruct (is_null_val objs v'); [destruct H|]. destruct H as [E|[]]. injection E as -> _.
  apply in_map_iff. exists (k, v'). split; [reflexivity | exact Hin].
Qed.

Lemma rw_tr_keys : forall d, map fst (rw_tr_entries d) = map fst (d_trailer d).
Proof.
  intros d. unfold rw_tr_entries. rewrite map_map. apply map_ext. intros kv. destruct (beqb (fst kv) k_Size); reflexivity.
Qed.
Lemma rw_tr_other : forall d k v, In (k, v) (d_trailer d) -> beqb k k_Size = false -> In (k, v) (rw_tr_entries d).
Proof.
  intros d k v Hin Hk. unfold rw_tr_entries. apply in_map_iff. exists (k, v). cbn [fst]. rewrite Hk. split; [reflexivity | exact Hin].
Qed.
Lemma rw_tr_size : forall d z, In (k_Size, OInt z) (d_trailer d) -> In (k_Size, OInt (Z.of_N (w_n d + 1))) (rw_tr_entries d).
Proof.
  intros d z Hin. unfold rw_tr_entries. apply in_map_iff. exists (k_Size, OInt z). cbn [fst].
  change (beqb k_Size k_Size) with true. split; [reflexivity | exact Hin].
Qed.

Lemma rw_known_tbl : forall e k, rde_pre e = [] -> rd_lookup (rde_tbl e) k 0 <> None -> rd_known e (Z.of_N k) 0 = true.
Proof.
  intros e k Hp Hl. unfold rd_known. assert (E : ((Z.of_N k <? 0) || (0 <? 0))%Z = false) by (apply orb_false_iff; split; [apply Z.ltb_ge; lia | reflexivity]).
  rewrite E, Hp. cbn [rd_pre_get]. rewrite N2Z.id. change (Z.to_N 0) with 0.
  destruct (rd_lookup (rde_tbl e) k 0); [reflexivity | contradiction].
Qed.

Lemma rw_fold_items : forall (A : Type) (step : list rd_item * list rd_w -> A -> list rd_item * list rd_w)
    (f : A -> rd_item) (g : A -> list rd_w) l a w,
  (forall acc x, In x l -> step acc x = (f x :: fst acc, snd acc ++ g x)) ->
  fold_left step l (a, w) = (rev (map f l) ++ a, w ++ concat (map g l)).
Proof.
  intros A step f g. induction l as [|x t IH]; intros a w H.
  - cbn. rewrite app_nil_r. reflexivity.
  - cbn [fold_left map rev concat]. rewrite (H (a, w) x (or_introl eq_refl)). cbn [fst snd].
    rewrite IH; [|intros acc y Hy; apply H; right; exact Hy]. rewrite <- !app_assoc. reflexivity.
Qed.

Lemma rw_concat_nil : forall (A B : Type) (g : A -> list B) l, (forall x, In x l -> g x = []) -> concat (map g l) = [].
Proof.
  intros A B g. induction l as [|x t IH]; intros H; [reflexivity|].
  cbn [map concat]. rewrite (H x (or_introl eq_refl)), IH; [reflexivity | intros y Hy; apply H; right; exact Hy].
Qed.

(* the catalog of the document: what Objects::parse checks after the table is read *)
Definition rw_k_Type : list N := [84; 121; 112; 101].
Definition rw_k_Catalog : list N := [67; 97; 116; 97; 108; 111; 103].
Definition rw_k_Pages : list N := [80; 97; 103; 101; 115].
Definition rw_k_Encrypt : list N := [69; 110; 99; 114; 121; 112; 116].
Definition rw_catalog_ok (d : doc) : Prop :=
  exists r i cd p ip pd,
    find (fun kv => beqb (fst kv) k_Root) (d_trailer d) = Some (k_Root, ORef r) /\ is_null_val (d_objects d) (ORef r) = false /\
    find_obj (d_objects d) r = Some i /\ i_stream i = None /\ i_val i = ODict cd /\
    In (rw_k_Type, OName rw_k_Catalog) cd /\
    In (rw_k_Pages, ORef p) cd /\ is_null_val (d_objects d) (ORef p) = false /\
    find_obj (d_objects d) p = Some ip /\ i_stream ip = None /\ i_val ip = ODict pd.
