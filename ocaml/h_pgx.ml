(* handlers: C13 extension.  pgxrun runs a concrete history on the extracted model (same operations as
   "pgrun" of h_pages.ml) and prints, after every step, the leaves of both raw trees as the extracted
   specification function pgx_doc_leaves sees them, and at the end what write + re-read shows according to the
   model (pgx_reread).  pgxleaves evaluates the specification function on a dump printed by the C++ driver.
   I/O only. *)
open Qvmodel
open Runner

let mk_str (m : z option) : string = match m with Some z -> string_of_int (int_of_z z) | None -> "?"

let leaves_str (p : pg_doc) : string =
  match pgx_doc_leaves p with
  | None -> "x"
  | Some l -> String.concat "" (List.map (fun m -> mk_str m ^ ",") l)

(* which theorem's hypothesis the document state satisfies: 1 = pgx_flat_chk (pages_refine_list), n = pgn_wf_chk
   (first_flatten_nested: a well-formed nested tree as read), 0 = neither *)
let dom (p : pg_doc) : string = if pgx_flat_chk p then "1" else if pgn_wf_chk p then "n" else "0"

let reread_str (p : pg_doc) : string =
  match pgx_reread p with
  | None -> "E"
  | Some (c, l) -> string_of_int (int_of_z c) ^ ":" ^ String.concat "" (List.map (fun m -> mk_str m ^ ",") l)

let () =
  register "pgxrun" (fun args -> match args with
    | flags :: na :: nb :: rest ->
      let obsl = if String.contains flags '2' then 2 else if String.contains flags '1' then 1 else 0 in
      (match Hashtbl.find_opt H_pages.templates na, Hashtbl.find_opt H_pages.templates nb with
       | Some a, Some bdoc ->
         let w = ref (a, bdoc) in
         let out = Buffer.create 1024 in
         let obs () =
           if obsl >= 1 then begin ignore (H_pages.pagelist w false); ignore (H_pages.pagelist w true) end;
           if obsl >= 2 then begin ignore (H_pages.findall w false); ignore (H_pages.findall w true) end;
           Buffer.add_string out ("L=" ^ leaves_str (fst !w) ^ "/" ^ leaves_str (snd !w) ^
                                  " F=" ^ dom (fst !w) ^ dom (snd !w) ^ "|") in
         obs ();
         let opstr = match rest with o :: _ -> o | [] -> "" in
         if opstr <> "-" && opstr <> "" then
           List.iter (fun o ->
             if o <> "" then begin
               let f = Array.of_list (String.split_on_char ',' o) in
               (try let (w', _) = H_pages.do_op !w f in w := w' with Invalid_argument _ -> ());
               obs ()
             end) (String.split_on_char ';' opstr);
         (* the driver calls getAllPages / findPage of both documents before it writes *)
         ignore (H_pages.pagelist w false); ignore (H_pages.pagelist w true);
         ignore (H_pages.findall w false); ignore (H_pages.findall w true);
         Buffer.add_string out ("W=" ^ reread_str (fst !w) ^ "/" ^ reread_str (snd !w));
         Buffer.contents out
       | _ -> "?no-template")
    | _ -> "?args");
  register "pgxflat" (fun args -> match args with
    | [name] -> (match Hashtbl.find_opt H_pages.templates name with Some p -> dom p | None -> "?no-template")
    | _ -> "?args");
  register "pgxleaves" (fun args -> match args with
    | [dump] -> leaves_str (H_pages.doc_of_text (unhex dump))
    | _ -> "?args")
